#!/bin/sh
# offline setup: nothing to compile for the Verus route (python3 + verus on PATH); warm Verus once.
set -e
cd "$(dirname "$0")"
mkdir -p .cache/warm evidence/replay
printf 'use vstd::prelude::*;\nverus!{ proof fn warm() ensures true {} }\nfn main(){}\n' > .cache/warm/warm.rs
(cd .cache/warm && verus warm.rs >/dev/null 2>&1) || true
echo setup ok
