// witness for C02 / `impl Ord for Address`: a domain name whose bytes equal the octets of an IP address compared Equal to that
// socket address, so the two targets shared one entry of the client's UDP binding table (keyed by (sender, target) for VMess)
use std::cmp::Ordering;
use std::collections::BTreeMap;
use std::net::SocketAddr;

use octo_squirrel::protocol::address::Address;

#[test]
fn domain_and_socket_address_never_collide() {
    let d = Address::Domain("\u{1}\u{2}\u{3}\u{4}".to_string(), 53);
    let s = Address::Socket("1.2.3.4:53".parse().unwrap());
    assert_ne!(d, s);
    assert_ne!(d.cmp(&s), Ordering::Equal, "Domain vs Socket");
    assert_ne!(s.cmp(&d), Ordering::Equal, "Socket vs Domain");
    assert_eq!(d.cmp(&s), s.cmp(&d).reverse());
    // the shape of the client's vmess udp binding table
    let sender: SocketAddr = "127.0.0.1:4000".parse().unwrap();
    let mut bindings = BTreeMap::new();
    bindings.insert((sender, s.clone()), "stream opened for 1.2.3.4:53");
    assert!(bindings.get(&(sender, d)).is_none(), "a datagram for the domain target found the binding of 1.2.3.4:53");
}
