use octo_squirrel::protocol::vmess::aead::encrypt;
use tokio_util::bytes::Bytes;
use tokio_util::bytes::BytesMut;

fn no_panic<F: FnOnce() -> String + std::panic::UnwindSafe>(f: F) -> Result<String, String> {
    std::panic::catch_unwind(f).map_err(|e| e.downcast_ref::<String>().cloned().or(e.downcast_ref::<&str>().map(|s| s.to_string())).unwrap_or_default())
}

/// F34: every proper prefix of a sealed request header must be waited for (Ok(None)), the whole header opens
#[test]
fn f34_header_prefixes_wait() {
    let key = [9u8; 16];
    let header: Vec<u8> = (0..60u8).collect();
    let wire = encrypt::seal_header(&key, Bytes::from(header.clone())).unwrap();
    for n in 0..wire.len() {
        let part = wire[..n].to_vec();
        let r = no_panic(move || {
            let mut src = BytesMut::from(&part[..]);
            let r = encrypt::open_header(&key, &mut src).map(|o| o.is_some()).map_err(|e| e.to_string());
            format!("{:?} left={}", r, src.len())
        });
        assert_eq!(r, Ok(format!("Ok(false) left={}", n)), "prefix of {} of {} bytes", n, wire.len());
    }
    let mut src = BytesMut::from(&wire[..]);
    src.extend_from_slice(b"tail");
    assert_eq!(encrypt::open_header(&key, &mut src).unwrap(), Some(header));
    assert_eq!(&src[..], b"tail");
}
