use octo_squirrel::protocol::address::Address;
use octo_squirrel::protocol::vmess::address;
use tokio_util::bytes::Bytes;
use tokio_util::bytes::BytesMut;

fn no_panic<F: FnOnce() -> String + std::panic::UnwindSafe>(f: F) -> Result<String, String> {
    std::panic::catch_unwind(f).map_err(|e| e.downcast_ref::<String>().cloned().or(e.downcast_ref::<&str>().map(|s| s.to_string())).unwrap_or_default())
}

/// F11: the address inside an (authenticated) VMess request header may be truncated or carry an unknown type
#[test]
fn f11_malformed_header_address_is_an_error() {
    let inputs: Vec<Vec<u8>> = vec![vec![], vec![0], vec![0, 80], vec![0, 80, 9], vec![0, 80, 1, 1, 2], vec![0, 80, 2], vec![0, 80, 2, 5, b'a'], vec![0, 80, 3, 1, 2, 3]];
    for i in inputs {
        let j = i.clone();
        let r = no_panic(move || format!("{:?}", address::read_address_port(&mut Bytes::from(j)).map_err(|e| e.to_string())));
        assert!(matches!(&r, Ok(s) if s.starts_with("Err")), "input {:?} gave {:?}", i, r);
    }
}

/// F24: an address that cannot be represented is refused, not truncated, and never panics
#[test]
fn f24_unrepresentable_host_is_refused() {
    for host in ["".to_string(), "a".repeat(256), "b".repeat(300)] {
        let h = host.clone();
        let r = no_panic(move || {
            let mut buf = BytesMut::new();
            format!("{:?}", address::write_address_port(&Address::Domain(h, 443), &mut buf).map_err(|e| e.to_string()))
        });
        assert!(matches!(&r, Ok(s) if s.starts_with("Err")), "host of {} bytes gave {:?}", host.len(), r);
    }
}
