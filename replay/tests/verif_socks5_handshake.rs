//! C07 / C13: a local application that opens a SOCKS5 handshake and closes early must get an error, never a panic
//! (integration test for octo-squirrel/tests/; fails before /repo commit "fix: socks5 handshake reports an early close ..", passes after)
use octo_squirrel::protocol::socks5::Socks5CommandStatus;
use octo_squirrel::protocol::socks5::handshake;
use octo_squirrel::protocol::socks5::message::Socks5CommandResponse;
use tokio::io::AsyncWriteExt;
use tokio::net::TcpListener;
use tokio::net::TcpStream;

async fn serve_one(first_bytes: &'static [u8]) -> Result<Result<(), String>, tokio::task::JoinError> {
    let listener = TcpListener::bind("127.0.0.1:0").await.unwrap();
    let addr = listener.local_addr().unwrap();
    let server = tokio::spawn(async move {
        let (mut stream, _) = listener.accept().await.unwrap();
        let response = Socks5CommandResponse::new(Socks5CommandStatus::Success, addr.into());
        handshake::server::no_auth(&mut stream, response).await.map(|_| ()).map_err(|e| e.to_string())
    });
    let mut client = TcpStream::connect(addr).await.unwrap();
    client.write_all(first_bytes).await.unwrap();
    drop(client);
    server.await
}

#[tokio::test]
async fn early_close_before_the_greeting_is_an_error_not_a_panic() {
    let r = serve_one(&[]).await;
    assert!(matches!(r, Ok(Err(_))), "{:?}", r);
}

#[tokio::test]
async fn early_close_after_the_greeting_is_an_error_not_a_panic() {
    // VER 5, one method: NO AUTH; then the application goes away before sending its command
    let r = serve_one(&[5, 1, 0]).await;
    assert!(matches!(r, Ok(Err(_))), "{:?}", r);
}
