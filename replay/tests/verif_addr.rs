use octo_squirrel::protocol::socks5::address;
use tokio_util::bytes::BytesMut;

fn try_decode(bytes: &[u8]) -> Result<String, String> {
    let b = bytes.to_vec();
    std::panic::catch_unwind(move || {
        let mut src = BytesMut::from(&b[..]);
        format!("{:?}", address::decode(&mut src))
    })
    .map_err(|e| e.downcast_ref::<String>().cloned().or(e.downcast_ref::<&str>().map(|s| s.to_string())).unwrap_or_default())
}

#[test]
fn short_inputs_do_not_panic() {
    let inputs: Vec<Vec<u8>> = vec![vec![], vec![1], vec![1, 2, 3], vec![3], vec![3, 5, b'a'], vec![3, 1, b'a', 0], vec![4, 0, 0], vec![1, 1, 1, 1, 1, 0]];
    for i in inputs {
        let r = try_decode(&i);
        assert!(r.is_ok(), "input {:?} panicked: {:?}", i, r);
    }
}

#[test]
fn non_utf8_name_is_refused() {
    let r = try_decode(&[3, 2, 0xff, 0xfe, 0, 80]).unwrap();
    assert!(r.starts_with("Err"), "non-UTF-8 host produced {}", r);
}
