use octo_squirrel::codec::vmess::aead::AEADBodyCodec;
use octo_squirrel::protocol::address::Address;
use octo_squirrel::protocol::vmess::VERSION;
use octo_squirrel::protocol::vmess::header::*;
use octo_squirrel::protocol::vmess::session::ClientSession;
use octo_squirrel::protocol::vmess::session::ServerSession;
use tokio_util::bytes::BytesMut;

fn no_panic<F: FnOnce() -> String + std::panic::UnwindSafe>(f: F) -> Result<String, String> {
    std::panic::catch_unwind(f).map_err(|e| e.downcast_ref::<String>().cloned().or(e.downcast_ref::<&str>().map(|s| s.to_string())).unwrap_or_default())
}

fn header(command: RequestCommand, mask: u8, security: SecurityType) -> RequestHeader {
    RequestHeader { version: VERSION, command, option: RequestOption::from_mask(mask), security, address: Address::Domain("localhost".to_owned(), 80), id: [7; 16] }
}

const S: u8 = RequestOption::ChunkStream as u8;
const M: u8 = RequestOption::ChunkMasking as u8;
const P: u8 = RequestOption::GlobalPadding as u8;
const A: u8 = RequestOption::AuthenticatedLength as u8;

/// F12: a body chunk whose announced length is smaller than padding + tag (plain length field, Shake padding) must be an error
#[test]
fn f12_short_chunk_length_is_an_error_not_a_panic() {
    let mut panics = 0;
    for seed in 0..32u8 {
        let r = no_panic(move || {
            let h = header(RequestCommand::TCP, S | P, SecurityType::Aes128Gcm);
            let mut cs = ClientSession::new();
            cs.request_body_iv = [seed; 16];
            let mut ss: ServerSession = cs.clone().into();
            let mut dec = AEADBodyCodec::new_decoder(&h, &mut ss).unwrap();
            // length field 0, then nothing
            let mut src = BytesMut::from(&[0u8, 0u8][..]);
            format!("{:?}", dec.decode_payload(&mut src, &mut ss).map(|o| o.is_some()))
        });
        if r.is_err() { panics += 1; }
    }
    assert_eq!(panics, 0, "{} of 32 sessions panicked on a zero length field", panics);
}

/// F13: a datagram frame split across reads must wait (Ok(None)) and then be delivered, for every cut
#[test]
fn f13_partial_datagram_frame_waits() {
    for mask in [S, S | M, S | P, S | M | P, S | A, S | P | A, S | M | P | A] {
        let h = header(RequestCommand::UDP, mask, SecurityType::Chacha20Poly1305);
        let mut cs = ClientSession::new();
        let mut ss: ServerSession = cs.clone().into();
        let mut enc = AEADBodyCodec::new_encoder(&h, &mut cs).unwrap();
        let msg: Vec<u8> = (0..300u32).map(|i| i as u8).collect();
        let mut wire = BytesMut::new();
        enc.encode_packet(BytesMut::from(&msg[..]), &mut wire, &mut cs).unwrap();
        let cut = wire.len() / 2;
        let wire2 = wire.clone();
        let r = no_panic(move || {
            let mut dec = AEADBodyCodec::new_decoder(&h, &mut ss).unwrap();
            let mut src = BytesMut::from(&wire2[..cut]);
            let first = match dec.decode_packet(&mut src, &mut ss) { Ok(f) => f, Err(_) => return "error on half a frame".to_string() };
            if first.is_some() { return "delivered from half a frame".to_string(); }
            src.extend_from_slice(&wire2[cut..]);
            match dec.decode_packet(&mut src, &mut ss) {
                Ok(Some(b)) => format!("{}", b.to_vec() == (0..300u32).map(|i| i as u8).collect::<Vec<u8>>()),
                Ok(None) => "not delivered".to_string(),
                Err(_) => "error on the completed frame".to_string(),
            }
        });
        assert_eq!(r, Ok("true".to_string()), "mask {:#x}", mask);
    }
}

/// F14: a datagram is carried whole or not at all
#[test]
fn f14_oversized_datagram_is_not_truncated() {
    let h = header(RequestCommand::UDP, S | M | P | A, SecurityType::Aes128Gcm);
    let mut cs = ClientSession::new();
    let mut ss: ServerSession = cs.clone().into();
    let mut enc = AEADBodyCodec::new_encoder(&h, &mut cs).unwrap();
    let mut dec = AEADBodyCodec::new_decoder(&h, &mut ss).unwrap();
    let msg = vec![0x5au8; 3000];
    let mut wire = BytesMut::new();
    let e = enc.encode_packet(BytesMut::from(&msg[..]), &mut wire, &mut cs);
    if e.is_ok() && !wire.is_empty() {
        let got = dec.decode_packet(&mut wire, &mut ss).unwrap().unwrap();
        assert_eq!(got.len(), msg.len(), "datagram of {} bytes was delivered as {} bytes", msg.len(), got.len());
    }
}
