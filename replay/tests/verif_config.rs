use octo_squirrel::config::Mode;
use octo_squirrel::protocol::shadowsocks::aead_2022::password_to_keys;

/// F21: README: tcp_and_quic opens TCP and QUIC
#[test]
fn f21_mode_table_matches_readme() {
    let rows = [(Mode::Tcp, (true, false, false)), (Mode::Udp, (false, true, false)), (Mode::TcpAndUdp, (true, true, false)), (Mode::Quic, (false, false, true)), (Mode::TcpAndQuic, (true, false, true))];
    for (m, (t, u, q)) in rows {
        assert_eq!((m.enable_tcp(), m.enable_udp(), m.enable_quic()), (t, u, q), "mode {}", m);
    }
}

/// F23: a key of the wrong length must stop startup with an error
#[test]
fn f23_short_and_empty_keys_are_rejected() {
    // 8 bytes where 16 are required
    assert!(password_to_keys::<16>("AAECAwQFBgc=").is_err(), "an 8-byte key was accepted for a 16-byte cipher");
    assert!(password_to_keys::<16>("").is_err(), "an empty password was accepted");
    assert!(password_to_keys::<32>("AAECAwQFBgcICQoLDA0ODw==").is_err(), "a 16-byte key was accepted for a 32-byte cipher");
    assert!(password_to_keys::<16>("AAECAwQFBgcICQoLDA0ODw==").is_ok());
}
