use octo_squirrel::codec::shadowsocks::udp::Session;

/// F25: "A UDP session ends rather than reuse a packet ID" -- the client-side counter wraps instead
#[test]
fn f25_packet_id_never_goes_back() {
    let mut s = Session::<16>::new(1, 0, u64::MAX - 1, None);
    s.increase_packet_id();
    let before = s.packet_id;
    s.increase_packet_id();
    assert!(s.packet_id > before, "packet id went from {} to {}: ids 0, 1, 2, ... are used a second time under the same session id", before, s.packet_id);
}
