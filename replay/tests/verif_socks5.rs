use octo_squirrel::protocol::socks5::codec::*;
use tokio_util::bytes::BytesMut;
use tokio_util::codec::Decoder;

fn no_panic<F: FnOnce() -> String + std::panic::UnwindSafe>(f: F) -> Result<String, String> {
    std::panic::catch_unwind(f).map_err(|e| e.downcast_ref::<String>().cloned().or(e.downcast_ref::<&str>().map(|s| s.to_string())).unwrap_or_default())
}

// a complete CONNECT request to example.com:80, delivered in every prefix length
#[test]
fn command_request_prefixes_wait_for_more() {
    let mut full = vec![5u8, 1, 0, 3, 11];
    full.extend_from_slice(b"example.com");
    full.extend_from_slice(&[0, 80]);
    for n in 0..full.len() {
        let part = full[..n].to_vec();
        let r = no_panic(move || {
            let mut src = BytesMut::from(&part[..]);
            let r = Socks5CommandRequestDecoder.decode(&mut src);
            format!("{:?} left={}", r.map(|o| o.is_some()).map_err(|e| e.to_string()), src.len())
        });
        assert_eq!(r, Ok(format!("Ok(false) left={}", n)), "prefix of {} bytes", n);
    }
    let mut src = BytesMut::from(&full[..]);
    let r = Socks5CommandRequestDecoder.decode(&mut src).unwrap().unwrap();
    assert_eq!(format!("{}", r.dst_addr), "example.com:80");
    assert_eq!(src.len(), 0);
}

#[test]
fn initial_request_prefixes_wait_for_more() {
    let full = vec![5u8, 2, 0, 2];
    for n in 0..full.len() {
        let part = full[..n].to_vec();
        let r = no_panic(move || {
            let mut src = BytesMut::from(&part[..]);
            let r = Socks5InitialRequestDecoder.decode(&mut src);
            format!("{:?} left={}", r.map(|o| o.is_some()).map_err(|e| e.to_string()), src.len())
        });
        assert_eq!(r, Ok(format!("Ok(false) left={}", n)), "prefix of {} bytes", n);
    }
}

#[test]
fn responses_prefixes_wait_for_more() {
    for n in 0..2usize {
        let part = vec![5u8, 0][..n].to_vec();
        let r = no_panic(move || {
            let mut src = BytesMut::from(&part[..]);
            format!("{:?}", Socks5InitialResponseDecoder.decode(&mut src).map(|o| o.is_some()).map_err(|e| e.to_string()))
        });
        assert_eq!(r, Ok("Ok(false)".to_string()));
    }
    let full = vec![5u8, 0, 0, 1, 127, 0, 0, 1, 0x1f, 0x90];
    for n in 0..full.len() {
        let part = full[..n].to_vec();
        let r = no_panic(move || {
            let mut src = BytesMut::from(&part[..]);
            format!("{:?}", Socks5CommandResponseDecoder.decode(&mut src).map(|o| o.is_some()).map_err(|e| e.to_string()))
        });
        assert_eq!(r, Ok("Ok(false)".to_string()), "prefix of {} bytes", n);
    }
}
