#!/usr/bin/env python3
"""mutate.py <unit> [--per-fn K] [--seed S] [--jobs J] [--out FILE] [--only SUBSTR]

Self-test of the contracts (DESIGN.md 3.3 / 12): small syntactic mutants of the REAL functions a unit extracts are applied to a
scratch copy of the repository one at a time; the unit is rebuilt from that copy and Verus re-checks the function that changed
(callers are checked against the callee's contract, so only the changed function needs re-verification).
  killed    - a verification obligation fails (what ./check would report as VIOLATION)
  undecided - the mutant does not compile under Verus / an anchor is lost / rlimit (./check: exit 2)
  survived  - everything still verifies: the mutant is equivalent, or the contracts do not pin the mutated behaviour down
Survivors are listed for triage; nothing here is part of the registered checks."""
import argparse, concurrent.futures, hashlib, json, os, random, re, shutil, subprocess, sys, tempfile
sys.path.insert(0, os.path.dirname(os.path.abspath(__file__)))
from rtok import lex, render
import build as B
import check as C

REL = {"<": "<=", "<=": "<", ">": ">=", ">=": ">", "==": "!=", "!=": "=="}
ARI = {"+": "-", "-": "+"}
LOG = {"&&": "||", "||": "&&"}
WORD = {"true": "false", "false": "true", "min": "max", "max": "min", "is_some": "is_none", "is_none": "is_some",
        "get_u16": "get_u8", "put_u16": "put_u8", "Less": "Greater", "Greater": "Less",
        "wrapping_add": "saturating_add", "checked_add": "wrapping_add", "take": "skip"}

def sites(toks, lo, hi):
    """candidate mutations inside toks[lo:hi] (one real item): list of (index, new_text, description)"""
    out = []
    depth_attr = 0
    for i in range(lo, hi):
        t = toks[i]
        prev = toks[i - 1] if i > 0 else None
        nxt = toks[i + 1] if i + 1 < len(toks) else None
        spaced = t.ws != "" and nxt is not None and nxt.ws != ""
        if t.kind == "punct":
            if t.text in REL and spaced and prev is not None and (prev.kind in ("id", "num") or prev.text in (")", "]")):
                out.append((i, REL[t.text], "%s -> %s" % (t.text, REL[t.text])))
            elif t.text in ARI and spaced and prev is not None and (prev.kind in ("id", "num") or prev.text in (")", "]")):
                out.append((i, ARI[t.text], "%s -> %s" % (t.text, ARI[t.text])))
            elif t.text in LOG:
                out.append((i, LOG[t.text], "%s -> %s" % (t.text, LOG[t.text])))
            elif t.text == "!" and nxt is not None and (nxt.kind == "id" or nxt.text == "(") and nxt.ws == "" and prev is not None and prev.text in ("if", "(", "&&", "||", "=", "while", "return"):
                out.append((i, "", "drop !"))
        elif t.kind == "num":
            m = re.match(r"^(\d+)$", t.text)
            if m and prev is not None and prev.text not in ("[", ";", "<", "::") and not (nxt is not None and nxt.text == "]" and prev.text == ";"):
                v = int(m.group(1))
                out.append((i, str(v + 1), "%d -> %d" % (v, v + 1)))
                if v > 0:
                    out.append((i, str(v - 1), "%d -> %d" % (v, v - 1)))
            m = re.match(r"^0x([0-9a-fA-F]+)$", t.text)
            if m:
                v = int(m.group(1), 16)
                out.append((i, hex(v + 1), "%s -> %s" % (t.text, hex(v + 1))))
        elif t.kind == "id" and t.text in WORD and not (prev is not None and prev.text == "fn"):
            out.append((i, WORD[t.text], "%s -> %s" % (t.text, WORD[t.text])))
    return out

def fn_ranges(toks):
    """(name, body_open, body_close) for every fn with a body in a token list of one source file"""
    from rtok import match_close
    res = []
    i = 0
    n = len(toks)
    while i < n:
        if toks[i].kind == "id" and toks[i].text == "fn" and i + 1 < n and toks[i + 1].kind == "id":
            j = i + 2
            while j < n and toks[j].text not in ("{", ";"):
                if toks[j].text in ("(", "[", "<") and toks[j].text != "<":
                    j = match_close(toks, j)
                j += 1
            if j < n and toks[j].text == "{":
                c = match_close(toks, j)
                res.append((toks[i + 1].text, j, c, toks[i].line))
                i = j + 1   # nested fns are found too
                continue
        i += 1
    return res

def run_one(job):
    unit, file, idx, new, desc, fname, line, pristine_text = job[:8]
    repo = job[8] if len(job) > 8 else "/repo"
    scratch = tempfile.mkdtemp(prefix="vx-mut-", dir="/var/tmp")
    try:
        subprocess.run(["rsync", "-a", "--exclude", "target", "--exclude", ".git", repo.rstrip("/") + "/", scratch + "/"], check=True)
        p = os.path.join(scratch, file)
        toks, trail = lex(open(p).read())
        toks[idx] = toks[idx].clone(text=new)
        open(p, "w").write(render(toks, trail))
        cache = os.path.join(scratch, "_vx_cache")
        B.CACHE = cache
        try:
            b = B.build(unit, scratch)
        except Exception as e:
            return dict(file=file, line=line, fn=fname, mut=desc, outcome="undecided", why="build: %s" % str(e)[:120])
        text = b["text"]
        # which generated function changed?
        if text == pristine_text:
            return dict(file=file, line=line, fn=fname, mut=desc, outcome="not-extracted", why="the mutated code is not part of the unit (function under an assumed contract)")
        a = pristine_text.split("\n"); bb = text.split("\n")
        k = 0
        while k < min(len(a), len(bb)) and a[k] == bb[k]:
            k += 1
        fns, _, _ = C.analyse(b["toks"])
        f = C.fn_at(fns, k + 1)
        target = None
        if f is not None:
            # nested fn: verify the enclosing top-level/impl fn as well (verus names nested fns after their parent)
            target = f.qual
        cmd = ["verus", os.path.basename(b["path"]), "--rlimit", "40", "--multiple-errors", "20", "--error-format=json"]
        if target:
            cmd += ["--verify-root", "--verify-function", target]
        r = subprocess.run(cmd, cwd=os.path.dirname(b["path"]), capture_output=True, text=True)
        kinds = []
        hard = []
        for l in r.stderr.split("\n"):
            l = l.strip()
            if not l.startswith("{"):
                continue
            try:
                d = json.loads(l)
            except Exception:
                continue
            if d.get("level") != "error" or d.get("message", "").startswith("aborting due to"):
                continue
            kd = C.classify(d)
            if kd is None:
                hard.append(d.get("message", "")[:100])
            else:
                kinds.append(kd)
        if hard:
            # `--verify-function` with a name verus does not know is a hard error too: fall back to the whole unit once
            if target and any("verify-function" in h or "could not find" in h for h in hard):
                return dict(file=file, line=line, fn=fname, mut=desc, outcome="undecided", why="target fn not found: " + hard[0])
            return dict(file=file, line=line, fn=fname, mut=desc, outcome="undecided", why=hard[0])
        if "rlimit" in kinds and all(k == "rlimit" for k in kinds):
            return dict(file=file, line=line, fn=fname, mut=desc, outcome="undecided", why="rlimit")
        if kinds:
            return dict(file=file, line=line, fn=fname, mut=desc, outcome="killed", why=",".join(sorted(set(kinds))), target=target)
        return dict(file=file, line=line, fn=fname, mut=desc, outcome="survived", why="", target=target)
    finally:
        shutil.rmtree(scratch, ignore_errors=True)

def sample(unit, repo, fnames, per_fn=1, limit=40, seed=0, jobs=8):
    """mutants of the functions named in `fnames` (source names) of `unit`, extracted from `repo`; returns the result records"""
    rnd = random.Random(seed)
    saved = B.CACHE
    B.CACHE = tempfile.mkdtemp(prefix="vx-mut-base-", dir="/var/tmp")
    try:
        base = B.build(unit, repo)
    finally:
        shutil.rmtree(B.CACHE, ignore_errors=True)
        B.CACHE = saved
    pristine_text = base["text"]
    jobs_l = []
    byfile = {}
    for p in base["pieces"]:
        byfile.setdefault(p.file, []).append((p.line0, p.line1))
    for file, ranges in byfile.items():
        toks, _ = lex(open(os.path.join(repo, file)).read())
        for (name, bo, bc, line) in fn_ranges(toks):
            if not any(l0 <= line <= l1 for l0, l1 in ranges) or name not in fnames:
                continue
            cand = sites(toks, bo + 1, bc)
            rnd.shuffle(cand)
            for (idx, new, desc) in cand[:per_fn]:
                jobs_l.append((unit, file, idx, new, "%s @%s:%d" % (desc, file, toks[idx].line), name, toks[idx].line, pristine_text, repo))
    rnd.shuffle(jobs_l)
    jobs_l = jobs_l[:limit]
    res = []
    with concurrent.futures.ProcessPoolExecutor(max_workers=jobs) as ex:
        for r in ex.map(run_one, jobs_l):
            res.append(r)
    return res

def main():
    ap = argparse.ArgumentParser()
    ap.add_argument("unit")
    ap.add_argument("--per-fn", type=int, default=3)
    ap.add_argument("--seed", type=int, default=1)
    ap.add_argument("--jobs", type=int, default=8)
    ap.add_argument("--out", default=None)
    ap.add_argument("--only", default=None, help="only functions whose name contains this")
    a = ap.parse_args()
    rnd = random.Random(a.seed)
    B.CACHE = tempfile.mkdtemp(prefix="vx-mut-base-", dir="/var/tmp")
    base = B.build(a.unit, "/repo")
    pristine_text = base["text"]
    jobs = []
    byfile = {}
    for p in base["pieces"]:
        byfile.setdefault(p.file, []).append((p.line0, p.line1))
    for file, ranges in byfile.items():
        toks, _ = lex(open(os.path.join("/repo", file)).read())
        for (name, bo, bc, line) in fn_ranges(toks):
            if not any(l0 <= line <= l1 for l0, l1 in ranges):
                continue
            if a.only and a.only not in name:
                continue
            # skip test modules
            cand = sites(toks, bo + 1, bc)
            rnd.shuffle(cand)
            for (idx, new, desc) in cand[:a.per_fn]:
                jobs.append((a.unit, file, idx, new, "%s @%s:%d" % (desc, file, toks[idx].line), name, toks[idx].line, pristine_text))
    print("%d mutants of %s" % (len(jobs), a.unit), file=sys.stderr)
    res = []
    with concurrent.futures.ProcessPoolExecutor(max_workers=a.jobs) as ex:
        for r in ex.map(run_one, jobs):
            res.append(r)
            print("%-9s %-28s %s %s" % (r["outcome"], r["fn"][:28], r["mut"], ("[" + r["why"][:70] + "]") if r["why"] else ""), flush=True)
    shutil.rmtree(B.CACHE, ignore_errors=True)
    summ = {}
    for r in res:
        summ[r["outcome"]] = summ.get(r["outcome"], 0) + 1
    print("SUMMARY %s %s" % (a.unit, json.dumps(summ)))
    if a.out:
        json.dump({"unit": a.unit, "seed": a.seed, "per_fn": a.per_fn, "summary": summ, "mutants": res}, open(a.out, "w"), indent=1)

if __name__ == "__main__":
    main()
