#!/usr/bin/env python3
"""Regenerates MANIFEST.json from specs/*/unit.json + the per-property texts below."""
import json, os, sys
sys.path.insert(0, os.path.dirname(os.path.abspath(__file__)))
VERIF = os.path.dirname(os.path.dirname(os.path.abspath(__file__)))

TEXT = {
 "C01": ("proof of the codec layer only: Verus proves the Shadowsocks chunk encoder refines wire_chunks and the decoder refines the maximal-munch parse, and lemma_chunks_roundtrip proves parse(wire(x)++tail) returns exactly x for every write size and cap. The Shadowsocks PayloadCodec wrappers the relays use are under contract too (server: every plaintext the cipher delivers goes out, the first item carries the session's target address; legacy ciphers take it from the first plaintext). The server task relay_to (async, rewrite R29) dials only for a ConnectTcp item the inbound codec delivered, reaches (a resolution of) exactly the address in that item and hands the payload that came with it on as the first thing to forward; the message conversions keep payloads unchanged. The local handshake is decided under C13. The forward pumps (relay_bidirectional, relay_tcp), transports and schedules are not decided.", "7 C01"),
 "C02": ("proof of the codec layer only: datagram encode/decode contracts (SOCKS5 UDP codec, Shadowsocks encode_packet/decode_packet) state whole-or-error delivery with the exact address bytes; the Shadowsocks 2022 UDP decoders (client and server side, AES and XChaCha variants, identity header) refine a SIP022 packet spec; Ord for Address makes binding-table keys collide only for equal addresses. The 2022 UDP encoders (client and server side, AES and XChaCha variants) refine the SIP022 wire layout for exactly this session id, packet id, address and payload, and lemma_udp22_c2s_roundtrip / lemma_udp22_s2c_roundtrip prove that the decoders' packet specification reads back the same ids, address and payload. WebSocketFramed::start_send puts one item into one binary message. Association tables, channels and sockets are not decided.", "7 C02"),
 "C03": ("Verus proves the real encoders/decoders refine spec functions transcribed from the published formats (chunk framing, nonce sequence starting at 0 and incrementing little-endian, RFC 1928 addresses) over named uninterpreted AEAD primitives; a self-consistent deviation on one side fails the refinement.", "7 C03"),
 "C04": ("Verus proves each stream decoder refines a maximal-munch parse spec function (complete units are delivered at once, an incomplete unit is left untouched) and lemma_parse_compose proves parse(x++y) = parse(x) then parse(rest++y) for every cut, by induction: independence from all segmentations under the quoted FramedRead driver hypothesis. For ws/wss the driver itself is under contract: WebSocketFramed::poll_next feeds the decoder exactly the concatenated payloads of the data messages (nothing lost, repeated or reordered whatever the message boundaries), answers Pending only right after the transport answered Pending (waker registered) and only when the decoder waits on everything buffered; its termination is not proved.", "7 C04"),
 "C05": ("Verus proves release discipline on the real decoders: every byte appended to the output is the result of a successful AEAD open under the session key with the next counter value; length fields are used only after their own open succeeded; Err yields no output. With the stated INT-CTXT hypothesis this gives prefix-only release. The hypothesis that the driver stops at the first decode error is tokio_util's for FramedRead (quoted) and proved for WebSocketFramed::poll_next (decode is never called again after an error, the stream ends).", "7 C05"),
 "C06": ("Verus proves acceptance postconditions on the real server-side decoders: a Shadowsocks stream is accepted only after an AEAD open under the sub-key derived from the configured key and the received salt (HKDF-SHA1 'ss-subkey' / BLAKE3 session subkey), and with identity headers only under the key of the registered user whose identity hash the header decrypts to. INT-CTXT of the AEAD is the stated hypothesis. The server task relay_to dials a target, or forwards a datagram, only for an item the (credential-checking) inbound codec delivered.", "7 C06"),
 "C10": ("Verus proves validate_timestamp accepts iff |clock - ts| <= 30 (all 2^64 timestamps), that a 2022 TCP stream is accepted only with the expected type byte, a fresh timestamp and a salt the replay cache did not hold, and that the cache keeps salts for the whole acceptance window (>= 61 s). The cache itself (Mutex<LruCache>, interior mutability) is an oracle, not verified; concurrency is out of reach.", "7 C10"),
 "C16": ("Verus proves config::Mode::enable_{tcp,udp,quic} equal the README table for all five modes, and that the serde name tables of CipherKind (7 names + alias), Mode and Protocol -- generated mechanically from the enum attributes on every run -- equal the documented names with no catch-all variant; that the cipher name selects the credential format (ClientContext::try_from, Client::new_static, ServerContext::init: base64 key list for 2022-blake3-*, EVP_BytesToKey(MD5) of the password otherwise, on TCP and UDP alike), that password_to_keys keeps the configured order of identity keys with the encryption key last, and ServerUser::try_from keys a user by its uPSK and BLAKE3 identity hash. Open finding F23 (short keys accepted) is the one failing obligation. Which sockets startup opens and the async startup_udp copy of the key derivation are outside Verus' reach.", "7 C16"),
 "C07": ("Verus discharges, for every buffer content and decoder state, the panic-freedom obligations of each sync decoder under contract: every Buf read/advance/split/index has enough bytes (shim preconditions = documented panics of `bytes`), no reachable panic!/unwrap, no arithmetic overflow, loops terminate.", "7 C07"),
 "C11": ("Verus proves, for all inputs and states, that PacketWindowFilter::{new,default,reset,validate_packet_id} meet a raw contract; spec-level lemmas (lemma_step, lemma_history) derive the property statement for every finite sequence of 64-bit ids. No bound. The callers: the client's DatagramPacketCodec::decode returns Ok(None) for a refused id; the server's per-session task UdpAssociateContext::relay (async fn with tokio::select!, taken as sequential code by rewrite R29, its I/O recorded in a ghost log) steps the window exactly once per client datagram in arrival order, forwards a datagram iff its id is accepted, and never leaves its loop because of a refusal.", "7 C11"),
 "C12": ("Verus proves the nonce generator is +1 modulo 2^96 on the little-endian counter (carry-chain loop invariant + lemma_inc_val), that every Authenticator seal/open uses exactly the next counter value, that the chunk encoder advances it twice per chunk, and lemma_nonces_distinct proves pairwise distinctness for fewer than 2^96 uses. The 2022 UDP encoders put exactly the session's packet id into the packet and seal under the key derived for this session id; the server's relay task increments its packet id by one per reply and ends the session rather than reuse one. Freshness of RNG draws is assumed.", "7 C12"),
 "C13": ("Verus proves the SOCKS5 handshake decoders return the exact RFC 1928 address of a complete request, consume exactly its bytes, and return Ok(None) consuming nothing for every proper prefix; malformed requests give Err. recognize_http (request-target -> tunnel target) is proved panic-free for every input and, for every request-target with an optional scheme and a non-empty authority, to name exactly the host and port of the RFC 3986 authority (port 80 default for plain HTTP) or refuse; std str operations are byte-level shims (R23). The async handshake of an accepted connection (get_request_addr, recognize) is verified as sequential code (rewrite R29) over a TcpStream described by a ghost inbox/outbox: sniffing consumes nothing and takes the SOCKS5 path exactly when the first byte is 5; a CONNECT request is consumed exactly up to its first blank line however it is segmented and answered with exactly the 200 line; plain HTTP is left untouched on the stream; the SOCKS5 reply handed to no_auth is 'succeeded' with the connection's local address. httparse is an oracle; socks5::handshake::server::no_auth (FramedRead/FramedWrite) is assumed.", "7 C13"),
 "C14": ("Verus proves address encode refines enc5 (RFC 1928 layout), decode refines parse5 for every byte string (exact consumption, Err otherwise), lemma_addr5_roundtrip proves parse5(enc5(v)++tail) = (v,|enc5(v)|) for all representable addresses and tails, and lemma_abs_injective that equal abstract values mean the identical address.", "7 C14"),
}
NOTE = "Trusted: Verus/Z3; the token-level extractor and its rewrites R1-R30 (R29: async task bodies as sequential code) (logged per run in evidence); shim contracts on bytes/std/AEAD primitives (listed in evidence.coverage.trusted_base); machine integers modelled exactly, usize = 64 bit. Async callers are not verified."
NA = {
 "C08": "liveness of async accept/select loops after errors: no contract on tokio tasks is expressible in Verus (no async) or Kani (no runtime/threads)",
 "C09": "thread interleavings over shared state: this family has no concurrency semantics for this code; sequential consequences are decided under C10",
 "C15": "socket/task lifetime and descriptor counts of running processes: no function contract within reach mentions them",
}
def main():
    units = {}
    sp = os.path.join(VERIF, "specs")
    for d in sorted(os.listdir(sp)):
        p = os.path.join(sp, d, "unit.json")
        if os.path.exists(p):
            units[d] = json.load(open(p))
    claimed = json.load(open(os.path.join(VERIF, "claimed.json")))
    props = [json.loads(l)["id"] for l in open(os.path.join(VERIF, "properties.jsonl"))]
    checks = []
    for pid in props:
        if pid not in claimed:
            continue
        text, ref = TEXT[pid]
        us = [u for u, d in units.items() if pid in d.get("serves", [])]
        checks.append({
            "property_id": pid, "quick_cmd": "./check %s --tier quick" % pid, "thorough_cmd": "./check %s --tier thorough" % pid,
            "evidence_file": "evidence/%s.json" % pid, "replay_cmd_template": "./check %s --replay {path}" % pid, "engine": "vx+verus",
            "level_claimed": {"category": "proof", "text": text + " Units: " + ", ".join(us) + ".", "design_ref": "DESIGN.md " + ref},
            "level_note": NOTE, "technique": "contract-based deductive verification (Verus) of real functions extracted mechanically on every run, plus spec-level lemmas"})
    na = []
    for pid in props:
        if pid in claimed:
            continue
        na.append({"property_id": pid, "reason": NA.get(pid, "not built yet (planned, see DESIGN.md 11)")})
    hooks = json.load(open(os.path.join(VERIF, "hooks.json")))
    m = {"version": 1, "setup_cmd": "./setup.sh", "hooks": hooks,
         "engines": [{"name": "vx+verus", "path": "vx/", "serves_properties": claimed,
                      "kind_free_text": "mechanical extraction of real functions from /repo on every run + contracts spliced at token anchors (3-way token merge) + Verus (Z3) deductive verification"}],
         "checks": checks, "not_applicable": na,
         "notes": "exit 0 = all obligations of the property discharged (open known findings printed as KNOWN-FINDING); exit 1 = VIOLATION line(s); exit 2 = UNDECIDED (lost anchor, unsupported construct, rlimit) - never an alarm."}
    json.dump(m, open(os.path.join(VERIF, "MANIFEST.json"), "w"), indent=1)
    print("claimed:", claimed)
if __name__ == "__main__":
    main()
