#!/bin/bash
# seedbatch.sh [seed-dir...] : validate every seeded change on a scratch worktree and run its property's check on a scratch copy of /repo;
# one JSON line per seed is appended to $SEED_OUT (default /tmp/seedbatch_results.jsonl).  Works from a snapshot of /verif (vp run).
ROOT=$(cd "$(dirname "$0")/.."; pwd)
OUTF=${SEED_OUT:-/tmp/seedbatch_results.jsonl}
cd $ROOT
DIRS=${@:-seeded/*/}
for d in $DIRS; do
  d=${d%/}
  V=$($ROOT/vx/seedval.sh $ROOT/$d 2>&1 | grep "^RESULT" | tail -1)
  OUT=$($ROOT/vx/seedrun.sh $ROOT/$d 2>&1); RC=$?
  python3 - "$d" "$V" "$RC" "$OUT" >> $OUTF <<'PY'
import json,sys,subprocess
d,v,rc,out=sys.argv[1:5]
lines=out.strip().split("\n")
print(json.dumps({"seed":d,"validation":v,"repo":subprocess.check_output(['git','-C','/repo','rev-parse','--short','HEAD']).decode().strip(),
  "check_rc":int(rc),"violations":sum(1 for l in lines if l.startswith("VIOLATION")),"undecided":[l[:300] for l in lines if l.startswith("UNDECIDED")],"summary":lines[-1][:200] if lines else ""}))
PY
  echo "$d done rc=$RC"
done
