"""Mechanical extraction of real items from /repo's working tree.

A unit description (specs/<unit>/unit.json) lists, per source file, item selectors.  Each
selected item is copied token-for-token (trivia included) and then passed through the fixed
rewrites of rewrites.py.  Nothing here knows anything about any particular function."""
import hashlib, json, os, re
from rtok import lex, render, match_close, Tok, OPEN

ITEM_KW = {"fn", "struct", "enum", "union", "trait", "impl", "mod", "use", "const", "static", "type", "macro_rules", "extern"}
QUALS = {"async", "unsafe", "default"}

class ExtractError(Exception):
    pass

class Item:
    def __init__(self, toks, start, end, kw, name, attrs, body_open):
        self.toks, self.start, self.end = toks, start, end   # [start, end) in toks
        self.kw, self.name, self.attrs, self.body_open = kw, name, attrs, body_open
        self.kw_index = None
    @property
    def label(self):
        return "%s %s" % (self.kw, self.name)

def _skip_generics(toks, i):
    """toks[i] == '<' : return index after the matching '>' (angle brackets, '->' aware)."""
    depth = 0
    while i < len(toks):
        t = toks[i].text
        if t == "<":
            depth += 1
        elif t == ">":
            depth -= 1
            if depth == 0:
                return i + 1
        elif t in OPEN:
            i = match_close(toks, i)
        i += 1
    raise ExtractError("unbalanced generics")

def impl_name(toks, kw_i, brace_i):
    """normalised impl header: generics dropped: 'Trait for Type' or 'Type'."""
    i = kw_i + 1
    if toks[i].text == "<":
        i = _skip_generics(toks, i)
    out = []
    while i < brace_i:
        t = toks[i]
        if t.text == "where":
            break
        if t.text == "<":
            i = _skip_generics(toks, i)
            continue
        out.append(t.text)
        i += 1
    s = " ".join(out)
    s = s.replace(" :: ", "::").replace("& ", "&")
    return s

def scan_items(toks, lo, hi):
    """Items directly inside toks[lo:hi]."""
    items = []
    i = lo
    while i < hi:
        start = i
        attrs = []
        # attributes
        while i < hi and toks[i].text == "#":
            j = i + 1
            if toks[j].text == "!":
                j += 1
            k = match_close(toks, j)
            attrs.append(render(toks[i:k + 1]).strip())
            i = k + 1
        if i >= hi:
            break
        # visibility
        if toks[i].text == "pub":
            i += 1
            if toks[i].text == "(":
                i = match_close(toks, i) + 1
        while toks[i].text in QUALS or (toks[i].text == "const" and toks[i + 1].text in ("fn", "unsafe", "async")) \
                or (toks[i].text == "extern" and toks[i + 1].kind == "str" and toks[i + 2].text == "fn"):
            i += 2 if toks[i].text == "extern" else 1
        kw = toks[i].text
        if kw not in ITEM_KW and toks[i].kind == "id" and i + 2 < hi and toks[i + 1].text == "!" and toks[i + 2].text in OPEN:
            # item-position macro invocation `m!(...);` : recorded as an item of kind "macro_call" (never selected directly)
            end = match_close(toks, i + 2) + 1
            if end < hi and toks[end].text == ";":
                end += 1
            it = Item(toks, start, end, "macro_call", kw, attrs, None)
            it.kw_index = i
            items.append(it)
            i = end
            continue
        if kw not in ITEM_KW:
            raise ExtractError("cannot parse item at %s:%d (token %r)" % (toks[i].src, toks[i].line, kw))
        kw_i = i
        body_open = None
        if kw == "macro_rules":
            name = toks[i + 2].text
            j = i + 3
            end = match_close(toks, j) + 1
            if end < hi and toks[end].text == ";":
                end += 1
        elif kw in ("fn", "impl", "mod", "trait", "enum", "union", "struct", "extern"):
            j = i + 1
            while True:
                t = toks[j].text
                if t == "{":
                    body_open = j
                    end = match_close(toks, j) + 1
                    break
                if t == ";":
                    end = j + 1
                    break
                if t in ("(", "["):
                    j = match_close(toks, j)
                j += 1
            name = impl_name(toks, kw_i, body_open) if kw == "impl" else toks[i + 1].text
        else:  # const static type use
            j = i + 1
            while toks[j].text != ";":
                if toks[j].text in OPEN:
                    j = match_close(toks, j)
                j += 1
            end = j + 1
            name = toks[i + 1].text
            if name == "mut":
                name = toks[i + 2].text
        it = Item(toks, start, end, kw, name, attrs, body_open)
        it.kw_index = kw_i
        items.append(it)
        i = end
    return items

# ---- cfg evaluation (R6) ----
CFG_TRUE_FEATURES = {"server", "client"}
def _cfg_eval(toks, i):
    """evaluate cfg predicate starting at toks[i]; returns (value, next_index)"""
    t = toks[i].text
    if t in ("all", "any", "not") and toks[i + 1].text == "(":
        close = match_close(toks, i + 1)
        vals = []
        j = i + 2
        while j < close:
            v, j = _cfg_eval(toks, j)
            vals.append(v)
            if toks[j].text == ",":
                j += 1
        v = all(vals) if t == "all" else any(vals) if t == "any" else (not vals[0])
        return v, close + 1
    if t == "feature":
        return toks[i + 2].text.strip('"') in CFG_TRUE_FEATURES, i + 3
    if i + 1 < len(toks) and toks[i + 1].text == "=":
        # target_os = "..." etc: assume linux
        val = toks[i + 2].text.strip('"')
        return (t, val) in {("target_os", "linux"), ("target_family", "unix")}, i + 3
    if t in ("test", "kani", "zmax0_octo_squirrel_verif", "windows", "debug_assertions"):
        return False, i + 1
    if t == "unix":
        return True, i + 1
    raise ExtractError("unknown cfg predicate %r" % t)

def cfg_enabled(attrs):
    for a in attrs:
        ts, _ = lex(a)
        if len(ts) > 3 and ts[0].text == "#" and ts[1].text == "[" and ts[2].text == "cfg" and ts[3].text == "(":
            v, _ = _cfg_eval(ts, 4)
            if not v:
                return False
    return True

def strip_cfg_attrs(toks):
    """drop #[cfg(..)] / #[cfg_attr(..)] attributes of an already selected (enabled) item"""
    out = []
    i = 0
    while i < len(toks):
        if toks[i].text == "#" and toks[i + 1].text == "[" and toks[i + 2].text in ("cfg", "cfg_attr"):
            i = match_close(toks, i + 1) + 1
            continue
        out.append(toks[i]); i += 1
    return out

def _find(items, sel):
    m = re.match(r"^(.*?)(?:#(\d+))?$", sel.strip())
    label, ordinal = m.group(1).strip(), m.group(2)
    cands = [it for it in items if it.label == label and cfg_enabled(it.attrs)]
    if not cands:
        raise ExtractError("item not found: %r (have: %s)" % (sel, ", ".join(i.label for i in items)))
    if ordinal is not None:
        return cands[int(ordinal)]
    if len(cands) > 1:
        raise ExtractError("ambiguous item %r (%d matches); use #k" % (sel, len(cands)))
    return cands[0]

class Piece:
    """one extracted item (or impl with a subset of members)"""
    def __init__(self, file, selector, toks, line0, line1):
        self.file, self.selector, self.toks, self.line0, self.line1 = file, selector, toks, line0, line1
        self.raw = render(toks)
        self.sha = hashlib.sha256(self.raw.encode()).hexdigest()[:16]

def extract_file(repo, relpath, selects):
    path = os.path.join(repo, relpath)
    text = open(path).read()
    toks, _ = lex(text, relpath)
    top = scan_items(toks, 0, len(toks))
    pieces = []
    for sel in selects:
        if isinstance(sel, str):
            sel = {"sel": sel}
        steps = [s.strip() for s in sel["sel"].split("/")]
        scope = top
        it = None
        chain = []
        for k, step in enumerate(steps):
            it = _find(scope, step)
            chain.append(it)
            if k + 1 < len(steps):
                if it.body_open is None:
                    raise ExtractError("%s has no body to descend into" % step)
                scope = scan_items(toks, it.body_open + 1, match_close(toks, it.body_open))
        only, exc = sel.get("only"), sel.get("except", [])
        if it.kw == "macro_rules" and sel.get("expand") is not None:
            # R17: a single-arm `macro_rules! m { ($p:ident) => { ITEMS }; }` is expanded for one invocation `m!(Arg);`
            # by substituting `$p` with the argument, token for token; `only` selects among the expanded items
            arg = sel["expand"]
            o = it.kw_index + 3                         # the brace/paren that opens the macro definition
            c = match_close(toks, o)
            pat_o = o + 1
            if toks[pat_o].text != "(":
                raise ExtractError("R17: unsupported macro shape %s" % it.name)
            pat_c = match_close(toks, pat_o)
            pat = toks[pat_o + 1:pat_c]
            if not (len(pat) == 4 and pat[0].text == "$" and pat[2].text == ":" and pat[3].text == "ident"):
                raise ExtractError("R17: only `($x:ident)` macros are expanded (%s)" % it.name)
            if toks[pat_c + 1].text != "=>" or toks[pat_c + 2].text not in OPEN:
                raise ExtractError("R17: unsupported macro arm %s" % it.name)
            b_o = pat_c + 2
            b_c = match_close(toks, b_o)
            rest = [t for t in toks[b_c + 1:c] if t.text != ";"]
            if rest:
                raise ExtractError("R17: macro %s has more than one arm" % it.name)
            # the invocation must exist at top level: `name ! ( Arg ) ;`
            found = any(toks[k].text == it.name and toks[k + 1].text == "!" and toks[k + 2].text == "(" and toks[k + 3].text == arg and toks[k + 4].text == ")"
                        for k in range(len(toks) - 4))
            if not found:
                raise ExtractError("R17: no invocation %s!(%s) in %s" % (it.name, arg, relpath))
            pname = pat[1].text
            body = []
            k = b_o + 1
            while k < b_c:
                t = toks[k]
                if t.text == "$" and toks[k + 1].text == pname:
                    body.append(toks[k + 1].clone(text=arg, ws=t.ws)); k += 2
                    continue
                if t.text == "$":
                    raise ExtractError("R17: unsupported macro metavariable in %s" % it.name)
                body.append(t); k += 1
            members = scan_items(body, 0, len(body))
            keep = [_find(members, o_) for o_ in only] if only is not None else [m_ for m_ in members if cfg_enabled(m_.attrs)]
            for mbr in keep:
                pieces.append(Piece(relpath, "%s!(%s) / %s" % (it.name, arg, mbr.label), list(body[mbr.start:mbr.end]),
                                    body[mbr.start].line, body[mbr.end - 1].line))
            continue
        if it.kw in ("impl", "mod", "trait") and (only is not None or exc or it.kw == "mod"):
            members = scan_items(toks, it.body_open + 1, match_close(toks, it.body_open))
            keep = []
            if only is not None:
                for o in only:
                    keep.append(_find(members, o))
            else:
                exl = set(exc)
                for mbr in members:
                    if mbr.label in exl or not cfg_enabled(mbr.attrs) or mbr.kw == "use":
                        continue
                    if mbr.kw == "mod" and mbr.name in ("test", "tests"):
                        continue
                    keep.append(mbr)
            if it.kw == "mod" and not sel.get("keep_mod"):
                # flatten: emit members as top-level items
                for mbr in keep:
                    pieces.append(Piece(relpath, sel["sel"] + " / " + mbr.label, list(toks[mbr.start:mbr.end]),
                                        toks[mbr.start].line, toks[mbr.end - 1].line))
                continue
            body = []
            for mbr in keep:
                body += toks[mbr.start:mbr.end]
            ptoks = list(toks[it.start:it.body_open + 1]) + body + [toks[match_close(toks, it.body_open)]]
            pieces.append(Piece(relpath, sel["sel"] + " {" + ",".join(m.label for m in keep) + "}", ptoks,
                                toks[it.start].line, toks[it.end - 1].line))
        elif len(chain) >= 2 and chain[-2].kw in ("impl", "trait"):
            # single member of an impl: wrap in the impl header
            par = chain[-2]
            ptoks = list(toks[par.start:par.body_open + 1]) + list(toks[it.start:it.end]) + [toks[match_close(toks, par.body_open)]]
            pieces.append(Piece(relpath, sel["sel"], ptoks, toks[it.start].line, toks[it.end - 1].line))
        else:
            pieces.append(Piece(relpath, sel["sel"], list(toks[it.start:it.end]), toks[it.start].line, toks[it.end - 1].line))
    return pieces, top, toks

def all_const_items(top, toks):
    return [render(toks[it.start:it.end]) for it in top if it.kw == "const" and cfg_enabled(it.attrs)]
