"""Three-way token merge.

  B0  = the rewritten extraction the annotations were written against (frozen, specs/<unit>/base.rs)
  A   = B0 plus pure insertions (contracts, ghost code, shims, spec fns)  (specs/<unit>/unit.rs)
  B1  = the rewritten extraction of /repo's working tree, made on this run

Result A1 = B1 plus the same insertions, re-anchored through the token diff B0 -> B1.  The real
tokens of A1 are exactly B1's tokens (checked), so the verified text is the code in /repo now."""
import difflib
from rtok import Tok

class MergeError(Exception):
    pass

def _groups(toks):
    """split a token list into line groups (a group starts at a token whose trivia holds a newline)"""
    gs, cur, starts = [], [], []
    for i, t in enumerate(toks):
        if "\n" in t.ws and cur:
            gs.append(tuple(cur)); cur = []
        if not cur:
            starts.append(i)
        cur.append(t.text)
    if cur:
        gs.append(tuple(cur))
    return gs, starts

def tokdiff(a, b):
    """opcodes (tag, i1, i2, j1, j2) over token indices of a and b; hierarchical: lines, then tokens."""
    ga, sa = _groups(a)
    gb, sb = _groups(b)
    sa.append(len(a)); sb.append(len(b))
    sm = difflib.SequenceMatcher(None, ga, gb, autojunk=False)
    ops = []
    for tag, i1, i2, j1, j2 in sm.get_opcodes():
        ai1, ai2, bj1, bj2 = sa[i1], sa[i2], sb[j1], sb[j2]
        if tag == "equal":
            ops.append(("equal", ai1, ai2, bj1, bj2))
        else:
            xa = [t.text for t in a[ai1:ai2]]
            xb = [t.text for t in b[bj1:bj2]]
            sm2 = difflib.SequenceMatcher(None, xa, xb, autojunk=False)
            for t2, p1, p2, q1, q2 in sm2.get_opcodes():
                ops.append((t2, ai1 + p1, ai1 + p2, bj1 + q1, bj1 + q2))
    # coalesce neighbours with the same tag
    out = []
    for op in ops:
        if out and out[-1][0] == op[0] and out[-1][2] == op[1] and out[-1][4] == op[3]:
            o = out[-1]
            out[-1] = (o[0], o[1], op[2], o[3], op[4])
        else:
            out.append(op)
    return out

def _contains(hay, needle):
    n = len(needle)
    return any(hay[k:k + n] == needle for k in range(len(hay) - n + 1))

def insertions(b0, a):
    """A must be B0 + insertions.  Returns ins: dict b0_index -> list of A tokens inserted before it.
    The alignment of B0 inside A is the one difflib finds (longest blocks first, earliest on ties).  It is ambiguous when an inserted run
    repeats the real tokens next to it (e.g. a closure annotation `ensures r == i + 3 { i + 3 }`): the real tokens could then be taken
    for annotation text and a change of the real code would go unseen.  Such a spot is refused here (MergeError), so that it is noticed
    when the annotation is written; rephrase the annotation (`3 + i`)."""
    ins = {}
    ops = tokdiff(b0, a)
    for n, (tag, i1, i2, j1, j2) in enumerate(ops):
        if tag == "equal":
            # a real run of >= 3 tokens that ends/starts at an insertion must not occur again inside that insertion
            for side in (-1, 1):
                m = n + side
                if 0 <= m < len(ops) and ops[m][0] == "insert":
                    run = [t.text for t in a[ops[m][3]:ops[m][4]]]
                    real = [t.text for t in b0[i1:i2]]
                    edge = real[-4:] if side == 1 else real[:4]
                    # only look at the part of the real run that shares a line with the insertion
                    OPS = ("+", "-", "*", "/", "%", "<", "<=", ">", ">=", "==", "!=", "&&", "||", "<<", ">>", "&", "|", "^", "!")
                    etoks = b0[i2 - len(edge):i2] if side == 1 else b0[i1:i1 + len(edge)]
                    # (only expression-level repeats matter: a repeated operator or literal is where a change of the code would be lost)
                    if len(edge) >= 3 and any(t.kind == "num" or t.text in OPS for t in etoks) and _contains(run, edge):
                        raise MergeError("annotation ambiguous: the inserted text repeats the real tokens %r next to it (unit line %d); rephrase the annotation" % (
                            " ".join(edge), a[ops[m][3]].line))
            continue
        if tag == "insert":
            ins.setdefault(i1, []).extend(a[j1:j2])
            continue
        raise MergeError("annotated unit is not base + insertions: %s base[%d:%d]=%r unit[%d:%d]=%r (unit line %d)" % (
            tag, i1, i2, " ".join(t.text for t in b0[i1:i2])[:120], j1, j2, " ".join(t.text for t in a[j1:j2])[:120],
            a[j1].line if j1 < len(a) else -1))
    return ins

def merge(b0, a, b1, ambig=0):
    """ambig: what to do when /repo gained code exactly where an annotation is anchored: 0 = MergeError,
    1 = annotation first, then the new code, 2 = new code first."""
    ins = insertions(b0, a)
    ops = tokdiff(b0, b1)
    out = []
    changes = []
    for tag, i1, i2, j1, j2 in ops:
        if tag == "equal":
            for k in range(i2 - i1):
                if (i1 + k) in ins:
                    out.extend(ins[i1 + k])
                out.append(b1[j1 + k])
            continue
        changes.append({"tag": tag, "base": " ".join(t.text for t in b0[i1:i2])[:200],
                        "now": " ".join(t.text for t in b1[j1:j2])[:200],
                        "file": (b1[j1].src if j1 < len(b1) else None), "line": (b1[j1].line if j1 < len(b1) else None)})
        if tag == "insert":
            if i1 in ins:
                if ambig == 0:
                    raise MergeError("anchor ambiguous: code inserted in /repo exactly where an annotation is anchored (near %s:%s)" % (
                        changes[-1]["file"], changes[-1]["line"]))
                if ambig == 1:
                    out.extend(ins.pop(i1)); out.extend(b1[j1:j2])
                else:
                    out.extend(b1[j1:j2]); out.extend(ins.pop(i1))
                continue
            out.extend(b1[j1:j2])
            continue
        # replace / delete of b0[i1:i2]
        for k in range(i1 + 1, i2):
            if k in ins:
                raise MergeError("anchor lost: the code an annotation is attached to changed (near %s:%s: %r -> %r)" % (
                    changes[-1]["file"], changes[-1]["line"], changes[-1]["base"], changes[-1]["now"]))
        if i1 in ins:
            out.extend(ins[i1])
        out.extend(b1[j1:j2])
    if len(b0) in ins:
        out.extend(ins[len(b0)])
    # fidelity: real tokens of the result are exactly b1
    real = [t for t in out if t.src is not None]
    if [t.text for t in real] != [t.text for t in b1]:
        raise MergeError("internal: merged unit does not contain the extraction verbatim")
    return out, changes
