"""The fixed list of mechanical rewrites applied to extracted items (DESIGN.md section 3.2).
Every application is logged as (rule, file, line, original text).  Anything not matched by a
rule here is kept byte-for-byte."""
import hashlib, os, re, subprocess, tempfile
from rtok import Tok, lex, render, match_close, OPEN

LOG_MACROS = {"trace", "debug", "info", "warn", "error"}
KEEP_DERIVES = {"Clone", "Copy", "PartialEq", "Eq", "Default"}

class Log:
    def __init__(self):
        self.entries = []
    def add(self, rule, tok, original):
        self.entries.append({"rule": rule, "file": tok.src, "line": tok.line, "original": original.strip()[:200]})
    def counts(self):
        c = {}
        for e in self.entries:
            c[e["rule"]] = c.get(e["rule"], 0) + 1
        return c

def gen(text, like, ws=None):
    """tokens for generated replacement text, carrying the provenance of `like`."""
    ts, _ = lex(text)
    for t in ts:
        t.line, t.src = like.line, like.src
    if ts:
        ts[0].ws = like.ws if ws is None else ws
    return ts

def _is_macro(toks, i, names):
    return (toks[i].kind == "id" and toks[i].text in names and i + 2 < len(toks)
            and toks[i + 1].text == "!" and toks[i + 2].text in OPEN
            and not (i > 0 and toks[i - 1].text in (".", "::") and False))

def r11_visibility(toks, log):
    out = []
    i = 0
    while i < len(toks):
        t = toks[i]
        if t.kind == "id" and t.text == "pub":
            j = i + 1
            if j < len(toks) and toks[j].text == "(" and toks[j + 1].text in ("crate", "super", "self", "in"):
                j = match_close(toks, j) + 1
            # only functions lose their visibility (so that their contracts may mention private fields);
            # types, fields, variants and consts keep plain `pub` (restricted forms become `pub`)
            k = j
            while k < len(toks) and toks[k].text in ("const", "async", "unsafe", "extern") or (k < len(toks) and toks[k].kind == "str"):
                k += 1
            if not (k < len(toks) and toks[k].text == "fn"):
                if j > i + 1:
                    log.add("R11", t, render(toks[i:j]))
                out.append(t)
                i = j
                continue
            log.add("R11", t, render(toks[i:j]))
            if j < len(toks):
                toks[j] = toks[j].clone(ws=t.ws)
            i = j
            continue
        out.append(t); i += 1
    return out

def r2_logs(toks, log):
    out = []
    i = 0
    while i < len(toks):
        if _is_macro(toks, i, LOG_MACROS) and not (i > 0 and toks[i - 1].text == "::" and False):
            # strip an optional `log::` prefix already emitted
            start_out = len(out)
            if len(out) >= 2 and out[-1].text == "::" and out[-2].text == "log":
                start_out -= 2
            close = match_close(toks, i + 2)
            prev = out[start_out - 1].text if start_out > 0 else "{"
            first = out[start_out] if start_out < len(out) else toks[i]
            log.add("R2", toks[i], render(toks[i:close + 1]))
            del out[start_out:]
            if prev in (";", "{", "}") and close + 1 < len(toks) and toks[close + 1].text == ";":
                nxt = close + 2
                if nxt < len(toks):
                    toks[nxt] = toks[nxt].clone(ws=first.ws + "/*R2*/" + toks[nxt].ws)
                i = nxt
            else:
                out += gen("()", toks[i], first.ws)
                i = close + 1
            continue
        out.append(toks[i]); i += 1
    return out

def _split_args(toks, a, b):
    """token lists of the comma-separated arguments in toks[a:b] (depth 0)"""
    args = [[]]; d = 0
    for k in range(a, b):
        x = toks[k].text
        if x in "([{": d += 1
        elif x in ")]}": d -= 1
        if x == "," and d == 0:
            args.append([]); continue
        args[-1].append(toks[k])
    if args and not args[-1]: args.pop()
    return args

def r3_errors(toks, log):
    out = []
    i = 0
    while i < len(toks):
        t = toks[i]
        if _is_macro(toks, i, {"bail", "anyhow", "format", "panic", "unreachable", "unimplemented", "todo"}):
            close = match_close(toks, i + 2)
            first = t
            if len(out) >= 2 and out[-1].text == "::" and out[-2].text in ("anyhow", "std", "core"):
                first = out[-2]
                del out[-2:]
            orig = render(toks[i:close + 1])
            if t.text == "bail":
                out += gen("return Err(verif_err())", t, first.ws); rule = "R3"
            elif t.text == "anyhow":
                out += gen("verif_err()", t, first.ws); rule = "R3"
            elif t.text == "format":
                # R3b: `format!("{}:{}", A, B)` (the one format string whose value decides behaviour: a bind / connect address) keeps its
                # operands: `verif_host_port(&(A), B)`; every other format! is an unconstrained String
                args = _split_args(toks, i + 3, close)
                if len(args) == 3 and render(args[0]).strip() == '"{}:{}"':
                    out += gen("verif_host_port(&(" + render(args[1]).strip() + "), " + render(args[2]).strip() + ")", t, first.ws); rule = "R3b"
                else:
                    out += gen("verif_string()", t, first.ws); rule = "R3"
            else:
                out += gen("verif_panic()", t, first.ws); rule = "R7"
            log.add(rule, t, orig)
            i = close + 1
            continue
        out.append(t); i += 1
    return out

def r3b_error_fns(toks, log):
    """`anyhow::Error::msg` -> `verif_err_from`; `<ident>.to_string()` -> `verif_string()`"""
    out = []
    i = 0
    n = len(toks)
    while i < n:
        t = toks[i]
        if t.text == "anyhow" and i + 4 < n and [x.text for x in toks[i + 1:i + 5]] == ["::", "Error", "::", "msg"]:
            log.add("R3", t, "anyhow::Error::msg")
            out += gen("verif_err_from", t, t.ws)
            i += 5
            continue
        if t.kind == "id" and i + 4 < n and [x.text for x in toks[i + 1:i + 5]] == [".", "to_string", "(", ")"] and (i == 0 or toks[i - 1].text not in (".", "::")):
            log.add("R3", t, render(toks[i:i + 5]))
            out += gen("verif_string()", t, t.ws)
            i += 5
            continue
        out.append(t); i += 1
    return out

def r14_concat(toks, log):
    """`[a, b].concat()` -> `verif_concat2(a, b)` (both operands without top-level commas)"""
    out = []
    i = 0
    n = len(toks)
    while i < n:
        t = toks[i]
        if t.text == "[" and (i == 0 or toks[i - 1].kind == "punct" and toks[i - 1].text not in (")", "]")):
            close = match_close(toks, i)
            if close + 4 < n and [x.text for x in toks[close + 1:close + 5]] == [".", "concat", "(", ")"]:
                inner = toks[i + 1:close]
                depth = 0
                commas = []
                for k, x in enumerate(inner):
                    if x.text in OPEN: depth += 1
                    elif x.text in (")", "]", "}"): depth -= 1
                    elif x.text == "," and depth == 0: commas.append(k)
                if len(commas) == 1:
                    log.add("R14", t, render(toks[i:close + 5]))
                    out += gen("verif_concat2(", t, t.ws) + inner + gen(")", t, "")
                    i = close + 5
                    continue
        out.append(t); i += 1
    return out

def r21_raw_parts(toks, log):
    """R21: `unsafe { slice::from_raw_parts(E.as_ptr() as *const _, N) }` -> `verif_from_raw_parts(E, N)`: the reinterpretation of a
    byte slice as a slice of integers becomes a call of a shim whose precondition is the documented in-bounds safety condition
    (alignment is NOT modelled) and whose result elements are the native-endian values of the bytes."""
    out = []
    i = 0
    n = len(toks)
    while i < n:
        t = toks[i]
        if t.text == "unsafe" and i + 1 < n and toks[i + 1].text == "{":
            c = match_close(toks, i + 1)
            inner = toks[i + 2:c]
            txt = [x.text for x in inner]
            if len(txt) > 6 and txt[:4] == ["slice", "::", "from_raw_parts", "("] and inner[-1].text == ")":
                args = inner[4:-1]
                # E . as_ptr ( ) as * const _ , N
                try:
                    k = next(j for j in range(len(args)) if [x.text for x in args[j:j + 8]] == [".", "as_ptr", "(", ")", "as", "*", "const", "_"])
                except StopIteration:
                    k = None
                if k is not None and args[k + 8].text == ",":
                    e = args[:k]
                    cnt = args[k + 9:]
                    log.add("R21", t, render(toks[i:c + 1]))
                    out += gen("verif_from_raw_parts(", t, t.ws) + e + gen(",", t, "") + cnt + gen(")", t, "")
                    i = c + 1
                    continue
        out.append(t); i += 1
    return out

def r22_xor_zip(toks, log):
    """R22: the statement `A.iter_mut().zip(B).for_each(|(l, r)| *l ^= r);` (iterator adapters, outside Verus) ->
    `A.v_xor_with(B);` (shim trait VXor, assumed contract: A[i] ^= B[i] for i < min(len))."""
    out = []
    i = 0
    n = len(toks)
    pat = [".", "iter_mut", "(", ")", ".", "zip", "("]
    tail = [".", "for_each", "(", "|", "(", "l", ",", "r", ")", "|", "*", "l", "^=", "r", ")"]
    while i < n:
        t = toks[i]
        if t.kind == "id" and [x.text for x in toks[i + 1:i + 1 + len(pat)]] == pat:
            zo = i + len(pat)
            zc = match_close(toks, zo)
            if [x.text for x in toks[zc + 1:zc + 1 + len(tail)]] == tail:
                log.add("R22", t, render(toks[i:zc + 1 + len(tail)]))
                out += gen(t.text + ".v_xor_with(", t, t.ws) + toks[zo + 1:zc] + gen(")", t, "")
                i = zc + 1 + len(tail)
                continue
        out.append(t); i += 1
    return out

def r23b_str_literals(toks, log):
    """R23b (str_ops items): a string literal -> call of a generated `external_body fn verif_str_<sha>() -> &'static str` whose postcondition
    lists the literal's UTF-8 bytes (read from /repo)."""
    import ast, hashlib
    out = []
    fns = {}
    for i, t in enumerate(toks):
        if t.kind == "str" and t.text.startswith('"'):
            val = ast.literal_eval(t.text).encode("utf-8")
            name = "verif_str_" + hashlib.sha256(val).hexdigest()[:10]
            seen = log.__dict__.setdefault("lits", set())
            if name not in fns and name not in seen:
                seen.add(name)
                seq = ", ".join("%du8" % b for b in val)
                fns[name] = "#[verifier::external_body] fn %s() -> (r: &'static str) ensures strb(r) =~= seq![%s] { %s }\n" % (name, seq, t.text)
            log.add("R23", t, t.text)
            out += gen(name + "()", t)
            continue
        out.append(t)
    if fns and out:
        pre = []
        for name in sorted(fns):
            pre += gen(fns[name], out[0], "\n")
        lead = out[0].ws
        out[0] = out[0].clone(ws="\n")
        pre[0] = pre[0].clone(ws=lead)
        out = pre + out
    return out

STR_METHODS = {"rfind": "v_rfind", "find": "v_find", "ends_with": "v_ends_with", "len": "v_len", "to_owned": "v_to_owned", "parse": "v_parse", "split": "v_split", "rsplit": "v_rsplit"}
def r23_str_ops(toks, log, names):
    """R23 (only for items whose selector says `str_ops: [names]`): std `str` operations on the listed `&str` variables become calls of the
    byte-level shim trait VStr (shims/strs.rs): `.rfind(` -> `.v_rfind(` .. on any receiver chain starting at a listed name,
    `[&]X[a..b]` -> `X.v_sub(a, b)` (missing bounds: 0 / X.v_len()), `"lit" == X` -> `X.v_eq("lit")`."""
    out = []
    i = 0
    n = len(toks)
    def is_range_index(k):
        # toks[k] == '[' ; returns (close, lo_toks, hi_toks) if the content is a range
        c = match_close(toks, k)
        depth = 0
        for j in range(k + 1, c):
            if toks[j].text in OPEN: depth += 1
            elif toks[j].text in (")", "]", "}"): depth -= 1
            elif toks[j].text == ".." and depth == 0:
                return c, toks[k + 1:j], toks[j + 1:c]
        return None
    while i < n:
        t = toks[i]
        # "lit" == X
        if t.kind == "str" and i + 2 < n and toks[i + 1].text == "==" and toks[i + 2].kind == "id" and toks[i + 2].text in names:
            log.add("R23", t, "str ==")
            out += gen(toks[i + 2].text + ".v_eq(", t, t.ws) + [t.clone(ws="")] + gen(")", t, "")
            i += 3
            continue
        # [&] X [ range ]
        amp = t.text == "&" and i + 2 < n and toks[i + 1].kind == "id" and toks[i + 1].text in names and toks[i + 2].text == "["
        bare = t.kind == "id" and t.text in names and i + 1 < n and toks[i + 1].text == "[" and (i == 0 or toks[i - 1].text not in (".", "::"))
        if amp or bare:
            k = i + 2 if amp else i + 1
            r = is_range_index(k)
            if r:
                c, lo, hi = r
                x = toks[k - 1]
                log.add("R23", t, "str range index")
                lo_t = r23_str_ops([y.clone() for y in lo], log, names) if lo else gen("0", t, "")
                hi_t = r23_str_ops([y.clone() for y in hi], log, names) if hi else gen(x.text + ".v_len()", t, "")
                out += gen(x.text + ".v_sub(", t, t.ws) + lo_t + gen(",", t, "") + hi_t + gen(")", t, "")
                i = c + 1
                continue
        # .method(  after a receiver: only rename; the receiver types are checked by rustc (VStr is implemented for str only)
        if t.text == "." and i + 2 < n and toks[i + 1].kind == "id" and toks[i + 1].text in STR_METHODS and toks[i + 2].text == "(":
            # receiver must start at a listed name: walk back over `name`, `name.v_sub(...)`
            j = len(out) - 1
            ok = False
            if j >= 0 and out[j].kind == "id" and out[j].text in names:
                ok = True
            elif j >= 0 and out[j].text == ")":
                # find matching '(' in out
                d = 0
                while j >= 0:
                    if out[j].text == ")": d += 1
                    elif out[j].text == "(":
                        d -= 1
                        if d == 0: break
                    j -= 1
                if j >= 3 and out[j - 1].text == "v_sub" and out[j - 2].text == "." and out[j - 3].text in names:
                    ok = True
            if ok:
                log.add("R23", t, "." + toks[i + 1].text)
                out.append(t)
                name = STR_METHODS[toks[i + 1].text]
                if name in ("v_rfind", "v_find", "v_ends_with", "v_split", "v_rsplit"):
                    # the pattern literal decides the shim: char -> _c, string -> _s
                    name += "_c" if toks[i + 3].kind == "chr" else "_s"
                out.append(toks[i + 1].clone(text=name))
                i += 2
                continue
        out.append(t); i += 1
    return out

def r24_hoist_local_types(toks, log):
    """R24: an `enum X { .. }` / `struct X { .. }` item statement inside a fn body (Verus: "internal item statements" unsupported) is moved in front
    of the enclosing item, unchanged."""
    i = 0
    n = len(toks)
    # only for pieces that are a single fn item
    k = 0
    while k < n and not (toks[k].kind == "id" and toks[k].text == "fn"):
        if toks[k].text in ("impl", "mod", "trait", "struct", "enum"):
            return toks
        k += 1
    if k >= n:
        return toks
    body = k
    while body < n and toks[body].text != "{":
        if toks[body].text in ("(", "["):
            body = match_close(toks, body)
        body += 1
    if body >= n:
        return toks
    close = match_close(toks, body)
    hoisted = []
    out_body = []
    j = body + 1
    while j < close:
        t = toks[j]
        if t.kind == "id" and t.text in ("enum", "struct") and toks[j + 1].kind == "id" and toks[j + 2].text == "{" and toks[j - 1].text in (";", "{", "}"):
            c = match_close(toks, j + 2)
            log.add("R24", t, "local %s %s hoisted" % (t.text, toks[j + 1].text))
            item = [x.clone() for x in toks[j:c + 1]]
            item[0] = item[0].clone(ws="\n")
            hoisted += item
            j = c + 1
            continue
        out_body.append(t); j += 1
    if not hoisted:
        return toks
    first = toks[0]
    hoisted[0] = hoisted[0].clone(ws=first.ws)
    rest = [first.clone(ws="\n")] + toks[1:body + 1] + out_body + toks[close:]
    return hoisted + rest

def r25_index_mut_range(toks, log):
    """R25: mutable range indexing (IndexMut<Range..> is outside Verus): `&mut X[a..b]` -> `X.v_range_mut(a, b)` (missing bounds: 0 / X.len());
    the re-slicing assignment `X = &mut X[a..];` -> `X = verif_reslice_mut(X, a);` (the mutable slice is moved in and handed back shorter)."""
    out = []
    i = 0
    n = len(toks)
    while i < n:
        t = toks[i]
        if t.text == "&" and i + 3 < n and toks[i + 1].text == "mut" and toks[i + 2].kind == "id" and toks[i + 3].text == "[":
            x = toks[i + 2]
            c = match_close(toks, i + 3)
            depth = 0
            split = None
            for j in range(i + 4, c):
                if toks[j].text in OPEN: depth += 1
                elif toks[j].text in (")", "]", "}"): depth -= 1
                elif toks[j].text == ".." and depth == 0:
                    split = j; break
            if split is not None:
                lo = toks[i + 4:split]
                hi = toks[split + 1:c]
                # `X = &mut X[a..]`
                if len(out) >= 2 and out[-1].text == "=" and out[-2].kind == "id" and out[-2].text == x.text and lo and not hi:
                    log.add("R25", t, "reslice " + x.text)
                    out += gen("verif_reslice_mut(" + x.text + ",", t, t.ws) + [y.clone() for y in lo] + gen(")", t, "")
                else:
                    log.add("R25", t, "&mut " + x.text + "[range]")
                    lo_t = [y.clone() for y in lo] if lo else gen("0", t, "")
                    hi_t = [y.clone() for y in hi] if hi else gen(x.text + ".len()", t, "")
                    out += gen(x.text + ".v_range_mut(", t, t.ws) + lo_t + gen(",", t, "") + hi_t + gen(")", t, "")
                i = c + 1
                continue
        out.append(t); i += 1
    return out

def r6_derives_and_attrs(toks, log, keep_derives=None):
    out = []
    i = 0
    while i < len(toks):
        t = toks[i]
        if t.text == "#" and i + 2 < len(toks) and toks[i + 1].text == "[":
            close = match_close(toks, i + 1)
            name = toks[i + 2].text
            if name == "derive":
                ids = [x.text for x in toks[i + 4:close - 1] if x.kind == "id"]
                keep = [x for x in ids if x in (KEEP_DERIVES if keep_derives is None else keep_derives)]
                if keep != ids:
                    log.add("R6", t, render(toks[i:close + 1]))
                if keep:
                    out += gen("#[derive(%s)]" % ", ".join(keep), t)
                elif close + 1 < len(toks):
                    toks[close + 1] = toks[close + 1].clone(ws=t.ws)
                i = close + 1
                continue
            if name == "cfg" and i > 0:
                # a cfg-gated field / statement inside an item: keep it or drop it together with the attribute
                import extract as _X
                val, _ = _X._cfg_eval(toks, i + 4)
                if not val:
                    j = close + 1
                    depth = 0
                    while j < len(toks):
                        x = toks[j].text
                        if x in OPEN: depth += 1
                        elif x in (")", "]", "}"):
                            if depth == 0: break
                            depth -= 1
                        elif x in (",", ";") and depth == 0:
                            j += 1; break
                        j += 1
                    log.add("R6", t, render(toks[i:j]))
                    if j < len(toks):
                        toks[j] = toks[j].clone(ws=t.ws)
                    i = j
                    continue
            if name in ("serde", "allow", "inline", "must_use", "doc", "rustfmt", "cfg", "cfg_attr"):
                if name in ("serde",):
                    log.add("R6", t, render(toks[i:close + 1]))
                if name == "default" and False:
                    pass
                if close + 1 < len(toks):
                    toks[close + 1] = toks[close + 1].clone(ws=t.ws)
                i = close + 1
                continue
        out.append(t); i += 1
    return out

def r4_dyn(toks, log):
    """`dyn Trait` -> `impl Trait` inside fn signatures (between `fn` and the body `{`).
    When a `dyn Trait` occurs inside an `impl Fn*(..)` bound (where `impl Trait` is not allowed and the closure's
    parameter must be the same type as the object passed next to it), every `dyn Trait` of that signature becomes one
    named fn-level type parameter `VDyn<Trait>: Trait` instead.
    `trait X: Display` / `: Debug` supertraits are dropped (formatting is not verified)."""
    out = list(toks)
    i = 0
    while i < len(out):
        if out[i].kind == "id" and out[i].text == "trait" and i + 3 < len(out) and out[i + 1].kind == "id" and out[i + 2].text == ":" \
                and out[i + 3].text in ("Display", "Debug") and out[i + 4].text == "{":
            log.add("R4", out[i + 2], render(out[i + 2:i + 4]))
            del out[i + 2:i + 4]
            continue
        if out[i].kind == "id" and out[i].text == "fn" and i + 1 < len(out) and out[i + 1].kind == "id":
            j = i + 1
            named = set()
            # first pass: which traits occur as `dyn T` inside an `impl Fn..( .. )` bound
            k = i + 2
            end = k
            while end < len(out) and out[end].text not in ("{", ";"):
                if out[end].text in ("(", "["):
                    end = match_close(out, end)
                end += 1
            k = i + 2
            while k < end:
                if out[k].kind == "id" and out[k].text == "impl" and out[k + 1].text in ("FnOnce", "Fn", "FnMut") and out[k + 2].text == "(":
                    c = match_close(out, k + 2)
                    for m in range(k + 2, c):
                        if out[m].text == "dyn":
                            named.add(out[m + 1].text)
                    k = c
                k += 1
            while j < len(out) and out[j].text not in ("{", ";"):
                if out[j].text in ("(", "["):
                    close = match_close(out, j)
                    k = j
                    while k < close:
                        if out[k].kind == "id" and out[k].text == "dyn":
                            log.add("R4", out[k], render(out[k:k + 2]))
                            if out[k + 1].text in named:
                                out[k + 1] = out[k + 1].clone(text="VDyn" + out[k + 1].text, ws=out[k].ws)
                                del out[k]
                                close -= 1
                                continue
                            out[k] = out[k].clone(text="impl")
                        k += 1
                    j = close
                j += 1
            if named:
                ins = []
                for nm in sorted(named):
                    ins += gen("VDyn%s: %s" % (nm, nm), out[i + 1], "")
                if out[i + 2].text == "<":
                    # existing generics: append
                    g = i + 2
                    depth = 0
                    while True:
                        if out[g].text == "<": depth += 1
                        elif out[g].text == ">":
                            depth -= 1
                            if depth == 0: break
                        g += 1
                    out[g:g] = gen(", ", out[i + 1], "") + ins
                    j += len(ins) + 1
                else:
                    out[i + 2:i + 2] = gen("<", out[i + 1], "") + ins + gen(">", out[i + 1], "")
                    j += len(ins) + 2
            i = j
        i += 1
    return out

def r16b_closure_wildcards(toks, log):
    """R16b: a closure whose only parameter is the wildcard `|_|` gets a named parameter (Verus supports only variables there)."""
    out = []
    n = 0
    for i, t in enumerate(toks):
        if t.text == "_" and 0 < i < len(toks) - 1 and toks[i - 1].text == "|" and toks[i + 1].text in ("|", ":") and (i < 2 or toks[i - 2].text in ("(", ",", "=")):
            log.add("R16", t, "|_|")
            out.append(t.clone(text="_verif_ign%d" % n)); n += 1
        else:
            out.append(t)
    return out

R12 = {"to_be_bytes", "to_le_bytes", "from_be_bytes", "from_le_bytes"}
def r12_bytes(toks, log):
    out = []
    for i, t in enumerate(toks):
        if t.kind == "id" and t.text in R12 and i > 0 and toks[i - 1].text in (".", "::"):
            log.add("R12", t, t.text)
            out.append(t.clone(text="v_" + t.text))
        else:
            out.append(t)
    return out

def r8_inherent(toks, log, assoc):
    """`impl Trait<..> for T { type A = X; fn .. }` -> `impl T { fn .. }`, Self::A -> X.
    Applied to a single extracted impl item whose unit.json entry says inherent=true."""
    # find `impl`
    i = 0
    while i < len(toks) and toks[i].text != "impl":
        if toks[i].text in ("fn", "struct", "enum", "const", "type", "trait"):
            return toks
        i += 1
    if i >= len(toks):
        return toks
    j = i + 1
    # optional generics
    depth = 0
    k = j
    if toks[k].text == "<":
        while True:
            if toks[k].text == "<": depth += 1
            elif toks[k].text == ">":
                depth -= 1
                if depth == 0:
                    k += 1; break
            k += 1
    # find `for` at depth 0 before `{`
    f = k
    d = 0
    while not (toks[f].text == "for" and d == 0):
        if toks[f].text == "<": d += 1
        elif toks[f].text == ">": d -= 1
        elif toks[f].text == "{":
            return toks   # inherent already
        f += 1
    log.add("R8", toks[i], render(toks[i:f + 1]))
    head = toks[:k]
    rest = toks[f + 1:]
    rest[0] = rest[0].clone(ws=" ")
    out = head + rest
    # associated types
    b = 0
    while out[b].text != "{":
        b += 1
    close = match_close(out, b)
    amap = dict(assoc or {})
    res = out[:b + 1]
    m = b + 1
    while m < close:
        if out[m].text == "type" and out[m + 2].text == "=":
            e = m
            while out[e].text != ";":
                e += 1
            amap[out[m + 1].text] = out[m + 3:e]
            log.add("R8", out[m], render(out[m:e + 1]))
            m = e + 1
            continue
        res.append(out[m]); m += 1
    res += out[close:]
    # Self::Name
    fin = []
    m = 0
    while m < len(res):
        if res[m].text == "Self" and m + 2 < len(res) and res[m + 1].text == "::" and res[m + 2].text in amap:
            rep = amap[res[m + 2].text]
            if isinstance(rep, str):
                rep = gen(rep, res[m])
            rep = [x.clone() for x in rep]
            rep[0].ws = res[m].ws
            fin += rep
            m += 3
            continue
        fin.append(res[m]); m += 1
    return fin

LIT_RE = re.compile(r"^-?\s*[0-9][0-9a-fA-FxXob_]*(u8|u16|u32|u64|u128|usize|i8|i16|i32|i64|i128|isize)?$")

def r5_consts(pieces_toks, const_context, log, rustc="rustc"):
    """Replace non-literal integer const initialisers by the value rustc computes.
    const_context: source text of all const items of the files involved."""
    wanted = []
    for toks in pieces_toks:
        i = 0
        while i < len(toks):
            if toks[i].text == "const" and i + 2 < len(toks) and toks[i + 1].kind == "id" and toks[i + 2].text == ":" \
                    and (i == 0 or toks[i - 1].text in (";", "}", "{", "]")):
                e = i
                while toks[e].text != ";":
                    if toks[e].text in OPEN:
                        e = match_close(toks, e)
                    e += 1
                eq = i
                while toks[eq].text != "=":
                    eq += 1
                ty = render(toks[i + 3:eq]).strip()
                init = render(toks[eq + 1:e]).strip()
                if ty in ("u8", "u16", "u32", "u64", "u128", "usize", "i32", "i64") and not LIT_RE.match(init):
                    wanted.append((toks, i, eq, e, toks[i + 1].text, ty))
                i = e
            i += 1
    if not wanted:
        return
    names = sorted({w[4] for w in wanted})
    prog = "#![allow(dead_code, unused)]\n" + "\n".join(const_context) + "\nfn main(){\n" + \
        "".join('println!("%s={}", %s);\n' % (n, n) for n in names) + "}\n"
    key = hashlib.sha256(prog.encode()).hexdigest()[:16]
    cdir = os.path.join(os.path.dirname(os.path.dirname(os.path.abspath(__file__))), ".cache", "consts")
    os.makedirs(cdir, exist_ok=True)
    outp = os.path.join(cdir, key + ".txt")
    if not os.path.exists(outp):
        src = os.path.join(cdir, key + ".rs")
        open(src, "w").write(prog)
        exe = os.path.join(cdir, key + ".bin")
        r = subprocess.run([rustc, "--edition", "2021", "-A", "warnings", "-o", exe, src], capture_output=True, text=True)
        if r.returncode != 0:
            raise RuntimeError("R5: rustc failed on const probe:\n" + r.stderr[:2000])
        o = subprocess.run([exe], capture_output=True, text=True).stdout
        open(outp, "w").write(o)
        os.remove(exe)
    vals = dict(l.split("=", 1) for l in open(outp).read().split())
    # apply back to front per token list
    for toks, i, eq, e, name, ty in sorted(wanted, key=lambda w: -w[1]):
        log.add("R5", toks[i], render(toks[i:e + 1]))
        toks[eq + 1:e] = gen(" " + vals[name], toks[eq])
        toks[eq + 1].ws = " "

def r18_bytestr_consts(toks, log):
    """R18: `const X: &[u8] = b"..";` -> `#[verifier::external_body] exec const X: &'static [u8] ensures X@ =~= seq![..the literal's bytes..] { b".." }`
    (Verus neither evaluates byte-string literals nor lets a slice-typed const be dual-mode; the byte values are read from the literal in /repo)."""
    import ast
    i = 0
    while i + 9 < len(toks):
        t = toks[i]
        if t.kind == "id" and t.text == "const" and toks[i + 1].kind == "id" and toks[i + 2].text == ":" and toks[i + 3].text == "&" \
                and toks[i + 4].text == "[" and toks[i + 5].text == "u8" and toks[i + 6].text == "]" and toks[i + 7].text == "=" \
                and toks[i + 8].kind == "str" and toks[i + 8].text.startswith('b"') and toks[i + 9].text == ";":
            lit = toks[i + 8].text
            try:
                val = ast.literal_eval(lit)
            except Exception:
                raise RuntimeError("R18: cannot evaluate byte string literal %s" % lit)
            name = toks[i + 1].text
            seq = ", ".join("%du8" % b for b in val)
            log.add("R18", t, render(toks[i:i + 10]))
            rep = gen("#[verifier::external_body] exec const %s: &'static [u8] ensures %s@ =~= seq![%s] { %s }" % (name, name, seq, lit), t)
            a = i
            if a > 0 and toks[a - 1].text == "pub":      # visibility of a const has no meaning inside the flattened unit
                rep[0] = rep[0].clone(ws=toks[a - 1].ws)
                a -= 1
            toks = toks[:a] + rep + toks[i + 10:]
            i = a + len(rep)
            continue
        i += 1
    return toks

def r18b_bytestr_inline(toks, log):
    """R18b: a byte-string literal inside a function body -> call of a generated `#[verifier::external_body] fn verif_lit_<sha>() -> &'static [u8]`
    whose postcondition gives the literal's bytes (read from /repo); the generated fn is emitted in front of the item."""
    import ast, hashlib
    out = []
    fns = {}
    for i, t in enumerate(toks):
        if t.kind == "str" and t.text.startswith('b"') and not (i >= 1 and toks[i - 1].text == "{" and i >= 2 and toks[i - 2].text == "]"):
            # (literals inside an R18 const body are preceded by `] {` ... handled by the check below)
            prev = [x.text for x in toks[max(0, i - 12):i]]
            if "external_body" in " ".join(x.text for x in toks[max(0, i - 80):i]) and "exec" in prev + [x.text for x in toks[max(0, i - 80):i]] and toks[i - 1].text == "{":
                out.append(t); continue
            try:
                val = ast.literal_eval(t.text)
            except Exception:
                raise RuntimeError("R18b: cannot evaluate byte string literal %s" % t.text)
            name = "verif_lit_" + hashlib.sha256(val).hexdigest()[:10]
            seen = log.__dict__.setdefault("lits", set())
            if name not in fns and name not in seen:
                seen.add(name)
                seq = ", ".join("%du8" % b for b in val)
                fns[name] = "#[verifier::external_body] fn %s() -> (r: &'static [u8]) ensures r@ =~= seq![%s] { %s }\n" % (name, seq, t.text)
            log.add("R18", t, t.text)
            out += gen(name + "()", t)
            continue
        out.append(t)
    if fns and out:
        pre = []
        for name in sorted(fns):
            pre += gen(fns[name], out[0], "\n")
        lead = out[0].ws
        out[0] = out[0].clone(ws="\n")
        pre[0] = pre[0].clone(ws=lead)
        out = pre + out
    return out

R19 = {"try_into"}
def r19_try_into(toks, log):
    """R19: `.try_into()` -> `.v_try_into()` (shim trait VTryInto: slice / Vec<u8> -> [u8; N], Ok iff the lengths agree)."""
    out = []
    for i, t in enumerate(toks):
        if t.kind == "id" and t.text == "try_into" and i > 0 and toks[i - 1].text == "." and toks[i + 1].text == "(" and toks[i + 2].text == ")":
            log.add("R19", t, t.text)
            out.append(t.clone(text="v_try_into"))
        else:
            out.append(t)
    return out

# R5b: associated consts of RustCrypto types that the repository's rustc cannot evaluate without the dependency crates.
# TRUSTED table (AES-GCM / ChaCha20-Poly1305: 96-bit nonce, 128-bit tag; SHA-2 output sizes), listed in evidence.
R5B = {("Aes128Gcm", "AeadCore", "NonceSize"): 12, ("Aes128Gcm", "AeadCore", "TagSize"): 16,
       ("Aes256Gcm", "AeadCore", "NonceSize"): 12, ("Aes256Gcm", "AeadCore", "TagSize"): 16,
       ("ChaCha20Poly1305", "AeadCore", "NonceSize"): 12, ("ChaCha20Poly1305", "AeadCore", "TagSize"): 16,
       ("Aes128Gcm", "KeySizeUser", "KeySize"): 16, ("Aes256Gcm", "KeySizeUser", "KeySize"): 32, ("ChaCha20Poly1305", "KeySizeUser", "KeySize"): 32,
       ("ChaCha8Poly1305", "KeySizeUser", "KeySize"): 32, ("XChaCha8Poly1305", "KeySizeUser", "KeySize"): 32, ("XChaCha20Poly1305", "KeySizeUser", "KeySize"): 32,
       ("ChaCha8Poly1305", "AeadCore", "NonceSize"): 12, ("ChaCha8Poly1305", "AeadCore", "TagSize"): 16,
       ("XChaCha8Poly1305", "AeadCore", "NonceSize"): 24, ("XChaCha20Poly1305", "AeadCore", "NonceSize"): 24,
       ("XChaCha8Poly1305", "AeadCore", "TagSize"): 16, ("XChaCha20Poly1305", "AeadCore", "TagSize"): 16,
       ("Sha224", "OutputSizeUser", "OutputSize"): 28, ("Sha256", "OutputSizeUser", "OutputSize"): 32, ("Md5", "OutputSizeUser", "OutputSize"): 16}
def r5b_assoc_consts(toks, log):
    out = []
    i = 0
    while i < len(toks):
        t = toks[i]
        if t.text == "<" and i + 8 < len(toks) and toks[i + 2].text == "as" and toks[i + 4].text == ">" and toks[i + 5].text == "::" \
                and toks[i + 7].text == "::" and toks[i + 8].text == "USIZE":
            key = (toks[i + 1].text, toks[i + 3].text, toks[i + 6].text)
            if key in R5B:
                log.add("R5b", t, render(toks[i:i + 9]))
                out += gen(str(R5B[key]), t)
                i += 9
                continue
        # R5c: `Ipv4Addr::UNSPECIFIED` (an associated const Verus does not know) -> a shim function that returns it
        if t.text == "Ipv4Addr" and i + 2 < len(toks) and toks[i + 1].text == "::" and toks[i + 2].text == "UNSPECIFIED":
            log.add("R5b", t, "Ipv4Addr::UNSPECIFIED")
            out += gen("verif_ipv4_unspecified()", t)
            i += 3
            continue
        out.append(t); i += 1
    return out

def r20_ghost_thread(toks, log, cfg):
    """R20: interior-mutable state reached through `&self` (the salt replay cache behind a Mutex) cannot be described by a
    Verus contract; it is threaded explicitly as a ghost token instead.  cfg = {"param": "Tracked(vcache): Tracked<&mut SaltCache>",
    "arg": "Tracked(vcache)", "defs": [fn names that receive the extra parameter], "calls": {method name: null | [accepted first-argument texts]}}.
    The parameter is appended to the listed definitions and the argument to every listed method call, wherever the call stands."""
    out = list(toks)
    i = 0
    while i < len(out):
        t = out[i]
        # definitions
        if t.kind == "id" and t.text == "fn" and i + 1 < len(out) and out[i + 1].text in cfg.get("defs", []):
            j = i + 2
            if out[j].text == "<":
                d = 0
                while True:
                    if out[j].text == "<": d += 1
                    elif out[j].text == ">":
                        d -= 1
                        if d == 0: break
                    j += 1
                j += 1
            if out[j].text == "(":
                c = match_close(out, j)
                k = c - 1
                ins = gen((", " if out[k].text != "," else " ") + cfg["param"], out[k], "")
                out[c:c] = ins
                log.add("R20", out[i + 1], "fn %s: ghost parameter" % out[i + 1].text)
                i = c + len(ins)
                continue
        # free-function calls `name (` / `name ::< .. > (` of the functions listed under "fcalls"
        # "qcalls": path-qualified calls `a :: name (`, listed as "a::name" (the path as written in the source, before R11 flattens it)
        qhit = (t.kind == "id" and i >= 2 and out[i - 1].text == "::" and (out[i - 2].text + "::" + t.text) in cfg.get("qcalls", []))
        if qhit or (t.kind == "id" and t.text in cfg.get("fcalls", []) and not (i > 0 and out[i - 1].text in (".", "fn", "::"))):
            j = i + 1
            if j + 1 < len(out) and out[j].text == "::" and out[j + 1].text == "<":
                d = 0; j += 1
                while True:
                    if out[j].text == "<": d += 1
                    elif out[j].text == ">":
                        d -= 1
                        if d == 0: break
                    j += 1
                j += 1
            if j < len(out) and out[j].text == "(":
                c = match_close(out, j)
                k = c - 1
                ins = gen((", " if (c > j + 1 and out[k].text != ",") else " ") + cfg["arg"], out[k], "")
                out[c:c] = ins
                log.add("R20", t, "call %s: ghost argument" % t.text)
                i = j + 1
                continue
        # calls  `. name (`
        if t.text == "." and i + 2 < len(out) and out[i + 1].kind == "id" and out[i + 1].text in cfg.get("calls", {}) and out[i + 2].text == "(":
            name = out[i + 1].text
            c = match_close(out, i + 2)
            firsts = cfg["calls"][name]
            ok = True
            if firsts:
                # text of the first argument
                k = i + 3
                d = 0
                first = []
                while k < c and not (out[k].text == "," and d == 0):
                    if out[k].text in OPEN: d += 1
                    elif out[k].text in (")", "]", "}"): d -= 1
                    first.append(out[k].text); k += 1
                ok = "".join(first) in firsts
            if ok:
                k = c - 1
                ins = gen((", " if (c > i + 3 and out[k].text != ",") else " ") + cfg["arg"], out[k], "")
                out[c:c] = ins
                log.add("R20", out[i + 1], "call %s: ghost argument" % name)
                i = i + 3
                continue
        i += 1
    return out

def r25b_vec_range(toks, log, names):
    """R25b (only items whose selector lists `vec_range: [vars]`): a method call on a mutable range of a listed Vec<u8> variable,
    `V[a..b].copy_from_slice(..)` -> `V.v_range_mut(a, b).copy_from_slice(..)` (IndexMut<Range..> for Vec is outside Verus; arrays are fine)."""
    out = []
    i = 0
    n = len(toks)
    while i < n:
        t = toks[i]
        if t.kind == "id" and t.text in names and i + 1 < n and toks[i + 1].text == "[" and not (i > 0 and toks[i - 1].text in (".", "::", "&", "mut")):
            c = match_close(toks, i + 1)
            split = None
            depth = 0
            for j in range(i + 2, c):
                if toks[j].text in OPEN: depth += 1
                elif toks[j].text in (")", "]", "}"): depth -= 1
                elif toks[j].text == ".." and depth == 0:
                    split = j; break
            if split is not None and c + 2 < n and toks[c + 1].text == "." and toks[c + 2].text == "copy_from_slice":
                lo = toks[i + 2:split]; hi = toks[split + 1:c]
                log.add("R25", t, render(toks[i:c + 1]))
                lo_t = [y.clone() for y in lo] if lo else gen("0", t, "")
                hi_t = [y.clone() for y in hi] if hi else gen(t.text + ".len()", t, "")
                out += gen(t.text + ".v_range_mut(", t, t.ws) + lo_t + gen(",", t, "") + hi_t + gen(")", t, "")
                i = c + 1
                continue
        out.append(t); i += 1
    return out

def r28_box_leak(toks, log):
    """R28: `Box::leak::<'static>(Box::new(E))` / `Box::leak(Box::new(E))` -> `verif_leak(E)` (a value moved to the heap for the rest of the
    process: the shim hands back a reference to exactly that value)."""
    out = []
    i = 0
    n = len(toks)
    while i < n:
        if toks[i].text == "Box" and i + 2 < n and toks[i + 1].text == "::" and toks[i + 2].text == "leak":
            j = i + 3
            if toks[j].text == "::" and toks[j + 1].text == "<":
                d = 0
                k = j + 1
                while True:
                    if toks[k].text == "<": d += 1
                    elif toks[k].text == ">":
                        d -= 1
                        if d == 0: break
                    k += 1
                j = k + 1
            if toks[j].text == "(" and [t.text for t in toks[j + 1:j + 5]] == ["Box", "::", "new", "("]:
                c = match_close(toks, j)
                ci = match_close(toks, j + 4)
                if ci == c - 1:
                    log.add("R28", toks[i], render(toks[i:c + 1]))
                    out += gen("verif_leak(", toks[i]) + [t.clone() for t in toks[j + 5:ci]] + gen(")", toks[c], "")
                    i = c + 1
                    continue
        out.append(toks[i]); i += 1
    return out

def r29_deasync(toks, log):
    """R29 (only items whose selector says `deasync: true`): the body of ONE task seen as sequential code.
    `async fn` -> `fn`; `.await` is dropped (an awaited call becomes a call of a shim that returns the future's output: what other tasks do
    meanwhile is whatever the shim's contract allows); `tokio::select! { P1 = F1 => B1, P2 = F2 => B2 .. }` ->
    `match verif_select(n) { 0 => { let P1 = F1; B1 } .. _ => { let Pn = Fn; Bn } }` (any branch may be the one that completes;
    dropping the futures of the other branches is not modelled)."""
    out = []
    i = 0
    n = len(toks)
    while i < n:
        t = toks[i]
        if t.text == "async" and i + 1 < n and toks[i + 1].text == "fn":
            log.add("R29", t, "async fn")
            toks[i + 1] = toks[i + 1].clone(ws=t.ws)
            i += 1
            continue
        if t.text == "." and i + 1 < n and toks[i + 1].text == "await":
            log.add("R29", t, ".await")
            i += 2
            continue
        # R29b: `tokio::time::timeout(D, async { BODY }).await?` -> `{ verif_timeout(D)?; BODY }`: the deadline may strike (Err) - modelled as striking
        # before BODY runs; a `?` inside BODY leaves the function with the same error the original returns through the async block.
        # Only sound where the expression is the value the function returns, which is checked here: it must be followed by `}` closing the fn body.
        if t.text == "tokio" and i + 6 < n and [x.text for x in toks[i + 1:i + 6]] == ["::", "time", "::", "timeout", "("]:
            c = match_close(toks, i + 5)
            # split args at the top-level comma
            d = 0; comma = None
            for k in range(i + 6, c):
                x = toks[k].text
                if x in OPEN: d += 1
                elif x in (")", "]", "}"): d -= 1
                elif x == "," and d == 0 and comma is None: comma = k
            if comma is not None and toks[comma + 1].text == "async" and toks[comma + 2].text == "{" and match_close(toks, comma + 2) in (c - 1, c - 2) \
                    and [x.text for x in toks[c + 1:c + 4]] == [".", "await", "?"] and toks[c + 4].text == "}":
                bo = comma + 2; bc = match_close(toks, bo)
                log.add("R29", t, "timeout(.., async {..}).await? in return position")
                out += gen("{ verif_timeout(", t) + [x.clone() for x in toks[i + 6:comma]] + gen(")?;", toks[comma], "")
                out += r29_deasync([x.clone() for x in toks[bo + 1:bc]], log)
                out += gen("}", toks[bc], toks[bc].ws)
                i = c + 4
                continue
        # `tokio::join!(F1, F2, ..)` -> `(F1, F2, ..)`: all the futures run to completion; their interleaving is not modelled (they are evaluated one after the other)
        if t.text == "tokio" and i + 4 < n and [x.text for x in toks[i + 1:i + 4]] == ["::", "join", "!"] and toks[i + 4].text == "(":
            c = match_close(toks, i + 4)
            log.add("R29", t, "tokio::join!")
            out += gen("(", t) + r29_deasync([x.clone() for x in toks[i + 5:c]], log) + gen(")", toks[c], "")
            i = c + 1
            continue
        if t.text == "tokio" and i + 4 < n and [x.text for x in toks[i + 1:i + 4]] == ["::", "select", "!"] and toks[i + 4].text == "{":
            c = match_close(toks, i + 4)
            inner = toks[i + 5:c]
            branches = []
            k = 0
            m = len(inner)
            def depth_scan(k, stop):
                d = 0
                while k < m:
                    x = inner[k].text
                    if d == 0 and x in stop:
                        return k
                    if x in OPEN: d += 1
                    elif x in (")", "]", "}"): d -= 1
                    k += 1
                return k
            while k < m:
                e = depth_scan(k, ("=",))
                pat = inner[k:e]
                a = depth_scan(e + 1, ("=>",))
                fut = inner[e + 1:a]
                b = a + 1
                if b < m and inner[b].text == "{":
                    # find the matching close inside `inner`
                    d = 0; q = b
                    while True:
                        if inner[q].text in OPEN: d += 1
                        elif inner[q].text in (")", "]", "}"):
                            d -= 1
                            if d == 0: break
                        q += 1
                    body = inner[b:q + 1]
                    k = q + 1
                    if k < m and inner[k].text == ",": k += 1
                else:
                    q = depth_scan(b, (",",))
                    body = gen("{", inner[b], " ") + inner[b:q] + gen("}", inner[q - 1], " ")
                    k = q + 1
                branches.append((pat, fut, body))
            log.add("R29", t, "tokio::select! with %d branches" % len(branches))
            out += gen("match verif_select(%d) {" % len(branches), t)
            for bi, (pat, fut, body) in enumerate(branches):
                arm = ("%d" % bi) if bi + 1 < len(branches) else "_"
                out += gen(arm + " => { let", pat[0], pat[0].ws)
                pat2 = [x.clone() for x in pat]; pat2[0].ws = " "
                fut2 = r29_deasync([x.clone() for x in fut], log)
                body2 = r29_deasync([x.clone() for x in body], log)
                out += pat2 + gen("=", pat[-1], " ") + fut2 + gen(";", fut[-1], "") + body2 + gen("}", body[-1], " ")
            out += gen("}", toks[c], toks[c].ws)
            i = c + 1
            continue
        out.append(t); i += 1
    return out

def r31_drop_marker_bounds(toks, log, names):
    """R31 (selector option "drop_bounds": [..]): the auto-trait marker bounds named (`Unpin`) are removed from bound lists: `+ Unpin` / `Unpin +`.
    Verus has no notion of auto-trait impls at call sites; a marker bound has no methods and no run-time content."""
    out = []
    i = 0
    while i < len(toks):
        t = toks[i]
        if t.text == "+" and i + 1 < len(toks) and toks[i + 1].text in names and not (i + 2 < len(toks) and toks[i + 2].text in ("::", "<")):
            log.add("R31", t, "+ " + toks[i + 1].text)
            i += 2
            continue
        if t.kind == "id" and t.text in names and i + 1 < len(toks) and toks[i + 1].text == "+" and out and out[-1].text == ":":
            log.add("R31", t, t.text + " +")
            i += 2
            continue
        out.append(t); i += 1
    return out

def r30_clone_from(toks, log):
    """R30: the statement `RECV.clone_from(&E);` -> `RECV = E.clone();` (the documented default of Clone::clone_from; Verus has no clone_from)."""
    out = []
    i = 0
    n = len(toks)
    while i < n:
        t = toks[i]
        if t.text == "." and i + 3 < n and toks[i + 1].text == "clone_from" and toks[i + 2].text == "(" and toks[i + 3].text == "&":
            c = match_close(toks, i + 2)
            if c + 1 < n and toks[c + 1].text == ";":
                # receiver = tokens of `out` back to the statement start
                j = len(out)
                while j > 0 and out[j - 1].text not in (";", "{", "}"):
                    j -= 1
                if j < len(out):
                    log.add("R30", t, render(out[j:]) + render(toks[i:c + 1]))
                    arg = [x.clone() for x in toks[i + 4:c]]
                    arg[0] = arg[0].clone(ws=" ")
                    out += gen("=", t, " ") + arg + gen(".clone()", toks[c], "")
                    i = c + 1
                    continue
        out.append(t); i += 1
    return out

def r26_pin_self(toks, log):
    """R26: a poll-style method of an `Unpin` type: receiver `mut self: Pin<&mut Self>` -> `&mut self`
    (for an Unpin type Pin<&mut Self> derefs to &mut Self; pinning itself is not modelled)."""
    out = []
    i = 0
    n = len(toks)
    pat = ["self", ":", "Pin", "<", "&", "mut", "Self", ">"]
    while i < n:
        j = i + 1 if toks[i].text == "mut" else i
        if j + len(pat) <= n and [t.text for t in toks[j:j + len(pat)]] == pat and i > 0 and toks[i - 1].text == "(":
            log.add("R26", toks[i], render(toks[i:j + len(pat)]))
            out += gen("&mut self", toks[i])
            i = j + len(pat)
            continue
        out.append(toks[i]); i += 1
    return out

def r27_ready(toks, log):
    """R27: `ready!(E)` -> `(match E { Poll::Ready(t) => t, Poll::Pending => return Poll::Pending })` (the macro's definition)."""
    out = []
    i = 0
    while i < len(toks):
        if _is_macro(toks, i, {"ready"}) and toks[i + 2].text == "(":
            c = match_close(toks, i + 2)
            log.add("R27", toks[i], render(toks[i:c + 1]))
            inner = [t.clone() for t in toks[i + 3:c]]
            inner = r27_ready(inner, log)
            out += gen("(match", toks[i])
            if inner:
                inner[0] = inner[0].clone(ws=" ")
            out += inner
            out += gen("{ Poll::Ready(verif_ready) => verif_ready, Poll::Pending => return Poll::Pending })", toks[c], " ")
            i = c + 1
            continue
        out.append(toks[i]); i += 1
    return out

def apply_item_rewrites(toks, log, opts=None):
    opts = opts or {}
    toks = r6_derives_and_attrs(toks, log, opts.get("derives"))
    if opts.get("deasync"):
        toks = r29_deasync(toks, log)
    toks = r11_visibility(toks, log)
    toks = r18_bytestr_consts(toks, log)
    toks = r18b_bytestr_inline(toks, log)
    toks = r5b_assoc_consts(toks, log)
    toks = r19_try_into(toks, log)
    toks = r2_logs(toks, log)
    toks = r3_errors(toks, log)
    toks = r3b_error_fns(toks, log)
    toks = r14_concat(toks, log)
    toks = r21_raw_parts(toks, log)
    toks = r22_xor_zip(toks, log)
    toks = r25_index_mut_range(toks, log)
    if opts.get("vec_range"):
        toks = r25b_vec_range(toks, log, opts["vec_range"])
    toks = r24_hoist_local_types(toks, log)
    toks = r26_pin_self(toks, log)
    toks = r30_clone_from(toks, log)
    toks = r28_box_leak(toks, log)
    toks = r27_ready(toks, log)
    if opts.get("str_ops"):
        toks = r23_str_ops(toks, log, opts["str_ops"])
        toks = r23b_str_literals(toks, log)
    toks = r4_dyn(toks, log)
    toks = r16_pattern_params(toks, log)
    toks = r16b_closure_wildcards(toks, log)
    toks = r12_bytes(toks, log)
    if opts.get("drop_bounds"):
        toks = r31_drop_marker_bounds(toks, log, opts["drop_bounds"])
    if opts.get("ghost_thread"):
        toks = r20_ghost_thread(toks, log, opts["ghost_thread"])
    if opts.get("inherent"):
        toks = r8_inherent(toks, log, opts.get("assoc"))
        if opts.get("rename"):
            # R8b: a trait method that collides with an inherent fn of the same name gets the configured name
            # (definition `fn name` and `self.name(` calls inside this impl)
            ren = opts["rename"]
            out = []
            for i, t in enumerate(toks):
                if t.kind == "id" and t.text in ren and i > 0 and (toks[i - 1].text == "fn" or (toks[i - 1].text == "." and i > 1 and toks[i - 2].text == "self" and toks[i + 1].text == "(")):
                    log.add("R8", t, "method %s renamed" % t.text)
                    out.append(t.clone(text=ren[t.text]))
                else:
                    out.append(t)
            toks = out
    return toks


def r13_prefix_defs(toks, log, prefix, names, aliases=None):
    """R13a: top-level fn/const/static (and listed type) names of a flattened module get `<prefix>__`;
    bare uses of those names inside the same module are renamed too (fns: only calls / definitions)."""
    aliases = aliases or {}
    out = []
    for i, t in enumerate(toks):
        if t.kind == "id" and (t.text in names or t.text in aliases):
            prev = toks[i - 1].text if i > 0 else ""
            nxt = toks[i + 1].text if i + 1 < len(toks) else ""
            if prev in (".", "::"):
                out.append(t); continue
            if t.text in aliases and aliases[t.text].startswith("T:"):
                log.add("R13", t, t.text)
                out.append(t.clone(text=aliases[t.text][2:])); continue
            if t.text in aliases:
                if nxt in ("(", "::"):
                    log.add("R13", t, t.text)
                    out.append(t.clone(text=aliases[t.text])); continue
                out.append(t); continue
            kind = names[t.text]
            if kind == "fn":
                ok = prev == "fn" or nxt == "(" or (nxt == "::" and toks[i + 2].text == "<")
            elif kind in ("const", "static"):
                ok = not (nxt == ":" and prev in ("{", ",", "("))   # struct-literal field / named arg
            else:
                ok = True
            if ok:
                log.add("R13", t, t.text)
                out.append(t.clone(text=prefix + "__" + t.text))
                continue
        out.append(t)
    return out

def r13_paths(toks, log, paths):
    """R13b: module paths in front of an item name become the flattened prefix: `address::decode` -> `address__decode`.
    paths: list of (list-of-path-segments, prefix or "" to just drop the path)."""
    out = []
    i = 0
    n = len(toks)
    while i < n:
        matched = False
        for segs, prefix in paths:
            k = len(segs)
            if i + 2 * k < n and all(toks[i + 2 * a].text == segs[a] and toks[i + 2 * a + 1].text == "::" for a in range(k)) \
                    and toks[i + 2 * k].kind == "id" and (i == 0 or toks[i - 1].text != "::"):
                tgt = toks[i + 2 * k]
                log.add("R13", toks[i], "".join(x.text for x in toks[i:i + 2 * k + 1]))
                out.append(tgt.clone(text=(prefix + "__" + tgt.text) if prefix else tgt.text, ws=toks[i].ws))
                i += 2 * k + 1
                matched = True
                break
        if not matched:
            out.append(toks[i]); i += 1
    return out


def r15_serde_names(toks, log):
    """R15: the serde names of an enum (rename / alias / rename_all / other attributes, which R6 drops) are emitted as
    generated spec functions next to the enum, so that the name table itself is under contract."""
    i = 0
    n = len(toks)
    rename_all = None
    while toks[i].text != "enum":
        if toks[i].text == "serde" and toks[i + 1].text == "(":
            c = match_close(toks, i + 1)
            for k in range(i + 2, c):
                if toks[k].text == "rename_all":
                    rename_all = toks[k + 2].text.strip('"')
        i += 1
    like = toks[i]
    name = toks[i + 1].text
    b = i + 2
    while toks[b].text != "{":
        b += 1
    close = match_close(toks, b)
    variants = []
    k = b + 1
    cur = {"names": None, "aliases": [], "other": False}
    while k < close:
        t = toks[k]
        if t.text == "#":
            c = match_close(toks, k + 1)
            if toks[k + 2].text == "serde":
                j = k + 4
                while j < c - 1:
                    if toks[j].text == "rename" and toks[j + 1].text == "=":
                        cur["names"] = toks[j + 2].text; j += 3; continue
                    if toks[j].text == "alias" and toks[j + 1].text == "=":
                        cur["aliases"].append(toks[j + 2].text); j += 3; continue
                    if toks[j].text == "other":
                        cur["other"] = True
                    j += 1
            k = c + 1
            continue
        if t.kind == "id":
            v = t.text
            nm = cur["names"]
            if nm is None:
                nm = '"%s"' % (v.lower() if rename_all == "lowercase" else v.upper() if rename_all == "UPPERCASE" else v)
            variants.append((v, [nm] + cur["aliases"], cur["other"]))
            cur = {"names": None, "aliases": [], "other": False}
            # skip to next comma at depth 0
            while k < close and toks[k].text != ",":
                if toks[k].text in OPEN:
                    k = match_close(toks, k)
                k += 1
        k += 1
    arms = "".join("        %s::%s => seq![%s],\n" % (name, v, ", ".join(x + "@" for x in names)) for v, names, _ in variants)
    arms2 = "".join("        %s::%s => %s,\n" % (name, v, "true" if o else "false") for v, _, o in variants)
    text = ("\n/*R15: generated from the serde attributes of enum %s*/\nspec fn serde_names__%s(v: %s) -> Seq<Seq<char>> {\n    match v {\n%s    }\n}\n"
            "spec fn serde_other__%s(v: %s) -> bool {\n    match v {\n%s    }\n}\n") % (name, name, name, arms, name, name, arms2)
    log.add("R15", like, "serde name table of " + name)
    return gen(text, like, "\n")


def r16_pattern_params(toks, log):
    """R16: Verus wants identifier parameters on functions that carry a contract.  `_: T` becomes `verif_argK: T`;
    `(a, b): T` becomes `verif_argK: T` plus `let (a, b) = verif_argK;` as the first statement of the body."""
    out = list(toks)
    i = 0
    while i < len(out):
        if out[i].kind == "id" and out[i].text == "fn" and i + 2 < len(out) and out[i + 1].kind == "id":
            j = i + 2
            if out[j].text == "<":
                d = 0
                while True:
                    if out[j].text == "<": d += 1
                    elif out[j].text == ">":
                        d -= 1
                        if d == 0: break
                    j += 1
                j += 1
            if out[j].text != "(":
                i += 1; continue
            close = match_close(out, j)
            # split params
            params = []
            k = j + 1
            start = k
            depth = 0
            while k <= close:
                x = out[k].text
                if k == close or (x == "," and depth == 0):
                    if k > start:
                        params.append((start, k))
                    start = k + 1
                elif x in OPEN or x == "<": depth += 1
                elif x in (")", "]", "}") or x == ">":
                    if not (x == ">" and out[k - 1].text == "-"): depth -= 1
                k += 1
            lets = []
            edits = []
            n = 0
            for (a, b) in params:
                n += 1
                # find top-level colon
                c = a
                d = 0
                while c < b and not (out[c].text == ":" and d == 0):
                    if out[c].text in OPEN: d += 1
                    elif out[c].text in (")", "]", "}"): d -= 1
                    c += 1
                if c >= b:
                    continue   # self
                pat = out[a:c]
                ptxt = [x.text for x in pat]
                if ptxt in (["self"], ["mut", "self"]) or (len(pat) == 1 and pat[0].kind == "id" and pat[0].text != "_") or (len(pat) == 2 and ptxt[0] == "mut"):
                    continue
                name = "verif_arg%d" % n
                edits.append((a, c, name, pat))
                if ptxt != ["_"]:
                    lets.append((name, pat))
            if edits:
                # body open
                b0 = close + 1
                while b0 < len(out) and out[b0].text not in ("{", ";"):
                    if out[b0].text in ("(", "["):
                        b0 = match_close(out, b0)
                    b0 += 1
                if b0 < len(out) and out[b0].text == "{" and lets:
                    ins = []
                    for name, pat in lets:
                        ins += gen(" let ", out[b0], " ") + [x.clone() for x in pat] + gen(" = %s;" % name, out[b0], " ")
                    out[b0 + 1:b0 + 1] = ins
                for (a, c, name, pat) in reversed(edits):
                    log.add("R16", out[a], render(out[a:c]))
                    out[a:c] = gen(name, out[a], out[a].ws)
        i += 1
    return out
