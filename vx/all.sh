#!/bin/bash
# run every claimed check once, print rc and summary line
cd "$(dirname "$0")/.."
for p in $(python3 -c "import json;print(' '.join(json.load(open('claimed.json'))))"); do ./check $p > /tmp/ck_$p.log 2>&1; echo "$p rc=$? $(tail -1 /tmp/ck_$p.log)"; done
