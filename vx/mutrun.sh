#!/bin/bash
# mutrun.sh <property> <repo-relative file> <old text> <new text> : run the property's check on a scratch copy of /repo in which
# the first occurrence of <old text> in <file> is replaced by <new text>   (self-test of the checks, DESIGN.md 3.3)
P=$1; F=$2; OLD=$3; NEW=$4
S=/var/tmp/vx-mut-$$
rm -rf $S; mkdir -p $S; rsync -a --exclude target --exclude .git /repo/ $S/
python3 - "$S/$F" "$OLD" "$NEW" <<'PY' || { rm -rf $S; exit 3; }
import sys
p,old,new=sys.argv[1:4]
s=open(p).read()
if old not in s:
    print("mutation anchor not found"); sys.exit(1)
open(p,'w').write(s.replace(old,new,1))
PY
cd /verif && ./check $P --repo $S ${5:+--units $5} | sed "s#$S#<scratch>#g" | cut -c1-300
rc=${PIPESTATUS[0]}
rm -rf $S
exit $rc
