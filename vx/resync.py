#!/usr/bin/env python3
"""resync.py <unit>: after a rewrite rule changed, bring the annotated part files in line with the new extraction
when the only differences are tokens the extraction now has and the annotated text lacks (e.g. `pub`).  Anything else is reported."""
import os, re, sys
sys.path.insert(0, os.path.dirname(os.path.abspath(__file__)))
import build as B, merge as M
from rtok import lex, render, with_pos

def files_of(unit):
    d = B.unit_dir(unit)
    out = [os.path.join(d, "unit.rs")]
    def walk(p):
        for line in open(p).read().split("\n"):
            m = re.match(r"^\s*//@include\s+(\S+)\s*$", line)
            if m:
                q = os.path.normpath(os.path.join(os.path.dirname(p), m.group(1)))
                out.append(q); walk(q)
    walk(out[0])
    return out

def main():
    unit = sys.argv[1]
    b1, pieces, log = B.extraction(unit, "/repo")
    btxt = [t.text for t in b1]
    changed = 0
    for f in files_of(unit):
        if "/parts/" not in f:
            continue
        text = open(f).read()
        toks, trail = lex(text)
        with_pos(toks)
        # align this file's tokens against the whole extraction: find for every `delete`d extraction token the place in the file
        import difflib
        ops = M.tokdiff(b1, toks)
        ins = []
        for tag, i1, i2, j1, j2 in ops:
            if tag in ("delete", "replace"):
                miss = [t.text for t in b1[i1:i2]]
                have = [t.text for t in toks[j1:j2]]
                if tag == "delete" and set(miss) <= {"pub"} and j1 < len(toks) and i2 - i1 <= 2:
                    ins.append((toks[j1].pos, "pub " * (i2 - i1)))
        if ins:
            for pos, txt in sorted(ins, reverse=True):
                text = text[:pos] + txt + text[pos:]
            open(f, "w").write(text)
            changed += len(ins)
            print(f, "inserted", len(ins))
    print("total", changed)

main()
