"""Minimal Rust lexer: tokens keep their leading trivia (whitespace + comments), so a token
list can be rendered back byte-for-byte.  Used by the extractor, the rewrites and the
three-way token merge.  Not a parser: bracket matching is done by the callers."""
import re

class Tok:
    __slots__ = ("kind", "text", "ws", "line", "src", "pos")
    def __init__(self, kind, text, ws, line, src=None):
        self.kind = kind      # id | num | str | chr | life | punct
        self.text = text
        self.ws = ws          # trivia in front of the token
        self.line = line      # 1-based line in the originating file
        self.src = src        # originating file (provenance) or None for generated text
        self.pos = None       # character offset of the token in the text it was lexed from
    def __repr__(self):
        return "Tok(%s,%r,l%d)" % (self.kind, self.text, self.line)
    def clone(self, text=None, ws=None):
        t = Tok(self.kind, self.text if text is None else text, self.ws if ws is None else ws, self.line, self.src)
        t.pos = self.pos
        return t

MULTI = ["..=", "...", "<<=", ">>=", "::", "->", "=>", "==", "!=", "<=", ">=", "&&", "||", "+=", "-=", "*=", "/=",
         "%=", "^=", "&=", "|=", ".."]
ID_RE = re.compile(r"(r#)?[A-Za-z_][A-Za-z0-9_]*")
NUM_RE = re.compile(r"0[xX][0-9a-fA-F_]+[a-z0-9_]*|0[bB][01_]+[a-z0-9_]*|0[oO][0-7_]+[a-z0-9_]*|"
                    r"[0-9][0-9_]*(\.[0-9][0-9_]*)?([eE][+-]?[0-9_]+)?[a-zA-Z0-9_]*")
CHAR_RE = re.compile(r"b?'(\\x[0-9a-fA-F]{2}|\\u\{[0-9a-fA-F_]+\}|\\.|[^\\'\n])'")
LIFE_RE = re.compile(r"'[A-Za-z_][A-Za-z0-9_]*")
RAWSTR_RE = re.compile(r"(b|c)?r(#*)\"")
STR_START_RE = re.compile(r"(b|c)?\"")

class LexError(Exception):
    pass

def lex(text, src=None):
    """Returns (tokens, trailing_trivia)."""
    toks = []
    i = 0
    n = len(text)
    line = 1
    ws_start = 0
    while True:
        # trivia
        ws_start = i
        while i < n:
            c = text[i]
            if c in " \t\r\n":
                i += 1
            elif text.startswith("//", i):
                j = text.find("\n", i)
                i = n if j < 0 else j
            elif text.startswith("/*", i):
                depth = 1
                i += 2
                while i < n and depth:
                    if text.startswith("/*", i):
                        depth += 1; i += 2
                    elif text.startswith("*/", i):
                        depth -= 1; i += 2
                    else:
                        i += 1
            else:
                break
        ws = text[ws_start:i]
        line += ws.count("\n")
        if i >= n:
            return toks, ws
        c = text[i]
        m = RAWSTR_RE.match(text, i)
        if m:
            hashes = m.group(2)
            end = text.find('"' + hashes, m.end())
            if end < 0:
                raise LexError("unterminated raw string at line %d" % line)
            j = end + 1 + len(hashes)
            t = text[i:j]
            toks.append(Tok("str", t, ws, line, src)); line += t.count("\n"); i = j
            continue
        m = STR_START_RE.match(text, i)
        if m:
            j = m.end()
            while j < n and text[j] != '"':
                j += 2 if text[j] == "\\" else 1
            j += 1
            t = text[i:j]
            toks.append(Tok("str", t, ws, line, src)); line += t.count("\n"); i = j
            continue
        m = CHAR_RE.match(text, i)
        if m:
            toks.append(Tok("chr", m.group(0), ws, line, src)); i = m.end(); continue
        m = LIFE_RE.match(text, i)
        if m:
            toks.append(Tok("life", m.group(0), ws, line, src)); i = m.end(); continue
        m = ID_RE.match(text, i)
        if m:
            toks.append(Tok("id", m.group(0), ws, line, src)); i = m.end(); continue
        if c.isdigit():
            m = NUM_RE.match(text, i)
            toks.append(Tok("num", m.group(0), ws, line, src)); i = m.end(); continue
        for mp in MULTI:
            if text.startswith(mp, i):
                toks.append(Tok("punct", mp, ws, line, src)); i += len(mp); break
        else:
            toks.append(Tok("punct", c, ws, line, src)); i += 1

def with_pos(toks):
    """fill in .pos (offset of the token text inside render(toks))"""
    off = 0
    for t in toks:
        off += len(t.ws)
        t.pos = off
        off += len(t.text)
    return toks

def render(toks, trailing=""):
    return "".join(t.ws + t.text for t in toks) + trailing

OPEN = {"(": ")", "[": "]", "{": "}"}
CLOSE = {")", "]", "}"}

def match_close(toks, i):
    """toks[i] is an opening bracket; returns index of the matching close."""
    depth = 0
    for j in range(i, len(toks)):
        t = toks[j]
        if t.kind == "punct":
            if t.text in OPEN:
                depth += 1
            elif t.text in CLOSE:
                depth -= 1
                if depth == 0:
                    return j
    raise LexError("unbalanced bracket starting at line %d" % toks[i].line)

def texts(toks):
    return [t.text for t in toks]
