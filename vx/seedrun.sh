#!/bin/bash
# seedrun.sh <seed-dir> [property]: run the property's check on a scratch copy of /repo with the seeded patch applied
SD=$1
P=${2:-$(python3 -c "import json;print(json.load(open('$SD/meta.json'))['property'])")}
S=/var/tmp/vx-seed-$$
rm -rf $S; mkdir -p $S; rsync -a --exclude target --exclude .git /repo/ $S/
(cd $S && git init -q . 2>/dev/null; git apply $SD/patch.diff) || { echo "patch does not apply"; rm -rf $S; exit 3; }
cd "$(dirname "$0")/.." && ./check $P --repo $S | sed "s#$S#<scratch>#g" | cut -c1-260
rc=${PIPESTATUS[0]}
rm -rf $S
exit $rc
