#!/bin/bash
# seedval.sh <seed-dir> : confirm a seeded change on a scratch worktree of /repo HEAD:
#   patch applies, workspace builds, baseline suite passes with the patch, demo passes without / fails with the patch.
set -u
SD=$1
WT=/tmp/seedval_wt_$$
CMD=$(python3 -c "import json,sys;print(json.load(open('$SD/meta.json'))['demo_cmd'])")
git -C /repo worktree remove --force $WT 2>/dev/null
git -C /repo worktree add --detach $WT HEAD -q || exit 3
cp -r /repo/target $WT/target
cd $WT
res() { echo "$1"; }
git apply --check $SD/patch.diff || { echo "RESULT patch-does-not-apply"; cd /; git -C /repo worktree remove --force $WT; exit 1; }
git apply $SD/demo.diff || { echo "RESULT demo-does-not-apply"; cd /; git -C /repo worktree remove --force $WT; exit 1; }
(eval "$CMD") > /tmp/seedval_pristine.log 2>&1; P=$?
git apply $SD/patch.diff
(eval "$CMD") > /tmp/seedval_patched.log 2>&1; Q=$?
git checkout -q -- . ; git clean -fdq -e target
git apply $SD/patch.diff
cargo test --workspace --no-fail-fast --offline > /tmp/seedval_suite.log 2>&1; S=$?
NP=$(grep -E "^test result: ok" /tmp/seedval_suite.log | sed -E 's/.*ok\. ([0-9]+) passed.*/\1/' | paste -sd+ | bc)
echo "RESULT demo_pristine_rc=$P demo_patched_rc=$Q suite_rc=$S suite_passed=$NP"
cd /; git -C /repo worktree remove --force $WT
