// ---- part keys: protocol/shadowsocks.rs aead::openssl_bytes_to_key ----
/// OpenSSL EVP_BytesToKey with MD5, no salt, one iteration: D1 = MD5(pw), D2 = MD5(D1 || pw), key = (D1 || D2)[0..N]
spec fn evp_md5(pw: Seq<u8>) -> Seq<u8> { md5(pw) + md5(md5(pw) + pw) }

//@@ octo-squirrel/src/protocol/shadowsocks.rs:27-47  mod aead / fn openssl_bytes_to_key  sha=7641dae4dfdc4611
fn ssaeadk__openssl_bytes_to_key<const N: usize>(password: &[u8]) -> (r: [u8; N])
    requires 16 <= N <= 32, password@.len() <= 0x7fff_ffff,
    ensures
        //#C03 C16
        // the key of a legacy cipher is EVP_BytesToKey(MD5) of the password bytes
        r@ == evp_md5(password@).take(N as int),
{
        let mut encoded: [u8; N] = [0; N];
        let size = encoded.len();
        let mut hasher = Md5::new();
        hasher.update(password);
        let mut password_digest = hasher.finalize_reset();
        let ghost d1 = password_digest@;
        proof { axiom_md5_len(password@); axiom_md5_len(d1 + password@); }
        let mut container: Vec<u8> = vec![0; password.len() + password_digest.len()];
        let len = size.min(password_digest.len());
        encoded[..len].copy_from_slice(&password_digest);
        proof { assert(encoded@.take(16) =~= d1.take(16)); assert(d1.take(16) =~= d1); }
        let mut index = password_digest.len();
        while index < size
            invariant size == N, 16 <= N <= 32, index == 16 || index == 32, container@.len() == password@.len() + 16, hasher.acc() == Seq::<u8>::empty(),
                d1 == md5(password@), d1.len() == 16, password_digest@.len() == 16,
                index == 16 ==> password_digest@ == d1,
                index == 16 ==> encoded@.take(16) == d1,
                index == 32 ==> encoded@ == (d1 + md5(d1 + password@)).take(N as int),
            decreases 32 - index
        {
            let len = password_digest.len();
            proof { assert(len == 16); assert(container@.len() >= 16); assert(password_digest@.len() == 16); }
            container[..len].copy_from_slice(&password_digest);
            proof { assert(container@.len() == password@.len() + 16); }
            container[len..].copy_from_slice(password);
            proof { assert(container@ =~= d1 + password@); }
            hasher.update(&container);
            password_digest = hasher.finalize_reset();
            encoded[index..].copy_from_slice(&password_digest[..password_digest.len().min(size - index)]);
            proof { axiom_md5_len(d1 + password@); }
            index += password_digest.len();
            proof { assert(encoded@ =~= (d1 + md5(d1 + password@)).take(N as int)); }
        }
        proof { if index == 16 { assert(N == 16); assert(encoded@ =~= encoded@.take(16)); assert(evp_md5(password@).take(16) =~= d1); } }
        encoded
    }
