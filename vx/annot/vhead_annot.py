#!/usr/bin/env python3
"""(authoring aid) builds specs/parts/vhead.rs = raw extraction + insertions."""
import sys
raw = open(sys.argv[1]).read()
out = sys.argv[2]
E = []
def I(anchor, text, where="after", nth=0):
    E.append((anchor, where, text, nth))
HDR = '''// ---- part vhead: util.rs fnv, protocol/vmess/aead/{kdf consts, auth_id, encrypt}.rs, server/vmess.rs, client/vmess.rs ----
impl core::convert::From<SystemTimeError> for anyhow::Error {
    #[verifier::external_body]
    fn from(e: SystemTimeError) -> anyhow::Error { unimplemented!() }
}
proof fn lemma_path3(p: Seq<&[u8]>, a: Seq<u8>, b: Seq<u8>, c: Seq<u8>)
    requires p.len() == 3, p[0]@ == a, p[1]@ == b, p[2]@ == c
    ensures path_view(p) == seq![a, b, c]
{ assert(path_view(p) =~= seq![a, b, c]); }

'''
# fnv1a32
I("fn fnv__fnv1a32(data: &[u8]) -> ", "(r: ")
I("fn fnv__fnv1a32(data: &[u8]) -> u32", ")\n    ensures\n        //#C03\n        r == fnv1a32_spec(data@),\n")
I("        for b in ", "it: ")
I("        for b in data ", "\n            invariant hash == fnv1a32_spec(data@.take(it.index@)), 0 <= it.index@ <= data@.len(),\n        ")
I("            hash = hash.wrapping_mul(16777619); // prime\n", "            proof { let k = it.index@; assert(*b == data@[k]); assert(data@.take(k + 1).drop_last() =~= data@.take(k)); assert(data@.take(k + 1).last() == data@[k]); }\n")
I("        }\n        hash\n", "        proof { assert(data@.take(data@.len() as int) =~= data@); }\n", where="before"); E.pop()
I("            hash = hash.wrapping_mul(16777619); // prime\n        }\n", "        proof { assert(data@.take(data@.len() as int) =~= data@); }\n")
# auth_id::create
I("fn auth_id__create(key: &[u8], time: i64) -> ", "(r: ")
I("fn auth_id__create(key: &[u8], time: i64) -> [u8; 16]", ''')
    ensures
        //#C03 C12
        // the plaintext under the auth-id key is be64(time) | 4 random bytes | be32(crc32 of those 12 bytes)
        ({ let p = aes_ecb_dec(128, authid_key(key@), r@);
           p.len() == 16 && p.take(8) == be_bytes(i64_nat(time), 8) && p.skip(12) == be_bytes(i32_nat(crc32_spec(p.take(12)) as i32), 4) }),
''')
I("    buf.put_i32(crc32 as i32);\n", "    let ghost b12 = buf@;\n", where="before")
I("    auth_id.copy_from_slice(&buf);\n", "    proof { lemma_be_bytes_len(i64_nat(time), 8); lemma_be_bytes_len(i32_nat(crc32 as i32), 4); assert(b12.len() == 12); assert(buf@.len() == 16); }\n", where="before")
I("    auth_id.copy_from_slice(&buf);\n", "    let ghost plain = auth_id@;\n    proof { assert(plain.take(12) =~= b12); assert(plain.take(8) =~= be_bytes(i64_nat(time), 8)); assert(plain.skip(12) =~= be_bytes(i32_nat(crc32 as i32), 4)); }\n")
I("    Aes128EcbNoPadding::encrypt(&kdf__kdf16(key, vec![verif_lit_8b6369acd5()]), &mut auth_id, 16);\n", "    proof { let kk = authid_key(key@); assert(kk.take(16) =~= kk); assert(plain.take(16) =~= plain); assert(plain.skip(16) =~= Seq::<u8>::empty()); assert(auth_id@ =~= aes_ecb_enc(128, authid_key(key@), plain)); axiom_ecb_inverse(128, authid_key(key@), plain); }\n")
# matching
I("fn auth_id__matching(authid: &[u8], keys: &Vec<[u8; 16]>) -> ", "(r: ")
I("fn auth_id__matching(authid: &[u8], keys: &Vec<[u8; 16]>) -> Result<Option<[u8; 16]>, SystemTimeError>", ''')
    requires authid@.len() == 16
    ensures
        //#C06 C10
        // a key is returned only if it is a registered key under which the token decrypts to a CRC-valid plaintext stamped within 120 s of the clock
        r matches Ok(Some(k)) ==> exists|i: int| 0 <= i < keys@.len() && keys@[i] == k && #[trigger] authid_ok(keys@[i]@, authid@, vclock()),
        //#C06 C10
        r matches Ok(None) ==> forall|i: int| 0 <= i < keys@.len() ==> !#[trigger] authid_ok(keys@[i]@, authid@, vclock()),
''')
I("    for key in ", "it: ")
I("    for key in keys ", '''
        invariant authid@.len() == 16, 0 <= it.index@ <= keys@.len(),
            forall|i: int| 0 <= i < it.index@ ==> !#[trigger] authid_ok(keys@[i]@, authid@, vclock()),
    ''')
I("        let (l, r) = cur.split_at(12);\n", "        let ghost p = cur@;\n        proof { let kk = authid_key(key@); assert(kk.take(16) =~= kk); assert(*key == keys@[it.index@]); assert(p == aes_ecb_dec(128, authid_key(key@), authid@)); axiom_ecb_inverse(128, authid_key(key@), authid@); }\n", where="before")
I("        let now = i64::v_from_be_bytes(l[..8].v_try_into().unwrap());\n", "        proof { assert(l@ =~= p.take(12)); assert(r@ =~= p.skip(12)); assert(l@.take(8) =~= p.take(8)); }\n", where="before")
I("            return Ok(Some(*key));\n", "            proof { let idx = it.index@; assert(p.len() == 16); assert(nat_i32(be_val(p.skip(12))) == (crc32_spec(p.take(12)) as i32)); assert(nat_i64(be_val(p.take(8))) == now); assert(authid_plain_ok(p, vclock())); assert(authid_ok(keys@[idx]@, authid@, vclock())); }\n", where="before")
# seal_header
I("fn encrypt__seal_header(key: &[u8], header: Bytes) -> ", "(r: ")
I("fn encrypt__seal_header(key: &[u8], header: Bytes) -> Result<Vec<u8>>", ''')
    requires header@.len() <= 0xffff
    ensures
        //#C03 C12
        r matches Ok(v) ==> vhdr_sealed(key@, header@, v@),
''')
I("    let length_key = kdf__kdf16(key, vec![kdf__SALT_LENGTH_KEY, &auth_id, &connection_nonce]);\n", "    proof { lemma_vkdf_path3(); }\n", where="before"); E.pop()
I("    let mut res = Vec::new();\n", "    let ghost le = length_encrypted@;\n    let ghost he = header_encrypted@;\n    proof { lemma_be_bytes_len(header@.len(), 2); }\n", where="before")
I("    res.extend_from_slice(&header_encrypted); // payload + TAG_SIZE\n", '''    proof {
        let w = res@;
        assert(w =~= auth_id@ + le + connection_nonce@ + he);
        assert(w.subrange(0, 16) =~= auth_id@);
        assert(w.subrange(34, 42) =~= connection_nonce@);
        assert(w.subrange(16, 34) =~= le);
        assert(w.subrange(42, w.len() as int) =~= he);
    }
''')
# open_header
I("fn encrypt__open_header(key: &[u8], src: &mut BytesMut) -> ", "(r: ")
I("fn encrypt__open_header(key: &[u8], src: &mut BytesMut) -> Result<Option<Vec<u8>>>", ''')
    ensures
        //#C04 C06 C05 C03 C07
        match vhdr_parse(key@, old(src)@) {
            VHdr::Wait => r matches Ok(None) && final(src)@ == old(src)@,
            VHdr::Bad => r is Err,
            VHdr::Done(h, n) => r matches Ok(Some(v)) && v@ == h && final(src)@ == old(src)@.skip(n as int),
        },
''')
I("    if cursor.remaining() < encrypt__TAG_SIZE + 2 + encrypt__TAG_SIZE + 8 + encrypt__TAG_SIZE {\n", "        proof { axiom_cursor_dropped(&cursor); }\n")
I("    let length_key = kdf__kdf16(key, vec![kdf__SALT_LENGTH_KEY, &auth_id, &nonce]);\n", "    proof { assert(auth_id@ =~= old(src)@.subrange(0, 16)); assert(length_encrypted@ =~= old(src)@.subrange(16, 34)); assert(nonce@ =~= old(src)@.subrange(34, 42)); }\n", where="before")
I("    if cursor.remaining() < length + encrypt__TAG_SIZE {\n", "        proof { axiom_cursor_dropped(&cursor); }\n")
I("    if cursor.remaining() < length + encrypt__TAG_SIZE {\n", "    proof { lemma_be_val_bound(length_bytes@); lemma_pow256_vals(); }\n    let ghost lb = length_bytes@;\n", where="before"); E.pop()
I("    let length = u16::v_from_be_bytes(length_bytes.v_try_into().map_err(|_verif_ign0| verif_err())?) as usize;\n", "    let ghost lb = length_bytes@;\n    proof { let aid = old(src)@.subrange(0, 16); let nn = old(src)@.subrange(34, 42); let lenc = old(src)@.subrange(16, 34);\n        assert(aead_open(0, vh_key(key@, lbl_len_key(), aid, nn), vh_iv(key@, lbl_len_iv(), aid, nn), aid, lenc) == Some(lb));\n        axiom_open_unique(0, vh_key(key@, lbl_len_key(), aid, nn), vh_iv(key@, lbl_len_iv(), aid, nn), aid, lenc);\n        axiom_seal_len(0, vh_key(key@, lbl_len_key(), aid, nn), vh_iv(key@, lbl_len_iv(), aid, nn), aid, lb);\n        assert(lb.len() == 2); }\n", where="before")
I("    let length = u16::v_from_be_bytes(length_bytes.v_try_into().map_err(|_verif_ign0| verif_err())?) as usize;\n", "    proof { lemma_be_val_bound(lb); lemma_pow256_vals(); }\n")
I("    let header_bytes = Aes128Gcm::new_from_slice(&header_key)?\n", "    proof { assert(header_encrypted@ =~= old(src)@.subrange(42, 42 + length + 16)); }\n", where="before")
# apply
def find_nth(s, sub, n):
    i = -1
    for _ in range(n + 1):
        i = s.find(sub, i + 1)
        if i < 0: return -1
    return i
pos = []
for (anchor, where, text, nth) in E:
    i = find_nth(raw, anchor, nth)
    if i < 0:
        print("ANCHOR NOT FOUND:", repr(anchor), nth); sys.exit(1)
    pos.append((i if where == "before" else i + len(anchor), len(pos), text))
pos.sort(key=lambda x: (x[0], x[1]))
o = []; last = 0
for p, _, text in pos:
    o.append(raw[last:p]); o.append(text); last = p
o.append(raw[last:])
open(out, "w").write(HDR + "".join(o))
print("ok", len(E), "insertions")
