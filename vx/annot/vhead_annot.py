#!/usr/bin/env python3
"""(authoring aid) builds specs/parts/vhead.rs = raw extraction + insertions."""
import sys
raw = open(sys.argv[1]).read()
out = sys.argv[2]
E = []
def I(anchor, text, where="after", nth=0):
    E.append((anchor, where, text, nth))
HDR = '''// ---- part vhead: util.rs fnv, protocol/vmess/aead/{kdf consts, auth_id, encrypt}.rs, server/vmess.rs, client/vmess.rs ----
impl core::convert::From<SystemTimeError> for anyhow::Error {
    #[verifier::external_body]
    fn from(e: SystemTimeError) -> anyhow::Error { unimplemented!() }
}
/// protocol/vmess/header.rs RequestOption::{values, from_mask, get_mask} (iterator adapters, R9): option list <-> bit mask.  ASSUMED contracts.
/// V2Fly VMess: option bits S=1 (chunk stream), R=2 (connection reuse), M=4 (chunk masking), P=8 (global padding), A=16 (authenticated length)
spec fn opt_bit(o: RequestOption) -> u8 { match o { RequestOption::ChunkStream => 1, RequestOption::ConnectionReuse => 2, RequestOption::ChunkMasking => 4, RequestOption::GlobalPadding => 8, RequestOption::AuthenticatedLength => 16 } }
//#C03
proof fn lemma_opt_bits(o: RequestOption) ensures opt_bit(o) == o as u8 {}
spec fn mask_of(s: Seq<RequestOption>) -> u8 decreases s.len() { if s.len() == 0 { 0u8 } else { mask_of(s.drop_last()) | opt_bit(s.last()) } }
impl RequestOption {
    #[verifier::external_body]
    fn from_mask(mask: u8) -> (r: Vec<RequestOption>)
        ensures forall|o: RequestOption| r@.contains(o) == (opt_bit(o) & mask != 0)
    { unimplemented!() }
    #[verifier::external_body]
    fn get_mask(options: &[RequestOption]) -> (r: u8)
        ensures r == mask_of(options@)
    { unimplemented!() }
}
spec fn seg(s: Seq<u8>, a: int, n: int) -> Seq<u8> { s.subrange(a, a + n) }
proof fn lemma_path3(p: Seq<&[u8]>, a: Seq<u8>, b: Seq<u8>, c: Seq<u8>)
    requires p.len() == 3, p[0]@ == a, p[1]@ == b, p[2]@ == c
    ensures path_view(p) == seq![a, b, c]
{ assert(path_view(p) =~= seq![a, b, c]); }

'''
# fnv1a32
I("fn fnv__fnv1a32(data: &[u8]) -> ", "(r: ")
I("fn fnv__fnv1a32(data: &[u8]) -> u32", ")\n    ensures\n        //#C03\n        r == fnv1a32_spec(data@),\n")
I("        for b in ", "it: ")
I("        for b in data ", "\n            invariant hash == fnv1a32_spec(data@.take(it.index@)), 0 <= it.index@ <= data@.len(),\n        ")
I("            hash = hash.wrapping_mul(16777619); // prime\n", "            proof { let k = it.index@; assert(*b == data@[k]); assert(data@.take(k + 1).drop_last() =~= data@.take(k)); assert(data@.take(k + 1).last() == data@[k]); }\n")
I("        }\n        hash\n", "        proof { assert(data@.take(data@.len() as int) =~= data@); }\n", where="before"); E.pop()
I("            hash = hash.wrapping_mul(16777619); // prime\n        }\n", "        proof { assert(data@.take(data@.len() as int) =~= data@); }\n")
# auth_id::create
I("fn auth_id__create(key: &[u8], time: i64) -> ", "(r: ")
I("fn auth_id__create(key: &[u8], time: i64) -> [u8; 16]", ''')
    ensures
        //#C03 C12
        // the plaintext under the auth-id key is be64(time) | 4 random bytes | be32(crc32 of those 12 bytes)
        ({ let p = aes_ecb_dec(128, authid_key(key@), r@);
           p.len() == 16 && p.take(8) == be_bytes(i64_nat(time), 8) && p.skip(12) == be_bytes(i32_nat(crc32_spec(p.take(12)) as i32), 4) }),
''')
I("    buf.put_i32(crc32 as i32);\n", "    let ghost b12 = buf@;\n", where="before")
I("    auth_id.copy_from_slice(&buf);\n", "    proof { lemma_be_bytes_len(i64_nat(time), 8); lemma_be_bytes_len(i32_nat(crc32 as i32), 4); assert(b12.len() == 12); assert(buf@.len() == 16); }\n", where="before")
I("    auth_id.copy_from_slice(&buf);\n", "    let ghost plain = auth_id@;\n    proof { assert(plain.take(12) =~= b12); assert(plain.take(8) =~= be_bytes(i64_nat(time), 8)); assert(plain.skip(12) =~= be_bytes(i32_nat(crc32 as i32), 4)); }\n")
I("    Aes128EcbNoPadding::encrypt(&kdf__kdf16(key, vec![verif_lit_8b6369acd5()]), &mut auth_id, 16);\n", "    proof { let kk = authid_key(key@); assert(kk.take(16) =~= kk); assert(plain.take(16) =~= plain); assert(plain.skip(16) =~= Seq::<u8>::empty()); assert(auth_id@ =~= aes_ecb_enc(128, authid_key(key@), plain)); axiom_ecb_inverse(128, authid_key(key@), plain); }\n")
# matching
I("fn auth_id__matching(authid: &[u8], keys: &Vec<[u8; 16]>) -> ", "(r: ")
I("fn auth_id__matching(authid: &[u8], keys: &Vec<[u8; 16]>) -> Result<Option<[u8; 16]>, SystemTimeError>", ''')
    requires authid@.len() == 16
    ensures
        //#C06 C10
        // a key is returned only if it is a registered key under which the token decrypts to a CRC-valid plaintext stamped within 120 s of the clock
        r matches Ok(Some(k)) ==> exists|i: int| 0 <= i < keys@.len() && keys@[i] == k && #[trigger] authid_ok(keys@[i]@, authid@, vclock()),
        //#C06 C10
        r matches Ok(None) ==> forall|i: int| 0 <= i < keys@.len() ==> !#[trigger] authid_ok(keys@[i]@, authid@, vclock()),
''')
I("    for key in ", "it: ")
I("    for key in keys ", '''
        invariant authid@.len() == 16, 0 <= it.index@ <= keys@.len(),
            forall|i: int| 0 <= i < it.index@ ==> !#[trigger] authid_ok(keys@[i]@, authid@, vclock()),
    ''')
I("        let (l, r) = cur.split_at(12);\n", "        let ghost p = cur@;\n        proof { let kk = authid_key(key@); assert(kk.take(16) =~= kk); assert(*key == keys@[it.index@]); assert(p == aes_ecb_dec(128, authid_key(key@), authid@)); axiom_ecb_inverse(128, authid_key(key@), authid@); }\n", where="before")
I("        let now = i64::v_from_be_bytes(l[..8].v_try_into().unwrap());\n", "        proof { assert(l@ =~= p.take(12)); assert(r@ =~= p.skip(12)); assert(l@.take(8) =~= p.take(8)); }\n", where="before")
I("            return Ok(Some(*key));\n", "            proof { let idx = it.index@; assert(p.len() == 16); assert(nat_i32(be_val(p.skip(12))) == (crc32_spec(p.take(12)) as i32)); assert(nat_i64(be_val(p.take(8))) == now); assert(authid_plain_ok(p, vclock())); assert(authid_ok(keys@[idx]@, authid@, vclock())); }\n", where="before")
# seal_header
I("fn encrypt__seal_header(key: &[u8], header: Bytes) -> ", "(r: ")
I("fn encrypt__seal_header(key: &[u8], header: Bytes) -> Result<Vec<u8>>", ''')
    requires header@.len() <= 0xffff
    ensures
        //#C03 C12
        r matches Ok(v) ==> vhdr_sealed(key@, header@, v@),
''')
I("    let length_key = kdf__kdf16(key, vec![kdf__SALT_LENGTH_KEY, &auth_id, &connection_nonce]);\n", "    proof { lemma_vkdf_path3(); }\n", where="before"); E.pop()
I("    let mut res = Vec::new();\n", "    let ghost le = length_encrypted@;\n    let ghost he = header_encrypted@;\n    proof { lemma_be_bytes_len(header@.len(), 2); }\n", where="before")
I("    res.extend_from_slice(&header_encrypted); // payload + TAG_SIZE\n", '''    proof {
        let w = res@;
        assert(w =~= auth_id@ + le + connection_nonce@ + he);
        assert(w.subrange(0, 16) =~= auth_id@);
        assert(w.subrange(34, 42) =~= connection_nonce@);
        assert(w.subrange(16, 34) =~= le);
        assert(w.subrange(42, w.len() as int) =~= he);
    }
''')
# open_header
I("fn encrypt__open_header(key: &[u8], src: &mut BytesMut) -> ", "(r: ")
I("fn encrypt__open_header(key: &[u8], src: &mut BytesMut) -> Result<Option<Vec<u8>>>", ''')
    ensures
        //#C04 C06 C05 C03 C07
        match vhdr_parse(key@, old(src)@) {
            VHdr::Wait => r matches Ok(None) && final(src)@ == old(src)@,
            VHdr::Bad => r is Err,
            VHdr::Done(h, n) => r matches Ok(Some(v)) && v@ == h && final(src)@ == old(src)@.skip(n as int),
        },
''')
I("    if cursor.remaining() < encrypt__TAG_SIZE + 2 + encrypt__TAG_SIZE + 8 + encrypt__TAG_SIZE {\n", "        proof { axiom_cursor_dropped(&cursor); }\n")
I("    let length_key = kdf__kdf16(key, vec![kdf__SALT_LENGTH_KEY, &auth_id, &nonce]);\n", "    proof { assert(auth_id@ =~= old(src)@.subrange(0, 16)); assert(length_encrypted@ =~= old(src)@.subrange(16, 34)); assert(nonce@ =~= old(src)@.subrange(34, 42)); }\n", where="before")
I("    if cursor.remaining() < length + encrypt__TAG_SIZE {\n", "        proof { axiom_cursor_dropped(&cursor); }\n")
I("    if cursor.remaining() < length + encrypt__TAG_SIZE {\n", "    proof { lemma_be_val_bound(length_bytes@); lemma_pow256_vals(); }\n    let ghost lb = length_bytes@;\n", where="before"); E.pop()
I("    let length = u16::v_from_be_bytes(length_bytes.v_try_into().map_err(|_verif_ign0| verif_err())?) as usize;\n", "    let ghost lb = length_bytes@;\n    proof { let aid = old(src)@.subrange(0, 16); let nn = old(src)@.subrange(34, 42); let lenc = old(src)@.subrange(16, 34);\n        assert(aead_open(0, vh_key(key@, lbl_len_key(), aid, nn), vh_iv(key@, lbl_len_iv(), aid, nn), aid, lenc) == Some(lb));\n        axiom_open_unique(0, vh_key(key@, lbl_len_key(), aid, nn), vh_iv(key@, lbl_len_iv(), aid, nn), aid, lenc);\n        axiom_seal_len(0, vh_key(key@, lbl_len_key(), aid, nn), vh_iv(key@, lbl_len_iv(), aid, nn), aid, lb);\n        assert(lb.len() == 2); }\n", where="before")
I("    let length = u16::v_from_be_bytes(length_bytes.v_try_into().map_err(|_verif_ign0| verif_err())?) as usize;\n", "    proof { lemma_be_val_bound(lb); lemma_pow256_vals(); }\n")
I("    let header_bytes = Aes128Gcm::new_from_slice(&header_key)?\n", "    proof { assert(header_encrypted@ =~= old(src)@.subrange(42, 42 + length + 16)); }\n", where="before")

I("impl From<OutboundIn> for BytesMut {\n", """impl vstd::std_specs::convert::FromSpecImpl<OutboundIn> for BytesMut {
    open spec fn obeys_from_spec() -> bool { true }
    open spec fn from_spec(v: OutboundIn) -> Self { match v { OutboundIn::Tcp(b) => b, OutboundIn::Udp((b, _)) => b } }
}
""", where="before")
# ================================================================ server/vmess.rs
I("impl ServerAeadCodec {\n    fn encode(\n", """    spec fn wf(&self) -> bool {
        (self.decode_state matches vsrv__DecodeState::Ready(h, s, d) ==> d.wf())
        && (self.encode_state matches vsrv__EncodeState::Ready(e) ==> e.wf())
    }
    spec fn keys_same(&self, o: &Self) -> bool { self.keys == o.keys }
""", where="before"); E.pop()
I("impl ServerAeadCodec {\n", """    spec fn wf(&self) -> bool {
        (self.decode_state matches vsrv__DecodeState::Ready(h, s, d) ==> d.wf())
        && (self.encode_state matches vsrv__EncodeState::Ready(e) ==> e.wf())
    }
""", nth=0)
a = "        encoder: &mut AEADBodyCodec,\n    ) -> "
I(a, "(r: ", nth=0)
I(a + "anyhow::Result<()>", """)
        requires old(encoder).wf(),
        ensures final(encoder).wf(), final(encoder).same_static(old(encoder)), final(encoder).state == old(encoder).state, sess_same(old(session), final(session)),
            //#C01 C02 C03
            r is Ok ==> final(dst)@.len() >= old(dst)@.len() && final(dst)@.take(old(dst)@.len() as int) == old(dst)@,
            //#C01 C03
            (r is Ok && request_header.command is TCP) ==> vwire_rel(old(encoder).ecfg(old(session)), old(encoder).dynv(), item@, final(dst)@.skip(old(dst)@.len() as int)),
            //#C02 C03
            (r is Ok && request_header.command is UDP) ==> (final(dst)@ == old(dst)@ || vchunk_rel(old(encoder).ecfg(old(session)), old(encoder).dynv(), item@, final(dst)@.skip(old(dst)@.len() as int))),
   """, nth=0)
for k, (nm, first) in enumerate((("decode_header", "ConnectTcp"), ("decode_body", "RelayTcp"))):
    a = "        decoder: &mut AEADBodyCodec,\n    ) -> "
    I(a, "(r: ", nth=k)
    item_tcp = "r matches Ok(Some(InboundIn::ConnectTcp(b, a))) && b@ == q.out && a == old(header).address" if first == "ConnectTcp" else "r matches Ok(Some(InboundIn::RelayTcp(b))) && b@ == q.out"
    I(a + "anyhow::Result<Option<InboundIn>>", """)
        requires old(decoder).wf(),
        ensures final(decoder).wf(), final(decoder).same_static(old(decoder)), sess_same(old(session), final(session)), *final(header) == *old(header),
            //#C04 C05 C01 C06 C07
            // TCP: the plaintext of all complete chunks%s, or nothing yet; an authentication failure is an error
            old(header).command is TCP ==> match vparse(old(decoder).dcfg(old(session)), old(decoder).abs(), old(decoder).dynv(), old(src)@) {
                None => r is Err,
                Some(q) => final(decoder).abs() == q.st && final(decoder).dynv() == q.d && final(src)@ == q.rest
                    && (if q.out.len() == 0 { r matches Ok(None) } else { %s }),
            },
            //#C04 C05 C02 C06 C07
            old(header).command is UDP ==> match vparse_pkt(old(decoder).dcfg(old(session)), old(decoder).abs(), old(decoder).dynv(), old(src)@) {
                None => r is Err,
                Some(q) => final(decoder).abs() == q.st && final(decoder).dynv() == q.d && final(src)@ == q.rest
                    && match q.pkt { None => r matches Ok(None), Some(p) => r matches Ok(Some(InboundIn::RelayUdp(b, a))) && b@ == p && a == old(header).address },
            },
   """ % (" together with the target address" if first == "ConnectTcp" else "", item_tcp), nth=k)
# server Encoder::encode -> encode_item
a = "    fn encode_item(&mut self, item: OutboundIn, dst: &mut BytesMut) -> "
I(a, "(r: ")
I(a + "Result<(), anyhow::Error>", """)
        requires old(self).wf(),
        ensures final(self).wf(), final(self).keys == old(self).keys, final(self).connected == old(self).connected,
            //#C06
            // nothing is sent before a request was accepted
            old(self).decode_state is Init ==> r is Err && final(dst)@ == old(dst)@,
            //#C03 C05 C10
            // the first reply starts with the response header sealed under keys derived from this session's response key / iv and echoes its response byte
            (r is Ok && old(self).encode_state is Init) ==> (old(self).decode_state matches vsrv__DecodeState::Ready(h, s, d) && final(dst)@.len() >= old(dst)@.len() + 38
                && seg(final(dst)@, old(dst)@.len() as int, 18) == aead_seal(0, vkdf(s.response_body_key@, seq![lbl_resp_len_key()]).take(16), vkdf(s.response_body_iv@, seq![lbl_resp_len_iv()]).take(12), Seq::empty(), be_bytes(4, 2))
                && seg(final(dst)@, (old(dst)@.len() + 18) as int, 20) == aead_seal(0, vkdf(s.response_body_key@, seq![lbl_resp_key()]).take(16), vkdf(s.response_body_iv@, seq![lbl_resp_iv()]).take(12), Seq::empty(), seq![s.response_header, mask_of(h.option@), 0u8, 0u8])),
   """)
I("                    dst.extend_from_slice(\n                        &cipher\n", "                    let ghost d0 = dst@;\n", where="before")
I("                    let payload_len_key = kdf__kdf16(&session.response_body_key, vec![kdf__SALT_AEAD_RESP_HEADER_PAYLOAD_KEY]);\n", "                    let ghost d1 = dst@;\n                    proof { assert(header@ =~= seq![session.response_header, option, 0u8, 0u8]); assert(d1.len() == d0.len() + 18); assert(seg(d1, d0.len() as int, 18) =~= d1.skip(d0.len() as int)); }\n", where="before")
I("                    let mut encoder = AEADBodyCodec::new_encoder(request_header, session)?;\n", "                    let ghost d2 = dst@;\n                    proof { assert(d2.len() == d1.len() + 20); assert(seg(d2, d0.len() as int, 18) =~= d1.skip(d0.len() as int)); assert(seg(d2, (d0.len() + 18) as int, 20) =~= d2.skip(d1.len() as int)); }\n", where="before")
I("                    self.encode_state = vsrv__EncodeState::Ready(Box::new(encoder));\n", "                    proof { if res is Ok { assert(dst@.take(d2.len() as int) == d2); assert(seg(dst@, d0.len() as int, 18) =~= seg(d2, d0.len() as int, 18)); assert(seg(dst@, (d0.len() + 18) as int, 20) =~= seg(d2, (d0.len() + 18) as int, 20)); } }\n", where="before")
# server decode
a = "    fn decode(&mut self, src: &mut BytesMut) -> "
I(a, "(r: ", nth=0)
I(a + "Result<Option<InboundIn>, anyhow::Error>", """)
        requires old(self).wf(),
        ensures final(self).wf(), final(self).keys == old(self).keys,
            //#C04 C07
            // waiting for the auth id / the rest of the header consumes nothing
            (old(self).decode_state is Init && final(self).decode_state is Init && r is Ok) ==> (r matches Ok(None) && final(src)@ == old(src)@),
            //#C04
            (old(self).decode_state is Init && old(src)@.len() < 16) ==> (r matches Ok(None) && final(self).decode_state is Init),
            //#C06 C10 C05
            // the header is accepted only if the auth id opens, CRC-valid and within 120 s, under a registered user key, and the sealed header opens under that same key
            (old(self).decode_state is Init && final(self).decode_state is Ready) ==> exists|i: int| 0 <= i < old(self).keys@.len()
                && #[trigger] authid_ok(old(self).keys@[i]@, old(src)@.subrange(0, 16), vclock()) && vhdr_parse(old(self).keys@[i]@, old(src)@) is Done,
            //#C06
            // no item is delivered from a connection that has not passed that check
            r matches Ok(Some(_)) ==> final(self).decode_state is Ready,
            //#C01 C06
            // the first item of a TCP flow carries the target address, later ones never do
            (r matches Ok(Some(InboundIn::ConnectTcp(_, _)))) ==> (!(old(self).decode_state is Ready && old(self).connected) && final(self).connected),
            (r matches Ok(Some(InboundIn::RelayTcp(_)))) ==> old(self).connected,
   """, nth=0)
I("                let auth_id = &src[0..16];\n", "                let ghost s0 = src@;\n                let ghost aid = src@.subrange(0, 16);\n", where="before")
I("                if let Some(key) = auth_id::matching(auth_id, &self.keys)? {\n", "", where="before"); E.pop()
I("                    if let Some(header) = encrypt__open_header(&key, src)? {\n", "                    let ghost ki = choose|i: int| 0 <= i < self.keys@.len() && self.keys@[i] == key && authid_ok(self.keys@[i]@, aid, vclock());\n", where="before")
I("                        let data = header[..header.len() - 4].to_vec();\n", "                        proof { assert(vhdr_parse(self.keys@[ki]@, s0) is Done); }\n", where="before")
I("                        let security = SecurityType::from(security & 0xF);\n", "                        proof { assert(padding_len <= 15) by (bit_vector) requires padding_len == security >> 4u8; }\n", where="before")
# ================================================================ client/vmess.rs
I("impl ClientAEADCodec {\n    fn new(header: RequestHeader) -> ", "(r: ")
I("impl ClientAEADCodec {\n    fn new(header: RequestHeader) -> Self", """)
        ensures r.header == header, r.body_encoder is None, r.body_decoder is None, r.wf(),
            //#C05 C10
            r.session.response_body_iv@ == sha256(r.session.request_body_iv@).take(16), r.session.response_body_key@ == sha256(r.session.request_body_key@).take(16),
   """)
I("impl ClientAEADCodec {\n    fn new(header: RequestHeader) -> ", """    spec fn wf(&self) -> bool {
        (self.body_encoder matches Some(e) ==> e.wf()) && (self.body_decoder matches Some(d) ==> d.wf())
    }
    /// the plaintext request header (V2Fly VMess): version, body iv, body key, response byte, options, padding<<4|security, 0, command, address, padding, fnv1a32
    spec fn req_prefix(&self, pad: u8) -> Seq<u8> {
        seq![1u8] + self.session.request_body_iv@ + self.session.request_body_key@ + seq![self.session.response_header, mask_of(self.header.option@), ((pad << 4u8) | (self.header.security as u8)), 0u8, self.header.command as u8]
    }
""", where="before"); E.pop()
I("impl ClientAEADCodec {\n    fn new(header: RequestHeader)", """impl ClientAEADCodec {
    spec fn wf(&self) -> bool {
        (self.body_encoder matches Some(e) ==> e.wf()) && (self.body_decoder matches Some(d) ==> d.wf())
    }
}
""", where="before")
a = "    fn encode(&mut self, item: BytesMut, dst: &mut BytesMut) -> "
I(a, "(r: ")
I(a + "Result<(), anyhow::Error>", """)
        requires old(self).wf(),
        ensures final(self).wf(), final(self).header == old(self).header,
            //#C14
            // an unrepresentable target (empty or longer than 255 bytes) is refused before anything is sent
            (old(self).body_encoder is None && !repr_v(old(self).header.address)) ==> (r is Err && final(dst)@ == old(dst)@),
            //#C03 C01
            r is Ok ==> final(dst)@.len() >= old(dst)@.len() && final(dst)@.take(old(dst)@.len() as int) == old(dst)@ && final(self).body_encoder is Some,
        decreases (if old(self).body_encoder is None { 1int } else { 0int }),
   """)
a = "    fn decode(&mut self, mut src: &mut BytesMut) -> "
I(a, "(r: ")
I(a + "Result<Option<BytesMut>, anyhow::Error>", """)
        requires old(self).wf(),
        ensures final(self).wf(), final(self).header == old(self).header,
            //#C04
            old(src)@.len() == 0 ==> r matches Ok(None),
            //#C04 C07
            (old(self).body_decoder is None && final(self).body_decoder is None && r is Ok) ==> (r matches Ok(None) && final(src)@ == old(src)@),
            //#C10 C05
            // the response is accepted only if its length and header open under the keys derived from this session's response key / iv
            // (themselves derived from the request key / iv this client sent) and it echoes this request's response byte
            (old(self).body_decoder is None && final(self).body_decoder is Some) ==> ({
                let k = old(self).session.response_body_key@; let iv = old(self).session.response_body_iv@; let s = old(src)@;
                s.len() >= 18
                && (aead_open(0, vkdf(k, seq![lbl_resp_len_key()]).take(16), vkdf(iv, seq![lbl_resp_len_iv()]).take(12), Seq::empty(), s.subrange(0, 18)) matches Some(lb)
                    && s.len() >= 18 + be_val(lb.take(2)) + 16
                    && (aead_open(0, vkdf(k, seq![lbl_resp_key()]).take(16), vkdf(iv, seq![lbl_resp_iv()]).take(12), Seq::empty(), s.subrange(18, (18 + be_val(lb.take(2)) + 16) as int)) matches Some(h)
                        && h.len() >= 1 && h[0] == old(self).session.response_header)) }),
            //#C05 C10
            r matches Ok(Some(_)) ==> final(self).body_decoder is Some,
            old(self).body_decoder is Some ==> final(self).body_decoder is Some,
        decreases (if old(self).body_decoder is None { 1int } else { 0int }),
   """)
I("                if src.remaining() < size_of::<u16>() + TAG_SIZE {\n", "                let ghost s0 = src@;\n", where="before")
I("                let mut header_length_bytes = BytesMut::from(&header_length_bytes[..]);\n", "                proof { assert(header_length_bytes@ =~= s0.subrange(0, 18)); }\n")
I("                let header_length = header_length_bytes.get_u16() as usize;\n", "                let ghost lb = header_length_bytes@;\n                proof { lemma_be_val_bound(lb.take(2)); lemma_pow256_vals(); }\n", where="before")
I("                if cursor.remaining() < header_length + TAG_SIZE {\n", "                    proof { axiom_cursor_dropped(&cursor); }\n")
I("                header_cipher.decrypt_in_place(&header_iv.into(), &[], &mut header_bytes).map_err(|e| verif_err())?;\n", "                proof { assert(header_bytes@ =~= s0.subrange(18, 18 + header_length + 16)); }\n", where="before")
# udp helpers
I("fn vcli__new_key(sender: SocketAddr, target: &Address) -> ", "(r: ")
I("fn vcli__new_key(sender: SocketAddr, target: &Address) -> (SocketAddr, Address)", ")\n    ensures\n        //#C02\n        r.0 == sender, r.1 == *target,\n")
I("fn vcli__to_outbound_send(item: DatagramPacket, verif_arg2: SocketAddr) -> ", "(r: ")
I("fn vcli__to_outbound_send(item: DatagramPacket, verif_arg2: SocketAddr) -> BytesMut", ")\n    ensures\n        //#C02\n        r == item.0,\n")
I("fn vcli__to_inbound_recv(item: BytesMut, recipient: &Address, sender: SocketAddr) -> ", "(r: ")
I("fn vcli__to_inbound_recv(item: BytesMut, recipient: &Address, sender: SocketAddr) -> (DatagramPacket, SocketAddr)", ")\n    ensures\n        //#C02\n        r.0.0 == item, r.0.1 == *recipient, r.1 == sender,\n")
# apply
def find_nth(s, sub, n):
    i = -1
    for _ in range(n + 1):
        i = s.find(sub, i + 1)
        if i < 0: return -1
    return i
pos = []
for (anchor, where, text, nth) in E:
    i = find_nth(raw, anchor, nth)
    if i < 0:
        print("ANCHOR NOT FOUND:", repr(anchor), nth); sys.exit(1)
    pos.append((i if where == "before" else i + len(anchor), len(pos), text))
pos.sort(key=lambda x: (x[0], x[1]))
o = []; last = 0
for p, _, text in pos:
    o.append(raw[last:p]); o.append(text); last = p
o.append(raw[last:])
open(out, "w").write(HDR + "".join(o))
print("ok", len(E), "insertions")
