#!/usr/bin/env python3
"""(authoring aid) partraw.py <unit> <part>: the rewritten extraction of exactly one part of a unit (as it appears inside the unit's extraction)"""
import json, os, sys
sys.path.insert(0, os.path.join(os.path.dirname(os.path.abspath(__file__)), ".."))
import build as B, extract as X
from rtok import render
unit, part = sys.argv[1], sys.argv[2]
uj = json.load(open(os.path.join(B.unit_dir(unit), "unit.json")))
lo = hi = 0
n = 0
for p in uj["parts"]:
    pj = json.load(open(os.path.join(B.SPECS, "parts", p + ".json")))
    k = 0
    for src in pj["sources"]:
        pieces, _, _ = X.extract_file("/repo", src["file"], src["select"])
        k += len(pieces)
    if p == part:
        lo, hi = n, n + k
    n += k
toks, pieces, log = B.extraction(unit, "/repo")
text = render(toks, "\n")
chunks = text.split("\n\n//@@ ")
# chunks[0] is leading trivia of the first piece (maybe empty) followed by nothing; pieces start at chunks[1:]
body = chunks[1:]
assert len(body) == n, (len(body), n)
sys.stdout.write("".join("//@@ " + c + "\n\n" for c in body[lo:hi]).rstrip("\n") + "\n")
