#!/usr/bin/env python3
"""(authoring aid, not used by the checks) builds specs/parts/vbody.rs = raw extraction + insertions.
Each edit is (anchor text that occurs exactly once [or nth], 'before'|'after', inserted text)."""
import sys, re
raw = open(sys.argv[1]).read()
out = sys.argv[2]
edits = []
def ins(anchor, where, text, nth=0):
    edits.append((anchor, where, text, nth))

HDR = '''// ---- part vbody: codec/aead.rs (CountingNonceGenerator), codec/chunk.rs, protocol/vmess/{auth,header,session}.rs, codec/vmess/aead.rs ----
// (needs shims/vmess.rs + shims/crypto.rs + shims/ss.rs in the unit's shim module, specs/common_vbody.rs and common_cipher.rs)
impl core::convert::From<InvalidLength> for anyhow::Error {
    #[verifier::external_body]
    fn from(e: InvalidLength) -> anyhow::Error { unimplemented!() }
}
impl core::convert::From<aead::Error> for anyhow::Error {
    #[verifier::external_body]
    fn from(e: aead::Error) -> anyhow::Error { unimplemented!() }
}
/// the 16-byte buffers of a session keep their keys and bytes 2.. of every nonce buffer
pub open spec fn sess_same<S: Session + ?Sized>(a: &S, b: &S) -> bool {
    a.ekey() == b.ekey() && a.dkey() == b.dkey() && a.ckey() == b.ckey()
    && iv_tail(a.eiv()) == iv_tail(b.eiv()) && iv_tail(a.div()) == iv_tail(b.div()) && iv_tail(a.civ()) == iv_tail(b.civ())
}
pub open spec fn tail_kept(before: Seq<u8>, after: Seq<u8>) -> bool { after.len() == before.len() && after.skip(2) == before.skip(2) }
proof fn lemma_tail_kept(before: Seq<u8>, after: Seq<u8>)
    requires tail_kept(before, after), before.len() >= 12
    ensures iv_tail(after) == iv_tail(before)
{ assert(iv_tail(after) =~= after.skip(2).take(10)); assert(iv_tail(before) =~= before.skip(2).take(10)); }
/// VMess: the ChaCha20-Poly1305 key is MD5(k) ++ MD5(MD5(k))
spec fn chacha_key(k: Seq<u8>) -> Seq<u8> { md5(k) + md5(md5(k)) }
spec fn sec_alg(s: SecurityType) -> int { if s is Chacha20Poly1305 { 3 } else { 0 } }
spec fn sec_key(s: SecurityType, k: Seq<u8>) -> Seq<u8> { if s is Chacha20Poly1305 { chacha_key(k) } else { k.take(16) } }
spec fn opt_mode(o: Seq<RequestOption>) -> int {
    if o.contains(RequestOption::AuthenticatedLength) { 2 } else if o.contains(RequestOption::ChunkMasking) { 1 } else { 0 }
}
/// what AEADBodyCodec::new builds from the header options, the direction's key `k` / nonce `n` and the session's chunk key `ck`
spec fn vnew_post(c: AEADBodyCodec, h: RequestHeader, k: Seq<u8>, n: Seq<u8>, ck: Seq<u8>) -> bool {
    &&& c.wf() && c.abs() == VSt::Padding && c.dynv() == (VDyn { sp: 0, bc: 0, lc: 0 })
    &&& c.auth.alg() == sec_alg(h.security) && c.auth.key() == sec_key(h.security, k)
    &&& c.shake.seed() == n
    &&& (c.padding is Shake) == h.option@.contains(RequestOption::GlobalPadding)
    &&& c.mode() == opt_mode(h.option@)
    &&& (c.chunk matches ChunkSizeParser::Auth(a) ==> a.alg() == sec_alg(h.security) && a.key() == sec_key(h.security, vkdf(ck, seq![lbl_auth_len()]).take(16)))
}

'''
# ---------------------------------------------------------------- CountingNonceGenerator
ins("    fn new(nonce_size: usize) -> Self {\n        Self { count: 0, nonce_size }", "before", None)  # placeholder removed below
edits.pop()
def sig(old, new):
    """replace a signature's `-> T {` by `-> (r: T) <clauses> {` : expressed as insertions around T"""
    pass

E = []
def I(anchor, text, where="after", nth=0):
    E.append((anchor, where, text, nth))

# CountingNonceGenerator::new
I("fn new(nonce_size: usize) -> ", "(r: ")
I("fn new(nonce_size: usize) -> Self", ")\n        ensures\n            //#C12 C03\n            r.count == 0, r.nonce_size == nonce_size,\n   ")
# generate
I("fn generate<'a>(&mut self, nonce: &'a mut [u8]) -> ", "(r: ")
I("fn generate<'a>(&mut self, nonce: &'a mut [u8]) -> &'a [u8]", ''')
        requires old(nonce)@.len() >= 2, old(self).nonce_size <= old(nonce)@.len(),
        ensures final(self).nonce_size == old(self).nonce_size,
            //#C12 C03
            final(self).count == add1(old(self).count),
            //#C12 C03
            final(nonce)@ == be_bytes(old(self).count as nat, 2) + old(nonce)@.skip(2),
            //#C12 C03
            r@ == final(nonce)@.take(old(self).nonce_size as int),
            tail_kept(old(nonce)@, final(nonce)@),
   ''')
I("nonce[..size_of::<u16>()].copy_from_slice(&self.count.v_to_be_bytes());", "\n        proof { lemma_be_bytes_len(old(self).count as nat, 2); assert(nonce@ =~= be_bytes(old(self).count as nat, 2) + old(nonce)@.skip(2)); assert(nonce@.skip(2) =~= old(nonce)@.skip(2)); }")
# PlainSizeParser
I("const fn size_bytes() -> ", "(r: ")
I("const fn size_bytes() -> usize", ") ensures r == 2 ")
I("fn encode_size(size: usize) -> ", "(r: ", nth=0)
I("fn encode_size(size: usize) -> Vec<u8>", ")\n        ensures\n            //#C03\n            r@ == be_bytes((size as u16) as nat, 2), r@.len() == 2,\n   ", nth=0)
I("fn decode_size(data: &[u8]) -> ", "(r: ")
I("fn decode_size(data: &[u8]) -> usize", ")\n        requires data@.len() >= 2\n        ensures\n            //#C03 C04\n            r == be_val(data@.take(2)),\n   ")
I("u16::v_from_be_bytes(bytes) as usize\n", "proof { assert(bytes@ =~= data@.take(2)); lemma_be_val_bound(bytes@); lemma_pow256_vals(); }\n        ", where="before")
# generate_chacha20_poly1305_key
I("fn vauth__generate_chacha20_poly1305_key(raw: &[u8]) -> ", "(r: ")
I("fn vauth__generate_chacha20_poly1305_key(raw: &[u8]) -> [u8; 32]", ")\n    ensures\n        //#C03\n        r@ == chacha_key(raw@),\n")
I("    hasher.update(&res[..16]);", "    let ghost h1 = res@;\n    proof { assert(key@.take(16) =~= h1); }\n", where="before")
I("    key[16..].copy_from_slice(&res);\n", "    proof { assert(res@ == md5(h1.take(16))); assert(h1.take(16) =~= h1); assert(key@ =~= h1 + res@); }\n")
# From<CipherKind> for SecurityType -> keep as is (no contract possible on trait impl); skip
# RequestHeader::new
I("fn new(version: u8, command: RequestCommand, option: Vec<RequestOption>, security: SecurityType, address: Address, id: [u8; 16]) -> ", "(r: ")
I("security: SecurityType, address: Address, id: [u8; 16]) -> Self", ")\n        ensures r.version == version, r.command == command, r.option == option, r.security == security, r.address == address, r.id == id,\n   ")
# session init (two expansions)
for nm in ("ClientSession", "ServerSession"):
    pass
INIT_SIG = "fn init(request_body_iv: [u8; 16], request_body_key: [u8; 16], response_header: u8) -> "
for k in (0, 1):
    I(INIT_SIG, "(r: ", nth=k)
    I(INIT_SIG + "Self", ''')
                ensures r.request_body_iv == request_body_iv, r.request_body_key == request_body_key, r.response_header == response_header,
                    //#C03 C05 C10
                    // V2Fly VMess: response body key / iv = SHA256(request body key / iv)[0..16]
                    r.response_body_iv@ == sha256(request_body_iv@).take(16),
                    //#C03 C05 C10
                    r.response_body_key@ == sha256(request_body_key@).take(16),
           ''', nth=k)
    I("response_body_iv.copy_from_slice(&res[..16]);", "\n                proof { assert(response_body_iv@ =~= sha256(request_body_iv@).take(16)); }", nth=k)
    I("response_body_key.copy_from_slice(&res[..16]);", "\n                proof { assert(response_body_key@ =~= sha256(request_body_key@).take(16)); }", nth=k)
# ClientSession::new
I("    fn new() -> Self {\n        let mut request_body_iv", "", where="before")
E.pop()
I("impl ClientSession {\n    fn new() -> ", "(r: ")
I("impl ClientSession {\n    fn new() -> Self", ")\n        ensures r.response_body_iv@ == sha256(r.request_body_iv@).take(16), r.response_body_key@ == sha256(r.request_body_key@).take(16),\n   ")
# From<&[u8]> for ClientSession: trait impl, no contract; needs value.len() >= 33 -> cannot carry requires: mark external? keep verified w/o requires is impossible -> handled by selecting it out (see json)
# ServerSession::new
I("impl ServerSession {\n    fn new(request_body_iv: [u8; 16], request_body_key: [u8; 16], response_header: u8) -> ", "(r: ")
I("impl ServerSession {\n    fn new(request_body_iv: [u8; 16], request_body_key: [u8; 16], response_header: u8) -> Self", ''')
        ensures r.request_body_iv == request_body_iv, r.request_body_key == request_body_key, r.response_header == response_header,
            //#C05 C10 C03
            r.response_body_iv@ == sha256(request_body_iv@).take(16), r.response_body_key@ == sha256(request_body_key@).take(16),
   ''')
# trait Session
I("pub trait Session {\n", '''    spec fn ekey(&self) -> Seq<u8>;
    spec fn eiv(&self) -> Seq<u8>;
    spec fn dkey(&self) -> Seq<u8>;
    spec fn div(&self) -> Seq<u8>;
    spec fn ckey(&self) -> Seq<u8>;
    spec fn civ(&self) -> Seq<u8>;
''')
def tm(name, specname, mut):
    a = "    fn %s(&%sself) -> " % (name, "mut " if mut else "")
    I(a, "(r: ", nth=0)
    ty = "&mut [u8]" if mut else "&[u8]"
    if mut:
        I(a + ty, ") ensures r@ == old(self).%s(), r@.len() == 16, tail_kept(r@, final(r)@) ==> (final(self).ekey() == old(self).ekey() && final(self).dkey() == old(self).dkey() && final(self).ckey() == old(self).ckey() && iv_tail(final(self).eiv()) == iv_tail(old(self).eiv()) && iv_tail(final(self).div()) == iv_tail(old(self).div()) && iv_tail(final(self).civ()) == iv_tail(old(self).civ()) && final(self).%s() == final(r)@)" % (specname, specname), nth=0)
    else:
        I(a + ty, ") ensures r@ == self.%s(), r@.len() == 16" % specname, nth=0)
for name, sp, mut in (("encoder_key", "ekey", False), ("encoder_nonce", "eiv", False), ("encoder_nonce_mut", "eiv", True), ("decoder_key", "dkey", False),
                      ("decoder_nonce", "div", False), ("decoder_nonce_mut", "div", True), ("chunk_key", "ckey", False), ("chunk_nonce", "civ", True)):
    tm(name, sp, mut)
# impls: spec fns + (r: ..) names
I("impl Session for ClientSession {\n", '''    // client: encodes with the request key/iv, decodes with the response key/iv; the length cipher uses the request key/iv
    open spec fn ekey(&self) -> Seq<u8> { self.request_body_key@ }
    open spec fn eiv(&self) -> Seq<u8> { self.request_body_iv@ }
    open spec fn dkey(&self) -> Seq<u8> { self.response_body_key@ }
    open spec fn div(&self) -> Seq<u8> { self.response_body_iv@ }
    open spec fn ckey(&self) -> Seq<u8> { self.request_body_key@ }
    open spec fn civ(&self) -> Seq<u8> { self.request_body_iv@ }
''')
I("impl Session for ServerSession {\n", '''    // server: decodes with the request key/iv, encodes with the response key/iv; the length cipher uses the request key/iv
    open spec fn ekey(&self) -> Seq<u8> { self.response_body_key@ }
    open spec fn eiv(&self) -> Seq<u8> { self.response_body_iv@ }
    open spec fn dkey(&self) -> Seq<u8> { self.request_body_key@ }
    open spec fn div(&self) -> Seq<u8> { self.request_body_iv@ }
    open spec fn ckey(&self) -> Seq<u8> { self.request_body_key@ }
    open spec fn civ(&self) -> Seq<u8> { self.request_body_iv@ }
''')
for k in (1, 2):   # occurrences 1,2 = the two impls (0 is the trait)
    for name, mut in (("encoder_key", False), ("encoder_nonce", False), ("encoder_nonce_mut", True), ("decoder_key", False), ("decoder_nonce", False),
                      ("decoder_nonce_mut", True), ("chunk_key", False), ("chunk_nonce", True)):
        a = "    fn %s(&%sself) -> " % (name, "mut " if mut else "")
        ty = "&mut [u8]" if mut else "&[u8]"
        I(a, "(r: ", nth=k)
        I(a + ty, ")", nth=k)

# ---------------------------------------------------------------- AEADBodyCodec
I("impl AEADBodyCodec {\n", '''    spec fn mode(&self) -> int { match self.chunk { ChunkSizeParser::Plain => 0, ChunkSizeParser::Shake => 1, ChunkSizeParser::Auth(_) => 2 } }
    /// static parameters of this codec, given bytes 2..12 of the body nonce buffer and of the length nonce buffer
    spec fn cfg(&self, biv: Seq<u8>, liv: Seq<u8>) -> VCfg {
        VCfg { alg: self.auth.alg(), key: self.auth.key(), mode: self.mode(),
               lalg: self.lalg(), lkey: self.lkey(),
               pad: self.padding is Shake, seed: self.shake.seed(), biv, liv }
    }
    spec fn dynv(&self) -> VDyn { VDyn { sp: self.shake.pos(), bc: self.auth.cnt(), lc: match self.chunk { ChunkSizeParser::Auth(a) => a.cnt(), _ => 0 } } }
    spec fn abs(&self) -> VSt { match self.state { DecodeState::Padding => VSt::Padding, DecodeState::Length(p) => VSt::Length(p as nat), DecodeState::Body(p, l) => VSt::Body(p as nat, l as nat) } }
    spec fn wf(&self) -> bool { self.payload_limit == 2048 && self.auth.wf() && (self.chunk matches ChunkSizeParser::Auth(a) ==> a.wf()) && vst_wf(self.abs()) }
    /// nothing but counters and the decode state differs
    spec fn same_static(&self, o: &Self) -> bool {
        self.auth.alg() == o.auth.alg() && self.auth.key() == o.auth.key() && self.mode() == o.mode() && self.lalg() == o.lalg() && self.lkey() == o.lkey()
        && (self.padding is Shake) == (o.padding is Shake) && self.shake.seed() == o.shake.seed() && self.payload_limit == o.payload_limit
    }
    spec fn lalg(&self) -> int { match self.chunk { ChunkSizeParser::Auth(a) => a.alg(), _ => 0 } }
    spec fn lkey(&self) -> Seq<u8> { match self.chunk { ChunkSizeParser::Auth(a) => a.key(), _ => Seq::empty() } }
    spec fn dcfg<S: Session>(&self, s: &S) -> VCfg { self.cfg(iv_tail(s.div()), iv_tail(s.civ())) }
    spec fn ecfg<S: Session>(&self, s: &S) -> VCfg { self.cfg(iv_tail(s.eiv()), iv_tail(s.civ())) }

''')
# new
I("nonce: impl FnOnce(&VDynSession) -> &[u8],\n    ) -> ", "(r: ")
I("nonce: impl FnOnce(&VDynSession) -> &[u8],\n    ) -> Result<Self, InvalidLength>", ''')
        requires
            forall|s: &VDynSession| #[trigger] key.requires((s,)), forall|s: &VDynSession| #[trigger] nonce.requires((s,)),
            forall|s: &VDynSession, k: &[u8]| #[trigger] key.ensures((s,), k) ==> k@.len() == 16,
        ensures *final(session) == *old(session),
            //#C03 C05 C12 C16
            r matches Ok(c) ==> exists|k: &[u8], n: &[u8]| #![trigger key.ensures((&*old(session),), k), nonce.ensures((&*old(session),), n)]
                key.ensures((&*old(session),), k) && nonce.ensures((&*old(session),), n) && vnew_post(c, *header, k@, n@, old(session).ckey()),
   ''')
I("        let key: &[u8] = key(session);\n", "        let ghost k0 = key;\n        proof { axiom_md5_len(k0@); axiom_md5_len(md5(k0@)); }\n")
I("        let nonce = nonce(session);\n", "        let ghost n0 = nonce;\n")
I("        Ok(Self { auth: Authenticator::new(cipher), chunk, padding, shake, payload_limit: 2048, state: DecodeState::Padding })\n", '''        proof {
            assert(cipher.alg() == sec_alg(header.security));
            assert(cipher.key() == sec_key(header.security, k0@));
            assert(shake.seed() == n0@);
            assert((padding is Shake) == header.option@.contains(RequestOption::GlobalPadding));
            assert((match chunk { ChunkSizeParser::Plain => 0int, ChunkSizeParser::Shake => 1int, ChunkSizeParser::Auth(_) => 2int }) == opt_mode(header.option@));
            assert(chunk matches ChunkSizeParser::Auth(a) ==> a.wf() && a.cnt() == 0 && a.alg() == sec_alg(header.security) && a.key() == sec_key(header.security, vkdf(session.ckey(), seq![lbl_auth_len()]).take(16)));
        }
''', where="before")
# new_encoder / new_decoder
for nm, kk, nn, ck in (("new_encoder", "ekey", "eiv", "e"), ("new_decoder", "dkey", "div", "d")):
    a = "fn %s(header: &RequestHeader, session: &mut impl Session) -> " % nm
    I(a, "(r: ")
    I(a + "Result<Self, InvalidLength>", ''')
        ensures *final(session) == *old(session),
            //#C05 C03 C12 C16
            // direction separation: this codec is keyed with the session's %s key and seeded with its %s nonce
            r matches Ok(c) ==> vnew_post(c, *header, old(session).%s(), old(session).%s(), old(session).ckey()),
   ''' % ("encoder" if ck == "e" else "decoder", "encoder" if ck == "e" else "decoder", kk, nn))
I("|s| s.encoder_key()", "", where="before"); E.pop()
I("Self::new(header, session, |s| ", "-> (r: &[u8]) ensures r@ == s.ekey(), r@.len() == 16 { ", nth=0)
I("|s| s.encoder_key()", " }")
I("|s| s.encoder_key() }, |s| ", "", where="before"); E.pop()
I("s.encoder_key(), |s| ", "-> (r: &[u8]) ensures r@ == s.eiv() { ")
I("|s| s.encoder_nonce()", " }")
I("Self::new(header, session, |s| ", "-> (r: &[u8]) ensures r@ == s.dkey(), r@.len() == 16 { ", nth=1)
I("|s| s.decoder_key()", " }")
I("s.decoder_key(), |s| ", "-> (r: &[u8]) ensures r@ == s.div() { ")
I("|s| s.decoder_nonce()", " }")

# encode_chunk
a = "fn encode_chunk(&mut self, src: &mut BytesMut, dst: &mut BytesMut, session: &mut impl Session) -> "
I(a, "(r: ")
I(a + "Result<(), aead::Error>", ''')
        requires old(self).wf(),
        ensures final(self).wf(), final(self).same_static(old(self)), final(self).state == old(self).state, sess_same(old(session), final(session)),
            //#C12 C03
            r is Ok ==> final(self).dynv() == vchunk_dyn(old(self).ecfg(old(session)), old(self).dynv(), vchunk_take(old(self).ecfg(old(session)), old(self).dynv(), old(src)@.len())),
            //#C02 C01
            r is Ok ==> final(src)@ == old(src)@.skip(vchunk_take(old(self).ecfg(old(session)), old(self).dynv(), old(src)@.len()) as int),
            //#C03 C01 C02 C12
            r is Ok ==> final(dst)@.len() >= old(dst)@.len() && final(dst)@.take(old(dst)@.len() as int) == old(dst)@
                && vchunk_rel(old(self).ecfg(old(session)), old(self).dynv(),
                       old(src)@.take(vchunk_take(old(self).ecfg(old(session)), old(self).dynv(), old(src)@.len()) as int), final(dst)@.skip(old(dst)@.len() as int)),
   ''')
I("        let padding_length = self.next_padding_length();\n", "        let ghost c = self.ecfg(&*session);\n        let ghost d0 = self.dynv();\n", where="before")
I("        let tag_size = self.auth.cipher.tag_size();\n", "        let ghost d1 = self.dynv();\n        proof { assert(vpad(c, d0) == (padding_length as nat, d1)); }\n", where="before")
I("        dst.extend_from_slice(&encrypted_size_bytes);\n", "        let ghost d2 = self.dynv();\n        let ghost sess1 = *session;\n        proof { assert(iv_tail(session.civ()) == iv_tail(old(session).civ())); assert(vencode_len(c, d1, (encrypted_size + padding_length + tag_size) as nat) == (encrypted_size_bytes@, d2)); }\n", where="before")
I("        dst.extend_from_slice(&payload_bytes);\n", "        let ghost ct = payload_bytes@;\n", where="before")
I("        dst.extend_from_slice(&padding_bytes);\n        Ok(())", "", where="before"); E.pop()
I("        dst.extend_from_slice(&padding_bytes);\n", '''        proof {
            let sb = vsize_bytes(c) as int;
            let w = dst@.skip(old(dst)@.len() as int);
            assert(w =~= encrypted_size_bytes@ + ct + padding_bytes@);
            assert(w.take(sb) =~= encrypted_size_bytes@);
            assert(w.subrange(sb, sb + encrypted_size + 16) =~= ct);
            assert(dst@.take(old(dst)@.len() as int) =~= old(dst)@);
        }
''')
# next_padding_length
a = "    fn next_padding_length(&mut self) -> "
I(a, "(r: ", nth=0)
I(a + "usize", ''')
        requires old(self).wf(),
        ensures final(self).wf(), final(self).same_static(old(self)), final(self).state == old(self).state,
            //#C03 C04
            (r as nat, final(self).dynv()) == vpad(old(self).cfg(Seq::empty(), Seq::empty()), old(self).dynv()), r < 64,
   ''', nth=0)
# encode_size
a = "    fn encode_size(&mut self, size: usize, nonce: &mut [u8]) -> "
I(a, "(r: ", nth=0)
I(a + "Result<Vec<u8>, aead::Error>", ''')
        requires old(self).wf(), 16 <= size <= 0xffff, old(nonce)@.len() == 16,
        ensures final(self).wf(), final(self).same_static(old(self)), final(self).state == old(self).state, tail_kept(old(nonce)@, final(nonce)@),
            //#C03 C12
            final(self).dynv() == vencode_len(old(self).cfg(Seq::empty(), iv_tail(old(nonce)@)), old(self).dynv(), size as nat).1,
            //#C03 C12
            r matches Ok(v) ==> v@ == vencode_len(old(self).cfg(Seq::empty(), iv_tail(old(nonce)@)), old(self).dynv(), size as nat).0 && v@.len() == vsize_bytes(old(self).cfg(Seq::empty(), Seq::empty())),
            (old(self).chunk is Auth) || r is Ok,
   ''', nth=0)
# encode_payload
a = "fn encode_payload(&mut self, mut src: BytesMut, dst: &mut BytesMut, session: &mut impl Session) -> "
I(a, "(r: ")
I(a + "Result<(), aead::Error>", ''')
        requires old(self).wf(),
        ensures final(self).wf(), final(self).same_static(old(self)), final(self).state == old(self).state, sess_same(old(session), final(session)),
            //#C03 C01 C12
            r is Ok ==> final(dst)@.len() >= old(dst)@.len() && final(dst)@.take(old(dst)@.len() as int) == old(dst)@
                && vwire_rel(old(self).ecfg(old(session)), old(self).dynv(), src@, final(dst)@.skip(old(dst)@.len() as int)),
            //#C12
            r is Ok ==> final(self).dynv() == vdyn_after(old(self).ecfg(old(session)), old(self).dynv(), src@),
   ''')
I("        while src.has_remaining() {", "", where="before"); E.pop()
I("        while src.has_remaining() ", '''
            invariant
                self.wf(), self.same_static(old(self)), self.state == old(self).state, sess_same(old(session), &*session),
                c == old(self).ecfg(old(session)), d00 == old(self).dynv(),
                dst@.len() >= old(dst)@.len(), dst@.take(old(dst)@.len() as int) == old(dst)@,
                vdyn_after(c, d00, src0) == vdyn_after(c, self.dynv(), src@),
                forall|t: Seq<u8>| #[trigger] vwire_rel(c, self.dynv(), src@, t) ==> vwire_rel(c, d00, src0, dst@.skip(old(dst)@.len() as int) + t),
            decreases src@.len()
        ''')
I("        while src.has_remaining() ", "        let ghost src0 = src@;\n        let ghost c = self.ecfg(&*session);\n        let ghost d00 = self.dynv();\n        proof { assert forall|t: Seq<u8>| #[trigger] vwire_rel(c, d00, src0, t) implies vwire_rel(c, d00, src0, dst@.skip(old(dst)@.len() as int) + t) by { assert(dst@.skip(old(dst)@.len() as int) + t =~= t); } }\n", where="before")
I("            self.encode_chunk(&mut src, dst, session)?;\n", "            let ghost s1 = src@;\n            let ghost dd = self.dynv();\n            let ghost w1 = dst@;\n            proof { assert(self.ecfg(&*session) == c); }\n", where="before")
I("            self.encode_chunk(&mut src, dst, session)?;\n", '''            proof {
                let k0 = old(dst)@.len() as int;
                let n = vchunk_take(c, dd, s1.len());
                let ch = dst@.skip(w1.len() as int);
                lemma_vchunk_len(c, dd, s1.take(n as int), ch);
                assert(n > 0) by { lemma_vchunk_take_pos(c, dd, s1.len()); }
                assert(dst@.take(k0) =~= old(dst)@) by { assert(dst@.take(w1.len() as int) == w1); assert(dst@.take(k0) =~= w1.take(k0)); }
                assert forall|t: Seq<u8>| #[trigger] vwire_rel(c, self.dynv(), src@, t) implies vwire_rel(c, d00, src0, dst@.skip(k0) + t) by {
                    let cl = ch.len() as int;
                    assert((ch + t).take(cl) =~= ch);
                    assert((ch + t).skip(cl) =~= t);
                    assert(vwire_rel(c, dd, s1, ch + t));
                    assert(dst@.skip(k0) + t =~= w1.skip(k0) + (ch + t)) by { assert(dst@ =~= w1 + ch); }
                }
            }
''')
I("            self.encode_chunk(&mut src, dst, session)?;\n        }\n", "        proof { let k0 = old(dst)@.len() as int; assert(vwire_rel(c, self.dynv(), src@, Seq::empty())); assert(dst@.skip(k0) + Seq::<u8>::empty() =~= dst@.skip(k0)); }\n")
# encode_packet
a = "fn encode_packet(&mut self, mut src: BytesMut, dst: &mut BytesMut, session: &mut impl Session) -> "
I(a, "(r: ")
I(a + "Result<(), aead::Error>", ''')
        requires old(self).wf(),
        ensures final(self).wf(), final(self).same_static(old(self)), final(self).state == old(self).state, sess_same(old(session), final(session)),
            //#C02 C03
            // whole or not at all: either nothing is appended, or exactly one chunk that carries the entire datagram
            r is Ok ==> final(dst)@.len() >= old(dst)@.len() && final(dst)@.take(old(dst)@.len() as int) == old(dst)@
                && (final(dst)@ == old(dst)@ || vchunk_rel(old(self).ecfg(old(session)), old(self).dynv(), src@, final(dst)@.skip(old(dst)@.len() as int))),
            //#C02
            (r is Ok && src@.len() <= 2048 - 16 - 18 - 63) ==> final(dst)@ != old(dst)@,
   ''')
I("        self.encode_chunk(&mut src, dst, session)\n", "        proof { lemma_vchunk_take_all(self.ecfg(&*session), self.dynv(), src@.len()); assert(src@.take(src@.len() as int) =~= src@); }\n        let ghost d0 = dst@;\n", where="before")
# decode_packet
a = "fn decode_packet(&mut self, src: &mut BytesMut, session: &mut impl Session) -> "
I(a, "(r: ")
I(a + "Result<Option<BytesMut>, aead::Error>", ''')
        requires old(self).wf(),
        ensures final(self).wf(), final(self).same_static(old(self)), sess_same(old(session), final(session)),
            //#C04 C05 C02 C03 C07
            match vparse_pkt(old(self).dcfg(old(session)), old(self).abs(), old(self).dynv(), old(src)@) {
                None => r is Err,
                Some(q) => r is Ok && final(self).abs() == q.st && final(self).dynv() == q.d && final(src)@ == q.rest
                    && match q.pkt { None => r matches Ok(None), Some(p) => r matches Ok(Some(b)) && b@ == p },
            },
   ''')
LOOPINV_PKT = '''
            invariant_except_break
                self.wf(), self.same_static(old(self)), sess_same(old(session), &*session), c == old(self).dcfg(old(session)),
                vparse_pkt(c, old(self).abs(), old(self).dynv(), old(src)@) == vparse_pkt(c, self.abs(), self.dynv(), src@),
            ensures false,
            decreases vst_rank(self.abs()),
        '''
I("Result<Option<BytesMut>, aead::Error> {\n        loop ", LOOPINV_PKT, nth=0)
I("Result<Option<BytesMut>, aead::Error> {\n", "        let ghost c = self.dcfg(&*session);\n", nth=0)
# inside decode_packet arms (first occurrences)
I("                    let length = self.decode_size(&mut src.split_to(size_bytes), session.chunk_nonce())?;\n", "                    let ghost s0 = src@;\n                    let ghost dv = self.dynv();\n                    proof { assert(self.dcfg(&*session) == c); }\n", where="before", nth=0)
I("                    let length = self.decode_size(&mut src.split_to(size_bytes), session.chunk_nonce())?;\n", "                    proof { assert(src@ == s0.skip(size_bytes as int)); }\n", nth=0)
I("                    let mut packet_bytes = src.split_to(length - padding);\n", "                    let ghost s0 = src@;\n                    proof { assert(self.dcfg(&*session) == c); }\n", where="before")
I("                    src.advance(padding);\n                    self.state = DecodeState::Padding;\n                    return Ok(Some(packet_bytes));", "", where="before"); E.pop()
I("                    src.advance(padding);\n                    self.state = DecodeState::Padding;\n", "                    proof { assert(src@ =~= s0.skip(length as int)); }\n")
# decode_payload
a = "fn decode_payload(&mut self, src: &mut BytesMut, session: &mut impl Session) -> "
I(a, "(r: ")
I(a + "Result<Option<BytesMut>, aead::Error>", ''')
        requires old(self).wf(),
        ensures final(self).wf(), final(self).same_static(old(self)), sess_same(old(session), final(session)),
            //#C04 C05 C01 C03 C07
            match vparse(old(self).dcfg(old(session)), old(self).abs(), old(self).dynv(), old(src)@) {
                None => r is Err,
                Some(q) => r is Ok && final(self).abs() == q.st && final(self).dynv() == q.d && final(src)@ == q.rest
                    && (if q.out.len() == 0 { r matches Ok(None) } else { r matches Ok(Some(b)) && b@ == q.out }),
            },
   ''')
I("        let mut dst = BytesMut::new();\n        loop ", '''
            invariant_except_break
                self.wf(), self.same_static(old(self)), sess_same(old(session), &*session), c == old(self).dcfg(old(session)),
                vparse(c, old(self).abs(), old(self).dynv(), old(src)@) == vprepend(dst@, vparse(c, self.abs(), self.dynv(), src@)),
            ensures
                self.wf(), self.same_static(old(self)), sess_same(old(session), &*session), c == old(self).dcfg(old(session)),
                vparse(c, old(self).abs(), old(self).dynv(), old(src)@) == Some(VP { out: dst@, st: self.abs(), d: self.dynv(), rest: src@ }),
            decreases src@.len(), vst_rank(self.abs()),
        ''')
I("        let mut dst = BytesMut::new();\n", "        let ghost c = self.dcfg(&*session);\n        proof { lemma_vprepend_empty(vparse(c, self.abs(), self.dynv(), src@)); }\n")
I("                    if src.remaining() < size_bytes {\n                        break;", "", where="before"); E.pop()
I("                    if src.remaining() < size_bytes {\n", "                        proof { assert(dst@ + Seq::<u8>::empty() =~= dst@); }\n", nth=1)
I("                    let length = self.decode_size(&mut src.split_to(size_bytes), session.chunk_nonce())?;\n", "                    let ghost s0 = src@;\n                    let ghost dv = self.dynv();\n                    proof { assert(self.dcfg(&*session) == c); }\n", where="before", nth=1)
I("                    let length = self.decode_size(&mut src.split_to(size_bytes), session.chunk_nonce())?;\n", "                    proof { assert(src@ == s0.skip(size_bytes as int)); }\n", nth=1)
I("                    if src.remaining() < length {\n                        break;", "", where="before"); E.pop()
I("                    if src.remaining() < length {\n", "                        proof { assert(dst@ + Seq::<u8>::empty() =~= dst@); }\n", nth=1)
I("                    dst.reserve(length);\n", "                    let ghost s0 = src@;\n                    let ghost dst0 = dst@;\n                    let ghost dv = self.dynv();\n                    proof { assert(self.dcfg(&*session) == c); }\n", where="before")
I("                    src.advance(padding);\n", '''                    proof {
                        assert(src@ =~= s0.skip(length as int));
                        let q = vparse(c, VSt::Padding, self.dynv(), src@);
                        assert(vparse(c, VSt::Body(padding as nat, length as nat), dv, s0) == vprepend(payload_bytes@, q));
                        if q is Some { assert(dst0 + (payload_bytes@ + q->0.out) =~= (dst0 + payload_bytes@) + q->0.out); }
                    }
''', nth=1)
# decode_size
a = "    fn decode_size(&mut self, data: &mut BytesMut, nonce: &mut [u8]) -> "
I(a, "(r: ")
I(a + "Result<usize, aead::Error>", ''')
        requires old(self).wf(), old(data)@.len() == vsize_bytes(old(self).cfg(Seq::empty(), Seq::empty())), old(nonce)@.len() == 16,
        ensures final(self).wf(), final(self).same_static(old(self)), final(self).state == old(self).state, tail_kept(old(nonce)@, final(nonce)@),
            //#C04 C05 C03 C12
            match vdecode_len(old(self).cfg(Seq::empty(), iv_tail(old(nonce)@)), old(self).dynv(), old(data)@) {
                None => r is Err,
                Some((len, d1)) => r matches Ok(n) && n == len && final(self).dynv() == d1 && n <= 0xffff + 16,
            },
   ''')
I("        match self.chunk {\n            ChunkSizeParser::Plain => Ok(PlainSizeParser::decode_size(data)),", "        proof { if data@.len() == 2 { assert(data@.take(2) =~= data@); lemma_be_val_bound(data@); lemma_pow256_vals(); } }\n", where="before")
# new_aead_chunk_size_cipher / new_aead_cipher
a = "fn new_aead_chunk_size_cipher(security: SecurityType, key: &[u8]) -> "
I(a, "(r: ")
I(a + "Result<Authenticator, InvalidLength>", ''')
    ensures
        //#C03 C16
        r matches Ok(a) && a.wf() && a.cnt() == 0 && a.alg() == sec_alg(security) && a.key() == sec_key(security, vkdf(key@, seq![lbl_auth_len()]).take(16)),
''')
I("    let key = &kdf__kdf16(key, vec![AUTH_LEN]);\n", "    proof { axiom_md5_len(key@); axiom_md5_len(md5(key@)); }\n")
a = "fn new_aead_cipher(security: SecurityType, key: &[u8]) -> "
I(a, "(r: ")
I(a + "CipherMethod", ''')
    requires key@.len() >= (if security is Chacha20Poly1305 { 32int } else { 16int }),
    ensures
        //#C03 C16
        r.alg() == sec_alg(security), r.key() == key@.take(if security is Chacha20Poly1305 { 32int } else { 16int }),
''')
# ChunkSizeParser::size_bytes
I("impl ChunkSizeParser {\n    fn size_bytes(&self) -> ", "(r: ")
I("impl ChunkSizeParser {\n    fn size_bytes(&self) -> usize", ") ensures r == (if self is Auth { 18int } else { 2int }) ")
# Authenticator
I("impl Authenticator {\n", '''    spec fn alg(&self) -> int { self.cipher.alg() }
    spec fn key(&self) -> Seq<u8> { self.cipher.key() }
    spec fn cnt(&self) -> u16 { self.counting.count }
    spec fn wf(&self) -> bool { self.counting.nonce_size == 12 && self.cipher.alg() < 4 }
    spec fn same_key(&self, o: &Authenticator) -> bool { self.alg() == o.alg() && self.key() == o.key() && self.wf() == o.wf() }
''')
I("    fn new(cipher: CipherMethod) -> ", "(r: ")
I("    fn new(cipher: CipherMethod) -> Self", ")\n        requires cipher.alg() < 4,\n        ensures r.alg() == cipher.alg(), r.key() == cipher.key(), r.wf(),\n            //#C12 C03\n            r.cnt() == 0,\n   ")
I("    const fn size_bytes(&self) -> ", "(r: ")
I("    const fn size_bytes(&self) -> usize", ") ensures r == 18 ")
a = "    fn encode_size(&mut self, size: usize, nonce: &mut [u8]) -> "
I(a, "(r: ", nth=1)
I(a + "Result<Vec<u8>, aead::Error>", ''')
        requires old(self).wf(), 16 <= size <= 0xffff + 16, old(nonce)@.len() >= 12,
        ensures final(self).same_key(old(self)),
            //#C12 C03
            final(self).cnt() == add1(old(self).cnt()),
            final(nonce)@ == be_bytes(old(self).cnt() as nat, 2) + old(nonce)@.skip(2), tail_kept(old(nonce)@, final(nonce)@),
            //#C03 C12
            r matches Ok(v) ==> v@ == aead_seal(old(self).alg(), old(self).key(), vnonce(old(self).cnt(), iv_tail(old(nonce)@)), Seq::empty(), be_bytes(((size - 16) as u16) as nat, 2)) && v@.len() == 18,
   ''', nth=1)
a = "    fn decode_size(&mut self, buffer: &mut BytesMut, nonce: &mut [u8]) -> "
I(a, "(r: ")
I(a + "Result<usize, aead::Error>", ''')
        requires old(self).wf(), old(buffer)@.len() == 18, old(nonce)@.len() >= 12,
        ensures final(self).same_key(old(self)),
            //#C12 C05
            final(self).cnt() == add1(old(self).cnt()),
            final(nonce)@ == be_bytes(old(self).cnt() as nat, 2) + old(nonce)@.skip(2), tail_kept(old(nonce)@, final(nonce)@),
            //#C05 C04 C03
            match aead_open(old(self).alg(), old(self).key(), vnonce(old(self).cnt(), iv_tail(old(nonce)@)), Seq::empty(), old(buffer)@) {
                None => r is Err,
                Some(p) => r matches Ok(n) && n == be_val(p.take(2)) + 16 && n <= 0xffff + 16,
            },
   ''')
I("        self.open(buffer, nonce)?;\n", "        proof { lemma_be_val_bound(buffer@.take(2)); lemma_pow256_vals(); }\n")
a = "    fn seal(&mut self, buffer: &mut impl Buffer, nonce: &mut [u8]) -> "
I(a, "(r: ")
I(a + "Result<(), aead::Error>", ''')
        requires old(self).wf(), old(nonce)@.len() >= 12,
        ensures final(self).same_key(old(self)),
            //#C12 C03
            final(self).cnt() == add1(old(self).cnt()),
            //#C12 C03
            final(nonce)@ == be_bytes(old(self).cnt() as nat, 2) + old(nonce)@.skip(2), tail_kept(old(nonce)@, final(nonce)@),
            //#C12 C03
            r is Ok ==> final(buffer).bview() == aead_seal(old(self).alg(), old(self).key(), vnonce(old(self).cnt(), iv_tail(old(nonce)@)), Seq::empty(), old(buffer).bview()),
   ''')
a = "    fn open(&mut self, buffer: &mut impl Buffer, nonce: &mut [u8]) -> "
I(a, "(r: ")
I(a + "Result<(), aead::Error>", ''')
        requires old(self).wf(), old(nonce)@.len() >= 12,
        ensures final(self).same_key(old(self)),
            //#C12 C05
            final(self).cnt() == add1(old(self).cnt()),
            final(nonce)@ == be_bytes(old(self).cnt() as nat, 2) + old(nonce)@.skip(2), tail_kept(old(nonce)@, final(nonce)@),
            //#C05 C04
            match aead_open(old(self).alg(), old(self).key(), vnonce(old(self).cnt(), iv_tail(old(nonce)@)), Seq::empty(), old(buffer).bview()) {
                Some(p) => r is Ok && final(buffer).bview() == p,
                None => r is Err,
            },
   ''')
NHINT = "        proof { lemma_be_bytes_len(self.cnt() as nat, 2); assert((be_bytes(self.cnt() as nat, 2) + nonce@.skip(2)).take(12) =~= vnonce(self.cnt(), iv_tail(nonce@))); }\n"
I("        self.cipher.encrypt_in_place(self.counting.generate(nonce), &[], buffer)\n", NHINT, where="before")
I("        self.cipher.decrypt_in_place(self.counting.generate(nonce), &[], buffer)\n", NHINT, where="before")
# ShakeSizeParser
I("impl ShakeSizeParser {\n\n    fn size_bytes() -> ", "(r: ")
I("impl ShakeSizeParser {\n\n    fn size_bytes() -> usize", ") ensures r == 2 ")
a = "    fn encode_size(&mut self, size: usize) -> "
I(a, "(r: ")
I(a + "Vec<u8>", ''')
        ensures final(self).seed() == old(self).seed(), final(self).pos() == old(self).pos() + 1,
            //#C03
            r@ == be_bytes((shake_u16(old(self).seed(), old(self).pos()) ^ (size as u16)) as nat, 2), r@.len() == 2,
   ''')
a = "    fn decode_size(&mut self, data: &[u8]) -> "
I(a, "(r: ")
I(a + "usize", ''')
        requires data@.len() == 2
        ensures final(self).seed() == old(self).seed(), final(self).pos() == old(self).pos() + 1,
            //#C03 C04
            r == (shake_u16(old(self).seed(), old(self).pos()) ^ (be_val(data@) as u16)) as nat,
   ''')
I("        let size = u16::v_from_be_bytes(bytes);\n", "        proof { assert(bytes@ =~= data@); lemma_be_val_bound(bytes@); lemma_pow256_vals(); }\n")
a = "    fn next_padding_length(&mut self) -> "
I(a, "(r: ", nth=1)
I(a + "usize", ''')
        ensures final(self).seed() == old(self).seed(), final(self).pos() == old(self).pos() + 1,
            //#C03
            r == (shake_u16(old(self).seed(), old(self).pos()) % 64) as nat, r < 64,
   ''', nth=1)

# ---- apply
def find_nth(s, sub, n):
    i = -1
    for _ in range(n + 1):
        i = s.find(sub, i + 1)
        if i < 0:
            return -1
    return i
res = raw
# compute positions on the raw text, then apply from the back
pos = []
for (anchor, where, text, nth) in E:
    i = find_nth(raw, anchor, nth)
    if i < 0:
        print("ANCHOR NOT FOUND:", repr(anchor), nth); sys.exit(1)
    p = i if where == "before" else i + len(anchor)
    pos.append((p, len(pos), text))
pos.sort(key=lambda x: (x[0], x[1]))
outp = []
last = 0
for p, _, text in pos:
    outp.append(raw[last:p]); outp.append(text); last = p
outp.append(raw[last:])
open(out, "w").write(HDR + "".join(outp) + TAIL if 'TAIL' in globals() else HDR + "".join(outp))
print("ok", len(E), "insertions")
