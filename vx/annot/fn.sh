#!/bin/bash
# (authoring aid) run.sh + verify one function with expanded errors:  fn.sh <unit> <part> <file> <function> [lines]
cd /verif
vx/annot/run.sh $1 $2 $3 --verify-root --verify-function "$4" --expand-errors 2>&1 | grep -v "^warning" | awk '/^note: verifying root/{p=1} /Use curly braces|^help: convert|help: convert the identifier/{exit} p' | grep -v "^ *= \|^$\|recommendation not met" | head -${5:-80}
