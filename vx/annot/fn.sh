#!/bin/bash
# (authoring aid) run.sh + verify one function with expanded errors:  fn.sh <unit> <part> <file> <function>
cd /verif
vx/annot/run.sh $1 $2 $3 --verify-root --verify-function "$4" --expand-errors 2>&1 | grep -v "^warning" | awk '/^note: verifying root/{p=1} p' | grep -v "^ *= \|^$" | head -${5:-80}
