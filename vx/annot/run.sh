#!/bin/bash
# (authoring aid) regenerate an annotated part from the current extraction, rebuild the unit, run Verus
# usage: run.sh <unit> <part> <ignored> [verus args]
set -e
cd /verif
U=$1; P=$2
python3 vx/annot/partraw.py $U $P > /tmp/${P}_raw.rs
python3 vx/annot/${P}_annot.py /tmp/${P}_raw.rs specs/parts/${P}.rs
python3 vx/build.py freeze $U > /dev/null
python3 vx/build.py build $U > /dev/null
cd .cache/$U && verus $U.rs --multiple-errors 40 ${@:4} 2>&1
