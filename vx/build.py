"""Build one unit: extract from /repo, rewrite, merge with the annotations, write the Verus file."""
import hashlib, json, os, re, sys
sys.path.insert(0, os.path.dirname(os.path.abspath(__file__)))
from rtok import lex, render, Tok, match_close
import extract as X
import rewrites as R
import merge as M

VERIF = os.path.dirname(os.path.dirname(os.path.abspath(__file__)))
SPECS = os.path.join(VERIF, "specs")
CACHE = os.path.join(VERIF, ".cache")

def unit_dir(unit):
    return os.path.join(SPECS, unit)

def load_unit(unit):
    u = json.load(open(os.path.join(unit_dir(unit), "unit.json")))
    # a unit is composed of parts (specs/parts/<p>.json + <p>.rs) so that annotated code is shared between units
    for p in u.get("parts", []):
        pj = json.load(open(os.path.join(SPECS, "parts", p + ".json")))
        u.setdefault("sources", []).extend(pj.get("sources", []))
        u.setdefault("paths", {}).update(pj.get("paths", {}))
        u.setdefault("fn_tags", {}).update(pj.get("fn_tags", {}))
        for k in ("assumptions", "unverified_parts", "bounded"):
            u.setdefault(k, []).extend(pj.get(k, []))
    return u

def extraction(unit, repo):
    """returns (tokens B, pieces, rewrite log)"""
    u = load_unit(unit)
    log = R.Log()
    all_toks = []
    pieces_out = []
    per_piece = []
    const_ctx_by_file = {}
    paths = sorted([(k.split("::"), v) for k, v in u.get("paths", {}).items()], key=lambda kv: -len(kv[0]))
    for src in u["sources"]:
        pieces, top, ftoks = X.extract_file(repo, src["file"], src["select"])
        prefix = src.get("prefix")
        pnames = {}
        if prefix:
            for it in top:
                if it.kw in ("fn", "const", "static") and X.cfg_enabled(it.attrs):
                    pnames[it.name] = it.kw
                elif it.kw in ("struct", "enum", "type") and it.name in src.get("prefix_types", []):
                    pnames[it.name] = "type"
            # names that live inside a flattened `mod` are listed explicitly
            for nm in src.get("prefix_fns", []):
                pnames[nm] = "fn"
            for nm in src.get("prefix_types", []):
                pnames[nm] = "type"
        const_ctx_by_file.setdefault(src["file"], [])
        const_ctx_by_file[src["file"]] = X.all_const_items(top, ftoks)
        opts_by_sel = {}
        for s in src["select"]:
            if isinstance(s, dict):
                opts_by_sel[s["sel"]] = s
        for p in pieces:
            opts = None
            for k, v in opts_by_sel.items():
                if p.selector == k or p.selector.startswith(k + " ") or p.selector.startswith(k + "{"):
                    opts = v
            toks = R.apply_item_rewrites([t.clone() for t in p.toks], log, opts)
            if opts and opts.get("serde_names"):
                toks = toks + R.r15_serde_names(p.toks, log)
            spaths = paths
            if src.get("paths"):
                spaths = sorted([(k.split("::"), v) for k, v in src["paths"].items()] + paths, key=lambda kv: -len(kv[0]))
            if spaths:
                toks = R.r13_paths(toks, log, spaths)
            if prefix or src.get("aliases"):
                toks = R.r13_prefix_defs(toks, log, prefix or "", pnames, src.get("aliases"))
            for t in toks:   # inner doc comments are only legal at the top of a file
                if "//!" in t.ws or "/*!" in t.ws:
                    t.ws = t.ws.replace("//!", "// !").replace("/*!", "/* !")
            per_piece.append(toks)
            pieces_out.append(p)
    # R5 per source file (consts of one file may depend on each other; never on other files here)
    byfile = {}
    for p, toks in zip(pieces_out, per_piece):
        byfile.setdefault(p.file, []).append(toks)
    for f, lst in byfile.items():
        try:
            R.r5_consts(lst, [c.replace("//!", "// !").replace("/*!", "/* !") for c in const_ctx_by_file.get(f, [])], log)
        except RuntimeError as e:
            log.add("R5-skipped", lst[0][0], str(e)[:150])
    for p, toks in zip(pieces_out, per_piece):
        if not toks:
            continue
        lead = toks[0].ws
        # keep doc comments directly attached to the item, drop the blank lines before
        lead = lead.lstrip("\n").rstrip(" \t")
        lead = re.sub(r"^[ \t]+", "", lead)
        toks[0] = toks[0].clone(ws="\n\n//@@ %s:%d-%d  %s  sha=%s\n%s" % (p.file, p.line0, p.line1, p.selector, p.sha, lead))
        all_toks += toks
    return all_toks, pieces_out, log

def expand_includes(text, base_dir, seen=None):
    out = []
    for line in text.split("\n"):
        m = re.match(r"^\s*//@include\s+(\S+)\s*$", line)
        if m:
            p = os.path.normpath(os.path.join(base_dir, m.group(1)))
            inc = open(p).read()
            out.append("// >>> include %s" % os.path.relpath(p, VERIF))
            out.append(expand_includes(inc, os.path.dirname(p)))
            out.append("// <<< include %s" % os.path.relpath(p, VERIF))
        else:
            out.append(line)
    return "\n".join(out)

def build(unit, repo, ambig=0):
    """returns dict(path, changes, log, pieces, toks)"""
    os.makedirs(os.path.join(CACHE, unit), exist_ok=True)
    b1, pieces, log = extraction(unit, repo)
    b1_text = render(b1, "\n")
    open(os.path.join(CACHE, unit, "base.now.rs"), "w").write(b1_text)
    d = unit_dir(unit)
    a_text = expand_includes(open(os.path.join(d, "unit.rs")).read(), d)
    a, a_trail = lex(a_text, None)
    b0, _ = lex(open(os.path.join(d, "base.rs")).read(), None)
    merged, changes = M.merge(b0, a, b1, ambig)
    out_path = os.path.join(CACHE, unit, unit + ".rs")
    text = render(merged, a_trail)
    open(out_path, "w").write(text)
    return {"path": out_path, "changes": changes, "log": log, "pieces": pieces, "toks": merged, "text": text}

def freeze(unit, repo):
    b1, pieces, log = extraction(unit, repo)
    d = unit_dir(unit)
    text = render(b1, "\n")
    open(os.path.join(d, "base.rs"), "w").write(text)
    up = os.path.join(d, "unit.rs")
    if not os.path.exists(up):
        open(up, "w").write("use vstd::prelude::*;\nverus! {\n" + text + "\n} // verus!\nfn main() {}\n")
    return log

if __name__ == "__main__":
    cmd, unit = sys.argv[1], sys.argv[2]
    repo = sys.argv[3] if len(sys.argv) > 3 else "/repo"
    if cmd == "freeze":
        log = freeze(unit, repo)
        print(json.dumps(log.counts()))
    elif cmd == "build":
        r = build(unit, repo)
        print(r["path"], json.dumps(r["log"].counts()), "changes:", len(r["changes"]))
    elif cmd == "extract":
        b1, pieces, log = extraction(unit, repo)
        sys.stdout.write(render(b1, "\n"))
