#!/usr/bin/env python3
"""seedtable.py [results.jsonl]: merge batch results into seeded/*/meta.json and regenerate the table in DESIGN.md section 12."""
import json, os, sys, glob
VERIF = os.path.dirname(os.path.dirname(os.path.abspath(__file__)))
if len(sys.argv) > 1 and os.path.exists(sys.argv[1]):
    for l in open(sys.argv[1]):
        d = json.loads(l)
        p = os.path.join(VERIF, d["seed"], "meta.json")
        if not os.path.exists(p):
            continue
        m = json.load(open(p))
        m["validation_result"] = d["validation"]; m["validated_at_repo_commit"] = d["repo"]
        m["check_rc"] = d["check_rc"]; m["check_violations"] = d["violations"]; m["check_undecided"] = d["undecided"]; m["check_summary"] = d["summary"]
        json.dump(m, open(p, "w"), indent=1)
rows = []
for p in sorted(glob.glob(os.path.join(VERIF, "seeded", "*", "meta.json"))):
    m = json.load(open(p))
    sid = os.path.basename(os.path.dirname(p))
    rc = m.get("check_rc")
    out = {1: "**caught**", 0: "missed", 2: "undecided", 3: "patch no longer applies"}.get(rc, "not run")
    note = m.get("outcome_note", "")
    val = m.get("validation_result") or json.dumps(m.get("validation", ""))
    okv = "ok" if ("demo_pristine_rc=0" in val and "demo_patched_rc=101" in val and "suite_rc=0" in val) or (isinstance(m.get("validation"), dict) and m["validation"].get("demo_pristine_rc") == "0" and m["validation"].get("demo_patched_rc") == "101" and m["validation"].get("suite_rc") == "0") else "see meta"
    what = (m.get("what") or m.get("summary") or "").replace("\n", " ")
    rows.append("| %s | %s | %s | %s | %s |" % (sid, (what[:150] + ("…" if len(what) > 150 else "")).replace("|", "\\|"), okv, out, note.replace("|", "\\|")))
table = "| seed | change | validated | check outcome | note |\n|---|---|---|---|---|\n" + "\n".join(rows) + "\n"
dp = os.path.join(VERIF, "DESIGN.md")
s = open(dp).read()
a = s.index("<!-- SEEDTABLE-BEGIN -->") + len("<!-- SEEDTABLE-BEGIN -->")
b = s.index("<!-- SEEDTABLE-END -->")
open(dp, "w").write(s[:a] + "\n" + table + s[b:])
print(len(rows), "rows")
