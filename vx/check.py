#!/usr/bin/env python3
"""./check <PROPERTY> [--tier quick|thorough] [--repo /repo] [--replay file]

Builds every unit that serves the property from /repo's working tree, runs Verus on it, maps the
diagnostics back to obligations, applies known_findings.json and writes evidence/<ID>.json.
exit 0 = every obligation tagged with the property was discharged (open known findings are printed)
exit 1 = VIOLATION line(s) printed        exit 2 = UNDECIDED (extraction/anchor/tool problem)"""
import concurrent.futures, hashlib, json, os, re, subprocess, sys, time
sys.path.insert(0, os.path.dirname(os.path.abspath(__file__)))
import build as B
from rtok import lex, render, match_close
import extract as X
import merge as M

VERIF = B.VERIF
EVID = os.path.join(VERIF, "evidence")
CLAUSE_KW = {"requires", "ensures", "invariant", "invariant_except_break", "decreases", "recommends"}
try:
    VERUS_ID = subprocess.run(["verus", "--version"], capture_output=True, text=True).stdout.strip()
except Exception:
    VERUS_ID = "?"
VERUS_FLAGS = ["--multiple-errors", "200", "--rlimit", "40", "--output-json", "--time", "--error-format=json"]

def all_units():
    us = {}
    for d in sorted(os.listdir(B.SPECS)):
        p = os.path.join(B.SPECS, d, "unit.json")
        if os.path.exists(p):
            us[d] = json.load(open(p))
    return us

# ------------------------------------------------------------------ structure of the generated unit
class Fn:
    def __init__(self):
        self.name = self.qual = None
        self.l0 = self.l1 = 0
        self.mode = "exec"
        self.real = False
        self.external = False
        self.tags = []
        self.clauses = []      # (kind, line, text, tags)
        self.src = None
        self.src_line = None
        self.body_open_tok = None
        self.by_mode = False

def analyse(toks):
    """function table, tag lines, clause list of a merged unit (token list)."""
    # rendered line number of every token
    line = 1
    tl = []
    tagline = {}
    for t in toks:
        # tags in trivia attach to the line of this token
        nl = t.ws.count("\n")
        line += nl
        tl.append(line)
        for m in re.finditer(r"//#\s*((?:C\d\d[ ,]*)+)", t.ws):
            tagline.setdefault(line, [])
            for c in re.findall(r"C\d\d", m.group(1)):
                if c not in tagline[line]:
                    tagline[line].append(c)
        line += t.text.count("\n")
    fns = []
    impl_stack = []   # (close_index, name)
    i = 0
    n = len(toks)
    while i < n:
        t = toks[i]
        while impl_stack and i > impl_stack[-1][0]:
            impl_stack.pop()
        if t.kind == "id" and t.text in ("impl", "trait", "mod") and (i == 0 or toks[i - 1].text not in ("&", "(", ",", ":", "<", "dyn", "->", "+", "=")):
            j = i + 1
            while j < n and toks[j].text not in ("{", ";"):
                if toks[j].text in ("(", "["):
                    j = match_close(toks, j)
                j += 1
            if j < n and toks[j].text == "{":
                name = X.impl_name(toks, i, j) if t.text == "impl" else toks[i + 1].text
                impl_stack.append((match_close(toks, j), name))
            i = j + 1
            continue
        if t.kind == "id" and t.text == "fn" and i + 1 < n and toks[i + 1].kind == "id":
            f = Fn()
            f.name = toks[i + 1].text
            f.qual = "::".join([s[1] for s in impl_stack] + [f.name])
            f.real = t.src is not None
            f.src, f.src_line = t.src, t.line
            k = i - 1
            quals = []
            while k >= 0 and toks[k].kind == "id" and toks[k].text in ("proof", "spec", "open", "closed", "uninterp", "broadcast", "pub", "exec", "const", "unsafe", "axiom"):
                quals.append(toks[k].text); k -= 1
            f.mode = "proof" if ("proof" in quals or "axiom" in quals) else "spec" if "spec" in quals else "exec"
            # attributes just before
            kk = k
            while kk >= 0 and toks[kk].text == "]":
                depth = 0
                a = kk
                while True:
                    if toks[a].text == "]": depth += 1
                    elif toks[a].text == "[":
                        depth -= 1
                        if depth == 0: break
                    a -= 1
                attr = render(toks[a:kk + 1])
                if "external_body" in attr or "verifier::external" in attr:
                    f.external = True
                kk = a - 2
            first = k + 1
            f.l0 = tl[first]
            f.tags = list(tagline.get(tl[first], []))
            # header until body
            hdr, body, by_mode = scan_clauses(toks, i + 2, n, tl, tagline, "")
            f.clauses += hdr
            f.by_mode = by_mode
            j = body if body is not None else _semi(toks, i + 2, n)
            if body is not None:
                close = match_close(toks, body)
                f.l1 = tl[close]
                f.body_open_tok = body
                # inner clauses: loop invariants, asserts
                k2 = body + 1
                while k2 < close:
                    x = toks[k2]
                    if x.src is None and x.kind == "id" and x.text == "assert" and toks[k2 + 1].text == "(":
                        e = match_close(toks, k2 + 1)
                        f.clauses.append(("assert", tl[k2], " ".join(y.text for y in toks[k2 + 2:e]), list(tagline.get(tl[k2], []))))
                        k2 = e + 1
                        continue
                    if x.src is None and x.kind == "id" and x.text in ("invariant", "invariant_except_break", "ensures", "decreases"):
                        cl, lb, _ = scan_clauses(toks, k2, close, tl, tagline, "loop-")
                        f.clauses += cl
                        k2 = (lb + 1) if lb is not None else k2 + 1
                        continue
                    k2 += 1
                fns.append(f)
                i = i + 2   # nested fns are rare; continue scanning inside for closures etc.
                continue
            else:
                f.l1 = tl[min(j, n - 1)]
                fns.append(f)
                i = j + 1
                continue
        i += 1
    return fns, tagline, tl

def _semi(toks, j, n):
    while j < n and toks[j].text not in (";", "{"):
        if toks[j].text in ("(", "["):
            j = match_close(toks, j)
        j += 1
    return j

def scan_clauses(toks, j, n, tl, tagline, prefix):
    """walk requires/ensures/invariant/decreases clauses from toks[j] to the `{` that opens the body.
    returns (clauses, body_index or None, by_mode)"""
    out = []
    cur_kind = None
    cs = None
    expect_block = 0
    by_mode = False
    def flush(end):
        nonlocal cs
        if cur_kind and cs is not None and end > cs:
            out.append((prefix + cur_kind, tl[cs], " ".join(x.text for x in toks[cs:end]), list(tagline.get(tl[cs], []))))
        cs = None
    while j < n:
        x = toks[j]
        if x.text in ("(", "["):
            if cur_kind and cs is None: cs = j
            j = match_close(toks, j) + 1
            continue
        if x.text == "{":
            pv = toks[j - 1].text if j > 0 else ""
            ppv = toks[j - 2].text if j > 1 else ""
            if cur_kind and cs is not None and (pv in ("&&", "||", "==", "!=", "=", "+", "-", "*", "=>", "!", "&", "|") or (pv == ">" and ppv == "==")):
                # a block expression inside a clause (`==> { let ..; .. }`), not the body
                j = match_close(toks, j) + 1
                continue
            if cur_kind and expect_block > 0:
                expect_block -= 1
                j = match_close(toks, j) + 1
                if j < n and toks[j].text == "else":
                    if toks[j + 1].text != "if":
                        expect_block += 1
                    j += 1
                continue
            flush(j)
            return out, j, by_mode
        if x.text == ";":
            flush(j)
            return out, None, by_mode
        if x.kind == "id" and x.text == "by" and x.src is None and toks[j + 1].text == "(":
            flush(j)
            by_mode = True
            cur_kind = None
            j = match_close(toks, j + 1) + 1
            continue
        if x.kind == "id" and x.text in CLAUSE_KW and x.src is None:
            flush(j)
            cur_kind = x.text
            expect_block = 0
            j += 1
            continue
        if x.text == "," and cur_kind:
            flush(j)
            j += 1
            continue
        if cur_kind and x.kind == "id" and x.text in ("match", "if"):
            expect_block += 1
        if cur_kind and cs is None:
            cs = j
        j += 1
    return out, None, by_mode

def fn_all_tags(f, udesc):
    """every property a function serves: its own tag, the tags of its clauses, and (real exec fns) the unit defaults"""
    tags = list(f.tags)
    for c in f.clauses:
        for t in c[3]:
            if t not in tags:
                tags.append(t)
    if f.real and f.mode == "exec":
        for t in udesc.get("fn_tags", {}).get(f.qual, udesc.get("fn_tags", {}).get(f.name, udesc.get("default_tags", []))):
            if t not in tags:
                tags.append(t)
    return tags

def fn_at(fns, line):
    best = None
    for f in fns:
        if f.l0 <= line <= f.l1 and (best is None or f.l0 >= best.l0):
            best = f
    return best

def norm(s):
    """canonical clause text: tokens separated by one blank"""
    try:
        ts, _ = lex(s)
        return " ".join(t.text for t in ts)
    except Exception:
        return re.sub(r"\s+", " ", s).strip()

# ------------------------------------------------------------------ running verus
def run_verus(path, extra=None, rlimit=None):
    flags = list(VERUS_FLAGS)
    if rlimit:
        flags[flags.index("--rlimit") + 1] = str(rlimit)
    cmd = ["verus", os.path.basename(path)] + flags + (extra or [])
    # the verdict for a byte-identical generated file is reused between the checks of different properties
    # (same unit text + same flags + same verus binary => same obligations); VERIF_NOCACHE=1 disables this
    key = hashlib.sha256((open(path).read() + "\0" + " ".join(cmd) + "\0" + VERUS_ID).encode()).hexdigest()[:24]
    cpath = os.path.join(os.path.dirname(path), "verdict-%s.json" % key)
    if os.environ.get("VERIF_NOCACHE") != "1" and os.path.exists(cpath):
        try:
            c = json.load(open(cpath))
            c["cached"] = True
            return c
        except Exception:
            pass
    t0 = time.time()
    r = subprocess.run(cmd, cwd=os.path.dirname(path), capture_output=True, text=True)
    wall = time.time() - t0
    summary = None
    try:
        summary = json.loads(r.stdout)
    except Exception:
        pass
    diags = []
    raw = []
    for l in r.stderr.split("\n"):
        l = l.strip()
        if l.startswith("{"):
            try:
                diags.append(json.loads(l))
            except Exception:
                raw.append(l)
        elif l:
            raw.append(l)
    out = {"cmd": " ".join(cmd), "rc": r.returncode, "summary": summary, "diags": diags, "raw": raw, "wall": wall, "cached": False}
    try:
        for fn in os.listdir(os.path.dirname(path)):
            if fn.startswith("verdict-") and os.path.getmtime(os.path.join(os.path.dirname(path), fn)) < time.time() - 3600:
                os.remove(os.path.join(os.path.dirname(path), fn))
        json.dump(out, open(cpath, "w"))
    except Exception:
        pass
    return out

VERIF_KINDS = [
    ("postcondition not satisfied", "postcondition"),
    ("unable to prove post-condition of closure", "postcondition"),
    ("precondition not satisfied", "precondition"),
    ("assertion failed", "assert"),
    ("possible arithmetic underflow/overflow", "overflow"),
    ("possible bit shift underflow/overflow", "overflow"),
    ("possible division by zero", "divzero"),
    ("invariant not satisfied before loop", "invariant-entry"),
    ("invariant not satisfied at end of loop body", "invariant-preserved"),
    ("loop invariant not preserved", "invariant-preserved"),
    ("loop invariant not satisfied", "invariant-entry"),
    ("decreases not satisfied", "decreases"),
    ("could not prove termination", "decreases"),
    ("loop ensures not satisfied", "loop-ensures"),
    ("recommendation not met", "recommends"),
    ("unreachable", "unreachable"),
    ("index out of bounds", "bounds"),
    ("failed to prove", "other-vc"),
]

def classify(diag):
    msg = diag.get("message", "")
    if "Resource limit (rlimit) exceeded" in msg or "rlimit" in msg.lower() and "exceeded" in msg.lower():
        return "rlimit"
    for pat, kind in VERIF_KINDS:
        if pat in msg:
            return kind
    return None

def span_text(lines, sp):
    a, b = sp["line_start"], sp["line_end"]
    if a == b:
        return lines[a - 1][sp["column_start"] - 1:sp["column_end"] - 1]
    parts = [lines[a - 1][sp["column_start"] - 1:]] + lines[a:b - 1] + [lines[b - 1][:sp["column_end"] - 1]]
    return " ".join(parts)

class UnitResult:
    pass

def check_unit(unit, repo, want_canary=False):
    """an annotation anchored exactly where /repo gained new code can go before or after that code; hints are not trusted,
    so both placements are tried and the one with fewer failed obligations is reported (DESIGN.md 5.2)"""
    res = check_unit1(unit, repo, want_canary, 0)
    if res.status == "undecided" and "anchor ambiguous" in res.reason:
        r1 = check_unit1(unit, repo, want_canary, 1)
        if r1.status == "ok" and not r1.failures:
            return r1
        r2 = check_unit1(unit, repo, want_canary, 2)
        cands = [r for r in (r1, r2) if r.status == "ok"]
        if not cands:
            return r1
        return min(cands, key=lambda r: len(r.failures))
    return res

def check_unit1(unit, repo, want_canary=False, ambig=0):
    res = UnitResult()
    res.unit = unit
    res.udesc = B.load_unit(unit)
    res.status = "ok"
    res.reason = ""
    res.failures = []
    res.fns = []
    res.wall = 0
    res.changes = []
    res.cmd = ""
    res.canary = None
    t0 = time.time()
    try:
        b = B.build(unit, repo, ambig)
    except (M.MergeError, X.ExtractError, Exception) as e:
        res.status = "undecided"
        res.reason = "%s: %s" % (type(e).__name__, e)
        return res
    res.changes = b["changes"]
    res.rewrites = b["log"].counts()
    res.pieces = [{"file": p.file, "lines": [p.line0, p.line1], "item": p.selector, "sha": p.sha} for p in b["pieces"]]
    toks = b["toks"]
    text = b["text"]
    lines = text.split("\n")
    # forbidden constructs in annotation text
    for t in toks:
        if t.src is None and t.kind == "id" and t.text in ("assume", "admit"):
            res.status = "undecided"; res.reason = "forbidden `%s` in annotations" % t.text
            return res
    fns, tagline, tl = analyse(toks)
    res.fns = fns
    res.trusted = scan_trusted(toks)
    out = run_verus(b["path"])
    res.cmd = out["cmd"]
    res.verus = out
    res.path = b["path"]
    res.lines = lines
    _digest(res, out, fns, tagline, lines)
    if res.status == "rlimit":
        out = run_verus(b["path"], rlimit=160)
        res.verus = out
        res.failures = []
        res.status = "ok"
        _digest(res, out, fns, tagline, lines)
        if res.status == "rlimit":
            # a broken body can make the prover search until the limit instead of failing.  Clauses and hints marked
            # /*H<*/ .. /*>H*/ (the expensive refinement clauses) are dropped and the remaining, cheaper obligations are
            # checked: a definite failure there is reported; if they all pass the unit stays undecided.
            light = re.sub(r"/\*H<\*/.*?/\*>H\*/", " ", text, flags=re.S)
            if light != text:
                lp = b["path"].replace(".rs", "_light.rs")
                open(lp, "w").write(light)
                out2 = run_verus(lp)
                r2 = UnitResult(); r2.unit = unit; r2.udesc = res.udesc; r2.status = "ok"; r2.reason = ""; r2.failures = []
                llines = light.split("\n")
                ltoks, _ = lex(light)
                lfns, ltag, _ = analyse(ltoks)
                for f in lfns:   # provenance is lost by re-lexing: copy it by qualified name
                    for g in fns:
                        if g.qual == f.qual:
                            f.real, f.src, f.src_line = g.real, g.src, g.src_line
                _digest(r2, out2, lfns, ltag, llines)
                if r2.status == "ok" and r2.failures:
                    res.status = "ok"; res.failures = r2.failures; res.verified = getattr(r2, "verified", 0); res.fn_times = getattr(r2, "fn_times", {})
                    res.note = "rlimit with the full contract; failures are from the unit without its /*H<*/../*>H*/ clauses"
                    res.wall = time.time() - t0
                    return res
            res.status = "undecided"; res.reason = "rlimit exceeded (also at 4x): " + res.reason
    if want_canary and res.status == "ok":
        res.canary = run_canary(res, toks)
    res.wall = time.time() - t0
    return res

def _digest(res, out, fns, tagline, lines):
    summ = out["summary"]
    vr = (summ or {}).get("verification-results", {})
    errs = [d for d in out["diags"] if d.get("level") == "error" and not d.get("message", "").startswith("aborting due to")]
    hard = [d for d in errs if classify(d) is None]
    if summ is None or vr.get("encountered-vir-error") or hard:
        res.status = "undecided"
        msg = hard[0]["message"] if hard else ("verus produced no summary: " + " | ".join(out["raw"][:3]))
        loc = ""
        if hard and hard[0].get("spans"):
            sp = hard[0]["spans"][0]
            loc = " at generated line %d: %s" % (sp["line_start"], lines[sp["line_start"] - 1].strip()[:120])
        res.reason = "unit does not compile under Verus (unsupported construct or lost anchor): %s%s" % (msg, loc)
        return
    res.verified = vr.get("verified", 0)
    # per-function times
    res.fn_times = {}
    try:
        for m in summ["times-ms"]["smt"]["smt-run-module-times"]:
            for fb in m.get("function-breakdown", []):
                res.fn_times[fb["function"]] = {"ms": fb["time"], "rlimit": fb["rlimit"], "ok": fb["success"], "mode": fb.get("mode:")}
    except Exception:
        pass
    udesc = res.udesc
    for d in errs:
        kind = classify(d)
        spans = d.get("spans", [])
        prim = [s for s in spans if s.get("is_primary")] or spans
        if not prim:
            continue
        p = prim[0]
        f = fn_at(fns, p["line_start"])
        if kind == "rlimit":
            res.status = "rlimit"; res.reason = "%s in %s" % (d["message"][:80], f.qual if f else "?")
            return
        tags = []
        for s in spans:
            for c in tagline.get(s["line_start"], []):
                if c not in tags:
                    tags.append(c)
        via = "clause"
        if not tags and f is not None:
            tags = fn_all_tags(f, udesc); via = "fn"
        ptxt = norm(span_text(lines, p))
        sec = [norm(span_text(lines, s)) for s in spans if not s.get("is_primary") and (s.get("label") or "").startswith("failed")]
        oid = "%s/%s/%s/%s" % (res.unit, f.qual if f else "?", kind, ptxt[:160])
        if kind == "precondition" and sec:
            oid += " :: " + sec[0][:120]
        res.failures.append({"id": oid, "kind": kind, "fn": f.qual if f else None, "real_fn": bool(f and f.real), "mode": f.mode if f else None,
                             "tags": tags, "via": via, "message": d["message"], "rendered": d.get("rendered", ""),
                             "gen_line": p["line_start"], "text": ptxt,
                             "repo_loc": _repo_loc(res, p["line_start"], f)})

def _repo_loc(res, gen_line, f):
    # nearest real token at or before the generated line inside the same function
    if f is None or f.src is None:
        return None
    return "%s:%s (fn %s)" % (f.src, f.src_line, f.qual)

def scan_trusted(toks):
    out = []
    n = len(toks)
    for i, t in enumerate(toks):
        if t.kind == "id" and t.text in ("external_body", "assume_specification", "external_type_specification", "external_trait_specification", "axiom", "uninterp", "external_fn_specification", "external"):
            # find the next fn / struct name
            j = i
            name = None
            while j < n and j < i + 80:
                if toks[j].kind == "id" and toks[j].text in ("fn", "struct", "trait", "enum") and toks[j + 1].kind == "id":
                    name = toks[j].text + " " + toks[j + 1].text; break
                if t.text == "assume_specification" and toks[j].text == "[":
                    e = match_close(toks, j)
                    name = "std " + "".join(x.text for x in toks[j + 1:e]); break
                j += 1
            out.append("%s %s" % (t.text, name))
    return sorted(set(out))

def run_canary(res, toks):
    """reachability canary: `assert(false)` as first statement of every checked exec/proof fn must FAIL."""
    ins_at = {}
    targets = []
    for f in res.fns:
        if f.body_open_tok is None or f.external or f.mode == "spec" or f.name == "main" or f.by_mode:
            continue
        ins_at[f.body_open_tok] = f
        targets.append(f)
    parts = []
    for i, t in enumerate(toks):
        parts.append(t.ws + t.text)
        if i in ins_at:
            f = ins_at[i]
            parts.append(" proof { assert(false); } " if f.mode == "exec" else " assert(false); ")
    path = res.path.replace(".rs", "_canary.rs")
    open(path, "w").write("".join(parts) + _trailing(res))
    out = run_verus(path)
    hard = [d for d in out["diags"] if d.get("level") == "error" and classify(d) is None and not d.get("message", "").startswith("aborting due to")]
    if out["summary"] is None or hard:
        return {"functions": len(targets), "failed_as_required": 0, "vacuous": [], "error": (hard[0]["message"] if hard else "no summary")[:200]}
    failed_fns = set()
    lines = open(path).read().split("\n")
    for d in out["diags"]:
        if d.get("level") == "error" and "assertion failed" in d.get("message", ""):
            for s in d.get("spans", []):
                if s.get("is_primary") and "assert(false)" in lines[s["line_start"] - 1]:
                    f = fn_at(res.fns, s["line_start"])
                    if f: failed_fns.add(f.qual)
    vac = [f.qual for f in targets if f.qual not in failed_fns]
    return {"functions": len(targets), "failed_as_required": len(targets) - len(vac), "vacuous": vac}

def _trailing(res):
    # text after the last token of the unit
    txt = "\n".join(res.lines)
    m = re.search(r"(\s*(//[^\n]*\n\s*)*)$", txt)
    return m.group(1) if m else "\n"

# ------------------------------------------------------------------ property level
def obligations_for(res, prop):
    """contract clauses / asserts / safety obligations of this unit that carry `prop`."""
    obs = []
    ud = res.udesc
    for f in res.fns:
        if f.mode == "spec" or f.external:
            continue
        ftags = fn_all_tags(f, ud)
        for kind, line, txt, tags in f.clauses:
            if kind in ("requires", "recommends"):
                continue
            tg = tags or ftags
            if prop in tg:
                obs.append({"id": "%s/%s/%s/%s" % (res.unit, f.qual, kind, norm(txt)[:160]), "fn": f.qual, "kind": kind})
        if f.real and f.mode == "exec" and prop in ftags:
            obs.append({"id": "%s/%s/safety/no panic, no overflow, callee preconditions, termination" % (res.unit, f.qual), "fn": f.qual, "kind": "safety"})
    return obs

def load_known():
    p = os.path.join(VERIF, "known_findings.json")
    if not os.path.exists(p):
        return []
    return json.load(open(p)).get("findings", [])

def main():
    import argparse
    ap = argparse.ArgumentParser()
    ap.add_argument("prop")
    ap.add_argument("--tier", default=os.environ.get("VERIF_TIER", "quick"))
    ap.add_argument("--repo", default="/repo")
    ap.add_argument("--replay")
    ap.add_argument("--units")
    a = ap.parse_args()
    prop = a.prop
    global EVID
    if os.path.realpath(a.repo) != "/repo":
        # a scratch copy (self-tests, seeded changes): never overwrite the evidence of /repo itself
        EVID = os.path.join(B.CACHE, "evidence-scratch")
        # and build its units in a private cache so that a concurrent run on /repo is not disturbed
        import atexit, shutil
        B.CACHE = os.path.join(B.CACHE, "scratch-%d" % os.getpid())
        atexit.register(lambda: shutil.rmtree(B.CACHE, ignore_errors=True))
    seed = int(os.environ.get("VERIF_SEED", "0") or 0)
    t0 = time.time()
    os.makedirs(EVID, exist_ok=True)
    os.makedirs(os.path.join(EVID, "replay"), exist_ok=True)
    if a.replay:
        return replay(prop, a.replay, a.repo)
    for fn in os.listdir(os.path.join(EVID, "replay")):
        if fn.startswith(prop + "-"):
            os.remove(os.path.join(EVID, "replay", fn))
    units = all_units()
    mine = [u for u, d in units.items() if prop in d.get("serves", [])]
    if a.units:
        mine = a.units.split(",")
    if not mine:
        print("UNDECIDED property=%s reason=no unit serves this property" % prop)
        return 2
    thorough = a.tier == "thorough"
    with concurrent.futures.ThreadPoolExecutor(max_workers=8) as ex:
        results = list(ex.map(lambda u: check_unit(u, a.repo, want_canary=True), mine))
    known = [k for k in load_known() if k.get("property") == prop]
    open_known = {k["obligation"]: k for k in known if k.get("status") == "open"}
    undecided = [r for r in results if r.status != "ok"]
    violations = []
    known_hits = []
    untagged = []
    obligations = []
    for r in results:
        if r.status != "ok":
            continue
        obligations += obligations_for(r, prop)
        for f in r.failures:
            if prop in f["tags"]:
                if f["id"] in open_known:
                    known_hits.append((f, open_known[f["id"]]))
                else:
                    violations.append((r, f))
            elif not f["tags"]:
                untagged.append((r, f))
    failed_ids = set(f["id"] for _, f in violations) | set(f["id"] for f, _ in known_hits)
    failing_fns = set((r.unit, f["fn"]) for r, f in violations) | set((None, f["fn"]) for f, _ in known_hits)
    # an obligation is discharged when verus reports no failure for it
    failed_ft = set((f["fn"], f["text"][:160]) for _, f in violations) | set((f["fn"], f["text"][:160]) for f, _ in known_hits)
    def ob_failed(o):
        if o["id"] in failed_ids or (o["fn"], o["id"].split("/", 3)[3]) in failed_ft:
            return True
        if o["kind"] == "safety":
            return any(f["fn"] == o["fn"] and f["kind"] in ("precondition", "overflow", "bounds", "divzero", "decreases", "unreachable")
                       for _, f in violations) or any(f["fn"] == o["fn"] and f["kind"] in ("precondition", "overflow", "bounds", "divzero", "decreases") for f, _ in known_hits)
        return False
    # obligations that fail only because of a listed open finding are reported under known_open, never counted as obligations
    kh_ids = set(f["id"] for f, _ in known_hits)
    kh_ft = set((f["fn"], f["text"][:160]) for f, _ in known_hits)
    viol_ids = set(f["id"] for _, f in violations)
    def ob_known(o):
        return (o["id"] in kh_ids or (o["fn"], o["id"].split("/", 3)[3]) in kh_ft) and o["id"] not in viol_ids
    obligations = [o for o in obligations if not ob_known(o)]
    n_ob = len(obligations)
    n_failed = sum(1 for o in obligations if ob_failed(o))
    vacuous = []
    canary_total = 0
    for r in results:
        if r.status == "ok" and r.canary:
            canary_total += r.canary["functions"]
            vacuous += ["%s/%s" % (r.unit, v) for v in r.canary["vacuous"]]
            if r.canary.get("error"):
                vacuous.append("%s/<canary unit does not compile: %s>" % (r.unit, r.canary["error"]))
    rc = 0
    lines_out = []
    for f, k in known_hits:
        lines_out.append("KNOWN-FINDING: property=%s %s [%s]" % (prop, k.get("what", ""), f["id"]))
    # open findings in code no contract reaches are listed on every run as well (they were replayed on the real code,
    # see their witness); no obligation decides them, so they cannot turn into a VIOLATION or disappear by themselves
    hit_obl = set(k.get("obligation") for _, k in known_hits)
    for k in known:
        if k.get("status") == "open" and k.get("outside_contracts") and k.get("obligation") not in hit_obl:
            lines_out.append("KNOWN-FINDING: property=%s %s [not under contract; witness %s]" % (prop, k.get("what", ""), k.get("witness", "")))
    nviol = 0
    for r, f in violations:
        nviol += 1
        rp = os.path.join(EVID, "replay", "%s-%d.json" % (prop, nviol))
        wit = find_witness(prop, r, f, a.repo, seed)
        json.dump({"property": prop, "obligation": f["id"], "function": f["fn"], "kind": f["kind"], "repo_location": f["repo_loc"],
                   "verifier": "verus", "verifier_message": f["message"], "verifier_output": f["rendered"],
                   "code_changes_vs_frozen_base": r.changes[:20],
                   "witness": wit, "replay_cmd": (wit or {}).get("cmd")}, open(rp, "w"), indent=1)
        lines_out.append("VIOLATION property=%s replay=%s%s" % (prop, rp, "" if wit and wit.get("confirmed") else " no-failing-input-found"))
        rc = 1
    if rc == 0 and (undecided or vacuous or (untagged and not violations)):
        rc = 2
        for r in undecided:
            lines_out.append("UNDECIDED property=%s unit=%s reason=%s" % (prop, r.unit, r.reason))
        for v in vacuous:
            lines_out.append("UNDECIDED property=%s reason=vacuous-contract canary did not fail in %s" % (prop, v))
        for r, f in untagged:
            lines_out.append("UNDECIDED property=%s reason=proof-broken (no property-carrying obligation failed) %s" % (prop, f["id"]))
    if n_ob == 0 and rc == 0:
        rc = 2
        lines_out.append("UNDECIDED property=%s reason=no obligations generated (vacuous run)" % prop)
    thorough_info = None
    if thorough and rc == 0:
        thorough_info = run_thorough(prop, results, a.repo, seed)
        for l in thorough_info.get("lines", []):
            lines_out.append(l)
    wall = time.time() - t0
    write_evidence(prop, a.tier, seed, results, obligations, n_ob, n_failed, known_hits, violations, undecided, canary_total, vacuous, wall, mine, thorough_info)
    for l in lines_out:
        print(l)
    print("%s: units=%s obligations=%d discharged=%d known_open=%d violations=%d undecided=%d canaries=%d wall=%.1fs" % (
        prop, ",".join(mine), n_ob, n_ob - n_failed, len(known_hits), nviol, len(undecided), canary_total, wall))
    return rc

def run_thorough(prop, results, repo, seed):
    """thorough tier (only after the quick verdict is a pass):
    (1) proof stability: every unit is verified again with two other Z3 random seeds and a 4x resource limit is NOT given -- an obligation that
        only holds for one seed is reported as a NOTE and recorded in the evidence (coverage.thorough.unstable); it never changes the exit code
        (the default-seed proof stands) and is never a violation;
    (2) contract strength: a seeded sample of syntactic mutants of the real functions that carry this property (one per function, at most 40 per
        unit) is run through the same pipeline; killed / undecided / survived are recorded in the evidence, survivors are listed as NOTE lines
        (an equivalent mutant or a gap in the contracts; they do not change the exit code)."""
    info = {"z3_seeds": [], "unstable": [], "mutation": {}, "lines": []}
    for r in results:
        if r.status != "ok":
            continue
        for zs in (seed * 2 + 11, seed * 2 + 12):
            out = run_verus(r.path, extra=["--smt-option", "smt.random_seed=%d" % zs])
            errs = [d for d in out["diags"] if d.get("level") == "error" and not d.get("message", "").startswith("aborting due to")]
            known = set(f["text"][:80] for f in r.failures)
            bad = []
            for d in errs:
                sp = [x for x in d.get("spans", []) if x.get("is_primary")] or d.get("spans", [])
                txt = norm(span_text(r.lines, sp[0]))[:80] if sp else d.get("message", "")[:80]
                if txt not in known:
                    bad.append("%s: %s" % (classify(d) or "error", txt))
            info["z3_seeds"].append({"unit": r.unit, "z3_seed": zs, "new_failures": bad[:10], "wall_s": round(out["wall"], 1)})
            if bad:
                info["unstable"].append("%s (z3 seed %d): %s" % (r.unit, zs, "; ".join(bad[:3])))
    for u in info["unstable"]:
        # the default-seed run discharged every obligation, so the property is decided; a resource limit or an incomplete proof search under
        # another seed says the proof is brittle, not that it is wrong: reported, recorded in the evidence, exit code unchanged
        info["lines"].append("NOTE property=%s proof not stable under another solver seed: %s" % (prop, u[:300]))
    # (2) mutation sample
    try:
        import mutate
        for r in results:
            if r.status != "ok":
                continue
            fnames = set()
            for f in r.fns:
                if f.real and f.mode == "exec" and prop in fn_all_tags(f, r.udesc):
                    fnames.add(f.name)
            res = mutate.sample(r.unit, repo, fnames, per_fn=1, limit=40, seed=seed, jobs=8)
            summ = {}
            for m in res:
                summ[m["outcome"]] = summ.get(m["outcome"], 0) + 1
            info["mutation"][r.unit] = {"summary": summ, "survivors": [m["mut"] for m in res if m["outcome"] == "survived"], "mutants": len(res)}
            for m in res:
                if m["outcome"] == "survived":
                    info["lines"].append("NOTE property=%s surviving mutant (equivalent, or not pinned down by a contract): %s in fn %s" % (prop, m["mut"], m["fn"]))
    except Exception as e:
        info["mutation"]["error"] = str(e)[:200]
    return info

def find_witness(prop, r, f, repo, seed):
    try:
        import witness
        return witness.search(prop, r, f, repo, seed)
    except ImportError:
        return None
    except Exception as e:
        return {"confirmed": False, "error": str(e)}

def replay(prop, path, repo):
    d = json.load(open(path))
    print(json.dumps({k: d[k] for k in ("property", "obligation", "function", "repo_location", "verifier_message")}, indent=1))
    cmd = d.get("replay_cmd")
    if cmd:
        print("re-running witness: " + cmd)
        return subprocess.call(cmd, shell=True, cwd=VERIF)
    # no concrete input: re-run the proof and report whether the obligation still fails
    unit = d["obligation"].split("/")[0]
    r = check_unit(unit, repo)
    still = [f for f in r.failures if f["id"] == d["obligation"]] if r.status == "ok" else []
    print("obligation %s on the current tree" % ("STILL FAILS" if still else "no longer fails"))
    return 1 if still else 0

def write_evidence(prop, tier, seed, results, obligations, n_ob, n_failed, known_hits, violations, undecided, canary_total, vacuous, wall, units, thorough_info=None):
    trusted = []
    fn_list = []
    lemmas = []
    by_backend = {"verus-z3": 0}
    solver_ms = 0
    rewrites = {}
    cmds = []
    for r in results:
        if r.status != "ok" and not getattr(r, "fns", None):
            continue
        cmds.append(r.cmd)
        for t in getattr(r, "trusted", []):
            trusted.append("%s: %s" % (r.unit, t))
        for k, v in getattr(r, "rewrites", {}).items():
            rewrites[k] = rewrites.get(k, 0) + v
        ud = r.udesc
        for f in r.fns:
            if f.mode == "spec" or f.external:
                continue
            if f.real and f.mode == "exec":
                if prop in fn_all_tags(f, ud):
                    fn_list.append({"fn": f.qual, "unit": r.unit, "repo": "%s:%s" % (f.src, f.src_line), "contract_clauses": len(f.clauses)})
            elif f.mode == "proof" and (prop in f.tags or any(prop in c[3] for c in f.clauses)):
                lemmas.append("%s/%s" % (r.unit, f.qual))
        for fn, t in getattr(r, "fn_times", {}).items():
            solver_ms += t["ms"]
    ud_all = {}
    assumptions = []
    for r in results:
        for s in r.udesc.get("assumptions", []):
            if s not in assumptions:
                assumptions.append(s)
    ev = {
        "property_id": prop, "tier": tier, "seed": seed, "level": "proof",
        "coverage": {
            "obligations": n_ob, "discharged": n_ob - n_failed,
            "checker_cmd": "; ".join(cmds) or "verus <unit>.rs",
            "trusted_base": sorted(set(trusted)) + ["rewrites applied this run (DESIGN.md 3.2): " + json.dumps(rewrites, sort_keys=True)],
            "samples": [o["id"] for o in obligations[:12]],
            "functions_under_contract": fn_list,
            "lemmas": lemmas,
            "by_backend": {"verus-z3": n_ob - n_failed},
            "solver_ms": solver_ms,
            "units": {r.unit: {"status": r.status, "reason": r.reason, "verus_verified_items": getattr(r, "verified", None), "wall_s": round(r.wall, 2),
                                "extracted": getattr(r, "pieces", []), "repo_changes_vs_frozen_base": len(r.changes)} for r in results},
            "known_open": [k["obligation"] for _, k in known_hits],
            "canaries": {"functions": canary_total, "vacuous": vacuous},
            "unverified_parts": [s for r in results for s in r.udesc.get("unverified_parts", [])],
            "bounded": [s for r in results for s in r.udesc.get("bounded", [])],
        },
        "assumptions": assumptions,
        "wall_s": round(wall, 2),
        "violations": len(violations),
    }
    if thorough_info is not None:
        ev["coverage"]["thorough"] = {k: v for k, v in thorough_info.items() if k != "lines"}
    if n_ob == 0 or undecided:
        ev["level"] = "other"
        ev["coverage"]["explanation"] = "UNDECIDED run: nothing is claimed by this evidence file. " + "; ".join("%s: %s" % (r.unit, r.reason) for r in undecided)
    json.dump(ev, open(os.path.join(EVID, prop + ".json"), "w"), indent=1)

if __name__ == "__main__":
    sys.exit(main())
