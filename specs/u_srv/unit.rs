// u_srv -- server/template.rs: message conversions and relay_to (what the server does with the first item a codec delivers) under contract (C01 C02 C06 C07)
use vstd::prelude::*;
verus! {
global size_of usize == 8;   // ASSUMPTION: 64-bit target
pub mod shim {
use vstd::prelude::*;
//@include ../../shims/prelude.rs
//@include ../../shims/bytes.rs
//@include ../../shims/net.rs
//@include ../../shims/ord.rs
}
use shim::*;
pub mod specs {
use vstd::prelude::*;
use super::shim::*;
//@include ../common_addr.rs
}
use specs::*;
use anyhow::Result;
type DatagramPacket = (BytesMut, Address);
broadcast use axiom_v4_len, axiom_v6_len, axiom_string_utf8, axiom_slice_cmp_u8;

//@include ../parts/addr.rs
//@include ../parts/srvtmpl.rs
} // verus!
fn main() {}
