// ---- part cipher: codec/aead.rs CipherMethod: the enum and its constructor are real code; the macro-dispatched AEAD calls are assumed ----
/// AEAD calls of CipherMethod (macros over the RustCrypto traits, R9): ASSUMED contracts over the uninterpreted aead_seal / aead_open
impl CipherMethod {
    /// 0 AES-128-GCM, 1 AES-256-GCM, 2 ChaCha8-Poly1305, 3 ChaCha20-Poly1305, 4 XChaCha8-Poly1305, 5 XChaCha20-Poly1305
    spec fn alg(&self) -> int { match self { CipherMethod::Aes128Gcm(_) => 0, CipherMethod::Aes256Gcm(_) => 1, CipherMethod::ChaCha8Poly1305(_) => 2, CipherMethod::ChaCha20Poly1305(_) => 3, CipherMethod::XChaCha8Poly1305(_) => 4, CipherMethod::XChaCha20Poly1305(_) => 5 } }
    spec fn key(&self) -> Seq<u8> { match self { CipherMethod::Aes128Gcm(c) => c.key(), CipherMethod::Aes256Gcm(c) => c.key(), CipherMethod::ChaCha8Poly1305(c) => c.key(), CipherMethod::ChaCha20Poly1305(c) => c.key(), CipherMethod::XChaCha8Poly1305(c) => c.key(), CipherMethod::XChaCha20Poly1305(c) => c.key() } }
    spec fn nonce_len(&self) -> nat { if self.alg() >= 4 { 24 } else { 12 } }

    #[verifier::external_body]
    fn encrypt_in_place<B: Buffer>(&self, nonce: &[u8], associated_data: &[u8], plaintext: &mut B) -> (r: Result<(), aead::Error>)
        requires nonce@.len() == self.nonce_len()
        ensures r is Ok ==> final(plaintext).bview() == aead_seal(self.alg(), self.key(), nonce@, norm_aad(associated_data@), old(plaintext).bview())
    { unimplemented!() }
    #[verifier::external_body]
    fn decrypt_in_place<B: Buffer>(&self, nonce: &[u8], associated_data: &[u8], ciphertext: &mut B) -> (r: Result<(), aead::Error>)
        requires nonce@.len() == self.nonce_len()
        ensures match aead_open(self.alg(), self.key(), nonce@, norm_aad(associated_data@), old(ciphertext).bview()) {
            Some(p) => r is Ok && final(ciphertext).bview() == p,
            None => r is Err,
        }
    { unimplemented!() }
    /// seals plaintext[..len-16] and writes the tag into the last 16 bytes
    #[verifier::external_body]
    fn encrypt_in_place_detached(&self, nonce: &[u8], associated_data: &[u8], plaintext: &mut [u8]) -> (r: Result<(), aead::Error>)
        requires nonce@.len() == self.nonce_len(), old(plaintext)@.len() >= 16
        ensures final(plaintext)@.len() == old(plaintext)@.len(),
            r is Ok ==> final(plaintext)@ == aead_seal(self.alg(), self.key(), nonce@, norm_aad(associated_data@), old(plaintext)@.take(old(plaintext)@.len() - 16))
    { unimplemented!() }
    #[verifier::external_body]
    fn decrypt_in_place_detached(&self, nonce: &[u8], associated_data: &[u8], ciphertext: &mut [u8]) -> (r: Result<(), aead::Error>)
        requires nonce@.len() == self.nonce_len(), old(ciphertext)@.len() >= 16
        ensures final(ciphertext)@.len() == old(ciphertext)@.len(),
            match aead_open(self.alg(), self.key(), nonce@, norm_aad(associated_data@), old(ciphertext)@) {
                Some(p) => r is Ok && final(ciphertext)@.take(old(ciphertext)@.len() - 16) == p,
                None => r is Err,
            }
    { unimplemented!() }
    #[verifier::external_body]
    const fn nonce_size(&self) -> (r: usize) ensures r == self.nonce_len() { unimplemented!() }
    #[verifier::external_body]
    const fn tag_size(&self) -> (r: usize) ensures r == 16 { unimplemented!() }
    #[verifier::external_body]
    const fn ciphertext_overhead(&self) -> (r: usize) ensures r == 0 { unimplemented!() }
}
//@@ octo-squirrel/src/codec/aead.rs:24-32  enum CipherMethod  sha=9a559024666aa37a
pub enum CipherMethod {
    Aes128Gcm(Aes128Gcm),
    Aes256Gcm(Aes256Gcm),
    ChaCha8Poly1305(ChaCha8Poly1305),
    ChaCha20Poly1305(ChaCha20Poly1305),
    XChaCha8Poly1305(XChaCha8Poly1305),
    XChaCha20Poly1305(XChaCha20Poly1305),
}

//@@ octo-squirrel/src/codec/aead.rs:60-122  impl CipherMethod {fn new}  sha=30ff04c67b7ac7c5
impl CipherMethod {
    fn new(kind: CipherKind, key: &[u8]) -> (r: Self)
        requires !(kind is Unknown), key@.len() >= key_len_of(kind)
        ensures
            //#C16 C03
            // the documented algorithm and key size of every cipher name (README): the first key_len_of(kind) bytes of the key
            r.alg() == alg_of(kind), r.key() == key@.take(key_len_of(kind) as int),
    {
        match kind {
            CipherKind::Aes128Gcm | CipherKind::Aead2022Blake3Aes128Gcm => {
                let key = &key[..16];
                Self::Aes128Gcm(Aes128Gcm::new(Key::<Aes128Gcm>::from_slice(key)))
            }
            CipherKind::Aes256Gcm | CipherKind::Aead2022Blake3Aes256Gcm => {
                let key = &key[..32];
                Self::Aes256Gcm(Aes256Gcm::new(Key::<Aes256Gcm>::from_slice(key)))
            }
            CipherKind::ChaCha20Poly1305 | CipherKind::Aead2022Blake3ChaCha20Poly1305 => {
                let key = &key[..32];
                Self::ChaCha20Poly1305(ChaCha20Poly1305::new(Key::<ChaCha20Poly1305>::from_slice(key)))
            }
            CipherKind::Aead2022Blake3ChaCha8Poly1305 => {
                let key = &key[..32];
                Self::ChaCha8Poly1305(ChaCha8Poly1305::new(Key::<ChaCha8Poly1305>::from_slice(key)))
            }
            CipherKind::Unknown => verif_panic(),
        }
    }
}

