// ---- part wsframed: codec.rs WebSocketFramed, the Stream/Sink that frames every ws / wss relay (client vmess and trojan, server accept_websocket_then_replay) ----
//@@ octo-squirrel/src/codec.rs:67-75  struct WebSocketFramed  sha=5685eaf29b977736
pub struct WebSocketFramed<T, C, E, D> {
    stream: WebSocketStream<T>,
    codec: C,
    encode_item: PhantomData<E>,
    decode_item: PhantomData<D>,
    buffer: Option<BytesMut>,
    readable: bool,
    errored: bool,
}

//@@ octo-squirrel/src/codec.rs:79-87  impl WebSocketFramed  sha=58a3845370192c80
impl<T, C, E, D> WebSocketFramed<T, C, E, D>
where
    T: AsyncRead + AsyncWrite + Unpin,
    C: Encoder<E, Error = anyhow::Error> + Decoder<Item = D, Error = anyhow::Error> + Unpin,
{
    fn new(stream: WebSocketStream<T>, codec: C) -> (r: Self)
        requires stream.delivered() == codec.consumed(), !codec.failed(), stream.sent() == codec.emitted(),
        ensures r.wf(), r.wf_send(), r.stream == stream, r.codec == codec, !r.errored,
    {
        Self { stream, codec, encode_item: PhantomData, decode_item: PhantomData, buffer: None, readable: false, errored: false }
    }
}

//@@ octo-squirrel/src/codec.rs:89-144  impl Stream for WebSocketFramed  sha=21e1d4775fde8752
impl<T, C, E, D> WebSocketFramed<T, C, E, D>
where
    T: AsyncRead + AsyncWrite + Unpin,
    C: Encoder<E, Error = anyhow::Error> + Decoder<Item = D, Error = anyhow::Error> + Unpin,
    D: Debug,
{

    // termination is not proved: the loop runs for as long as the transport keeps answering Ready with messages that complete no frame
    #[verifier::exec_allows_no_decreases_clause]
    fn poll_next(&mut self, cx: &mut Context<'_>) -> (r: Poll<Option<Result<D>>>)
        requires old(self).wf(),
        ensures
            //#C04 C01 C05
            // every byte of every data message reaches the decoder exactly once and in order (whatever the message boundaries)
            final(self).wf(),
            //#C04
            // never parked without a wake-up: Pending is answered only right after the transport answered Pending (waker registered) ..
            r is Pending ==> final(self).stream.armed(),
            //#C04
            // .. and only when the decoder waits for more bytes on everything received so far (no complete frame is held back)
            r is Pending ==> final(self).codec.waits(final(self).pending()) || final(self).pending().len() == 0,
            //#C05
            // after a decode error the stream is over: nothing that follows the point of failure is decoded or delivered
            old(self).errored ==> (r matches Poll::Ready(None)) && final(self).codec == old(self).codec,
            final(self).stream.sent() == old(self).stream.sent(), final(self).codec.emitted() == old(self).codec.emitted() || final(self).codec != old(self).codec,
    {
        // a decode error ends the stream: nothing that follows undecodable bytes is delivered
        if self.errored {
            return Poll::Ready(None);
        }
        loop
            invariant
                self.wf(), !self.errored, !old(self).errored,
                self.stream.sent() == old(self).stream.sent(),
        {
            // deliver every frame that is already buffered before waiting for the next message
            if self.readable {
                if let Some(mut payload) = self.buffer.take() {
                    let ghost b0 = payload@;
                    let decoded = self.codec.decode(&mut payload);
                    proof {
                        let k = b0.len() - payload@.len();
                        assert(b0 =~= b0.take(k) + b0.skip(k));
                        assert(self.codec.consumed() + payload@ =~= self.stream.delivered());
                    }
                    if !payload.is_empty() {
                        self.buffer = Some(payload);
                    }
                    match decoded {
                        Ok(Some(item)) => return Poll::Ready(Some(Ok(item))),
                        Ok(None) => {}
                        Err(e) => {
                            self.errored = true;
                            return Poll::Ready(Some(Err(e)));
                        }
                    }
                }
                self.readable = false;
            }
            match (match self.stream.poll_next_unpin(cx) { Poll::Ready(verif_ready) => verif_ready, Poll::Pending => return Poll::Pending }) {
                Some(Ok(msg)) => {
                    if msg.is_binary() || msg.is_text() {
                        let payload = match self.buffer.take() {
                            Some(buffer) => {
                                let msg_payload = msg.as_payload();
                                let mut payload = BytesMut::with_capacity(buffer.len() + msg_payload.len());
                                payload.extend_from_slice(&buffer);
                                payload.extend_from_slice(msg_payload);
                                payload
                            }
                            None => BytesMut::from(msg.into_payload()),
                        };
                        proof { assert(self.codec.consumed() + payload@ =~= self.stream.delivered()); }
                        self.buffer = Some(payload);
                        self.readable = true;
                    }
                    continue;
                }
                Some(Err(e)) => return Poll::Ready(Some(Err(verif_err()))),
                None => return Poll::Ready(None),
            }
        }
    }
}

//@@ octo-squirrel/src/codec.rs:146-170  impl Sink for WebSocketFramed {fn start_send}  sha=1c8362eafc18b208
impl<T, C, E, D> WebSocketFramed<T, C, E, D>
where
    T: AsyncRead + AsyncWrite + Unpin,
    C: Encoder<E, Error = anyhow::Error> + Decoder<Item = D, Error = anyhow::Error> + Unpin,
{

    fn start_send(&mut self, item: E) -> (r: Result<(), anyhow::Error>)
        requires old(self).wf_send(),
        ensures
            //#C01 C02
            // one item = one binary message holding exactly what the encoder produced for it
            r is Ok ==> final(self).wf_send(),
            final(self).stream.delivered() == old(self).stream.delivered(),
    {
        let mut dst = BytesMut::new();
        self.codec.encode(item, &mut dst)?;
        proof { assert(dst@.skip(0) =~= dst@); }
        self.stream.start_send_unpin(Message::binary(dst)).map_err(|e| verif_err())
    }
}

// ---- specification functions of WebSocketFramed (inserted; not part of /repo) ----
impl<T, C, E, D> WebSocketFramed<T, C, E, D>
where
    C: Unpin + Decoder<Item = D, Error = anyhow::Error> + Encoder<E, Error = anyhow::Error>,
    T: Unpin + AsyncWrite + AsyncRead
{
    /// bytes received from the peer and not yet taken by the decoder
    spec fn pending(&self) -> Seq<u8> { match self.buffer { Some(b) => b@, None => Seq::empty() } }
    /// representation invariant of the receiving half
    spec fn wf(&self) -> bool {
        // the decoder has been fed exactly the payloads of the data messages, in order, nothing lost, repeated or reordered
        &&& self.stream.delivered() == self.codec.consumed() + self.pending()
        // once the decoder has failed the stream is over
        &&& self.codec.failed() ==> self.errored
        // `readable` is cleared only when the decoder waits for more bytes on everything that is buffered
        &&& !self.readable ==> self.codec.waits(self.pending()) || self.pending().len() == 0
    }
    /// representation invariant of the sending half: every byte the encoder produced was handed to the transport
    spec fn wf_send(&self) -> bool { self.stream.sent() == self.codec.emitted() }
}
