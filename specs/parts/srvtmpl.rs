// ---- part srvtmpl: server/template.rs message conversions and relay_to: what the server does with the first item a codec delivers (R29) ----
pub struct IoError { _e: u8 }
impl core::convert::From<IoError> for anyhow::Error {
    #[verifier::external_body]
    fn from(e: IoError) -> anyhow::Error { unimplemented!() }
}
/// DNS as an oracle: `sa` is an address the name resolves to (a socket address resolves to itself)
pub uninterp spec fn resolves(a: Address, sa: SocketAddr) -> bool;
impl Address {
    /// protocol/address.rs to_socket_addr: NOT verified
    #[verifier::external_body]
    fn to_socket_addr(&self) -> (r: Result<SocketAddr, IoError>) ensures r matches Ok(sa) ==> resolves(*self, sa) { unimplemented!() }
}
/// tokio::net::TcpStream / UdpSocket as far as relay_to is concerned (TRUSTED): connect reaches the address it is given
#[verifier::external_body]
pub struct TcpStream { _s: u8 }
impl TcpStream {
    pub uninterp spec fn peer(&self) -> SocketAddr;
    #[verifier::external_body]
    fn connect(addr: SocketAddr) -> (r: Result<TcpStream, IoError>) ensures r matches Ok(s) ==> s.peer() == addr { unimplemented!() }
}
#[verifier::external_body]
pub struct UdpSocket { _s: u8 }
impl UdpSocket {
    #[verifier::external_body]
    fn bind(addr: SocketAddrV4) -> (r: Result<UdpSocket, IoError>) { unimplemented!() }
}
/// futures::Stream / Sink as the relay sees the framed inbound connection; `last` = the item the last `next` delivered
pub trait Stream: Sized {
    type Item;
    spec fn last(&self) -> Option<Self::Item>;
    fn next(&mut self) -> (r: Option<Self::Item>) ensures final(self).last() == r;
}
pub trait Sink<I>: Sized { type Error; }
/// relay_tcp_bidirectional (BytesCodec framing + relay_bidirectional forward pumps): NOT verified.  Its precondition is what the property asks of the caller:
/// the connection it relays to is a connection to (a resolution of) exactly the address the client named in its first item, and the payload that came with
/// that item is the first thing forwarded
#[verifier::external_body]
fn relay_tcp_bidirectional<Si, St>(inbound_sink: &mut Si, inbound_stream: &mut St, outbound: TcpStream, first: InboundIn)
    where Si: Sink<OutboundIn, Error = anyhow::Error> + Unpin, St: Stream<Item = Result<InboundIn, anyhow::Error>> + Unpin
    requires
        //#C01 C06
        old(inbound_stream).last() matches Some(Ok(InboundIn::ConnectTcp(msg, addr))) && resolves(addr, outbound.peer()) && first == InboundIn::RelayTcp(msg),
{ unimplemented!() }
/// relay_udp_bidirectional: NOT verified; the first datagram is handed on unchanged with its target
#[verifier::external_body]
fn relay_udp_bidirectional<Si, St>(inbound_sink: &mut Si, inbound_stream: &mut St, outbound: UdpSocket, first: InboundIn)
    where Si: Sink<OutboundIn, Error = anyhow::Error> + Unpin, St: Stream<Item = Result<InboundIn, anyhow::Error>> + Unpin
    requires
        //#C02 C06
        old(inbound_stream).last() matches Some(Ok(InboundIn::RelayUdp(msg, addr))) && first == InboundIn::RelayUdp(msg, addr),
{ unimplemented!() }

//@@ octo-squirrel-server/src/server/template.rs:39-43  mod message / enum InboundIn  sha=900b92278fa20e17
pub enum InboundIn {
        ConnectTcp(BytesMut, Address),
        RelayTcp(BytesMut),
        RelayUdp(BytesMut, Address),
    }

//@@ octo-squirrel-server/src/server/template.rs:45-51  mod message / impl TryFrom for BytesMut  sha=c936efe7b1ac2674
impl vstd::std_specs::convert::TryFromSpecImpl<InboundIn> for BytesMut {
    open spec fn obeys_try_from_spec() -> bool { false }
    open spec fn try_from_spec(v: InboundIn) -> core::result::Result<Self, Self::Error> { arbitrary() }
}
impl TryFrom<InboundIn> for BytesMut {
        type Error = anyhow::Error;

        fn try_from(value: InboundIn) -> (r: Result<Self, Self::Error>)
            ensures
                //#C01
                // a TCP payload item goes to the target unchanged; anything else is refused
                match value { InboundIn::RelayTcp(b) => r matches Ok(o) && o == b, _ => r is Err },
        {
            if let InboundIn::RelayTcp(value) = value { Ok(value) } else { return Err(verif_err()) }
        }
    }

//@@ octo-squirrel-server/src/server/template.rs:53-59  mod message / impl TryFrom for ( BytesMut , SocketAddr )  sha=79b639c353cf32fd
impl vstd::std_specs::convert::TryFromSpecImpl<InboundIn> for (BytesMut, SocketAddr) {
    open spec fn obeys_try_from_spec() -> bool { false }
    open spec fn try_from_spec(v: InboundIn) -> core::result::Result<Self, Self::Error> { arbitrary() }
}
impl TryFrom<InboundIn> for (BytesMut, SocketAddr) {
        type Error = anyhow::Error;

        fn try_from(value: InboundIn) -> (r: Result<Self, Self::Error>)
            ensures
                //#C02
                // a datagram item goes out whole, to (a resolution of) exactly the address it names, or not at all
                match value { InboundIn::RelayUdp(c, a) => r matches Ok(o) ==> o.0 == c && resolves(a, o.1), _ => r is Err },
        {
            if let InboundIn::RelayUdp(c, a) = value { Ok((c, a.to_socket_addr()?)) } else { return Err(verif_err()) }
        }
    }

//@@ octo-squirrel-server/src/server/template.rs:71-74  mod message / enum OutboundIn  sha=8f4f430e0a7dd220
pub enum OutboundIn {
        Tcp(BytesMut),
        Udp((BytesMut, SocketAddr)),
    }

//@@ octo-squirrel-server/src/server/template.rs:76-83  mod message / impl From for BytesMut  sha=836a0617d15043fc
impl vstd::std_specs::convert::FromSpecImpl<OutboundIn> for BytesMut {
    open spec fn obeys_from_spec() -> bool { true }
    open spec fn from_spec(v: OutboundIn) -> Self { match v { OutboundIn::Tcp(b) => b, OutboundIn::Udp((b, _)) => b } }
}
impl From<OutboundIn> for BytesMut {
        fn from(value: OutboundIn) -> Self {
            match value {
                OutboundIn::Tcp(bytes) => bytes,
                OutboundIn::Udp((bytes, _)) => bytes,
            }
        }
    }

//@@ octo-squirrel-server/src/server/template.rs:85-89  mod message / impl From for OutboundIn  sha=cc2f86861637fa8e
impl vstd::std_specs::convert::FromSpecImpl<BytesMut> for OutboundIn {
    open spec fn obeys_from_spec() -> bool { true }
    open spec fn from_spec(v: BytesMut) -> Self { OutboundIn::Tcp(v) }
}
impl From<BytesMut> for OutboundIn {
        fn from(value: BytesMut) -> Self {
            Self::Tcp(value)
        }
    }

//@@ octo-squirrel-server/src/server/template.rs:91-95  mod message / impl From for OutboundIn  sha=c093eedb040e1ffd
impl vstd::std_specs::convert::FromSpecImpl<(BytesMut, SocketAddr)> for OutboundIn {
    open spec fn obeys_from_spec() -> bool { true }
    open spec fn from_spec(v: (BytesMut, SocketAddr)) -> Self { OutboundIn::Udp(v) }
}
impl From<(BytesMut, SocketAddr)> for OutboundIn {
        fn from(value: (BytesMut, SocketAddr)) -> Self {
            Self::Udp(value)
        }
    }

//@@ octo-squirrel-server/src/server/template.rs:143-173  fn relay_to  sha=59a4ee789866cf23
fn relay_to<Si, St>(inbound_sink: &mut Si, inbound_stream: &mut St)
where
    Si: Sink<OutboundIn, Error = anyhow::Error> + Unpin,
    St: Stream<Item = Result<InboundIn, anyhow::Error>> + Unpin,
{
    // (what relay_to must establish is stated as the preconditions of the two relay functions it hands over to: a target is dialled, and a datagram
    // forwarded, only for an item the inbound codec delivered, to exactly the address in it, with exactly the payload in it)
    match inbound_stream.next() {
        Some(Ok(InboundIn::ConnectTcp(msg, addr))) => {
            if let Ok(resolved_addr) = addr.to_socket_addr() {
                match TcpStream::connect(resolved_addr) {
                    Err(e) => (),
                    Ok(outbound) => {
                        let res = relay_tcp_bidirectional(inbound_sink, inbound_stream, outbound, InboundIn::RelayTcp(msg));
                        /*R2*/
                    }
                }
            } else {
                /*R2*/
            }
        }
        Some(Ok(InboundIn::RelayUdp(msg, addr))) => match UdpSocket::bind(SocketAddrV4::new(verif_ipv4_unspecified(), 0)) {
            Err(e) => (),
            Ok(outbound) => {
                let res = relay_udp_bidirectional(inbound_sink, inbound_stream, outbound, InboundIn::RelayUdp(msg, addr));
                /*R2*/
            }
        },
        Some(Ok(InboundIn::RelayTcp(_))) => (),
        Some(Err(e)) => (),
        None => (),
    }
}
