// ---- part s5hs: protocol/socks5/handshake.rs server::no_auth / client::no_auth (async; R29) over FramedRead / FramedWrite shims that log what is read and written ----
pub struct IoError { _e: u8 }
impl core::convert::From<IoError> for anyhow::Error {
    #[verifier::external_body]
    fn from(e: IoError) -> anyhow::Error { unimplemented!() }
}
enum S5Ev { Read, Wrote(Seq<u8>) }
/// what one handshake reads and writes, in order
struct S5Log { pub ghost evs: Seq<S5Ev> }
/// the bytes a SOCKS5 message is on the wire (RFC 1928); every real `encode` below is proved to append exactly these
trait S5Wire { spec fn wire(&self) -> Seq<u8>; }
spec fn method_codes(m: Seq<Socks5AuthMethod>) -> Seq<u8> { Seq::new(m.len(), |i: int| m[i] as u8) }
impl S5Wire for Socks5InitialRequest { spec fn wire(&self) -> Seq<u8> { seq![5u8, self.auth_methods@.len() as u8] + method_codes(self.auth_methods@) } }
impl S5Wire for Socks5InitialResponse { spec fn wire(&self) -> Seq<u8> { seq![5u8, self.auth_method as u8] } }
impl S5Wire for Socks5CommandRequest { spec fn wire(&self) -> Seq<u8> { seq![5u8, self.command_type as u8, 0u8] + enc5(absaddr(self.dst_addr)) } }
impl S5Wire for Socks5CommandResponse { spec fn wire(&self) -> Seq<u8> { seq![5u8, self.command_status as u8, 0u8] + enc5(absaddr(self.bnd_addr)) } }
trait S5Dec { type Item; }
impl S5Dec for Socks5InitialRequestDecoder { type Item = Socks5InitialRequest; }
impl S5Dec for Socks5InitialResponseDecoder { type Item = Socks5InitialResponse; }
impl S5Dec for Socks5CommandRequestDecoder { type Item = Socks5CommandRequest; }
impl S5Dec for Socks5CommandResponseDecoder { type Item = Socks5CommandResponse; }
/// tokio TcpStream halves and tokio_util FramedRead / FramedWrite (TRUSTED): `next` hands out what the decoder produced (None = end of stream),
/// `send` writes exactly the message's wire form
#[verifier::external_body]
pub struct TcpStream { _s: u8 }
#[verifier::external_body]
pub struct ReadHalf<'a> { _s: &'a u8 }
#[verifier::external_body]
pub struct WriteHalf<'a> { _s: &'a u8 }
impl TcpStream {
    #[verifier::external_body]
    fn connect(addr: SocketAddr) -> (r: Result<TcpStream, IoError>) { unimplemented!() }
    #[verifier::external_body]
    fn split<'a>(&'a mut self) -> (r: (ReadHalf<'a>, WriteHalf<'a>)) { unimplemented!() }
}
#[verifier::external_body]
#[verifier::accept_recursive_types(R)]
#[verifier::accept_recursive_types(D)]
struct FramedRead<R, D> { _r: core::marker::PhantomData<(R, D)> }
impl<R, D: S5Dec> FramedRead<R, D> {
    #[verifier::external_body]
    fn new(r: R, d: D) -> (s: Self) { unimplemented!() }
    #[verifier::external_body]
    fn next(&mut self, Tracked(vlog): Tracked<&mut S5Log>) -> (r: Option<Result<D::Item>>)
        ensures final(vlog).evs == old(vlog).evs.push(S5Ev::Read),
    { unimplemented!() }
    #[verifier::external_body]
    fn into_inner(self) -> (r: R) { unimplemented!() }
}
#[verifier::external_body]
#[verifier::accept_recursive_types(W)]
#[verifier::accept_recursive_types(E)]
struct FramedWrite<W, E> { _w: core::marker::PhantomData<(W, E)> }
impl<W, E> FramedWrite<W, E> {
    #[verifier::external_body]
    fn new(w: W, e: E) -> (s: Self) { unimplemented!() }
    #[verifier::external_body]
    fn send<M: S5Wire>(&mut self, item: Box<M>, Tracked(vlog): Tracked<&mut S5Log>) -> (r: Result<()>)
        ensures r is Ok ==> final(vlog).evs == old(vlog).evs.push(S5Ev::Wrote(item.wire())),
    { unimplemented!() }
    /// SinkExt::feed: the same message goes out, at the next flush at the latest; it is logged where it is queued
    #[verifier::external_body]
    fn feed<M: S5Wire>(&mut self, item: Box<M>, Tracked(vlog): Tracked<&mut S5Log>) -> (r: Result<()>)
        ensures r is Ok ==> final(vlog).evs == old(vlog).evs.push(S5Ev::Wrote(item.wire())),
    { unimplemented!() }
}

//@@ octo-squirrel/src/protocol/socks5/codec.rs:20-20  struct Socks5ClientEncoder  sha=c335d30ec0286755
pub struct Socks5ClientEncoder;

//@@ octo-squirrel/src/protocol/socks5/codec.rs:31-31  struct Socks5ServerEncoder  sha=5e76f44477ba09ba
pub struct Socks5ServerEncoder;

//@@ octo-squirrel/src/protocol/socks5/handshake.rs:56-66  mod server / fn no_auth  sha=4fe980a4e475e985
fn s5srv__no_auth(stream: &mut TcpStream, response: Socks5CommandResponse, Tracked(vlog): Tracked<&mut S5Log>) -> (r: Result<Socks5CommandRequest>)
    ensures
        //#C13
        // RFC 1928, the server's side with no authentication: read the greeting, answer "method 0", read the request, answer with the prepared reply - in this order,
        // nothing else is written; an early close or an undecodable message is an error (never a panic)
        r is Ok ==> final(vlog).evs == old(vlog).evs + seq![S5Ev::Read, S5Ev::Wrote(seq![5u8, 0u8]), S5Ev::Read, S5Ev::Wrote(response.wire())],
{
        let (rh, wh) = stream.split();
        let mut reader = FramedRead::new(rh, Socks5InitialRequestDecoder);
        reader.next(Tracked(vlog)).ok_or_else(|| verif_err())??;
        let mut reader = FramedRead::new(reader.into_inner(), Socks5CommandRequestDecoder);
        let mut writer = FramedWrite::new(wh, Socks5ServerEncoder);
        writer.send(Box::new(Socks5InitialResponse::new(Socks5AuthMethod::NoAuth)), Tracked(vlog))?;
        let command_request = reader.next(Tracked(vlog)).ok_or_else(|| verif_err())??;
        writer.send(Box::new(response), Tracked(vlog))?;
        proof { assert(Socks5AuthMethod::NoAuth as u8 == 0u8); assert(vlog.evs =~= old(vlog).evs + seq![S5Ev::Read, S5Ev::Wrote(seq![5u8, 0u8]), S5Ev::Read, S5Ev::Wrote(response.wire())]); }
        Ok(command_request)
    }

//@@ octo-squirrel/src/protocol/socks5/handshake.rs:22-36  mod client / fn no_auth  sha=b4a5e80395cc2c5f
fn s5cli__no_auth(command_type: Socks5CommandType, proxy_addr: SocketAddr, dst_addr: SocketAddr, Tracked(vlog): Tracked<&mut S5Log>) -> (r: Result<Socks5CommandResponse>)
    ensures
        //#C13
        // the client's side: greeting offering exactly "no authentication", then - only if the proxy chose it - the request for exactly dst_addr
        r is Ok ==> final(vlog).evs == old(vlog).evs + seq![S5Ev::Wrote(seq![5u8, 1u8, 0u8]), S5Ev::Read,
            S5Ev::Wrote(seq![5u8, command_type as u8, 0u8] + enc5(absaddr(Address::Socket(dst_addr)))), S5Ev::Read],
{
        let mut stream = TcpStream::connect(proxy_addr)?;
        let (rh, wh) = stream.split();
        let mut writer = FramedWrite::new(wh, Socks5ClientEncoder);
        writer.send(Box::new(Socks5InitialRequest::new(vec![Socks5AuthMethod::NoAuth])), Tracked(vlog))?;
        proof { assert(vlog.evs.last() matches S5Ev::Wrote(w) && w =~= seq![5u8, 1u8, 0u8]); }
        let mut reader = FramedRead::new(rh, Socks5InitialResponseDecoder);
        let initial_response = reader.next(Tracked(vlog)).ok_or_else(|| verif_err())??;
        if initial_response.auth_method != Socks5AuthMethod::NoAuth {
            return Err(verif_err());
        }
        writer.send(Box::new(Socks5CommandRequest::new(command_type, dst_addr.into())), Tracked(vlog))?;
        let mut reader = FramedRead::new(reader.into_inner(), Socks5CommandResponseDecoder);
        let command_response = reader.next(Tracked(vlog)).ok_or_else(|| verif_err())??;
        proof { assert(Socks5AuthMethod::NoAuth as u8 == 0u8); assert(seq![5u8, 1u8] + method_codes(seq![Socks5AuthMethod::NoAuth]) =~= seq![5u8, 1u8, 0u8]); assert(vlog.evs =~= old(vlog).evs + seq![S5Ev::Wrote(seq![5u8, 1u8, 0u8]), S5Ev::Read, S5Ev::Wrote(seq![5u8, command_type as u8, 0u8] + enc5(absaddr(Address::Socket(dst_addr)))), S5Ev::Read]); }
        Ok(command_response)
    }
