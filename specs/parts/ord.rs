// ---- part ord: protocol/address.rs `impl Ord for Address` (the order of the keys of the client's UDP binding table) ----
// C02: the client's binding table (client/template.rs transfer_udp, an ordered lru_time_cache keyed by new_key(sender, target);
// for VMess the key contains the target `Address`) finds a binding by `Ord::cmp`.  Two keys may collide only if they are the
// same address, otherwise a datagram is written into the stream that was opened for a different target.
spec fn ip_octets(ip: IpAddr) -> Seq<u8> { match ip { IpAddr::V4(a) => v4_octets(a), IpAddr::V6(a) => v6_octets(a) } }

//@@ octo-squirrel/src/protocol/address.rs:32-56  impl Ord for Address  sha=8c8a38c438d7e0fd
impl Address {
    fn cmp(&self, other: &Self) -> (r: std::cmp::Ordering)
        ensures
            //#C02
            // keys collide exactly when they denote the same address
            (r is Equal) <==> *self == *other,
    {
        fn cmp_ip_addr(this: &[u8], other: IpAddr) -> (r: std::cmp::Ordering)
            ensures r == lex_cmp(this@, ip_octets(other))
        {
            match other {
                IpAddr::V4(ref ipv4_addr) => this.cmp(&ipv4_addr.octets()),
                IpAddr::V6(ref ipv6_addr) => this.cmp(&ipv6_addr.octets()),
            }
        }

        proof {
            match (other, self) {
                (Address::Domain(h2, p2), Address::Domain(h1, p1)) => {
                    lemma_lex_equal(sbytes(*h1), sbytes(*h2));
                    if sbytes(*h1) == sbytes(*h2) { axiom_string_ext(*h1, *h2); }
                }
                (Address::Socket(b), Address::Socket(a)) => { lemma_sa_cmp_equal(*a, *b); }
                _ => {}
            }
        }
        match (self, other) {
            (Address::Domain(this_host, this_port), Address::Domain(other_host, other_port)) => {
                this_port.cmp(other_port).then_with(|| -> (c: std::cmp::Ordering) ensures c == lex_cmp(sbytes(*this_host), sbytes(*other_host)) { this_host.cmp(other_host) })
            }
            (Address::Domain(this_host, this_port), Address::Socket(other_addr)) => {
                this_port.cmp(&other_addr.port()).then_with(|| cmp_ip_addr(this_host.as_bytes(), other_addr.ip())).then(std::cmp::Ordering::Less)
            }
            (Address::Socket(this_addr), Address::Domain(other_host, other_port)) => {
                this_addr.port().cmp(other_port).then_with(|| cmp_ip_addr(other_host.as_bytes(), this_addr.ip()).reverse()).then(std::cmp::Ordering::Greater)
            }
            (Address::Socket(this), Address::Socket(other)) => this.cmp(other),
        }
    }
}
