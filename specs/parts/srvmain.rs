// ---- part srvmain: server.rs startup (which services a protocol starts, with which codec constructor), merge_result, and startup_tcp
// (where the TCP service listens and which per-connection service the ssl / ws sections select) ----
use std::sync::Arc;
pub trait Encoder<I> { type Error; }
pub trait Decoder { type Item; type Error; }
/// which protocol a server codec type speaks (ghost label of the type; the real bound list does not name it)
pub trait SrvCodec { spec fn kind() -> Protocol; }
impl SrvCodec for ServerCodec { open spec fn kind() -> Protocol { Protocol::Trojan } }
impl Encoder<OutboundIn> for ServerCodec { type Error = anyhow::Error; }
impl Decoder for ServerCodec { type Item = InboundIn; type Error = anyhow::Error; }
pub struct VmessServerCodec { _c: u8 }
impl SrvCodec for VmessServerCodec { open spec fn kind() -> Protocol { Protocol::VMess } }
impl Encoder<OutboundIn> for VmessServerCodec { type Error = anyhow::Error; }
impl Decoder for VmessServerCodec { type Item = InboundIn; type Error = anyhow::Error; }
/// server/vmess.rs new_codec: under contract in u_vmess; here only its type matters
#[verifier::external_body]
fn vmesssrv__new_codec(config: &ServerConfig<SslConfig>) -> (r: anyhow::Result<VmessServerCodec>) { unimplemented!() }
#[verifier::external_trait_specification]
pub trait ExAsRef<T: core::marker::PointeeSized>: core::marker::PointeeSized {
    type ExternalTraitSpecificationFor: core::convert::AsRef<T>;
    fn as_ref(&self) -> &T;
}
/// Result::unwrap_or_else (std): the value, or what the closure makes of the error
pub assume_specification<T, E, F>[ core::result::Result::<T, E>::unwrap_or_else ](r: core::result::Result<T, E>, f: F) -> (t: T)
    where F: core::ops::FnOnce(E) -> T + core::marker::Destruct
    requires r matches Err(e) ==> f.requires((e,)),
    ensures match r { Ok(v) => t == v, Err(e) => f.ensures((e,), t) };
/// one connection handed to a per-connection service
pub struct Served { pub ws: bool, pub tls: bool, pub kind: Protocol }
pub struct SrvLog {
    /// TCP listeners opened (the "host:port" text bound)
    pub binds: Seq<Seq<char>>,
    /// QUIC services started, by protocol
    pub quic: Seq<Protocol>,
    /// Shadowsocks start-ups delegated to server/shadowsocks.rs startup
    pub ss: nat,
    pub served: Seq<Served>,
}
pub trait InStream { spec fn is_tls(&self) -> bool; }
#[verifier::external_body]
pub struct TcpStream { _s: u8 }
#[verifier::external_body]
pub struct TlsStream { _s: u8 }
impl InStream for TcpStream { open spec fn is_tls(&self) -> bool { false } }
impl InStream for TlsStream { open spec fn is_tls(&self) -> bool { true } }
/// tokio::net::TcpListener (TRUSTED)
#[verifier::external_body]
pub struct TcpListener { _s: u8 }
impl TcpListener {
    #[verifier::external_body]
    fn bind(addr: String, Tracked(vlog): Tracked<&mut SrvLog>) -> (r: anyhow::Result<TcpListener>)
        ensures final(vlog).binds == old(vlog).binds.push(addr@), final(vlog).quic == old(vlog).quic, final(vlog).ss == old(vlog).ss, final(vlog).served == old(vlog).served
    { unimplemented!() }
    #[verifier::external_body]
    fn accept(&self, Tracked(vlog): Tracked<&mut SrvLog>) -> (r: anyhow::Result<(TcpStream, SocketAddr)>)
        ensures *final(vlog) == *old(vlog)
    { unimplemented!() }
}
/// rustls PEM loading, server configuration builder, tokio_rustls::TlsAcceptor (TRUSTED)
#[verifier::external_body]
pub struct CertificateDer { _s: u8 }
#[verifier::external_body]
pub struct PrivateKeyDer { _s: u8 }
impl CertificateDer { #[verifier::external_body] fn from_pem_file(p: &str) -> (r: anyhow::Result<CertificateDer>) { unimplemented!() } }
impl PrivateKeyDer { #[verifier::external_body] fn from_pem_file(p: &str) -> (r: anyhow::Result<PrivateKeyDer>) { unimplemented!() } }
#[verifier::external_body]
pub struct rustls__ServerConfig { _s: u8 }
#[verifier::external_body]
pub struct RustlsBuilder { _s: u8 }
impl rustls__ServerConfig { #[verifier::external_body] fn builder() -> RustlsBuilder { unimplemented!() } }
impl RustlsBuilder {
    #[verifier::external_body] fn with_no_client_auth(self) -> RustlsBuilder { unimplemented!() }
    #[verifier::external_body] fn with_single_cert(self, c: Vec<CertificateDer>, k: PrivateKeyDer) -> anyhow::Result<rustls__ServerConfig> { unimplemented!() }
}
#[verifier::external_body]
pub struct TlsAcceptor { _s: u8 }
impl TlsAcceptor {
    #[verifier::external_body] fn from(c: Arc<rustls__ServerConfig>) -> TlsAcceptor { unimplemented!() }
    #[verifier::external_body]
    fn accept(&self, s: TcpStream, Tracked(vlog): Tracked<&mut SrvLog>) -> (r: anyhow::Result<TlsStream>)
        ensures *final(vlog) == *old(vlog)
    { unimplemented!() }
}
pub mod tokio {
    use super::*;
    /// R29: the spawned task has already run as sequential code; spawn only drops its result
    #[verifier::external_body]
    pub fn spawn<T>(t: T) { }
}
/// server/template.rs tcp::relay / tcp::accept_websocket_then_replay: NOT verified here (relay_to is, in u_srv); each records which service took the connection
#[verifier::external_body]
fn tmpltcp__relay<S: InStream, C: SrvCodec>(inbound: S, codec: C, Tracked(vlog): Tracked<&mut SrvLog>)
    ensures final(vlog).binds == old(vlog).binds, final(vlog).quic == old(vlog).quic, final(vlog).ss == old(vlog).ss,
        final(vlog).served == old(vlog).served.push(Served { ws: false, tls: inbound.is_tls(), kind: C::kind() })
{ unimplemented!() }
#[verifier::external_body]
fn tmpltcp__accept_websocket_then_replay<S: InStream, C: SrvCodec>(inbound: S, codec: C, Tracked(vlog): Tracked<&mut SrvLog>)
    ensures final(vlog).binds == old(vlog).binds, final(vlog).quic == old(vlog).quic, final(vlog).ss == old(vlog).ss,
        final(vlog).served == old(vlog).served.push(Served { ws: true, tls: inbound.is_tls(), kind: C::kind() })
{ unimplemented!() }
/// server.rs startup_quic (rustls / quinn set-up, QUIC accept loop): NOT verified; records that the QUIC service of this codec type was started
#[verifier::external_body]
fn startup_quic<RefContext, Context, NewCodec, Codec: SrvCodec>(context: RefContext, config: &ServerConfig<SslConfig>, new_codec: NewCodec, Tracked(vlog): Tracked<&mut SrvLog>) -> (r: anyhow::Result<()>)
    where NewCodec: FnOnce(&Context) -> anyhow::Result<Codec>
    ensures final(vlog).binds == old(vlog).binds, final(vlog).ss == old(vlog).ss, final(vlog).served == old(vlog).served,
        final(vlog).quic == old(vlog).quic.push(Codec::kind())
{ unimplemented!() }
/// server/shadowsocks.rs startup: under contract in u_ss
#[verifier::external_body]
fn sssrv__startup(config: &ServerConfig<SslConfig>, Tracked(vlog): Tracked<&mut SrvLog>) -> (r: anyhow::Result<()>)
    ensures final(vlog).binds == old(vlog).binds, final(vlog).quic == old(vlog).quic, final(vlog).served == old(vlog).served,
        final(vlog).ss == old(vlog).ss + 1
{ unimplemented!() }
/// every connection served between two log states went to the service the sections select, with codecs of protocol `p`
pub open spec fn served_as(old_l: SrvLog, new_l: SrvLog, ws: bool, tls: bool, p: Protocol) -> bool {
    &&& old_l.served.len() <= new_l.served.len()
    &&& new_l.served.take(old_l.served.len() as int) =~= old_l.served
    &&& forall|i: int| old_l.served.len() <= i < new_l.served.len() ==> #[trigger] new_l.served[i] == (Served { ws, tls, kind: p })
}

//@@ octo-squirrel/src/config.rs:86-90  impl AsRef for ServerConfig  sha=753d283322902a38
impl<S: Clone + Default> AsRef<ServerConfig<S>> for ServerConfig<S> {
    fn as_ref(&self) -> &ServerConfig<S> {
        self
    }
}

//@@ octo-squirrel-server/src/server.rs:42-53  fn startup  sha=5b558bb3076fb7ad
fn startup(config: ServerConfig<SslConfig>, Tracked(vlog): Tracked<&mut SrvLog>)
    ensures
        //#C16 C01
        // protocol "shadowsocks" delegates to the Shadowsocks start-up and opens nothing here; "vmess" / "trojan" start the QUIC service and one
        // TCP listener on the configured host:port, and every connection is served with that protocol's codec, through the ssl / ws sections' service
        match config.protocol {
            Protocol::Shadowsocks => final(vlog).ss == old(vlog).ss + 1 && final(vlog).binds == old(vlog).binds && final(vlog).quic == old(vlog).quic
                && final(vlog).served == old(vlog).served,
            p => final(vlog).ss == old(vlog).ss && final(vlog).quic == old(vlog).quic.push(p)
                && final(vlog).binds == old(vlog).binds.push(host_port(config.host@, config.port))
                && served_as(*old(vlog), *final(vlog), config.ws is Some, config.ssl is Some, p),
        },
{
    match config.protocol {
        Protocol::Shadowsocks => sssrv__startup(&config, Tracked(vlog)),
        Protocol::VMess => {
            merge_result((startup_quic(&config, &config, vmesssrv__new_codec, Tracked(vlog)), startup_tcp(&config, &config, vmesssrv__new_codec, Tracked(vlog))))
        }
        Protocol::Trojan => {
            merge_result((startup_quic(&config, &config, new_codec, Tracked(vlog)), startup_tcp(&config, &config, new_codec, Tracked(vlog))))
        }
    }
    .unwrap_or_else(|e| ());
}

//@@ octo-squirrel-server/src/server.rs:55-62  fn merge_result  sha=a0f375a4cf253389
fn merge_result(res: (anyhow::Result<()>, anyhow::Result<()>)) -> (r: anyhow::Result<()>)
    ensures
        //#C16
        // start-up succeeded only if both services did
        r is Ok <==> res.0 is Ok && res.1 is Ok,
{
    match res {
        (Ok(_), Ok(_)) => Ok(()),
        (Ok(_), Err(e)) => Err(verif_err()),
        (Err(e), Ok(_)) => Err(verif_err()),
        (Err(e1), Err(e2)) => Err(verif_err()),
    }
}

//@@ octo-squirrel-server/src/server.rs:64-111  fn startup_tcp  sha=0eef38f9525dd39f
// termination is not claimed: the service runs as long as accept succeeds
#[verifier::exec_allows_no_decreases_clause]
fn startup_tcp<RefContext, Context, NewCodec, Codec>(
    context: RefContext,
    config: &ServerConfig<SslConfig>,
    new_codec: NewCodec,Tracked(vlog): Tracked<&mut SrvLog>
) -> (r: anyhow::Result<()>)
where
    RefContext: AsRef<Context>,
    NewCodec: FnOnce(&Context) -> anyhow::Result<Codec> + Copy + Send + Sync + 'static,
    Codec: SrvCodec + Encoder<OutboundIn, Error = anyhow::Error>
        + Decoder<Item = InboundIn, Error = anyhow::Error>
        + Send
        + 'static,
    requires
        forall|c: &Context| #[trigger] new_codec.requires((c,)),
    ensures
        //#C16 C01
        // one listener, on the configured host and port; nothing else is started here
        final(vlog).binds == old(vlog).binds.push(host_port(config.host@, config.port)), final(vlog).quic == old(vlog).quic, final(vlog).ss == old(vlog).ss,
        // ssl section => every served connection went through the TLS handshake; ws section => the WebSocket service, otherwise the raw relay
        served_as(*old(vlog), *final(vlog), config.ws is Some, config.ssl is Some, Codec::kind()),
{
    let ghost log0 = *vlog;
    let listener = TcpListener::bind(verif_host_port(&(config.host), config.port), Tracked(vlog))?;
    /*R2*/
    match (&config.ssl, &config.ws) {
        (None, ws_config) => {
            while let Ok((inbound, _)) = listener.accept(Tracked(vlog))
                invariant log0 == *old(vlog), vlog.binds == log0.binds.push(host_port(config.host@, config.port)), vlog.quic == log0.quic, vlog.ss == log0.ss,
                    served_as(log0, *vlog, config.ws is Some, config.ssl is Some, Codec::kind()),
                    ws_config.is_some() == (config.ws is Some), config.ssl is None,
                    forall|c: &Context| #[trigger] new_codec.requires((c,)),
            {
                if ws_config.is_some() {
                    tokio::spawn(tmpltcp__accept_websocket_then_replay(inbound, new_codec(context.as_ref())?, Tracked(vlog)));
                } else {
                    tokio::spawn(tmpltcp__relay(inbound, new_codec(context.as_ref())?, Tracked(vlog)));
                }
            }
        }
        (Some(ssl_config), ws_config) => {
            let cert = CertificateDer::from_pem_file(ssl_config.certificate_file.as_str())?;
            let key = PrivateKeyDer::from_pem_file(ssl_config.key_file.as_str())?;
            let tls_config = rustls__ServerConfig::builder().with_no_client_auth().with_single_cert(vec![cert], key)?;
            let tls_acceptor = TlsAcceptor::from(Arc::new(tls_config));
            while let Ok((inbound, _)) = listener.accept(Tracked(vlog))
                invariant log0 == *old(vlog), vlog.binds == log0.binds.push(host_port(config.host@, config.port)), vlog.quic == log0.quic, vlog.ss == log0.ss,
                    served_as(log0, *vlog, config.ws is Some, config.ssl is Some, Codec::kind()),
                    ws_config.is_some() == (config.ws is Some), config.ssl is Some,
                    forall|c: &Context| #[trigger] new_codec.requires((c,)),
            {
                let codec = new_codec(context.as_ref())?;
                match tls_acceptor.accept(inbound, Tracked(vlog)) {
                    Ok(inbound) => {
                        if ws_config.is_some() {
                            tokio::spawn(tmpltcp__accept_websocket_then_replay(inbound, new_codec(context.as_ref())?, Tracked(vlog)));
                        } else {
                            tokio::spawn(tmpltcp__relay(inbound, codec, Tracked(vlog)));
                        }
                    }
                    Err(e) => (),
                }
            }
        }
    }
    Ok(())
}
