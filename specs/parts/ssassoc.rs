// ---- part ssassoc: server/shadowsocks.rs UdpAssociateContext::relay - the task that serves ONE client UDP session on the server (R29: its body as
// sequential code; what it receives and sends is recorded in a ghost log threaded through the socket / channel shims, R20) ----
pub struct IoError { _e: u8 }
/// every datagram / message this association receives or hands on, in order (attempts: a failed send is logged too)
pub struct AssocLog {
    pub ghost from_client: Seq<(Seq<u8>, Address, SessRec)>,
    pub ghost to_target: Seq<(Seq<u8>, SocketAddr)>,
    pub ghost from_target: Seq<(Seq<u8>, SocketAddr)>,
    pub ghost to_client: Seq<(Seq<u8>, Address, SocketAddr, SessRec)>,
}
/// the ids a datagram travels with
pub struct SessRec { pub csid: u64, pub ssid: u64, pub pid: u64, pub uh: Option<Seq<u8>> }
spec fn user_hash_of<const N: usize>(u: Option<Arc<ServerUser<N>>>) -> Option<Seq<u8>> { match u { Some(a) => Some(a.identity_hash@), None => None } }
spec fn sess_rec<const N: usize>(s: udp__Session<N>) -> SessRec { SessRec { csid: s.client_session_id, ssid: s.server_session_id, pid: s.packet_id, uh: user_hash_of(s.user) } }
/// tokio::select!: any branch may be the one that completes
#[verifier::external_body]
fn verif_select(n: usize) -> (r: usize) ensures r < n { unimplemented!() }
/// tokio::net::UdpSocket (TRUSTED)
#[verifier::external_body]
pub struct UdpSocket { _s: u8 }
impl UdpSocket {
    #[verifier::external_body]
    fn recv_from(&self, buf: &mut [u8], Tracked(vlog): Tracked<&mut AssocLog>) -> (r: Result<(usize, SocketAddr), IoError>)
        requires
            //#C02
            // a datagram longer than the buffer is cut off silently by the socket: only a buffer that holds the largest UDP datagram (65535 bytes) receives every datagram whole
            old(buf)@.len() >= 65535,
        ensures final(buf)@.len() == old(buf)@.len(),
            final(vlog).from_client == old(vlog).from_client, final(vlog).to_target == old(vlog).to_target, final(vlog).to_client == old(vlog).to_client,
            match r { Ok((n, a)) => n <= old(buf)@.len() && final(vlog).from_target == old(vlog).from_target.push((final(buf)@.take(n as int), a)), Err(_) => final(vlog).from_target == old(vlog).from_target },
    { unimplemented!() }
    #[verifier::external_body]
    fn send_to(&self, buf: &[u8], target: SocketAddr, Tracked(vlog): Tracked<&mut AssocLog>) -> (r: Result<usize, IoError>)
        ensures final(vlog).from_client == old(vlog).from_client, final(vlog).from_target == old(vlog).from_target, final(vlog).to_client == old(vlog).to_client,
            final(vlog).to_target == old(vlog).to_target.push((buf@, target)),
    { unimplemented!() }
}
/// tokio::sync::mpsc (TRUSTED)
#[verifier::external_body]
#[verifier::accept_recursive_types(T)]
pub struct Sender<T> { _t: core::marker::PhantomData<T> }
#[verifier::external_body]
#[verifier::accept_recursive_types(T)]
pub struct Receiver<T> { _t: core::marker::PhantomData<T> }
pub struct SendError { _e: u8 }
impl<const N: usize> Sender<(BytesMut, Address, SocketAddr, udp__Session<N>)> {
    #[verifier::external_body]
    fn send(&self, v: (BytesMut, Address, SocketAddr, udp__Session<N>), Tracked(vlog): Tracked<&mut AssocLog>) -> (r: Result<(), SendError>)
        // channel invariant (guaranteed here by every sender, relied upon by the receiver in startup_udp): a reply is labelled with a socket address
        requires v.1 is Socket,
        ensures final(vlog).from_client == old(vlog).from_client, final(vlog).from_target == old(vlog).from_target, final(vlog).to_target == old(vlog).to_target,
            final(vlog).to_client == old(vlog).to_client.push((v.0@, v.1, v.2, sess_rec(v.3))),
    { unimplemented!() }
}
impl<const N: usize> Receiver<(BytesMut, Address, udp__Session<N>)> {
    #[verifier::external_body]
    fn recv(&mut self, Tracked(vlog): Tracked<&mut AssocLog>) -> (r: Option<(BytesMut, Address, udp__Session<N>)>)
        ensures final(vlog).to_target == old(vlog).to_target, final(vlog).from_target == old(vlog).from_target, final(vlog).to_client == old(vlog).to_client,
            match r { Some(m) => final(vlog).from_client == old(vlog).from_client.push((m.0@, m.1, sess_rec(m.2))), None => final(vlog).from_client == old(vlog).from_client },
    { unimplemented!() }
}
/// manager/shadowsocks.rs impl PartialEq for ServerUser (compares identity hashes): NOT verified and without contract - vstd has no specification for
/// array / Arc comparisons, so `self.user != session.user` in relay is an oracle for the proofs below
impl<const N: usize> PartialEq for ServerUser<N> {
    #[verifier::external_body]
    fn eq(&self, other: &Self) -> bool { unimplemented!() }
}
impl Address {
    /// protocol/address.rs to_socket_addr (DNS): not verified, any answer
    #[verifier::external_body]
    fn to_socket_addr(&self) -> (r: Result<SocketAddr, IoError>) { unimplemented!() }
}
/// the packet ids of the client datagrams, the limit applied to each (none: u64::MAX)
spec fn assoc_ids(m: Seq<(Seq<u8>, Address, SessRec)>) -> Seq<u64> { Seq::new(m.len(), |i: int| m[i].2.pid) }
spec fn assoc_limits(n: nat) -> Seq<u64> { Seq::new(n, |i: int| u64::MAX) }
/// the payloads of the accepted ones, in order
spec fn assoc_accepted(m: Seq<(Seq<u8>, Address, SessRec)>, rs: Seq<bool>) -> Seq<Seq<u8>>
    decreases m.len()
{
    if m.len() == 0 || rs.len() != m.len() { Seq::empty() } else {
        let p = assoc_accepted(m.drop_last(), rs.drop_last());
        if rs.last() { p.push(m.last().0) } else { p }
    }
}
/// the window has been stepped once per message, in order, starting from a fresh window
spec fn assoc_hist(fs: Seq<PacketWindowFilter>, m: Seq<(Seq<u8>, Address, SessRec)>, rs: Seq<bool>) -> bool {
    history_ok(fs, assoc_ids(m), assoc_limits(m.len()), rs)
}
proof fn lemma_assoc_hist_push(fs: Seq<PacketWindowFilter>, m: Seq<(Seq<u8>, Address, SessRec)>, rs: Seq<bool>, x: (Seq<u8>, Address, SessRec), f: PacketWindowFilter, r: bool)
    requires assoc_hist(fs, m, rs), step_ok(fs.last(), x.2.pid, u64::MAX, f, r),
    ensures assoc_hist(fs.push(f), m.push(x), rs.push(r)),
{
    let m2 = m.push(x); let fs2 = fs.push(f); let rs2 = rs.push(r);
    assert forall|i: int| 0 <= i < assoc_ids(m2).len() implies #[trigger] step_ok(fs2[i], assoc_ids(m2)[i], assoc_limits(m2.len())[i], fs2[i + 1], rs2[i]) by {
        if i < m.len() { assert(step_ok(fs[i], assoc_ids(m)[i], assoc_limits(m.len())[i], fs[i + 1], rs[i])); }
    }
}
/// the datagrams the association serves: `flags[i]` is false for a datagram that is turned away because it belongs to another user than the session's owner
spec fn assoc_pick(m: Seq<(Seq<u8>, Address, SessRec)>, flags: Seq<bool>) -> Seq<(Seq<u8>, Address, SessRec)>
    decreases m.len()
{
    if m.len() == 0 || flags.len() != m.len() { Seq::empty() } else {
        let p = assoc_pick(m.drop_last(), flags.drop_last());
        if flags.last() { p.push(m.last()) } else { p }
    }
}
proof fn lemma_assoc_pick_push(m: Seq<(Seq<u8>, Address, SessRec)>, flags: Seq<bool>, x: (Seq<u8>, Address, SessRec), f: bool)
    requires flags.len() == m.len()
    ensures assoc_pick(m.push(x), flags.push(f)) == (if f { assoc_pick(m, flags).push(x) } else { assoc_pick(m, flags) })
{
    assert(m.push(x).drop_last() =~= m);
    assert(flags.push(f).drop_last() =~= flags);
}
spec fn assoc_payloads(t: Seq<(Seq<u8>, SocketAddr)>) -> Seq<Seq<u8>> { Seq::new(t.len(), |i: int| t[i].0) }
proof fn lemma_assoc_accepted_push(m: Seq<(Seq<u8>, Address, SessRec)>, rs: Seq<bool>, x: (Seq<u8>, Address, SessRec), r: bool)
    requires rs.len() == m.len()
    ensures assoc_accepted(m.push(x), rs.push(r)) == (if r { assoc_accepted(m, rs).push(x.0) } else { assoc_accepted(m, rs) })
{
    assert(m.push(x).drop_last() =~= m);
    assert(rs.push(r).drop_last() =~= rs);
}

/// tokio task handle / timer / channel constructors / UDP bind, the association table (lru_time_cache) - TRUSTED, as startup_udp uses them
#[verifier::external_body]
#[verifier::accept_recursive_types(T)]
pub struct JoinHandle<T> { _t: core::marker::PhantomData<T> }
impl<T> JoinHandle<T> {
    #[verifier::external_body]
    fn is_finished(&self) -> (r: bool) { unimplemented!() }
}
pub mod mpsc {
    use vstd::prelude::*;
    use super::*;
    pub mod error { pub struct SendError<T> { pub v: T } }
    #[verifier::external_body]
    pub fn channel<T>(n: usize) -> (r: (Sender<T>, Receiver<T>)) { unimplemented!() }
}
impl<T> Clone for Sender<T> {
    #[verifier::external_body]
    fn clone(&self) -> (r: Self) { unimplemented!() }
}
impl<const N: usize> Sender<(BytesMut, Address, udp__Session<N>)> {
    /// hands a client datagram to the association's task
    #[verifier::external_body]
    fn send(&self, v: (BytesMut, Address, udp__Session<N>), Tracked(vlog): Tracked<&mut AssocLog>) -> (r: Result<(), mpsc::error::SendError<(BytesMut, Address, udp__Session<N>)>>)
        ensures *final(vlog) == *old(vlog),
    { unimplemented!() }
}
impl<const N: usize> Receiver<(BytesMut, Address, SocketAddr, udp__Session<N>)> {
    #[verifier::external_body]
    fn recv(&mut self, Tracked(vlog): Tracked<&mut AssocLog>) -> (r: Option<(BytesMut, Address, SocketAddr, udp__Session<N>)>)
        ensures *final(vlog) == *old(vlog), r matches Some(m) ==> m.1 is Socket,
    { unimplemented!() }
}
pub struct Interval { _i: u8 }
pub mod time {
    use super::*;
    #[verifier::external_body]
    pub fn interval(d: Duration) -> (r: Interval) { unimplemented!() }
}
impl Interval {
    #[verifier::external_body]
    fn tick(&mut self) { unimplemented!() }
}
/// what a socket can be bound to: a "host:port" text or a socket address
pub trait BindAddr { spec fn text(&self) -> Seq<char>; }
impl BindAddr for String { open spec fn text(&self) -> Seq<char> { self@ } }
impl BindAddr for SocketAddrV4 { uninterp spec fn text(&self) -> Seq<char>; }
impl UdpSocket {
    /// the address text the socket was bound to
    pub uninterp spec fn bound(&self) -> Seq<char>;
    #[verifier::external_body]
    fn bind<A: BindAddr>(addr: A) -> (r: Result<UdpSocket, IoError>)
        ensures r matches Ok(s) ==> s.bound() == addr.text()
    { unimplemented!() }
}
impl core::convert::From<IoError> for anyhow::Error {
    #[verifier::external_body]
    fn from(e: IoError) -> anyhow::Error { unimplemented!() }
}
/// lru_time_cache::LruCache as the association table: a finite map; entries may expire (disappear) between any two operations
pub type AssocKey = (u64, Option<SocketAddr>);
impl<V> LruCache<AssocKey, V> {
    #[verifier::external_body]
    fn iter(&mut self) ensures forall|k: AssocKey| final(self).m().contains_key(k) ==> old(self).m().contains_key(k) && #[trigger] final(self).m()[k] == old(self).m()[k] { unimplemented!() }
    #[verifier::external_body]
    fn get(&mut self, k: &AssocKey) -> (r: Option<&V>)
        ensures forall|j: AssocKey| final(self).m().contains_key(j) ==> old(self).m().contains_key(j) && #[trigger] final(self).m()[j] == old(self).m()[j],
            r matches Some(v) ==> final(self).m().contains_key(*k) && final(self).m()[*k] == *v,
            r is None ==> !final(self).m().contains_key(*k),
    { unimplemented!() }
    #[verifier::external_body]
    fn get_mut(&mut self, k: &AssocKey) -> (r: Option<&V>)
        ensures forall|j: AssocKey| final(self).m().contains_key(j) ==> old(self).m().contains_key(j) && #[trigger] final(self).m()[j] == old(self).m()[j],
            r matches Some(v) ==> final(self).m().contains_key(*k) && final(self).m()[*k] == *v,
            r is None ==> !final(self).m().contains_key(*k),
    { unimplemented!() }
    #[verifier::external_body]
    fn remove(&mut self, k: &AssocKey) -> (r: Option<V>)
        ensures forall|j: AssocKey| final(self).m().contains_key(j) ==> j != *k && old(self).m().contains_key(j) && #[trigger] final(self).m()[j] == old(self).m()[j],
    { unimplemented!() }
    #[verifier::external_body]
    fn insert(&mut self, k: AssocKey, v: V) -> (r: Option<V>)
        ensures forall|j: AssocKey| final(self).m().contains_key(j) ==> (j == k && #[trigger] final(self).m()[j] == v) || (j != k && old(self).m().contains_key(j) && final(self).m()[j] == old(self).m()[j]),
    { unimplemented!() }
}
impl<const N: usize> UdpAssociate<N> {
    /// the client session an association was created for, and the address of the client that opened it (where its replies go)
    uninterp spec fn sid(&self) -> u64;
    uninterp spec fn addr(&self) -> SocketAddr;
}
impl<const N: usize> UdpAssociateContext<N> {
    /// server/shadowsocks.rs UdpAssociateContext::create (async: binds a socket, spawns the relay task): NOT verified; the association it hands back is the one of
    /// the session it was given (the task starts with a fresh replay window and no user: the preconditions of relay)
    #[verifier::external_body]
    fn create(client_session: &udp__Session<N>, client_addr: SocketAddr, inbound: Sender<(BytesMut, Address, SocketAddr, udp__Session<N>)>) -> (r: anyhow::Result<UdpAssociate<N>>)
        ensures r matches Ok(a) ==> a.sid() == client_session.client_session_id && a.addr() == client_addr,
    { unimplemented!() }
}
/// server/shadowsocks.rs `impl From<&ServerContext<N>> for PayloadCodec<N>` (= PayloadCodec::new(context, Mode::Server, None)): assumed stub - a trait impl cannot
/// state the precondition of PayloadCodec::new
impl<const N: usize> vstd::std_specs::convert::FromSpecImpl<&ServerContext<N>> for sssrv__PayloadCodec<N> {
    open spec fn obeys_from_spec() -> bool { false }
    open spec fn from_spec(v: &ServerContext<N>) -> Self { arbitrary() }
}
impl<const N: usize> From<&ServerContext<N>> for sssrv__PayloadCodec<N> {
    #[verifier::external_body]
    fn from(value: &ServerContext<N>) -> Self { unimplemented!() }
}
/// server.rs startup_quic (accept loop): NOT verified
#[verifier::external_body]
fn srv__startup_quic<const N: usize, F: FnOnce(&ServerContext<N>) -> anyhow::Result<sssrv__PayloadCodec<N>>>(context: ServerContext<N>, config: &ServerConfig<SslConfig>, new_codec: F) -> (r: anyhow::Result<()>)
{ unimplemented!() }
/// server.rs startup_tcp (TCP accept loop): NOT verified
#[verifier::external_body]
fn srv__startup_tcp<const N: usize, F: FnOnce(&ServerContext<N>) -> anyhow::Result<sssrv__PayloadCodec<N>>>(context: ServerContext<N>, config: &ServerConfig<SslConfig>, new_codec: F) -> (r: anyhow::Result<()>)
{ unimplemented!() }
impl<const N: usize> ServerUserManager<N> {
    /// manager/shadowsocks.rs ServerUserManager::{new, add_user} (HashMap): NOT verified
    #[verifier::external_body]
    fn new() -> (r: Self) ensures r.count() == 0 { unimplemented!() }
    #[verifier::external_body]
    fn add_user(&mut self, user: ServerUser<N>) { unimplemented!() }
}
/// every entry of the association table serves the session it is filed under
/// .. and, where clients are told apart by address (the original AEAD ciphers: no session id on the wire), the client address it is filed under
spec fn table_ok<const N: usize>(t: LruCache<AssocKey, UdpAssociate<N>>) -> bool {
    forall|k: AssocKey| t.m().contains_key(k) ==> (#[trigger] t.m()[k]).sid() == k.0 && (k.1 matches Some(a) ==> t.m()[k].addr() == a)
}
/// bool::then_some
pub assume_specification<T>[ bool::then_some ](b: bool, t: T) -> (r: Option<T>) ensures r == (if b { Some(t) } else { None });

//@@ octo-squirrel-server/src/server/shadowsocks.rs:172-175  struct UdpAssociate  sha=9a4a81ec24ed2a1c
struct UdpAssociate<const N: usize> {
    task: JoinHandle<()>,
    sender: Sender<(BytesMut, Address, udp__Session<N>)>,
}


//@@ octo-squirrel-server/src/server/shadowsocks.rs:177-181  impl UdpAssociate {fn try_send}  sha=c27fafa573386ec8
impl<const N: usize> UdpAssociate<N> {
    fn try_send(&self, msg: (BytesMut, Address, udp__Session<N>), Tracked(vlog): Tracked<&mut AssocLog>) -> (r: Result<(), mpsc::error::SendError<(BytesMut, Address, udp__Session<N>)>>)
        requires
            //#C02 C11
            // a datagram is handed only to the association of its own client session (one session = one task = one replay window)
            self.sid() == msg.2.client_session_id,
    {
        self.sender.send(msg, Tracked(vlog))
    }
}


//@@ octo-squirrel-server/src/server/shadowsocks.rs:190-199  struct UdpAssociateContext  sha=78838acd7ad7e4db
struct UdpAssociateContext<const N: usize> {
    client_session_id: u64,
    client_session_filter: PacketWindowFilter,
    client_addr: SocketAddr,
    inbound: Sender<(BytesMut, Address, SocketAddr, udp__Session<N>)>,
    outbound: UdpSocket,
    server_session_id: u64,
    server_packet_id: u64,
    user: Option<Arc<ServerUser<N>>>,
}

//@@ octo-squirrel-server/src/server/shadowsocks.rs:304-306  mod udp / fn new_codec  sha=310cf0e86d70ac1a
fn new_codec<'a, const N: usize>(config: &ServerConfig<SslConfig>, context: udp__Context<'a, N>) -> (r: anyhow::Result<udp__SessionCodec<'a, N>>)
    ensures
        //#C16
        r matches Ok(c) && c.context == context && c.cipher.kind == config.cipher,
{
        Ok(udp__SessionCodec::<'a, N>::new(context, udp__AEADCipherCodec::new(config.cipher)))
    }


//@@ octo-squirrel-server/src/server/shadowsocks.rs:84-170  fn startup_udp  sha=eea43b948751bef5
// termination is not claimed: the service runs until its channel closes
#[verifier::exec_allows_no_decreases_clause]
fn startup_udp<const N: usize>(config: &ServerConfig<SslConfig>, user_manager: &Arc<ServerUserManager<N>>, Tracked(vlog): Tracked<&mut AssocLog>) -> (r: anyhow::Result<()>)
    requires 16 <= N <= 32, !(config.cipher is Unknown), N == key_len_of(config.cipher),
{
    if !config.mode.enable_udp() && !config.mode.enable_quic() {
        return Ok(());
    }
    if config.mode.enable_udp() {
        let (key, identity_keys) = if config.cipher.is_aead_2022() {
            ss22k__password_to_keys(&config.password).map_err(|e| verif_err())?
        } else {
            (ssaeadk__openssl_bytes_to_key(config.password.as_bytes()), Vec::with_capacity(0))
        };
        proof {
            //#C16
            // the UDP service derives its key exactly as the TCP service does: base64 key list for 2022-blake3-*, EVP_BytesToKey of the password otherwise
            assert(cred_ok(config.cipher, sbytes(config.password), N as int, key@, arrs(identity_keys@)));
        }
        let context = udp__Context::new(Mode::Server, Some(user_manager.clone()), &key, &identity_keys);
        let codec = new_codec::<N>(config, context)?;
        let inbound = UdpSocket::bind(verif_host_port(&(config.host), config.port))?;
        proof {
            //#C16
            // the UDP service listens on the configured host and port
            assert(inbound.bound() == host_port(config.host@, config.port));
        }
        let (tx, mut rx) = mpsc::channel::<(BytesMut, Address, SocketAddr, udp__Session<N>)>(1024);
        let ttl = Duration::from_secs(300);
        // a 2022 session is named by its client session id; the original AEAD ciphers carry no session id on the wire: there a client is its address
        let by_address = !config.cipher.is_aead_2022();
        let mut net_map: LruCache<(u64, Option<SocketAddr>), UdpAssociate<N>> = LruCache::with_expiry_duration_and_capacity(ttl, 10240);
        let mut cleanup_timer = time::interval(ttl);
        /*R2*/
        let mut buf = [0; 0x10000];
        loop
            invariant table_ok(net_map), codec.wf(), codec.context.stream_type is Server, by_address == !config.cipher.is_2022(),
        {
            match verif_select(3) {
                0 => { let _ = cleanup_timer.tick(); {
                    net_map.iter();
                } }
                // p_s_c
                1 => { let peer_msg = rx.recv(Tracked(vlog)); {
                    if let Some((content, peer_addr, client_addr, session)) = peer_msg {
                        net_map.get(&(session.client_session_id, by_address.then_some(client_addr))); // keep alive
                        let mut dst = BytesMut::new();
                        if let Err(e) = udp__SessionCodec::encode(&codec, (content, peer_addr, session), &mut dst) {
                            ()
                        } else {
                            inbound.send_to(&dst, client_addr, Tracked(vlog))?;
                        }
                    } else {
                        /*R2*/
                        break;
                    }
                } }
                // c_s_p
                _ => { let client_msg = inbound.recv_from(&mut buf, Tracked(vlog)); {
                    match client_msg {
                        Ok((len, client_addr)) => {
                            let mut src = BytesMut::from(&buf[..len]);
                            match udp__SessionCodec::<N>::decode(&codec, &mut src) {
                                Ok(Some((content, peer_addr, session))) => {
                                    let key = (session.client_session_id, by_address.then_some(client_addr));
                                    // an association whose task has ended (unresolvable or unreachable target) is replaced, never fatal for the service
                                    if net_map.get(&key).is_some_and(|assoc| assoc.task.is_finished()) {
                                        net_map.remove(&key);
                                    }
                                    if let Some(assoc) = net_map.get_mut(&key) {
                                        proof {
                                            //#C02
                                            // with a cipher that carries no session id, the association a datagram joins is the one opened from this very client address: its replies go back there
                                            assert(by_address ==> assoc.addr() == client_addr);
                                        }
                                        if let Err(e) = assoc.try_send((content, peer_addr, session), Tracked(vlog)) {
                                            /*R2*/
                                            net_map.remove(&key);
                                        }
                                    } else {
                                        match UdpAssociateContext::create(&session, client_addr, tx.clone()) {
                                            Ok(assoc) => {
                                                if let Err(e) = assoc.try_send((content, peer_addr, session), Tracked(vlog)) {
                                                    /*R2*/
                                                } else {
                                                    net_map.insert(key, assoc);
                                                }
                                            }
                                            Err(e) => (),
                                        }
                                    }
                                }
                                Ok(None) => {}
                                Err(e) => (),
                            }
                        }
                        Err(e) => {
                            /*R2*/
                        }
                    }
                } }
            }
        }
        /*R2*/
        Ok(())
    } else {
        let context: ServerContext<N> = ServerContext::init(config, user_manager.clone())?;
        srv__startup_quic(context, config, |c| Ok(sssrv__PayloadCodec::from(c)))
    }
}


//@@ octo-squirrel-server/src/server/shadowsocks.rs:44-74  fn startup  sha=f9e9296b8572f902
// (runs for as long as its services run)
#[verifier::exec_allows_no_decreases_clause]
fn startup(config: &ServerConfig<SslConfig>, Tracked(vlog): Tracked<&mut AssocLog>) -> (r: anyhow::Result<()>)
    ensures
        //#C16
        // an unknown cipher name stops startup with an error
        config.cipher is Unknown ==> r is Err,
    // (that every known cipher name starts its services with keys of exactly the size the name stands for - 16 bytes for aes-128-gcm and
    // 2022-blake3-aes-128-gcm, 32 for the others - is the precondition `N == key_len_of(config.cipher)` of startup_udp / startup_tcp, discharged below)
{
    let res = match config.cipher {
        CipherKind::Aes128Gcm | CipherKind::Aead2022Blake3Aes128Gcm => {
            let mut user_manager: ServerUserManager<16> = ServerUserManager::new();
            for user in config.user.iter() {
                user_manager.add_user(ServerUser::try_from(user).map_err(|e| verif_err())?);
            }
            let user_manager = Arc::new(user_manager);
            (startup_udp::<16>(config, &user_manager, Tracked(vlog)), startup_tcp::<16>(config, &user_manager))
        }
        CipherKind::Aes256Gcm
        | CipherKind::Aead2022Blake3Aes256Gcm
        | CipherKind::ChaCha20Poly1305
        | CipherKind::Aead2022Blake3ChaCha8Poly1305
        | CipherKind::Aead2022Blake3ChaCha20Poly1305 => {
            let mut user_manager: ServerUserManager<32> = ServerUserManager::new();
            for user in config.user.iter() {
                user_manager.add_user(ServerUser::try_from(user).map_err(|e| verif_err())?);
            }
            let user_manager = Arc::new(user_manager);
            (startup_udp::<32>(config, &user_manager, Tracked(vlog)), startup_tcp::<32>(config, &user_manager))
        }
        CipherKind::Unknown => return Err(verif_err()),
    };
    match res {
        (Ok(_), Ok(_)) => Ok(()),
        (Ok(_), Err(e)) => return Err(verif_err()),
        (Err(e), Ok(_)) => return Err(verif_err()),
        (Err(e1), Err(e2)) => return Err(verif_err()),
    }
}


//@@ octo-squirrel-server/src/server/shadowsocks.rs:76-82  fn startup_tcp  sha=b6e808d99b150591
fn startup_tcp<const N: usize>(config: &ServerConfig<SslConfig>, user_manager: &Arc<ServerUserManager<N>>) -> (r: anyhow::Result<()>)
    requires
        //#C16
        16 <= N <= 32, !(config.cipher is Unknown), N == key_len_of(config.cipher),
{
    if !config.mode.enable_tcp() {
        return Ok(());
    }
    let context: ServerContext<N> = ServerContext::init(config, user_manager.clone())?;
    srv__startup_tcp(context, config, |c| Ok(sssrv__PayloadCodec::from(c)))
}


//@@ octo-squirrel-server/src/server/shadowsocks.rs:201-291  impl UdpAssociateContext {fn relay,fn validate_packet_id}  sha=9b98a3caaec76dc1
impl<const N: usize> UdpAssociateContext<N> {

    // termination is not claimed: the task serves its session for as long as messages arrive
    #[verifier::exec_allows_no_decreases_clause]
    fn relay(&mut self, mut receiver: Receiver<(BytesMut, Address, udp__Session<N>)>, Tracked(vlog): Tracked<&mut AssocLog>)
        requires fresh(old(self).client_session_filter), old(self).user is None, old(vlog).from_client.len() == 0, old(vlog).to_target.len() == 0, old(vlog).from_target.len() == 0, old(vlog).to_client.len() == 0,
        ensures
            //#C11 C02
            // every client datagram of the session passes exactly one step of the replay window, in arrival order ..
            // .. and is handed to the outbound socket, whole and once, iff the window accepted its packet id (a refused one is dropped and the session
            // goes on; only the datagram during which the session ends - target unresolvable - may be left unjudged)
            exists|fs: Seq<PacketWindowFilter>, rs: Seq<bool>, flags: Seq<bool>, k: int| k <= final(vlog).from_client.len() <= k + 1 && flags.len() == k
                // (only a datagram of another user than the session's owner is turned away unjudged; the datagram that opens the session never is)
                && (k > 0 ==> flags[0])
                && #[trigger] assoc_hist(fs, assoc_pick(final(vlog).from_client.take(k), flags), rs)
                && assoc_payloads(final(vlog).to_target) == assoc_accepted(assoc_pick(final(vlog).from_client.take(k), flags), rs),
            //#C12 C02
            // replies carry this session's ids and a packet id that goes up by one each time; the session ends rather than reuse one
            forall|i: int| 0 <= i < final(vlog).to_client.len() ==> (#[trigger] final(vlog).to_client[i]).3.pid == old(self).server_packet_id + i + 1
                && final(vlog).to_client[i].3.csid == old(self).client_session_id && final(vlog).to_client[i].3.ssid == old(self).server_session_id
                && final(vlog).to_client[i].2 == old(self).client_addr,
            //#C02
            // every reply is one datagram received from a target, unchanged, labelled with that target's address
            forall|i: int| 0 <= i < final(vlog).to_client.len() ==> i < final(vlog).from_target.len() && (#[trigger] final(vlog).to_client[i]).0 == final(vlog).from_target[i].0
                && final(vlog).to_client[i].1 == Address::Socket(final(vlog).from_target[i].1),
    {
        let mut buf = [0; 0x10000];
        let ghost mut fs: Seq<PacketWindowFilter> = seq![self.client_session_filter];
        let ghost mut rs: Seq<bool> = Seq::empty();
        let ghost spid0 = self.server_packet_id;
        let ghost mut dropping = false;
        let ghost mut flags: Seq<bool> = Seq::empty();
        proof { assert(assoc_pick(vlog.from_client, flags) =~= Seq::empty()); assert(assoc_payloads(vlog.to_target) =~= assoc_accepted(assoc_pick(vlog.from_client, flags), rs)); assert(assoc_hist(fs, assoc_pick(vlog.from_client, flags), rs)); }
        loop
            invariant_except_break
                flags.len() == vlog.from_client.len(),
                self.user is Some ==> flags.len() > 0,
                flags.len() > 0 ==> flags[0],
                assoc_hist(fs, assoc_pick(vlog.from_client, flags), rs),
                fs.last() == self.client_session_filter,
                assoc_payloads(vlog.to_target) == assoc_accepted(assoc_pick(vlog.from_client, flags), rs),
                vlog.to_client.len() == vlog.from_target.len(),
            invariant
                self.client_session_id == old(self).client_session_id, self.server_session_id == old(self).server_session_id, self.client_addr == old(self).client_addr,
                spid0 == old(self).server_packet_id,
                self.server_packet_id == spid0 + vlog.to_client.len(),
                vlog.to_client.len() <= vlog.from_target.len(),
                forall|i: int| 0 <= i < vlog.to_client.len() ==> (#[trigger] vlog.to_client[i]).3.pid == spid0 + i + 1
                    && vlog.to_client[i].3.csid == self.client_session_id && vlog.to_client[i].3.ssid == self.server_session_id
                    && vlog.to_client[i].2 == self.client_addr,
                forall|i: int| 0 <= i < vlog.to_client.len() ==> (#[trigger] vlog.to_client[i]).0 == vlog.from_target[i].0 && vlog.to_client[i].1 == Address::Socket(vlog.from_target[i].1),
            ensures
                //#C11
                // a refused (duplicate or stale) packet never ends the session: the task leaves its loop only when its channel is closed, a socket fails,
                // the target cannot be resolved or the server packet id would overflow
                !dropping,
                exists|fs: Seq<PacketWindowFilter>, rs: Seq<bool>, flags: Seq<bool>, k: int| k <= vlog.from_client.len() <= k + 1 && flags.len() == k
                    && (k > 0 ==> flags[0])
                    && #[trigger] assoc_hist(fs, assoc_pick(vlog.from_client.take(k), flags), rs)
                    && assoc_payloads(vlog.to_target) == assoc_accepted(assoc_pick(vlog.from_client.take(k), flags), rs),
        {
            proof { dropping = false; assert(vlog.from_client.take(vlog.from_client.len() as int) =~= vlog.from_client); }
            match verif_select(2) {
                0 => { let peer_msg = self.outbound.recv_from(&mut buf, Tracked(vlog)); {
                    match peer_msg {
                        Ok((len, peer_addr)) => {
                            let content = BytesMut::from(&buf[..len]);
                            self.server_packet_id = match self.server_packet_id.checked_add(1) {
                                Some(id) => id,
                                None => {
                                    /*R2*/
                                    break;
                                }
                            };
                            let session = udp__Session::new(
                                self.client_session_id,
                                self.server_session_id,
                                self.server_packet_id,
                                self.user.clone(),
                            );
                            /*R2*/
                            if let Err(e) = self.inbound.send((content, peer_addr.into(), self.client_addr, session), Tracked(vlog)) {
                                /*R2*/
                            }
                        },
                        Err(e) => {
                            /*R2*/
                            break;
                        }
                    }
                } }
                _ => { let ghost m0 = vlog.from_client; let ghost t0 = vlog.to_target; let client_msg = receiver.recv(Tracked(vlog)); {
                    match client_msg {
                        Some((content, peer_addr, session)) => {
                            let ghost msg = (content@, peer_addr, sess_rec(session));
                            /*R2*/
                            let resolved_addr = match peer_addr.to_socket_addr() {
                                Ok(addr) => addr,
                                Err(e) => {
                                    /*R2*/
                                    proof { assert(vlog.from_client.take(m0.len() as int) =~= m0); }
                                    break;
                                },
                            };
                            // a session belongs to the user who opened it: a datagram of another user that carries its session id is not served here
                            if self.user.is_some() && self.user != session.user {
                                /*R2*/
                                proof { lemma_assoc_pick_push(m0, flags, msg, false); flags = flags.push(false); }
                                continue;
                            }
                            proof { lemma_assoc_pick_push(m0, flags, msg, true); }
                            let ghost j0 = assoc_pick(m0, flags);
                            proof { flags = flags.push(true); }
                            let ghost f_before = self.client_session_filter;
                            if !self.validate_packet_id(session.packet_id) {
                                // a duplicate or stale packet is dropped; the session goes on
                                /*R2*/
                                proof {
                                    lemma_assoc_hist_push(fs, j0, rs, msg, self.client_session_filter, false);
                                    lemma_assoc_accepted_push(j0, rs, msg, false);
                                    fs = fs.push(self.client_session_filter); rs = rs.push(false);
                                    dropping = true;
                                }
                                continue;
                            }
                            proof {
                                lemma_assoc_hist_push(fs, j0, rs, msg, self.client_session_filter, true);
                                lemma_assoc_accepted_push(j0, rs, msg, true);
                                fs = fs.push(self.client_session_filter); rs = rs.push(true);
                            }
                            self.user = session.user.clone();
                            if let Err(e) = self.outbound.send_to(&content, resolved_addr, Tracked(vlog)) {
                                /*R2*/
                                proof { assert(assoc_payloads(vlog.to_target) =~= assoc_payloads(t0).push(content@)); assert(vlog.from_client.take(vlog.from_client.len() as int) =~= vlog.from_client); }
                                break;
                            }
                            proof { assert(assoc_payloads(vlog.to_target) =~= assoc_payloads(t0).push(content@)); }
                        }
                        None => {
                            /*R2*/
                            break;
                        }
                    }
                } }
            }
        }
    }

    fn validate_packet_id(&mut self, packet_id: u64) -> (r: bool)
        ensures
            //#C11
            // one step of the replay window with no upper limit on the id; nothing else of the association changes
            step_ok(old(self).client_session_filter, packet_id, u64::MAX, final(self).client_session_filter, r),
            final(self).client_session_id == old(self).client_session_id, final(self).server_session_id == old(self).server_session_id, final(self).server_packet_id == old(self).server_packet_id,
            final(self).client_addr == old(self).client_addr, final(self).user == old(self).user, final(self).inbound == old(self).inbound, final(self).outbound == old(self).outbound,
    {
        self.client_session_filter.validate_packet_id(packet_id, u64::MAX)
    }
}
