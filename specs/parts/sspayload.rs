// ---- part sspayload: the Shadowsocks TCP codecs the relays actually use: server/shadowsocks.rs mod tcp PayloadCodec (turns the cipher codec's
// plaintext into ConnectTcp / RelayTcp items) and client/shadowsocks.rs mod tcp PayloadCodec (pass-through) ----
/// what an item carries
spec fn dl_of_item(r: anyhow::Result<Option<InboundIn>>) -> Dl {
    match r { Ok(None) => Dl::Nothing, Ok(Some(InboundIn::ConnectTcp(b, _))) => Dl::Bytes(b@), Ok(Some(InboundIn::RelayTcp(b))) => Dl::Bytes(b@), Ok(Some(InboundIn::RelayUdp(b, _))) => Dl::Bytes(b@), Err(_) => Dl::Error }
}
//@@ octo-squirrel-server/src/server/template.rs:39-43  mod message / enum InboundIn  sha=900b92278fa20e17
pub enum InboundIn {
        ConnectTcp(BytesMut, Address),
        RelayTcp(BytesMut),
        RelayUdp(BytesMut, Address),
    }

//@@ octo-squirrel-server/src/server/template.rs:71-74  mod message / enum OutboundIn  sha=8f4f430e0a7dd220
pub enum OutboundIn {
        Tcp(BytesMut),
        Udp((BytesMut, SocketAddr)),
    }

//@@ octo-squirrel-server/src/server/template.rs:76-83  mod message / impl From for BytesMut  sha=836a0617d15043fc
impl vstd::std_specs::convert::FromSpecImpl<OutboundIn> for BytesMut {
    open spec fn obeys_from_spec() -> bool { true }
    open spec fn from_spec(v: OutboundIn) -> Self { match v { OutboundIn::Tcp(b) => b, OutboundIn::Udp((b, _)) => b } }
}
impl From<OutboundIn> for BytesMut {
        fn from(value: OutboundIn) -> Self {
            match value {
                OutboundIn::Tcp(bytes) => bytes,
                OutboundIn::Udp((bytes, _)) => bytes,
            }
        }
    }

//@@ octo-squirrel-server/src/server/shadowsocks.rs:323-328  mod tcp / struct PayloadCodec  sha=0a0deb8ebe3d5147
pub struct sssrv__PayloadCodec<const N: usize> {
        context: Arc<Context<N>>,
        session: Session<N>,
        cipher: AEADCipherCodec<N>,
        state: sssrv__State,
    }

//@@ octo-squirrel-server/src/server/shadowsocks.rs:330-333  mod tcp / enum State  sha=d8ea95c44e9c2239
enum sssrv__State {
        Header,
        Body,
    }

//@@ octo-squirrel-server/src/server/shadowsocks.rs:335-340  mod tcp / impl PayloadCodec  sha=f3c70b3003054fc0
impl<const N: usize> sssrv__PayloadCodec<N> {
        spec fn wf(&self) -> bool { self.cipher.wf() && self.context.wf() }
        fn new(context: Arc<Context<N>>, mode: Mode, address: Option<Address>) -> (r: Self)
            requires context.wf(),
            ensures r.wf(), r.state is Header, r.session.mode == mode, r.session.address == address, r.cipher.decoder is None, r.cipher.encoder is None, r.context == context,
        {
            let session = Session::new(mode, Identity::default(), address);
            Self { context, session, cipher: AEADCipherCodec::default(), state: sssrv__State::Header }
        }
    }

//@@ octo-squirrel-server/src/server/shadowsocks.rs:342-348  mod tcp / impl Encoder for PayloadCodec  sha=b2d35db0ddf93f3b
impl<const N: usize> sssrv__PayloadCodec<N> {

        fn encode(&mut self, item: OutboundIn, dst: &mut BytesMut) -> (r: Result<()>)
            requires old(self).wf(), old(self).session.can_encode(),
            ensures final(self).wf(), final(self).state == old(self).state, final(self).session == old(self).session, final(self).context == old(self).context,
                final(self).cipher.decoder == old(self).cipher.decoder,
                //#C01 C03
                // the reply bytes (a datagram item contributes its payload) go through the established encoder as they are
                (old(self).cipher.encoder is Some && r is Ok) ==> ({
                    let e = old(self).cipher.encoder.unwrap();
                    let bytes = match item { OutboundIn::Tcp(b) => b@, OutboundIn::Udp((b, _)) => b@ };
                    final(dst)@ == old(dst)@ + wire_chunks(e.auth.alg(), e.auth.key(), e.auth.n(), e.cap(), bytes) }),
        {
            self.cipher.encode(&self.context, &self.session, item.into(), dst)
        }
    }

//@@ octo-squirrel-server/src/server/shadowsocks.rs:350-374  mod tcp / impl Decoder for PayloadCodec  sha=55359f5fea8781a0
impl<const N: usize> sssrv__PayloadCodec<N> {

        fn decode(&mut self, src: &mut BytesMut, Tracked(vcache): Tracked<&mut SaltCache>) -> (r: Result<Option<InboundIn>>)
            requires old(self).wf(), old(self).session.mode is Server,
            ensures final(self).wf(), final(self).context == old(self).context, final(self).session.mode == old(self).session.mode,
                //#C01 C14
                // the first item of a flow, and only the first, carries the target address -- the one the session has learnt
                r matches Ok(Some(InboundIn::ConnectTcp(_, a))) ==> (old(self).state is Header && final(self).state is Body && final(self).session.address == Some(a)),
                r matches Ok(Some(InboundIn::RelayTcp(_))) ==> old(self).state is Body,
                !(r matches Ok(Some(InboundIn::RelayUdp(_, _)))),
                !(r matches Ok(Some(InboundIn::ConnectTcp(_, _)))) ==> final(self).state == old(self).state,
                //#C01 C04 C05
                // established stream: whatever plaintext the complete chunks at hand hold is delivered by this call, all of it, never dropped
                old(self).cipher.decoder is Some ==> ({ let d = old(self).cipher.decoder.unwrap(); match parse(d.alg(), d.key(), d.abs(), d.n(), old(src)@) {
                    None => r is Err || old(src)@.len() == 0,
                    Some(q) => old(src)@.len() > 0 ==> (final(src)@ == q.rest
                        && deliver_ok(wants_addr(old(self).session), q.out, dl_of_item(r), final(self).session.address, old(self).session.address)),
                }}),
                //#C01 C04 C03
                // original AEAD ciphers, first call: salt, then the same
                (old(self).cipher.decoder is None && !old(self).context.kind.is_2022() && old(src)@.len() > 0) ==>
                    legacy_first(old(self).cipher, *old(self).context, old(src)@, final(self).cipher, final(src)@, dl_of_item(r), wants_addr(old(self).session), final(self).session.address, old(self).session.address),
                //#C04 C10
                r matches Ok(None) ==> final(vcache).salts == old(vcache).salts,
        {
            match self.state {
                sssrv__State::Header => {
                    if let (Some(dst), Some(addr)) = (self.cipher.decode(&self.context, &mut self.session, src, Tracked(vcache))?, self.session.address.as_ref()) {
                        self.state = sssrv__State::Body;
                        Ok(Some(InboundIn::ConnectTcp(dst, addr.clone())))
                    } else {
                        Ok(None)
                    }
                }
                sssrv__State::Body => {
                    if let Some(dst) = self.cipher.decode(&self.context, &mut self.session, src, Tracked(vcache))? {
                        Ok(Some(InboundIn::RelayTcp(dst)))
                    } else {
                        Ok(None)
                    }
                }
            }
        }
    }

//@@ octo-squirrel-client/src/client/shadowsocks.rs:44-48  mod tcp / struct PayloadCodec  sha=be10452486820427
pub struct sscli__PayloadCodec<const N: usize> {
        context: Arc<Context<N>>,
        session: Session<N>,
        cipher: AEADCipherCodec<N>,
    }

//@@ octo-squirrel-client/src/client/shadowsocks.rs:50-55  mod tcp / impl PayloadCodec  sha=1a5bada84bd768b5
impl<const N: usize> sscli__PayloadCodec<N> {
        spec fn wf(&self) -> bool { self.cipher.wf() && self.context.wf() }
        fn new(context: Arc<Context<N>>, mode: Mode, address: Option<Address>) -> (r: Self)
            requires context.wf(),
            ensures r.wf(), r.session.mode == mode,
                //#C14 C01
                r.session.address == address, r.cipher.decoder is None, r.cipher.encoder is None, r.context == context,
        {
            let session = Session::new(mode, Identity::default(), address);
            Self { context, session, cipher: AEADCipherCodec::default() }
        }
    }

//@@ octo-squirrel-client/src/client/shadowsocks.rs:57-63  mod tcp / impl Encoder for PayloadCodec  sha=084270b11ca15a42
impl<const N: usize> sscli__PayloadCodec<N> {

        fn encode(&mut self, item: BytesMut, dst: &mut BytesMut) -> (r: Result<()>)
            requires old(self).wf(), old(self).session.can_encode(),
            ensures final(self).wf(), final(self).session == old(self).session, final(self).context == old(self).context, final(self).cipher.decoder == old(self).cipher.decoder,
                //#C01 C03
                (old(self).cipher.encoder is Some && r is Ok) ==> ({
                    let e = old(self).cipher.encoder.unwrap();
                    final(dst)@ == old(dst)@ + wire_chunks(e.auth.alg(), e.auth.key(), e.auth.n(), e.cap(), item@) }),
        {
            self.cipher.encode(&self.context, &self.session, item, dst)
        }
    }

//@@ octo-squirrel-client/src/client/shadowsocks.rs:65-73  mod tcp / impl Decoder for PayloadCodec  sha=6a2d8f9dab0196ba
impl<const N: usize> sscli__PayloadCodec<N> {

        fn decode(&mut self, src: &mut BytesMut, Tracked(vcache): Tracked<&mut SaltCache>) -> (r: Result<Option<BytesMut>>)
            requires old(self).wf(), old(self).session.mode is Client,
            ensures final(self).wf(), final(self).context == old(self).context, final(self).session.mode == old(self).session.mode,
                //#C01 C04 C05
                // established stream: exactly the plaintext of the complete chunks at hand
                old(self).cipher.decoder is Some ==> ({ let d = old(self).cipher.decoder.unwrap(); match parse(d.alg(), d.key(), d.abs(), d.n(), old(src)@) {
                    None => r is Err || old(src)@.len() == 0,
                    Some(q) => old(src)@.len() > 0 ==> (final(src)@ == q.rest && deliver_ok(false, q.out, dl_of(r), final(self).session.address, old(self).session.address)),
                }}),
        {
            self.cipher.decode(&self.context, &mut self.session, src, Tracked(vcache))
        }
    }
