// ---- part trojan: protocol/trojan.rs, server/trojan.rs, client/trojan.rs, server template messages ----
// trojan-gfw protocol: hex(SHA224(password)) CRLF CMD ATYP DST.ADDR DST.PORT CRLF payload ;  UDP frame: ATYP ADDR PORT Length CRLF payload
/// total length of the UDP frame at the head of `s`, if `s` holds enough bytes to tell
spec fn tj_frame_len(s: Seq<u8>) -> Option<nat> {
    match need5(s, 0) {
        None => None,
        Some(a) => if s.len() < a + 4 { None } else { Some((a + 4 + be_val(s.subrange(a as int, a as int + 2))) as nat) },
    }
}
/// what a sender emits for one datagram
spec fn tj_udp_wire(v: AddrV, payload: Seq<u8>) -> Seq<u8> { enc5(v) + be_bytes(payload.len(), 2) + seq![13u8, 10u8] + payload }
/// the request header in front of the first payload / datagram
spec fn tj_header(key: Seq<u8>, command: u8, v: AddrV) -> Seq<u8> { key + seq![13u8, 10u8] + seq![command] + enc5(v) + seq![13u8, 10u8] }
//#C02 C03 C04
/// what a sender emits for one datagram is read back as exactly that datagram, whatever follows it on the stream,
/// and every proper prefix of it is recognised as incomplete (never as an error)
proof fn lemma_tj_udp_roundtrip(v: AddrV, payload: Seq<u8>, tail: Seq<u8>)
    requires addr_valid(v), payload.len() <= 0xFFFF,
    ensures tj_frame(tj_udp_wire(v, payload) + tail) == Some((v, payload, tj_udp_wire(v, payload).len())),
{
    let w = tj_udp_wire(v, payload);
    let s = w + tail;
    let e = enc5(v);
    let a = e.len() as int;
    lemma_be_bytes_len(payload.len(), 2);
    lemma_pow256_vals();
    lemma_be_roundtrip(payload.len(), 2);
    assert(s =~= e + (be_bytes(payload.len(), 2) + seq![13u8, 10u8] + payload + tail));
    lemma_addr5_roundtrip(v, be_bytes(payload.len(), 2) + seq![13u8, 10u8] + payload + tail);
    assert(s.subrange(a, a + 2) =~= be_bytes(payload.len(), 2));
    assert(s.subrange(a + 4, a + 4 + payload.len()) =~= payload);
}
spec fn tj_frame_incomplete(s: Seq<u8>) -> bool {
    s.len() < 2 || (need5(s, 0) matches Some(a) && (s.len() < a + 4 || s.len() < a + 4 + be_val(s.subrange(a as int, a as int + 2))))
}
/// a complete, well-formed UDP frame at the head of s: (address, payload, bytes consumed)
spec fn tj_frame(s: Seq<u8>) -> Option<(AddrV, Seq<u8>, nat)> {
    match parse5(s) {
        None => None,
        Some((v, a)) => if s.len() < a + 4 { None } else {
            let l = be_val(s.subrange(a as int, a as int + 2));
            if s.len() < a + 4 + l { None } else { Some((v, s.subrange(a as int + 4, a as int + 4 + l as int), (a + 4 + l) as nat)) }
        },
    }
}
//@@ octo-squirrel/src/protocol/trojan.rs:1-1  const CR_LF  sha=f2a5803f82cdf8c3
pub const trojan__CR_LF: [u8; 2] = [b'\r', b'\n'];

//@@ octo-squirrel-server/src/server/template.rs:39-43  mod message / enum InboundIn  sha=900b92278fa20e17
pub enum InboundIn {
        ConnectTcp(BytesMut, Address),
        RelayTcp(BytesMut),
        RelayUdp(BytesMut, Address),
    }

//@@ octo-squirrel-server/src/server/template.rs:71-74  mod message / enum OutboundIn  sha=8f4f430e0a7dd220
pub enum OutboundIn {
        Tcp(BytesMut),
        Udp((BytesMut, SocketAddr)),
    }

//@@ octo-squirrel-server/src/server/trojan.rs:21-25  enum CodecState  sha=52f8677631f80f4f
enum tsrv__CodecState {
    Header,
    Tcp,
    Udp,
}

//@@ octo-squirrel-server/src/server/trojan.rs:34-37  struct ServerCodec  sha=61ce21a1ab78a528
pub struct ServerCodec {
    key: [u8; 28],
    state: tsrv__CodecState,
}

//@@ octo-squirrel-server/src/server/trojan.rs:39-58  impl ServerCodec  sha=cfdf21128a6c52d3
impl ServerCodec {
    fn decode_packet(&mut self, src: &mut BytesMut) -> (r: Result<Option<InboundIn>, anyhow::Error>)
        ensures *final(self) == *old(self),
            //#C04 C07 C02
            match r {
                Ok(None) => final(src)@ == old(src)@ && tj_frame_incomplete(old(src)@),
                Ok(Some(m)) => (tj_frame(old(src)@) matches Some((v, payload, n)) && (m matches InboundIn::RelayUdp(content, addr) && absaddr(addr) == v && canonical(addr) && content@ == payload)
                    && final(src)@ == old(src)@.skip(n as int)),
                Err(_) => !tj_frame_incomplete(old(src)@) && tj_frame(old(src)@) is None,
            },
    {
        let ghost s0 = src@;
        // address | length | CRLF | payload: wait until the whole frame is buffered
        if src.remaining() < 2 {
            return Ok(None);
        }
        let addr_len = address__try_decode_at(src, 0)?;
        proof { assert(need5(s0, 0) == Some(addr_len as nat)); }
        if src.remaining() < addr_len + 2 + trojan__CR_LF.len() {
            return Ok(None);
        }
        let len = u16::v_from_be_bytes([src[addr_len], src[addr_len + 1]]) as usize;
        proof {
            let a = addr_len as int;
            assert(seq![s0[a], s0[a + 1]] =~= s0.subrange(a, a + 2));
            lemma_be_val_2(s0.subrange(a, a + 2));
            assert(len == be_val(s0.subrange(a, a + 2)));
        }
        if src.remaining() < addr_len + 2 + trojan__CR_LF.len() + len {
            return Ok(None);
        }
        proof { if parse5(s0) is Some { lemma_parse5_exact(s0); } }
        let peer_addr = address__decode(src)?;
        proof { let a = addr_len as int; assert(src@ =~= s0.skip(a)); assert(src@.take(2) =~= s0.subrange(a, a + 2)); }
        let len = src.get_u16();
        src.advance(trojan__CR_LF.len());
        proof { let a = addr_len as int; assert(src@ =~= s0.skip(a + 4)); assert(src@.take(len as int) =~= s0.subrange(a + 4, a + 4 + len)); assert(src@.skip(len as int) =~= s0.skip(a + 4 + len)); }
        Ok(Some(InboundIn::RelayUdp(src.split_to(len as usize), peer_addr)))
    }
}

//@@ octo-squirrel-server/src/server/trojan.rs:60-110  impl Decoder for ServerCodec  sha=e5771ace6120efe9
impl ServerCodec {

    fn decode(&mut self, src: &mut BytesMut) -> (r: Result<Option<InboundIn>, anyhow::Error>)
        ensures final(self).key == old(self).key,
            //#C06
            // a connect / relay item leaves the Header state only with the hex SHA-224 of the configured password in front
            (old(self).state is Header && ((r matches Ok(Some(_))) || !(final(self).state is Header))) ==> (old(src)@.len() >= 61 && old(src)@[56] == 13
                && unhex(old(src)@.take(56)) == Some(old(self).key@)),
            //#C04 C07
            // nothing is consumed while a header is incomplete; in the relay states None means "no complete unit buffered"
            (old(self).state is Header && (r matches Ok(None)) && final(self).state is Header) ==> (final(src)@ == old(src)@
                && (old(src)@.len() < 61 || (need5(old(src)@, 59) matches Some(a) && old(src)@.len() < 59 + a + 2))),
            (old(self).state is Tcp) ==> (final(self).state is Tcp && (match r { Ok(Some(m)) => m matches InboundIn::RelayTcp(b) && b@ == old(src)@ && b@.len() > 0 && final(src)@.len() == 0,
                Ok(None) => old(src)@.len() == 0, Err(_) => false })),
            (old(self).state is Udp && (r matches Ok(None))) ==> (final(src)@ == old(src)@ && (old(src)@.len() == 0 || tj_frame_incomplete(old(src)@))),
    {
        if !src.has_remaining() {
            return Ok(None);
        }
        match self.state {
            tsrv__CodecState::Header => {
                if src.remaining() < 61 || src.remaining() < 59 + address__try_decode_at(src, 59)? + trojan__CR_LF.len() {
                    return Ok(None);
                }
                if src[56] != b'\r' || !src[..56].is_ascii() {
                    return Err(verif_err());
                }
                let key = src.split_to(56);
                proof { assert(key@ =~= old(src)@.take(56)); assert(key@ =~= old(src)@.subrange(0, 56)); assert(is_ascii_seq(key@)); }
                let key = hex__decode(unsafe { str::from_utf8_unchecked(&key) })?;
                proof { assert(unhex(old(src)@.take(56)) == Some(key@)); assert(key@.len() == 28); assert(key@.subrange(0, 28) =~= key@); }
                if self.key != key[..self.key.len()] {
                    return Err(verif_err())
                }
                src.advance(trojan__CR_LF.len());
                let command = Socks5CommandType::new(src.get_u8())?;
                let address = address__decode(src)?;
                src.advance(trojan__CR_LF.len());
                match command {
                    Socks5CommandType::Connect => {
                        self.state = tsrv__CodecState::Tcp;
                        let remaining = src.remaining();
                        Ok(Some(InboundIn::ConnectTcp(src.split_to(remaining), address)))
                    }
                    Socks5CommandType::UdpAssociate => {
                        self.state = tsrv__CodecState::Udp;
                        self.decode_packet(src)
                    }
                    _ => return Err(verif_err()),
                }
            }
            tsrv__CodecState::Tcp => {
                if src.is_empty() {
                    Ok(None)
                } else {
                    let len = src.len();
                    Ok(Some(InboundIn::RelayTcp(src.split_to(len))))
                }
            }
            tsrv__CodecState::Udp => self.decode_packet(src),
        }
    }
}

//@@ octo-squirrel-server/src/server/trojan.rs:112-130  impl Encoder for ServerCodec  sha=527bce550b7dfbfa
impl ServerCodec {

    fn encode(&mut self, item: OutboundIn, dst: &mut BytesMut) -> (r: Result<(), anyhow::Error>)
        requires item matches OutboundIn::Udp((content, addr)) ==> content@.len() <= 0xFFFF,
        ensures *final(self) == *old(self), r is Ok,
            //#C01 C02 C03
            match item {
                OutboundIn::Tcp(b) => final(dst)@ == old(dst)@ + b@,
                OutboundIn::Udp((content, addr)) => final(dst)@ == old(dst)@ + tj_udp_wire(absaddr(Address::Socket(addr)), content@),
            },
    {
        match item {
            OutboundIn::Tcp(item) => {
                dst.extend_from_slice(&item);
                Ok(())
            }
            OutboundIn::Udp((content, addr)) => {
                address__encode(&addr.into(), dst);
                dst.put_u16(content.len() as u16);
                dst.extend_from_slice(&trojan__CR_LF);
                dst.extend_from_slice(&content);
                proof { assert(trojan__CR_LF@ =~= seq![13u8, 10u8]); assert(dst@ =~= old(dst)@ + tj_udp_wire(absaddr(Address::Socket(addr)), content@)); }
                Ok(())
            }
        }
    }
}

//@@ octo-squirrel-client/src/client/trojan.rs:1-4  enum CodecState  sha=b38d7a0909ffd338
enum tcli__CodecState {
    Header,
    Body,
}

//@@ octo-squirrel-client/src/client/trojan.rs:25-30  mod tcp / struct ClientCodec  sha=b1cc0c200a7a04e0
pub struct ttcp__ClientCodec {
        key: [u8; 56],
        command: u8,
        address: Address,
        status: tcli__CodecState,
    }

//@@ octo-squirrel-client/src/client/trojan.rs:43-58  mod tcp / impl Encoder for ClientCodec  sha=d9c731f67d8aa081
impl ttcp__ClientCodec {

        fn encode(&mut self, item: BytesMut, dst: &mut BytesMut) -> (r: Result<(), anyhow::Error>)
            requires repr(old(self).address),
            ensures r is Ok, final(self).status is Body, final(self).key == old(self).key, final(self).address == old(self).address, final(self).command == old(self).command,
                //#C01 C03 C14
                final(dst)@ == old(dst)@ + (if old(self).status is Header { tj_header(old(self).key@, old(self).command, absaddr(old(self).address)) } else { Seq::<u8>::empty() }) + item@,
        {
            if matches!(self.status, tcli__CodecState::Header) {
                dst.extend_from_slice(&self.key);
                dst.extend_from_slice(&trojan__CR_LF);
                dst.put_u8(self.command);
                address__encode(&self.address, dst);
                dst.extend_from_slice(&trojan__CR_LF);
                self.status = tcli__CodecState::Body;
                proof { assert(trojan__CR_LF@ =~= seq![13u8, 10u8]); assert(dst@ =~= old(dst)@ + tj_header(old(self).key@, old(self).command, absaddr(old(self).address))); }
            }
            dst.extend_from_slice(&item);
            proof { assert(old(dst)@ + Seq::<u8>::empty() =~= old(dst)@); }
            Ok(())
        }
    }

//@@ octo-squirrel-client/src/client/trojan.rs:60-73  mod tcp / impl Decoder for ClientCodec  sha=553984c2c188731e
impl ttcp__ClientCodec {

        fn decode(&mut self, src: &mut BytesMut) -> (r: Result<Option<BytesMut>, anyhow::Error>)
            ensures
                //#C01 C04 C07
                match r { Ok(Some(b)) => b@ == old(src)@ && b@.len() > 0 && final(src)@.len() == 0, Ok(None) => old(src)@.len() == 0, Err(_) => false },
        {
            if !src.is_empty() {
                let len = src.len();
                Ok(Some(src.split_to(len)))
            } else {
                Ok(None)
            }
        }
    }

//@@ octo-squirrel-client/src/client/trojan.rs:105-107  mod udp / fn new_key  sha=b4c4ac410dcf9fd1
fn tudp__new_key(sender: SocketAddr, verif_arg2: &Address) -> (r: SocketAddr)
    ensures
        //#C02
        r == sender,
{
        sender
    }

//@@ octo-squirrel-client/src/client/trojan.rs:131-134  mod udp / fn to_outbound_send  sha=9001b14d01abfe2d
fn tudp__to_outbound_send(item: DatagramPacket, verif_arg2: SocketAddr) -> (r: DatagramPacket)
    ensures
        //#C02
        r == item,
{
        let (content, target) = item;
        (content, target)
    }

//@@ octo-squirrel-client/src/client/trojan.rs:136-138  mod udp / fn to_inbound_recv  sha=692379f1eb5303e0
fn tudp__to_inbound_recv(item: DatagramPacket, verif_arg2: &Address, sender: SocketAddr) -> (r: (DatagramPacket, SocketAddr))
    ensures
        //#C02
        r.0 == item && r.1 == sender,
{
        (item, sender)
    }

//@@ octo-squirrel-client/src/client/trojan.rs:140-145  mod udp / struct ClientCodec  sha=b1cc0c200a7a04e0
pub struct tudp__ClientCodec {
        key: [u8; 56],
        command: u8,
        address: Address,
        status: tcli__CodecState,
    }

//@@ octo-squirrel-client/src/client/trojan.rs:158-178  mod udp / impl Encoder for ClientCodec  sha=36529651bfce168d
impl tudp__ClientCodec {

        fn encode(&mut self, item: DatagramPacket, dst: &mut BytesMut) -> (r: Result<(), anyhow::Error>)
            requires repr(old(self).address), repr(item.1), item.0@.len() <= 0xFFFF,
            ensures r is Ok, final(self).status is Body, final(self).key == old(self).key, final(self).address == old(self).address, final(self).command == old(self).command,
                //#C02 C03 C14
                final(dst)@ == old(dst)@ + (if old(self).status is Header { tj_header(old(self).key@, old(self).command, absaddr(old(self).address)) } else { Seq::<u8>::empty() })
                    + tj_udp_wire(absaddr(item.1), item.0@),
        {
            if matches!(self.status, tcli__CodecState::Header) {
                dst.extend_from_slice(&self.key);
                dst.extend_from_slice(&trojan__CR_LF);
                dst.put_u8(self.command);
                address__encode(&self.address, dst);
                dst.extend_from_slice(&trojan__CR_LF);
                self.status = tcli__CodecState::Body;
                proof { assert(trojan__CR_LF@ =~= seq![13u8, 10u8]); assert(dst@ =~= old(dst)@ + tj_header(old(self).key@, old(self).command, absaddr(old(self).address))); }
            }
            proof { assert(old(dst)@ + Seq::<u8>::empty() =~= old(dst)@); }
            let buffer = &mut BytesMut::new();
            address__encode(&item.1, buffer);
            buffer.put_u16(item.0.len() as u16);
            buffer.extend_from_slice(&trojan__CR_LF);
            buffer.extend_from_slice(&item.0);
            proof { assert(trojan__CR_LF@ =~= seq![13u8, 10u8]); assert(buffer@ =~= tj_udp_wire(absaddr(item.1), item.0@)); }
            dst.extend_from_slice(buffer);
            Ok(())
        }
    }

//@@ octo-squirrel-client/src/client/trojan.rs:180-208  mod udp / impl Decoder for ClientCodec  sha=7976b3a2cbb88874
impl tudp__ClientCodec {

        fn decode(&mut self, src: &mut BytesMut) -> (r: Result<Option<DatagramPacket>, anyhow::Error>)
            ensures *final(self) == *old(self),
                //#C04 C07 C02
                match r {
                    Ok(None) => final(src)@ == old(src)@ && (old(src)@.len() == 0 || tj_frame_incomplete(old(src)@)),
                    Ok(Some(m)) => (tj_frame(old(src)@) matches Some((v, payload, n)) && absaddr(m.1) == v && canonical(m.1) && m.0@ == payload && final(src)@ == old(src)@.skip(n as int)),
                    Err(_) => old(src)@.len() > 0 && !tj_frame_incomplete(old(src)@) && tj_frame(old(src)@) is None,
                },
        {
            let ghost s0 = src@;
            if !src.is_empty() {
                // address | length | CRLF | payload: wait until the whole frame is buffered
                if src.remaining() < 2 {
                    return Ok(None);
                }
                let addr_len = address__try_decode_at(src, 0)?;
                proof { assert(need5(s0, 0) == Some(addr_len as nat)); }
                if src.remaining() < addr_len + 2 + trojan__CR_LF.len() {
                    return Ok(None);
                }
                let len = u16::v_from_be_bytes([src[addr_len], src[addr_len + 1]]) as usize;
                proof {
                    let a = addr_len as int;
                    assert(seq![s0[a], s0[a + 1]] =~= s0.subrange(a, a + 2));
                    lemma_be_val_2(s0.subrange(a, a + 2));
                    assert(len == be_val(s0.subrange(a, a + 2)));
                }
                if src.remaining() < addr_len + 2 + trojan__CR_LF.len() + len {
                    return Ok(None);
                }
                proof { if parse5(s0) is Some { lemma_parse5_exact(s0); } }
                let addr = address__decode(src)?;
                proof { let a = addr_len as int; assert(src@ =~= s0.skip(a)); assert(src@.take(2) =~= s0.subrange(a, a + 2)); }
                let len = src.get_u16();
                src.advance(trojan__CR_LF.len());
                proof { let a = addr_len as int; assert(src@ =~= s0.skip(a + 4)); assert(src@.take(len as int) =~= s0.subrange(a + 4, a + 4 + len)); assert(src@.skip(len as int) =~= s0.skip(a + 4 + len)); }
                let content = src.split_to(len as usize);
                Ok(Some((content, addr)))
            } else {
                Ok(None)
            }
        }
    }
