// ---- part vaddr: protocol/vmess/header.rs enums, protocol/vmess.rs address module ----
//@@ octo-squirrel/src/protocol/vmess/header.rs:6-11  enum AddressType  sha=722a87f6fd982440
#[derive(PartialEq, Eq, Clone, Copy)]
pub enum vh__AddressType {
    Ipv4 = 1,
    Domain = 2,
    Ipv6 = 3,
}

//@@ octo-squirrel/src/protocol/vmess/header.rs:13-25  impl AddressType  sha=24cd79f72a235c7a
impl vh__AddressType {
    fn new(byte: u8) -> (r: Self)
        requires
            //#C07
            byte == 1 || byte == 2 || byte == 3,
        ensures (byte == 1 && r is Ipv4) || (byte == 2 && r is Domain) || (byte == 3 && r is Ipv6),
    {
        if Self::Ipv4 as u8 == byte {
            Self::Ipv4
        } else if Self::Domain as u8 == byte {
            Self::Domain
        } else if Self::Ipv6 as u8 == byte {
            Self::Ipv6
        } else {
            verif_panic();
        }
    }
}

//@@ octo-squirrel/src/protocol/vmess/header.rs:27-31  enum RequestCommand  sha=8eb4ed432bc18059
#[derive(PartialEq, Eq, Clone, Copy)]
pub enum RequestCommand {
    TCP = 1,
    UDP = 2,
}

//@@ octo-squirrel/src/protocol/vmess/header.rs:33-40  enum RequestOption  sha=252362d31711aabc
#[derive(PartialEq, Eq, Clone, Copy)]
pub enum RequestOption {
    ChunkStream = 1,
    ConnectionReuse = 2,
    ChunkMasking = 4,
    GlobalPadding = 8,
    AuthenticatedLength = 16,
}

//@@ octo-squirrel/src/protocol/vmess/header.rs:56-66  enum SecurityType  sha=f16325278c3e5a09
#[derive(PartialEq, Eq, Clone, Copy)]

pub enum SecurityType {
    Unknown,
    Legacy,
    Auto,
    Aes128Gcm,
    Chacha20Poly1305,
    None,
    Zero,
}

//@@ octo-squirrel/src/protocol/vmess/header.rs:77-89  impl From for SecurityType#1  sha=ef9a614a03185299
impl vstd::std_specs::convert::FromSpecImpl<u8> for SecurityType {
    open spec fn obeys_from_spec() -> bool { false }
    open spec fn from_spec(v: u8) -> Self { arbitrary() }
}
/// V2Fly VMess: security codes 1 legacy, 2 auto, 3 aes-128-gcm, 4 chacha20-poly1305, 5 none, 6 zero
pub open spec fn sec_of_code(v: u8) -> SecurityType {
    if v == 1 { SecurityType::Legacy } else if v == 2 { SecurityType::Auto } else if v == 3 { SecurityType::Aes128Gcm } else if v == 4 { SecurityType::Chacha20Poly1305 }
    else if v == 5 { SecurityType::None } else if v == 6 { SecurityType::Zero } else { SecurityType::Unknown }
}
impl From<u8> for SecurityType {
    fn from(value: u8) -> (r: Self)
        ensures
            //#C03 C16
            r == sec_of_code(value),
    {
        match value {
            1 => Self::Legacy,
            2 => Self::Auto,
            3 => Self::Aes128Gcm,
            4 => Self::Chacha20Poly1305,
            5 => Self::None,
            6 => Self::Zero,
            _ => Self::Unknown,
        }
    }
}

//@@ octo-squirrel/src/protocol/vmess.rs:44-70  mod address / fn write_address_port  sha=05ade03317f8f0ad
/// representable in the VMess encoding: a name of 1..=255 bytes (C14: anything else must be refused before anything is sent)
spec fn repr_v(a: Address) -> bool { a matches Address::Domain(h, _) ==> 1 <= sbytes(h).len() <= 255 }
fn vaddress__write_address_port(address: &Address, buf: &mut BytesMut) -> (r: Result<(), io::Error>)
    ensures
        //#C14 C03
        match r {
            Ok(_) => repr_v(*address) && final(buf)@ == old(buf)@ + encv(absaddr(*address)),
            Err(_) => !repr_v(*address) && final(buf)@ == old(buf)@,
        },
{
        match address {
            Address::Domain(host, port) => {
                if host.is_empty() || host.len() > u8::MAX as usize {
                    return Err(io::Error::new(io::ErrorKind::InvalidInput, "destination address is empty or longer than 255 bytes"));
                }
                buf.put_u16(*port);
                let bytes = host.as_bytes();
                buf.put_u8(vh__AddressType::Domain as u8);
                buf.put_u8(bytes.len() as u8);
                buf.extend_from_slice(bytes);
                proof { assert(buf@ =~= old(buf)@ + encv(absaddr(*address))); }
            }
            Address::Socket(addr) => match addr {
                SocketAddr::V4(v4) => {
                    buf.put_u16(v4.port());
                    buf.put_u8(vh__AddressType::Ipv4 as u8);
                    buf.extend_from_slice(&v4.ip().octets());
                    proof { assert(buf@ =~= old(buf)@ + encv(absaddr(*address))); }
                }
                SocketAddr::V6(v6) => {
                    buf.put_u16(v6.port());
                    buf.put_u8(vh__AddressType::Ipv6 as u8);
                    buf.extend_from_slice(&v6.ip().octets());
                    proof { assert(buf@ =~= old(buf)@ + encv(absaddr(*address))); }
                }
            },
        }
        Ok(())
    }

//@@ octo-squirrel/src/protocol/vmess.rs:72-106  mod address / fn read_address_port  sha=80df2565bbebc6dc
fn vaddress__read_address_port(buf: &mut Bytes) -> (r: anyhow::Result<Address>)
    ensures
        //#C14 C07 C03
        match parsev(old(buf)@) {
            Some((v, n)) => r matches Ok(a) && absaddr(a) == v && canonical(a) && final(buf)@ == old(buf)@.skip(n as int),
            None => r is Err,
        },
{
    let ghost s0 = buf@;
    proof { lemma_pow256_vals(); if s0.len() >= 2 { lemma_be_val_bound(s0.subrange(0, 2)); assert(s0.take(2) =~= s0.subrange(0, 2)); } }
        if buf.remaining() < 3 {
            return Err(verif_err());
        }
        let port = buf.get_u16();
        let addr_type = buf.get_u8();
        if addr_type != vh__AddressType::Ipv4 as u8 && addr_type != vh__AddressType::Domain as u8 && addr_type != vh__AddressType::Ipv6 as u8 {
            return Err(verif_err());
        }
        let addr_type = vh__AddressType::new(addr_type);
        match addr_type {
            vh__AddressType::Ipv4 => {
                if buf.remaining() < 4 {
                    return Err(verif_err());
                }
                proof { assert(s0.skip(2).skip(1).take(4) =~= s0.subrange(3, 7)); assert(s0.skip(2).skip(1).skip(4) =~= s0.skip(7)); lemma_be_val_bound(s0.subrange(3, 7)); lemma_be_roundtrip2(s0.subrange(3, 7)); }
                Ok(Address::from(SocketAddr::V4(SocketAddrV4::new(Ipv4Addr::from(buf.get_u32()), port))))
            }
            vh__AddressType::Domain => {
                if !buf.has_remaining() {
                    return Err(verif_err());
                }
                let length = buf.get_u8() as usize;
                if buf.remaining() < length {
                    return Err(verif_err());
                }
                proof { let l = length as int; assert(s0.skip(2).skip(1).skip(1).take(l) =~= s0.subrange(4, 4 + l)); assert(s0.skip(2).skip(1).skip(1).skip(l) =~= s0.skip(4 + l)); }
                Ok(Address::Domain(String::from_utf8(buf.copy_to_bytes(length).to_vec())?, port))
            }
            vh__AddressType::Ipv6 => {
                if buf.remaining() < 16 {
                    return Err(verif_err());
                }
                proof { assert(s0.skip(2).skip(1).take(16) =~= s0.subrange(3, 19)); assert(s0.skip(2).skip(1).skip(16) =~= s0.skip(19)); lemma_be_val_bound(s0.subrange(3, 19)); lemma_be_roundtrip2(s0.subrange(3, 19)); }
                Ok(Address::from(SocketAddr::V6(SocketAddrV6::new(Ipv6Addr::from(buf.get_u128()), port, 0, 0))))
            }
        }
    }
