// ---- part ssudp: codec/shadowsocks/udp.rs (dispatch, legacy datagrams, sessions), client/shadowsocks.rs udp module ----
/// udp.rs 2022 datagram paths: unsafe code (advance_mut, raw-pointer u64 reads, split_at_mut, static cipher cache): NOT verified.
/// ASSUMED only: the outcome is a function of the arguments (and of the clock, constant during a call)
uninterp spec fn ext_udp2022_err<const N: usize>(kind: CipherKind, context: udp__Context<N>, s: Seq<u8>) -> bool;
impl<const N: usize> udp__AEADCipherCodec<N> {
    #[verifier::external_body]
    fn encode_client_packet_aead_2022(&self, context: &udp__Context<N>, session: &udp__Session<N>, address: &Address, item: BytesMut, dst: &mut BytesMut) -> (r: anyhow::Result<()>)
    { unimplemented!() }
    #[verifier::external_body]
    fn encode_server_packet_aead_2022(&self, context: &udp__Context<N>, session: &udp__Session<N>, address: &Address, item: BytesMut, dst: &mut BytesMut) -> (r: anyhow::Result<()>)
    { unimplemented!() }
    #[verifier::external_body]
    fn decode_server_packet_aead_2022(&self, context: &udp__Context<N>, src: &mut BytesMut) -> (r: Result<udp__SessionPacket<N>, anyhow::Error>)
        ensures r is Err == ext_udp2022_err(self.kind, *context, old(src)@)
    { unimplemented!() }
    #[verifier::external_body]
    fn decode_client_packet_aead_2022(&self, context: &udp__Context<N>, src: &mut BytesMut) -> (r: Result<udp__SessionPacket<N>, anyhow::Error>)
        ensures r is Err == ext_udp2022_err(self.kind, *context, old(src)@)
    { unimplemented!() }
}
impl<const N: usize> Clone for udp__Session<N> {
    #[verifier::external_body]
    fn clone(&self) -> (r: Self) ensures r == *self { unimplemented!() }
}
impl<const N: usize> udp__Session<N> {
    /// derived Default: all ids zero, no user
    #[verifier::external_body]
    fn default() -> (r: Self) ensures r.client_session_id == 0, r.server_session_id == 0, r.packet_id == 0, r.user is None { unimplemented!() }
    /// udp.rs From<Mode> for Session (rand::random): a fresh random id for this side, packet id 0
    #[verifier::external_body]
    fn from(value: Mode) -> (r: Self) ensures r.packet_id == 0, r.user is None { unimplemented!() }
}
/// when a legacy (salt || sealed(address || payload)) datagram is undecodable
spec fn legacy_udp_err(kind: CipherKind, key: Seq<u8>, s: Seq<u8>) -> bool {
    s.len() < key.len() || (match aead_open(alg_of(kind), legacy_subkey(kind, key, s.take(key.len() as int)), Seq::new(12, |i: int| 0u8), Seq::empty(), s.skip(key.len() as int)) {
        None => true,
        Some(p) => parse5(p) is None,
    })
}
spec fn udp_err<const N: usize>(c: udp__AEADCipherCodec<N>, ctx: udp__Context<N>, s: Seq<u8>) -> bool {
    if c.kind.is_2022() { ext_udp2022_err(c.kind, ctx, s) } else { legacy_udp_err(c.kind, ctx.key@, s) }
}

//@@ octo-squirrel/src/codec/shadowsocks/udp.rs:34-36  struct AEADCipherCodec  sha=f8e930065e2a4dbb
pub struct udp__AEADCipherCodec<const N: usize> {
    kind: CipherKind,
}

//@@ octo-squirrel/src/codec/shadowsocks/udp.rs:38-341  impl AEADCipherCodec {fn new,fn encode,fn new_encoder,fn decode,fn new_decoder}  sha=4e57777643e1db06
impl<const N: usize> udp__AEADCipherCodec<N> {
    spec fn wf(&self, context: &udp__Context<N>) -> bool { !(self.kind is Unknown) && N == key_len_of(self.kind) && context.key@.len() == N }
    fn new(kind: CipherKind) -> (r: Self)
        ensures r.kind == kind,
    {
        Self { kind }
    }

    fn encode(&self, context: &udp__Context<N>, session: &udp__Session<N>, address: &Address, item: BytesMut, dst: &mut BytesMut) -> (r: anyhow::Result<()>)
        requires self.wf(context), repr(*address),
        ensures
            //#C02 C03 C14
            // legacy datagram: salt || seal(subkey(salt), nonce 0, address || payload): the whole payload or an error
            (!self.kind.is_2022() && r is Ok) ==> ({
                let n0 = old(dst)@.len() as int;
                let salt = final(dst)@.subrange(n0, n0 + N);
                final(dst)@.len() >= n0 + N && final(dst)@ == old(dst)@ + salt + aead_seal(alg_of(self.kind), legacy_subkey(self.kind, context.key@, salt), Seq::new(12, |i: int| 0u8), Seq::empty(),
                    enc5(absaddr(*address)) + item@) }),
    {
        match (self.kind.is_aead_2022(), context.stream_type) {
            (true, Mode::Client) => self.encode_client_packet_aead_2022(context, session, address, item, dst),
            (true, Mode::Server) => self.encode_server_packet_aead_2022(context, session, address, item, dst),
            (false, _) => {
                let salt = &mut [0; N];
                dice::fill_bytes(salt);
                dst.extend_from_slice(&salt[..]);
                let mut temp = BytesMut::with_capacity(address__length(address) + item.remaining());
                address__encode(address, &mut temp);
                temp.extend_from_slice(&item);
                let mut encoder = self.new_encoder(context.key, salt)?;
                proof { lemma_init_first(encoder.auth.n()); let n0 = old(dst)@.len() as int; assert(dst@.subrange(n0, n0 + N) =~= salt@); assert(salt@.subrange(0, N as int) =~= salt@); }
                let ghost d1 = dst@;
                let ghost sealed = aead_seal(encoder.auth.alg(), encoder.auth.key(), Seq::new(12, |i: int| 0u8), Seq::empty(), temp@);
                proof { let n0 = old(dst)@.len() as int; assert((d1 + sealed).subrange(n0, n0 + N) =~= salt@); }
                encoder.encode_packet(temp, dst).map_err(|e| verif_err())
            }
        }
    }

    fn new_encoder(&self, key: &[u8], salt: &[u8]) -> (r: anyhow::Result<ChunkEncoder>)
        requires !(self.kind is Unknown), salt@.len() >= key_len_of(self.kind),
        ensures r matches Ok(e) ==> e.wf() && e.auth.alg() == alg_of(self.kind) && is_init(e.auth.n()) && e.auth.key() == legacy_subkey(self.kind, key@, salt@),
    {
        ssaead__new_encoder(self.kind, key, salt).map_err(|e| verif_err())
    }

    fn decode(&self, context: &udp__Context<N>, src: &mut BytesMut) -> (r: anyhow::Result<udp__SessionPacket<N>>)
        requires self.wf(context),
        ensures
            //#C11 C07
            r is Err == udp_err(*self, *context, old(src)@),
            //#C02 C05 C06 C03
            // legacy datagram: delivered only if the whole body opens under the sub-key of the received salt; address and payload are exactly the decrypted bytes
            (!self.kind.is_2022() && r is Ok) ==> ({
                let k = context.key@.len() as int;
                old(src)@.len() >= k && (aead_open(alg_of(self.kind), legacy_subkey(self.kind, context.key@, old(src)@.take(k)), Seq::new(12, |i: int| 0u8), Seq::empty(), old(src)@.skip(k)) matches Some(p)
                    && (parse5(p) matches Some((v, n)) && absaddr(r->Ok_0.1) == v && canonical(r->Ok_0.1) && r->Ok_0.0@ == p.skip(n as int))) }),
    {
        match (self.kind.is_aead_2022(), context.stream_type) {
            (true, Mode::Client) => self.decode_server_packet_aead_2022(context, src),
            (true, Mode::Server) => self.decode_client_packet_aead_2022(context, src),
            (false, _) => {
                if src.remaining() < context.key.len() {
                    return Err(verif_err());
                }
                let salt = src.split_to(context.key.len());
                let mut decoder = self.new_decoder(context.key, &salt).map_err(verif_err_from)?;
                proof { lemma_init_first(decoder.n()); }
                let mut packet = decoder.decode_packet(src).map_err(|e| verif_err())?;
                let address = address__decode(&mut packet)?;
                Ok((packet, address, udp__Session::default()))
            }
        }
    }

    fn new_decoder(&self, key: &[u8], salt: &BytesMut) -> (r: anyhow::Result<ChunkDecoder>)
        requires !(self.kind is Unknown), salt@.len() >= key_len_of(self.kind),
        ensures salt@.len() <= 5100 ==> r is Ok,
            r matches Ok(d) ==> d.wf() && d.alg() == alg_of(self.kind) && is_init(d.n()) && d.key() == legacy_subkey(self.kind, key@, salt@),
    {
        ssaead__new_decoder(self.kind, key, salt).map_err(|e| verif_err())
    }
}

//@@ octo-squirrel/src/codec/shadowsocks/udp.rs:343-343  type SessionPacket  sha=2a9212c2fdd9b1f5
pub type udp__SessionPacket<const N: usize> = (BytesMut, Address, udp__Session<N>);

//@@ octo-squirrel/src/codec/shadowsocks/udp.rs:345-348  struct SessionCodec  sha=3689553d9c2c80f8
pub struct udp__SessionCodec<'a, const N: usize> {
    context: udp__Context<'a, N>,
    cipher: udp__AEADCipherCodec<N>,
}

//@@ octo-squirrel/src/codec/shadowsocks/udp.rs:350-369  impl SessionCodec  sha=dfceca2ce4f76fd4
impl<'a, const N: usize> udp__SessionCodec<'a, N> {
    spec fn wf(&self) -> bool { self.cipher.wf(&self.context) }
    fn new(context: udp__Context<'a, N>, cipher: udp__AEADCipherCodec<N>) -> (r: udp__SessionCodec<'a, N>)
        ensures r.context == context, r.cipher == cipher,
    {
        udp__SessionCodec { context, cipher }
    }

    fn encode(&self, verif_arg2: udp__SessionPacket<N>, dst: &mut BytesMut) -> (r: anyhow::Result<()>)
        requires self.wf(), repr(verif_arg2.1),
    { let (content, address, session) = verif_arg2;
        self.cipher.encode(&self.context, &session, &address, content, dst)
    }

    fn decode(&self, src: &mut BytesMut) -> (r: anyhow::Result<Option<udp__SessionPacket<N>>>)
        requires self.wf(),
        ensures
            //#C11 C07 C02
            // a datagram is consumed whole; an error is exactly an undecodable datagram
            r is Err == (old(src)@.len() > 0 && udp_err(self.cipher, self.context, old(src)@)),
            r matches Ok(None) ==> old(src)@.len() == 0,
            final(src)@.len() == 0,
    {
        let ghost s0 = src@;
        if src.is_empty() {
            Ok(None)
        } else {
            let len = src.len();
            let mut src = src.split_to(len);
            proof { assert(src@ =~= s0); }
            let (content, address, session) = self.cipher.decode(&self.context, &mut src)?;
            Ok(Some((content, address, session)))
        }
    }
}

//@@ octo-squirrel/src/codec/shadowsocks/udp.rs:371-377  struct Context  sha=1530ebc6b918883e
pub struct udp__Context<'a, const N: usize> {
    stream_type: Mode,
    user_manager: Option<Arc<ServerUserManager<N>>>,
    key: &'a [u8],
    identity_keys: &'a [[u8; N]],
}

//@@ octo-squirrel/src/codec/shadowsocks/udp.rs:379-388  impl Context  sha=8c24f917f48b55c1
impl<const N: usize> udp__Context<'_, N> {
    fn new<'a>(
        stream_type: Mode,
        user_manager: Option<Arc<ServerUserManager<N>>>,
        key: &'a [u8],
        identity_keys: &'a [[u8; N]],
    ) -> (r: udp__Context<'a, N>)
        ensures r.stream_type == stream_type, r.user_manager == user_manager, r.key@ == key@, r.identity_keys@ == identity_keys@,
    {
        udp__Context { stream_type, user_manager, key, identity_keys }
    }
}

//@@ octo-squirrel/src/codec/shadowsocks/udp.rs:390-396  struct Session  sha=f14d3bc94bb4d5cf
pub struct udp__Session<const N: usize> {
    pub client_session_id: u64,
    pub server_session_id: u64,
    pub packet_id: u64,
    pub user: Option<Arc<ServerUser<N>>>,
}

//@@ octo-squirrel/src/codec/shadowsocks/udp.rs:398-406  impl Session  sha=79c481f875a751f4
impl<const N: usize> udp__Session<N> {
    fn new(client_session_id: u64, server_session_id: u64, packet_id: u64, user: Option<Arc<ServerUser<N>>>) -> (r: Self)
        ensures r.client_session_id == client_session_id, r.server_session_id == server_session_id, r.packet_id == packet_id, r.user == user,
    {
        Self { client_session_id, server_session_id, packet_id, user }
    }

    fn increase_packet_id(&mut self)
        ensures
            //#C12
            // packet ids only ever advance: the id is part of the AEAD nonce, so it must never repeat within a session
            final(self).packet_id == old(self).packet_id + 1,
            final(self).client_session_id == old(self).client_session_id, final(self).server_session_id == old(self).server_session_id, final(self).user == old(self).user,
    {
        self.packet_id = self.packet_id.wrapping_add(1);
    }
}

//@@ octo-squirrel-client/src/client/shadowsocks.rs:133-135  mod udp / fn new_key  sha=bd601572270d91f5
fn new_key(from: SocketAddr, verif_arg2: &Address) -> (r: SocketAddr)
    ensures
        //#C02
        r == from,
{
        from
    }

//@@ octo-squirrel-client/src/client/shadowsocks.rs:137-140  mod udp / fn to_outbound_send  sha=31db5f18cb2ff9f4
fn to_outbound_send(item: DatagramPacket, proxy: SocketAddr) -> (r: (DatagramPacket, SocketAddr))
    ensures
        //#C02
        r.0 == item && r.1 == proxy,
{
        let (content, target) = item;
        ((content, target), proxy)
    }

//@@ octo-squirrel-client/src/client/shadowsocks.rs:142-145  mod udp / fn to_inbound_recv  sha=fc7358620b7919dc
fn to_inbound_recv(item: (DatagramPacket, SocketAddr), verif_arg2: &Address, sender: SocketAddr) -> (r: (DatagramPacket, SocketAddr))
    ensures
        //#C02
        r.0 == item.0 && r.1 == sender,
{
        let (item, _) = item;
        (item, sender)
    }

//@@ octo-squirrel-client/src/client/shadowsocks.rs:147-151  mod udp / struct DatagramPacketCodec  sha=a064ded263e50c89
pub struct DatagramPacketCodec<'a, const N: usize> {
        codec: udp__SessionCodec<'a, N>,
        session: udp__Session<N>,
        filter: PacketWindowFilter,
    }

//@@ octo-squirrel-client/src/client/shadowsocks.rs:153-157  mod udp / impl DatagramPacketCodec  sha=7d7a12f7c1d658b1
impl<const N: usize> DatagramPacketCodec<'_, N> {
        fn new(codec: udp__SessionCodec<N>) -> (r: DatagramPacketCodec<'_, N>)
            ensures r.codec == codec,
                //#C11 C12
                fresh(r.filter) && r.session.packet_id == 0,
        {
            DatagramPacketCodec { codec, session: udp__Session::from(Mode::Client), filter: PacketWindowFilter::default() }
        }
    }

//@@ octo-squirrel-client/src/client/shadowsocks.rs:159-166  mod udp / impl Encoder for DatagramPacketCodec  sha=d3cec9aeed301659
impl<const N: usize> DatagramPacketCodec<'_, N> {

        fn encode(&mut self, verif_arg2: DatagramPacket, dst: &mut BytesMut) -> (r: anyhow::Result<()>)
            requires old(self).codec.wf(), repr(verif_arg2.1),
            ensures
                //#C12
                final(self).session.packet_id == old(self).session.packet_id + 1,
                final(self).codec == old(self).codec, final(self).filter == old(self).filter,
        { let (content, addr) = verif_arg2;
            self.session.increase_packet_id();
            self.codec.encode((content, addr, self.session.clone()), dst)
        }
    }

//@@ octo-squirrel-client/src/client/shadowsocks.rs:168-190  mod udp / impl Decoder for DatagramPacketCodec  sha=b2d6ea905290fb89
impl<const N: usize> DatagramPacketCodec<'_, N> {

        fn decode(&mut self, src: &mut BytesMut) -> (r: anyhow::Result<Option<DatagramPacket>>)
            requires old(self).codec.wf(),
            ensures final(self).codec == old(self).codec,
                //#C11
                // a refused (duplicate / stale) packet id is dropped: the only error is an undecodable datagram
                r is Err ==> (old(src)@.len() > 0 && udp_err(old(self).codec.cipher, old(self).codec.context, old(src)@)),
                //#C11
                // every datagram passes through one step of the packet window, and is delivered iff the window accepts its id
                (r is Ok && old(src)@.len() > 0) ==> (exists|pid: u64, acc: bool| #[trigger] step_ok(old(self).filter, pid, u64::MAX, final(self).filter, acc) && (acc == (r matches Ok(Some(_))))),
                //#C12
                final(self).session.packet_id == old(self).session.packet_id && final(self).session.client_session_id == old(self).session.client_session_id,
        {
            if src.is_empty() {
                Ok(None)
            } else {
                match self.codec.decode(src)? {
                    Some((content, addr, session)) => {
                        if !self.filter.validate_packet_id(session.packet_id, u64::MAX) {
                            /*R2*/
                            proof { assert(step_ok(old(self).filter, session.packet_id, u64::MAX, self.filter, false)); }
                            return Ok(None);
                        }
                        proof { assert(step_ok(old(self).filter, session.packet_id, u64::MAX, self.filter, true)); }
                        self.session.server_session_id = session.server_session_id;
                        proof { assert(step_ok(old(self).filter, session.packet_id, u64::MAX, self.filter, true)); }
                        Ok(Some((content, addr)))
                    }
                    None => Ok(None),
                }
            }
        }
    }

//@@ octo-squirrel/src/codec/shadowsocks/aead_2022/udp.rs:21-28  fn nonce_length  sha=dfb9590ac15c2102
/// SIP022 UDP: the AES variants use no separate nonce (session id | packet id is the nonce), the ChaCha variants a 24-byte XChaCha nonce
fn a22udp__nonce_length(kind: CipherKind) -> (r: usize)
    requires kind.is_2022(),
    ensures
        //#C03 C16
        r == (if kind.has_eih() { 0int } else { 24int }),
{
    match kind {
        CipherKind::Aead2022Blake3Aes128Gcm | CipherKind::Aead2022Blake3Aes256Gcm => 0,
        CipherKind::Aead2022Blake3ChaCha8Poly1305 => 24,
        CipherKind::Aead2022Blake3ChaCha20Poly1305 => 24,
        _ => verif_panic(),
    }
}

//@@ octo-squirrel/src/codec/shadowsocks/aead_2022/udp.rs:30-46  fn new_cipher  sha=024f06d68781379f
fn a22udp__new_cipher(kind: CipherKind, key: &[u8], session_id: u64) -> (r: CipherMethod)
    requires kind.is_2022(), key@.len() >= key_len_of(kind),
    ensures
        //#C16 C03
        // SIP022 UDP: AES-GCM under the per-session sub-key; XChaCha8 / XChaCha20-Poly1305 under the pre-shared key itself
        kind.has_eih() ==> (r.alg() == alg_of(kind) && r.key() == blake3_kdf("shadowsocks 2022 session subkey"@, key@ + be_bytes(session_id as nat, 8)).take(key_len_of(kind) as int)),
        //#C16 C03
        kind is Aead2022Blake3ChaCha8Poly1305 ==> (r.alg() == 4 && r.key() == key@.take(32)),
        //#C16 C03
        kind is Aead2022Blake3ChaCha20Poly1305 ==> (r.alg() == 5 && r.key() == key@.take(32)),
{
    match kind {
        CipherKind::Aead2022Blake3Aes128Gcm | CipherKind::Aead2022Blake3Aes256Gcm => {
            let key = a22__session_sub_key(key, &session_id.v_to_be_bytes());
            CipherMethod::new(kind, &key)
        }
        CipherKind::Aead2022Blake3ChaCha8Poly1305 => {
            let key = &key[..32];
            CipherMethod::XChaCha8Poly1305(XChaCha8Poly1305::new(Key::<XChaCha8Poly1305>::from_slice(key)))
        }
        CipherKind::Aead2022Blake3ChaCha20Poly1305 => {
            let key = &key[..32];
            CipherMethod::XChaCha20Poly1305(XChaCha20Poly1305::new(Key::<XChaCha20Poly1305>::from_slice(key)))
        }
        _ => verif_panic(),
    }
}
