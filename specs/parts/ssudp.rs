// ---- part ssudp: codec/shadowsocks/udp.rs (dispatch, legacy and 2022 datagrams, sessions), client/shadowsocks.rs udp module ----
// ---- SIP022 3.2 (UDP): packet layouts as spec functions, written from the specification ----
//   AES-GCM variants:  AES-ECB(psk, session id(8) | packet id(8)) | [identity header(16), client->server with users] | AEAD(session sub-key, nonce = (sid|pid)[4..16], body)
//   XChaCha variants:  nonce(24) | AEAD(psk, nonce, session id(8) | packet id(8) | body)
//   body client->server: type 0 | timestamp(8) | padding length(2) | padding | address | payload
//   body server->client: type 1 | timestamp(8) | client session id(8) | padding length(2) | padding | address | payload
spec fn aes_bits(kind: CipherKind) -> int { if kind is Aead2022Blake3Aes128Gcm { 128 } else { 256 } }
spec fn nonce_len22(kind: CipherKind) -> int { if kind.has_eih() { 0 } else { 24 } }
spec fn udp22_session_key(kind: CipherKind, key: Seq<u8>, sid: u64) -> Seq<u8> {
    blake3_kdf("shadowsocks 2022 session subkey"@, key + be_bytes(sid as nat, 8)).take(key_len_of(kind) as int)
}
/// the separate header of the AES variants, decrypted
spec fn udp22_hdr(kind: CipherKind, psk: Seq<u8>, s: Seq<u8>) -> Seq<u8> { aes_ecb_dec(aes_bits(kind), psk, s.take(16)) }
/// opening a packet: (session id, packet id, body).  `ukey`: the key the body is sealed under (psk, or the user key named by the identity header);
/// `skip`: where the AEAD part of an AES packet starts (16, or 32 behind an identity header)
spec fn udp22_open(kind: CipherKind, psk: Seq<u8>, ukey: Seq<u8>, skip: int, s: Seq<u8>) -> Option<(u64, u64, Seq<u8>)> {
    if kind.has_eih() {
        let hdr = udp22_hdr(kind, psk, s);
        let sid = be_val(hdr.take(8)) as u64;
        match aead_open(alg_of(kind), udp22_session_key(kind, ukey, sid), hdr.subrange(4, 16), Seq::empty(), s.skip(skip)) {
            Some(b) => Some((sid, be_val(hdr.subrange(8, 16)) as u64, b)),
            None => None,
        }
    } else {
        match aead_open(if kind is Aead2022Blake3ChaCha8Poly1305 { 4 } else { 5 }, psk.take(32), s.take(24), Seq::empty(), s.skip(24)) {
            Some(p) => if p.len() < 16 { None } else { Some((be_val(p.take(8)) as u64, be_val(p.subrange(8, 16)) as u64, p.skip(16))) },
            None => None,
        }
    }
}
pub struct Udp22Body { pub csid: u64, pub addr: AddrV, pub payload: Seq<u8> }
/// the authenticated body: type byte of the *other* side, timestamp within 30 s of the local clock, padding, address, payload
spec fn udp22_body(s2c: bool, b: Seq<u8>) -> Option<Udp22Body> {
    let fixed: int = if s2c { 19 } else { 11 };
    if b.len() < fixed { None }
    else if b[0] != (if s2c { 1u8 } else { 0u8 }) { None }
    else if !ts_fresh(be_val(b.subrange(1, 9)) as u64) { None }
    else {
        let pl = be_val(b.subrange(fixed - 2, fixed)) as int;
        if b.len() < fixed + pl { None } else {
            match parse5(b.skip(fixed + pl)) {
                None => None,
                Some((v, n)) => Some(Udp22Body { csid: if s2c { be_val(b.subrange(9, 17)) as u64 } else { 0 }, addr: v, payload: b.skip(fixed + pl + n) }),
            }
        }
    }
}
pub struct Udp22Pkt { pub sid: u64, pub pid: u64, pub body: Udp22Body }
spec fn udp22_parse(kind: CipherKind, psk: Seq<u8>, ukey: Seq<u8>, eih: int, s2c: bool, s: Seq<u8>) -> Option<Udp22Pkt> {
    if s.len() < nonce_len22(kind) + 32 + eih { None }
    else {
        match udp22_open(kind, psk, ukey, 16 + eih, s) {
            None => None,
            Some((sid, pid, b)) => match udp22_body(s2c, b) { None => None, Some(body) => Some(Udp22Pkt { sid, pid, body }) },
        }
    }
}
/// server side: with registered users (AES variants) the identity header names the user whose key seals the body
spec fn udp22_eih<const N: usize>(kind: CipherKind, ctx: udp__Context<N>) -> int { if kind.has_eih() && ctx.has_users() { 16 } else { 0 } }
spec fn udp22_user_hash(kind: CipherKind, psk: Seq<u8>, s: Seq<u8>) -> Seq<u8> { xor_seq(aes_ecb_dec(aes_bits(kind), psk, s.subrange(16, 32)), udp22_hdr(kind, psk, s)) }
#[verifier::opaque]
spec fn udp22_server_parse<const N: usize>(kind: CipherKind, ctx: udp__Context<N>, s: Seq<u8>) -> Option<(Udp22Pkt, Option<ServerUser<N>>)> {
    if udp22_eih(kind, ctx) == 16 {
        if s.len() < 48 { None } else {
            match ctx.user_manager->0.lookup(udp22_user_hash(kind, ctx.key@, s)) {
                None => None,
                Some(u) => match udp22_parse(kind, ctx.key@, u.key@, 16, false, s) { None => None, Some(p) => Some((p, Some(u))) },
            }
        }
    } else {
        match udp22_parse(kind, ctx.key@, ctx.key@, 0, false, s) { None => None, Some(p) => Some((p, None)) }
    }
}
proof fn lemma_skip_skip(s: Seq<u8>, a: int, b: int) requires 0 <= a, 0 <= b, a + b <= s.len() ensures s.skip(a).skip(b) == s.skip(a + b) { assert(s.skip(a).skip(b) =~= s.skip(a + b)); }
proof fn lemma_skip_take(s: Seq<u8>, a: int, b: int) requires 0 <= a, 0 <= b, a + b <= s.len() ensures s.skip(a).take(b) == s.subrange(a, a + b) { assert(s.skip(a).take(b) =~= s.subrange(a, a + b)); }
proof fn lemma_take_is_subrange(s: Seq<u8>, n: int) requires 0 <= n <= s.len() ensures s.take(n) == s.subrange(0, n) {}
proof fn lemma_take_sub(s: Seq<u8>, n: int, a: int, b: int) requires 0 <= a <= b <= n <= s.len() ensures s.take(n).subrange(a, b) == s.subrange(a, b) { assert(s.take(n).subrange(a, b) =~= s.subrange(a, b)); }
proof fn lemma_take_skip(s: Seq<u8>, n: int, a: int) requires 0 <= a <= n <= s.len() ensures s.take(n).skip(a) == s.subrange(a, n) { assert(s.take(n).skip(a) =~= s.subrange(a, n)); }
proof fn lemma_take_all(s: Seq<u8>) ensures s.take(s.len() as int) == s, s.skip(0) == s { assert(s.take(s.len() as int) =~= s); assert(s.skip(0) =~= s); }
/// an opened body is the packet minus nonce, session/packet id and tag
proof fn lemma_udp22_open_len(kind: CipherKind, psk: Seq<u8>, ukey: Seq<u8>, eih: int, s: Seq<u8>)
    requires kind.is_2022(), s.len() >= nonce_len22(kind) + 32 + eih, eih == 0 || (eih == 16 && kind.has_eih()),
    ensures udp22_open(kind, psk, ukey, 16 + eih, s) matches Some((_, _, b)) ==> b.len() + nonce_len22(kind) + 32 + eih == s.len(),
{
    if kind.has_eih() {
        let hdr = udp22_hdr(kind, psk, s);
        let sid = be_val(hdr.take(8)) as u64;
        let k = udp22_session_key(kind, ukey, sid);
        let ct = s.skip(16 + eih);
        axiom_open_unique(alg_of(kind), k, hdr.subrange(4, 16), Seq::empty(), ct);
        if let Some(b) = aead_open(alg_of(kind), k, hdr.subrange(4, 16), Seq::empty(), ct) {
            axiom_seal_len(alg_of(kind), k, hdr.subrange(4, 16), Seq::empty(), b);
            assert(ct.len() == s.len() - 16 - eih);
        }
    } else {
        let a: int = if kind is Aead2022Blake3ChaCha8Poly1305 { 4 } else { 5 };
        let ct = s.skip(24);
        axiom_open_unique(a, psk.take(32), s.take(24), Seq::empty(), ct);
        if let Some(p) = aead_open(a, psk.take(32), s.take(24), Seq::empty(), ct) {
            axiom_seal_len(a, psk.take(32), s.take(24), Seq::empty(), p);
            assert(ct.len() == s.len() - 24);
        }
    }
}
spec fn user_val<const N: usize>(u: Option<Arc<ServerUser<N>>>) -> Option<ServerUser<N>> { match u { Some(a) => Some(*a), None => None } }
/// the key a client packet's body is sealed under, and the user it is attributed to (spec of the server's choice)
spec fn udp22_key_choice<const N: usize>(kind: CipherKind, ctx: udp__Context<N>, s: Seq<u8>, ukey: Seq<u8>, user: Option<ServerUser<N>>) -> bool {
    &&& udp22_eih(kind, ctx) == 16 ==> (ctx.user_manager->0.lookup(udp22_user_hash(kind, ctx.key@, s)) == user && (user matches Some(u) && ukey == u.key@))
    &&& udp22_eih(kind, ctx) == 0 ==> (user is None && ukey == ctx.key@)
}
/// udp22_server_parse, one level unfolded, for a packet long enough to hold the ids, the identity header and a tag
proof fn lemma_udp22_server_compose<const N: usize>(kind: CipherKind, ctx: udp__Context<N>, s: Seq<u8>, ukey: Seq<u8>, user: Option<ServerUser<N>>)
    requires kind.is_2022(), s.len() >= nonce_len22(kind) + 32 + udp22_eih(kind, ctx), udp22_key_choice(kind, ctx, s, ukey, user),
    ensures udp22_server_parse(kind, ctx, s) == (match udp22_open(kind, ctx.key@, ukey, 16 + udp22_eih(kind, ctx), s) {
        None => None,
        Some((sid, pid, b)) => match udp22_body(false, b) { None => None, Some(body) => Some((Udp22Pkt { sid, pid, body }, user)) },
    }),
{
    reveal(udp22_server_parse);
}
/// an identity header that names nobody: no packet
proof fn lemma_udp22_server_nouser<const N: usize>(kind: CipherKind, ctx: udp__Context<N>, s: Seq<u8>)
    requires udp22_eih(kind, ctx) == 16, ctx.user_manager->0.lookup(udp22_user_hash(kind, ctx.key@, s)) is None,
    ensures udp22_server_parse(kind, ctx, s) is None,
{
    reveal(udp22_server_parse);
}
/// a client packet too short for its fixed fields is no packet
proof fn lemma_udp22_server_short<const N: usize>(kind: CipherKind, ctx: udp__Context<N>, s: Seq<u8>)
    requires kind.is_2022(), s.len() < nonce_len22(kind) + 43 + udp22_eih(kind, ctx),
    ensures udp22_server_parse(kind, ctx, s) is None,
{
    reveal(udp22_server_parse);
    if udp22_eih(kind, ctx) == 16 {
        if s.len() >= 48 {
            match ctx.user_manager->0.lookup(udp22_user_hash(kind, ctx.key@, s)) {
                Some(u) => { lemma_udp22_open_len(kind, ctx.key@, u.key@, 16, s); }
                None => {}
            }
        }
    } else if s.len() >= nonce_len22(kind) + 32 {
        lemma_udp22_open_len(kind, ctx.key@, ctx.key@, 0, s);
    }
}
proof fn lemma_parse5_len(s: Seq<u8>) ensures parse5(s) matches Some((_, n)) ==> n <= s.len() {}
/// the cuts of a body that the decoders make with get_u8 / get_u64 / get_u16 / advance, in terms of subrange
proof fn lemma_udp22_body_cuts(b: Seq<u8>)
    ensures
        b.len() >= 9 ==> b.skip(1).take(8) == b.subrange(1, 9) && b.skip(1).skip(8) == b.skip(9),
        b.len() >= 11 ==> b.skip(9).take(2) == b.subrange(9, 11) && b.skip(9).skip(2) == b.skip(11),
        b.len() >= 17 ==> b.skip(9).take(8) == b.subrange(9, 17) && b.skip(9).skip(8) == b.skip(17),
        b.len() >= 19 ==> b.skip(17).take(2) == b.subrange(17, 19) && b.skip(17).skip(2) == b.skip(19),
{
    if b.len() >= 9 { assert(b.skip(1).take(8) =~= b.subrange(1, 9)); assert(b.skip(1).skip(8) =~= b.skip(9)); }
    if b.len() >= 11 { assert(b.skip(9).take(2) =~= b.subrange(9, 11)); assert(b.skip(9).skip(2) =~= b.skip(11)); }
    if b.len() >= 17 { assert(b.skip(9).take(8) =~= b.subrange(9, 17)); assert(b.skip(9).skip(8) =~= b.skip(17)); }
    if b.len() >= 19 { assert(b.skip(17).take(2) =~= b.subrange(17, 19)); assert(b.skip(17).skip(2) =~= b.skip(19)); }
}
/// when a 2022 datagram is refused (an unreadable clock refuses everything)
spec fn udp22_err<const N: usize>(kind: CipherKind, ctx: udp__Context<N>, s: Seq<u8>) -> bool {
    match ctx.stream_type {
        Mode::Client => !(clock_ok() && udp22_parse(kind, ctx.key@, ctx.key@, 0, true, s) is Some),
        Mode::Server => !(clock_ok() && udp22_server_parse(kind, ctx, s) is Some),
    }
}
// ---- SIP022 3.2 (UDP), sender side: what a packet looks like on the wire ----
spec fn udp22_body_c2s(ts: u64, pad: Seq<u8>, addr: AddrV, payload: Seq<u8>) -> Seq<u8> {
    seq![0u8] + be_bytes(ts as nat, 8) + be_bytes(pad.len(), 2) + pad + enc5(addr) + payload
}
spec fn udp22_body_s2c(ts: u64, csid: u64, pad: Seq<u8>, addr: AddrV, payload: Seq<u8>) -> Seq<u8> {
    seq![1u8] + be_bytes(ts as nat, 8) + be_bytes(csid as nat, 8) + be_bytes(pad.len(), 2) + pad + enc5(addr) + payload
}
/// hk: the key of the separate header (AES variants); eih: the identity headers; bkey: the key the body is sealed under (before the session sub-key
/// derivation of the AES variants); nonce: the 24 random bytes of the XChaCha variants
spec fn udp22_wire(kind: CipherKind, hk: Seq<u8>, eih: Seq<u8>, bkey: Seq<u8>, sid: u64, pid: u64, nonce: Seq<u8>, body: Seq<u8>) -> Seq<u8> {
    let hdr = be_bytes(sid as nat, 8) + be_bytes(pid as nat, 8);
    if kind.has_eih() {
        aes_ecb_enc(aes_bits(kind), hk, hdr) + eih + aead_seal(alg_of(kind), udp22_session_key(kind, bkey, sid), hdr.subrange(4, 16), Seq::empty(), body)
    } else {
        nonce + aead_seal(if kind is Aead2022Blake3ChaCha8Poly1305 { 4 } else { 5 }, bkey.take(32), nonce, Seq::empty(), hdr + body)
    }
}
/// the key a server reply is sealed under: the key of the user the session was authenticated as, else the server key
spec fn session_key_of<const N: usize>(ctx: udp__Context<N>, session: udp__Session<N>) -> Seq<u8> { match session.user { Some(u) => u.key@, None => ctx.key@ } }
spec fn iks_seq<const N: usize>(iks: Seq<[u8; N]>) -> Seq<Seq<u8>> { iks.map_values(|k: [u8; N]| k@) }
/// what the client puts on the wire for one datagram: exists a nonce / padding such that ..
spec fn udp22_c2s_is<const N: usize>(kind: CipherKind, ctx: udp__Context<N>, sid: u64, pid: u64, addr: AddrV, payload: Seq<u8>, nonce: Seq<u8>, pad: Seq<u8>, s: Seq<u8>) -> bool {
    let n = ctx.identity_keys@.len() as int;
    let hdr = be_bytes(sid as nat, 8) + be_bytes(pid as nat, 8);
    &&& nonce.len() == nonce_len22(kind) && pad.len() <= 900
    &&& s == udp22_wire(kind, if n == 0 { ctx.key@ } else { ctx.identity_keys@[0]@ },
            if kind.has_eih() { udp_eih_prefix(kind, ctx.key@, iks_seq(ctx.identity_keys@), hdr, n) } else { Seq::empty() },
            ctx.key@, sid, pid, nonce, udp22_body_c2s(wall_clock(), pad, addr, payload))
}
spec fn udp22_s2c_is<const N: usize>(kind: CipherKind, ctx: udp__Context<N>, ukey: Seq<u8>, ssid: u64, pid: u64, csid: u64, addr: AddrV, payload: Seq<u8>, nonce: Seq<u8>, pad: Seq<u8>, s: Seq<u8>) -> bool {
    &&& nonce.len() == nonce_len22(kind) && pad.len() <= 900
    &&& s == udp22_wire(kind, ukey, Seq::empty(), if kind.has_eih() { ukey } else { ctx.key@ }, ssid, pid, nonce, udp22_body_s2c(wall_clock(), csid, pad, addr, payload))
}
/// cutting a buffer `a | b | c | 16 spare bytes` the way the encoders do
proof fn lemma_udp_parts(d: Seq<u8>, a: Seq<u8>, b: Seq<u8>, c: Seq<u8>)
    requires d.len() == a.len() + b.len() + c.len() + 16, d.take((a.len() + b.len() + c.len()) as int) == a + b + c,
    ensures d.take(a.len() as int) == a, d.skip(a.len() as int).take(b.len() as int) == b, d.skip(a.len() as int).len() == b.len() + c.len() + 16,
        d.skip(a.len() as int).skip(b.len() as int).len() == c.len() + 16,
        d.skip(a.len() as int).skip(b.len() as int).take(c.len() as int) == c,
        d.skip(a.len() as int).take((b.len() + c.len()) as int) == b + c,
{
    let p = a + b + c;
    assert(d.take(a.len() as int) =~= p.take(a.len() as int));
    assert(p.take(a.len() as int) =~= a);
    assert(d.skip(a.len() as int).take(b.len() as int) =~= p.skip(a.len() as int).take(b.len() as int));
    assert(p.skip(a.len() as int).take(b.len() as int) =~= b);
    assert(d.skip(a.len() as int).skip(b.len() as int).take(c.len() as int) =~= p.skip(a.len() as int).skip(b.len() as int).take(c.len() as int));
    assert(p.skip(a.len() as int).skip(b.len() as int).take(c.len() as int) =~= c);
    assert(d.skip(a.len() as int).take((b.len() + c.len()) as int) =~= p.skip(a.len() as int));
    assert(p.skip(a.len() as int) =~= b + c);
}
proof fn lemma_udp_eih_prefix_len(kind: CipherKind, key: Seq<u8>, iks: Seq<Seq<u8>>, sidpid: Seq<u8>, n: int)
    requires sidpid.len() == 16, 0 <= n
    ensures udp_eih_prefix(kind, key, iks, sidpid, n).len() == 16 * n
    decreases n
{
    if n > 0 {
        lemma_udp_eih_prefix_len(kind, key, iks, sidpid, n - 1);
        let nx = if n == iks.len() { key } else { iks[n] };
        axiom_ecb_inverse(aes_bits(kind), iks[n - 1], xor_seq(blake3_hash(nx).take(16), sidpid));
        lemma_xor_len(blake3_hash(nx).take(16), sidpid);
        axiom_blake3_hash_len(nx);
    }
}
// ---- C02 / C03: what the encoders put on the wire is what the decoders' specification accepts, with the same ids, address and payload ----
/// reading the fixed fields of a client->server body back
proof fn lemma_udp22_body_c2s_parse(pad: Seq<u8>, addr: AddrV, payload: Seq<u8>)
    requires pad.len() <= 900, addr_valid(addr),
    ensures udp22_body(false, udp22_body_c2s(wall_clock(), pad, addr, payload)) == Some(Udp22Body { csid: 0, addr, payload }),
{
    let ts = wall_clock();
    let b = udp22_body_c2s(ts, pad, addr, payload);
    lemma_be_bytes_len(ts as nat, 8); lemma_be_bytes_len(pad.len(), 2);
    assert(b[0] == 0u8);
    assert(b.subrange(1, 9) =~= be_bytes(ts as nat, 8));
    assert(b.subrange(9, 11) =~= be_bytes(pad.len(), 2));
    lemma_pow256_vals();
    lemma_be_roundtrip(ts as nat, 8); lemma_be_roundtrip(pad.len(), 2);
    assert(b.skip((11 + pad.len()) as int) =~= enc5(addr) + payload);
    lemma_addr5_roundtrip(addr, payload);
    assert((enc5(addr) + payload).skip(enc5(addr).len() as int) =~= payload);
    assert(b.skip((11 + pad.len() + enc5(addr).len()) as int) =~= payload);
}
proof fn lemma_udp22_body_s2c_parse(csid: u64, pad: Seq<u8>, addr: AddrV, payload: Seq<u8>)
    requires pad.len() <= 900, addr_valid(addr),
    ensures udp22_body(true, udp22_body_s2c(wall_clock(), csid, pad, addr, payload)) == Some(Udp22Body { csid, addr, payload }),
{
    let ts = wall_clock();
    let b = udp22_body_s2c(ts, csid, pad, addr, payload);
    lemma_be_bytes_len(ts as nat, 8); lemma_be_bytes_len(csid as nat, 8); lemma_be_bytes_len(pad.len(), 2);
    assert(b[0] == 1u8);
    assert(b.subrange(1, 9) =~= be_bytes(ts as nat, 8));
    assert(b.subrange(9, 17) =~= be_bytes(csid as nat, 8));
    assert(b.subrange(17, 19) =~= be_bytes(pad.len(), 2));
    lemma_pow256_vals();
    lemma_be_roundtrip(ts as nat, 8); lemma_be_roundtrip(csid as nat, 8); lemma_be_roundtrip(pad.len(), 2);
    assert(b.skip((19 + pad.len()) as int) =~= enc5(addr) + payload);
    lemma_addr5_roundtrip(addr, payload);
    assert((enc5(addr) + payload).skip(enc5(addr).len() as int) =~= payload);
    assert(b.skip((19 + pad.len() + enc5(addr).len()) as int) =~= payload);
}
/// opening a packet laid out by udp22_wire gives back the ids and the body
proof fn lemma_udp22_wire_open(kind: CipherKind, hk: Seq<u8>, eih: Seq<u8>, bkey: Seq<u8>, sid: u64, pid: u64, nonce: Seq<u8>, body: Seq<u8>)
    requires kind.is_2022(), nonce.len() == nonce_len22(kind), eih.len() == 0 || (eih.len() == 16 && kind.has_eih()),
    ensures
        udp22_open(kind, if kind.has_eih() { hk } else { bkey }, bkey, (16 + eih.len()) as int, udp22_wire(kind, hk, eih, bkey, sid, pid, nonce, body)) == Some((sid, pid, body)),
        udp22_wire(kind, hk, eih, bkey, sid, pid, nonce, body).len() == nonce_len22(kind) + 32 + eih.len() + body.len(),
{
    let hdr = be_bytes(sid as nat, 8) + be_bytes(pid as nat, 8);
    let s = udp22_wire(kind, hk, eih, bkey, sid, pid, nonce, body);
    lemma_be_bytes_len(sid as nat, 8); lemma_be_bytes_len(pid as nat, 8);
    lemma_pow256_vals();
    lemma_be_roundtrip(sid as nat, 8); lemma_be_roundtrip(pid as nat, 8);
    assert(hdr.take(8) =~= be_bytes(sid as nat, 8));
    assert(hdr.subrange(8, 16) =~= be_bytes(pid as nat, 8));
    if kind.has_eih() {
        let e = aes_ecb_enc(aes_bits(kind), hk, hdr);
        axiom_ecb_inverse(aes_bits(kind), hk, hdr);
        let k = udp22_session_key(kind, bkey, sid);
        let ct = aead_seal(alg_of(kind), k, hdr.subrange(4, 16), Seq::empty(), body);
        axiom_seal_len(alg_of(kind), k, hdr.subrange(4, 16), Seq::empty(), body);
        axiom_open_seal(alg_of(kind), k, hdr.subrange(4, 16), Seq::empty(), body);
        assert(s.take(16) =~= e);
        assert(s.skip((16 + eih.len()) as int) =~= ct);
    } else {
        let a: int = if kind is Aead2022Blake3ChaCha8Poly1305 { 4 } else { 5 };
        let ct = aead_seal(a, bkey.take(32), nonce, Seq::empty(), hdr + body);
        axiom_seal_len(a, bkey.take(32), nonce, Seq::empty(), hdr + body);
        axiom_open_seal(a, bkey.take(32), nonce, Seq::empty(), hdr + body);
        assert(s.take(24) =~= nonce);
        assert(s.skip(24) =~= ct);
        assert((hdr + body).take(8) =~= be_bytes(sid as nat, 8));
        assert((hdr + body).subrange(8, 16) =~= be_bytes(pid as nat, 8));
        assert((hdr + body).skip(16) =~= body);
    }
}
/// client -> server without identity keys: the server's packet specification reads exactly what was sent
proof fn lemma_udp22_c2s_roundtrip<const N: usize>(kind: CipherKind, ctx: udp__Context<N>, sid: u64, pid: u64, addr: AddrV, payload: Seq<u8>, nonce: Seq<u8>, pad: Seq<u8>, s: Seq<u8>)
    requires kind.is_2022(), addr_valid(addr), ctx.identity_keys@.len() == 0, udp22_c2s_is(kind, ctx, sid, pid, addr, payload, nonce, pad, s),
    ensures udp22_parse(kind, ctx.key@, ctx.key@, 0, false, s) == Some(Udp22Pkt { sid, pid, body: Udp22Body { csid: 0, addr, payload } }),
{
    let body = udp22_body_c2s(wall_clock(), pad, addr, payload);
    let hdr = be_bytes(sid as nat, 8) + be_bytes(pid as nat, 8);
    assert(udp_eih_prefix(kind, ctx.key@, iks_seq(ctx.identity_keys@), hdr, 0) =~= Seq::<u8>::empty());
    lemma_udp22_wire_open(kind, ctx.key@, Seq::empty(), ctx.key@, sid, pid, nonce, body);
    lemma_udp22_body_c2s_parse(pad, addr, payload);
}
/// server -> client: the client's packet specification reads exactly what was sent (no users: everything under the pre-shared key)
proof fn lemma_udp22_s2c_roundtrip<const N: usize>(kind: CipherKind, ctx: udp__Context<N>, ssid: u64, pid: u64, csid: u64, addr: AddrV, payload: Seq<u8>, nonce: Seq<u8>, pad: Seq<u8>, s: Seq<u8>)
    requires kind.is_2022(), addr_valid(addr), udp22_s2c_is(kind, ctx, ctx.key@, ssid, pid, csid, addr, payload, nonce, pad, s),
    ensures udp22_parse(kind, ctx.key@, ctx.key@, 0, true, s) == Some(Udp22Pkt { sid: ssid, pid, body: Udp22Body { csid, addr, payload } }),
{
    let body = udp22_body_s2c(wall_clock(), csid, pad, addr, payload);
    lemma_udp22_wire_open(kind, ctx.key@, Seq::empty(), ctx.key@, ssid, pid, nonce, body);
    lemma_udp22_body_s2c_parse(csid, pad, addr, payload);
}
impl<const N: usize> udp__Context<'_, N> {
    spec fn has_users(&self) -> bool { self.user_manager matches Some(m) && m.count() > 0 }
}
/// udp.rs get_cipher (unsafe: static LruCache mutated through a shared reference, keyed by (kind, address of the key slice, session id)):
/// NOT verified.  ASSUMED: the cache is transparent - the cipher handed out is the one new_cipher builds for these arguments.
#[verifier::external_body]
unsafe fn udp__get_cipher<'a>(kind: CipherKind, key: &'a [u8], session_id: u64) -> (r: &'a CipherMethod)
    requires kind.is_2022(), key@.len() >= key_len_of(kind),
    ensures udp_cipher_is(*r, kind, key@, session_id),
{ unimplemented!() }
/// SIP022 UDP ciphers: AES-GCM under the per-session sub-key; XChaCha8 / XChaCha20-Poly1305 under the pre-shared key itself
spec fn udp_cipher_is(c: CipherMethod, kind: CipherKind, key: Seq<u8>, session_id: u64) -> bool {
    &&& kind.has_eih() ==> (c.alg() == alg_of(kind) && c.key() == blake3_kdf("shadowsocks 2022 session subkey"@, key + be_bytes(session_id as nat, 8)).take(key_len_of(kind) as int))
    &&& kind is Aead2022Blake3ChaCha8Poly1305 ==> (c.alg() == 4 && c.key() == key.take(32))
    &&& kind is Aead2022Blake3ChaCha20Poly1305 ==> (c.alg() == 5 && c.key() == key.take(32))
}
/// aead_2022/udp.rs aes_{en,de}crypt_in_place (RustCrypto block types): one AES-ECB block in place; Err iff the key length is not the cipher's
#[verifier::external_body]
fn a22udp__aes_decrypt_in_place<B: MutBlock + ?Sized>(kind: CipherKind, key: &[u8], buf: &mut B) -> (r: anyhow::Result<()>)
    requires kind.has_eih(), old(buf).blk().len() == 16,
    ensures r is Ok == (key@.len() == key_len_of(kind)),
        r is Ok ==> final(buf).blk() == aes_ecb_dec(if kind is Aead2022Blake3Aes128Gcm { 128 } else { 256 }, key@, old(buf).blk()),
        r is Err ==> final(buf).blk() == old(buf).blk(),
        final(buf).blk().len() == old(buf).blk().len(),
{ unimplemented!() }
#[verifier::external_body]
fn a22udp__aes_encrypt_in_place<B: MutBlock + ?Sized>(kind: CipherKind, key: &[u8], header: &mut B) -> (r: anyhow::Result<()>)
    requires kind.has_eih(), old(header).blk().len() == 16,
    ensures r is Ok == (key@.len() == key_len_of(kind)),
        r is Ok ==> final(header).blk() == aes_ecb_enc(aes_bits(kind), key@, old(header).blk()),
        r is Err ==> final(header).blk() == old(header).blk(),
        final(header).blk().len() == old(header).blk().len(),
{ unimplemented!() }
impl MutBlock for [u8; 16] { open spec fn blk(&self) -> Seq<u8> { self@ } }
/// what is passed as `&mut [u8]` to the block helpers (a `&mut [u8]` itself, or `&mut BytesMut` through DerefMut)
pub trait MutBlock { spec fn blk(&self) -> Seq<u8>; }
impl MutBlock for [u8] { open spec fn blk(&self) -> Seq<u8> { self@ } }
impl MutBlock for BytesMut { open spec fn blk(&self) -> Seq<u8> { self@ } }
impl<const N: usize> ServerUserManager<N> {
    #[verifier::external_body]
    fn clone_user_by_hash(&self, user_hash: &[u8]) -> (r: Option<Arc<ServerUser<N>>>)
        ensures r matches Some(u) ==> self.registered(*u) && u.identity_hash@ == user_hash@,
            match self.lookup(user_hash@) { Some(u) => r matches Some(a) && *a == u, None => r is None },
    { unimplemented!() }
}
impl<const N: usize> Clone for udp__Session<N> {
    #[verifier::external_body]
    fn clone(&self) -> (r: Self) ensures r == *self { unimplemented!() }
}
impl<const N: usize> udp__Session<N> {
    /// derived Default: all ids zero, no user
    #[verifier::external_body]
    fn default() -> (r: Self) ensures r.client_session_id == 0, r.server_session_id == 0, r.packet_id == 0, r.user is None { unimplemented!() }
    /// udp.rs From<Mode> for Session (rand::random): a fresh random id for this side, packet id 0
    #[verifier::external_body]
    fn from(value: Mode) -> (r: Self) ensures r.packet_id == 0, r.user is None { unimplemented!() }
}
/// when a legacy (salt || sealed(address || payload)) datagram is undecodable
spec fn legacy_udp_err(kind: CipherKind, key: Seq<u8>, s: Seq<u8>) -> bool {
    s.len() < key.len() || (match aead_open(alg_of(kind), legacy_subkey(kind, key, s.take(key.len() as int)), Seq::new(12, |i: int| 0u8), Seq::empty(), s.skip(key.len() as int)) {
        None => true,
        Some(p) => parse5(p) is None,
    })
}
spec fn udp_err<const N: usize>(c: udp__AEADCipherCodec<N>, ctx: udp__Context<N>, s: Seq<u8>) -> bool {
    if c.kind.is_2022() { udp22_err(c.kind, ctx, s) } else { legacy_udp_err(c.kind, ctx.key@, s) }
}

//@@ octo-squirrel/src/codec/shadowsocks/udp.rs:34-36  struct AEADCipherCodec  sha=f8e930065e2a4dbb
pub struct udp__AEADCipherCodec<const N: usize> {
    kind: CipherKind,
}

//@@ octo-squirrel/src/codec/shadowsocks/udp.rs:38-347  impl AEADCipherCodec {fn new,fn encode,fn new_encoder,fn decode,fn decode_server_packet_aead_2022,fn decode_client_packet_aead_2022,fn new_decoder}  sha=c4e89f10bd893e30
impl<const N: usize> udp__AEADCipherCodec<N> {
    spec fn wf(&self, context: &udp__Context<N>) -> bool { !(self.kind is Unknown) && N == key_len_of(self.kind) && context.key@.len() == N }
    fn new(kind: CipherKind) -> (r: Self)
        ensures r.kind == kind,
    {
        Self { kind }
    }

    fn encode(&self, context: &udp__Context<N>, session: &udp__Session<N>, address: &Address, item: BytesMut, dst: &mut BytesMut) -> (r: anyhow::Result<()>)
        requires self.wf(context), repr(*address),
            // a 2022 packet is built in place from the start of the buffer (UdpFramed hands the encoder its flushed, empty write buffer)
            self.kind.is_2022() ==> old(dst)@.len() == 0 && (context.stream_type is Client ==> context.identity_keys@.len() <= 0x0fff_ffff),
        ensures
            //#C02 C03 C12 C14
            // 2022 datagram, client side: exactly one SIP022 packet for this session id, packet id, address and payload
            (self.kind.is_2022() && context.stream_type is Client && r is Ok) ==> exists|nonce: Seq<u8>, pad: Seq<u8>| #[trigger] udp22_c2s_is(self.kind, *context, session.client_session_id, session.packet_id, absaddr(*address), item@, nonce, pad, final(dst)@),
            //#C02 C03 C12 C14 C06
            // 2022 datagram, server side: sealed under the key of the user the session belongs to
            (self.kind.is_2022() && context.stream_type is Server && r is Ok) ==> exists|nonce: Seq<u8>, pad: Seq<u8>| #[trigger] udp22_s2c_is(self.kind, *context, session_key_of(*context, *session), session.server_session_id, session.packet_id,
                session.client_session_id, absaddr(*address), item@, nonce, pad, final(dst)@),
            //#C02 C03 C14
            // legacy datagram: salt || seal(subkey(salt), nonce 0, address || payload): the whole payload or an error
            (!self.kind.is_2022() && r is Ok) ==> ({
                let n0 = old(dst)@.len() as int;
                let salt = final(dst)@.subrange(n0, n0 + N);
                final(dst)@.len() >= n0 + N && final(dst)@ == old(dst)@ + salt + aead_seal(alg_of(self.kind), legacy_subkey(self.kind, context.key@, salt), Seq::new(12, |i: int| 0u8), Seq::empty(),
                    enc5(absaddr(*address)) + item@) }),
    {
        match (self.kind.is_aead_2022(), context.stream_type) {
            (true, Mode::Client) => self.encode_client_packet_aead_2022(context, session, address, item, dst),
            (true, Mode::Server) => self.encode_server_packet_aead_2022(context, session, address, item, dst),
            (false, _) => {
                let salt = &mut [0; N];
                dice::fill_bytes(salt);
                dst.extend_from_slice(&salt[..]);
                let mut temp = BytesMut::with_capacity(address__length(address) + item.remaining());
                address__encode(address, &mut temp);
                temp.extend_from_slice(&item);
                let mut encoder = self.new_encoder(context.key, salt)?;
                proof { lemma_init_first(encoder.auth.n()); let n0 = old(dst)@.len() as int; assert(dst@.subrange(n0, n0 + N) =~= salt@); assert(salt@.subrange(0, N as int) =~= salt@); }
                let ghost d1 = dst@;
                let ghost sealed = aead_seal(encoder.auth.alg(), encoder.auth.key(), Seq::new(12, |i: int| 0u8), Seq::empty(), temp@);
                proof { let n0 = old(dst)@.len() as int; assert((d1 + sealed).subrange(n0, n0 + N) =~= salt@); }
                encoder.encode_packet(temp, dst).map_err(|e| verif_err())
            }
        }
    }

    #[verifier::spinoff_prover]
    #[verifier::rlimit(120)]
    fn encode_client_packet_aead_2022(
        &self,
        context: &udp__Context<N>,
        session: &udp__Session<N>,
        address: &Address,
        item: BytesMut,
        dst: &mut BytesMut,
    ) -> (r: anyhow::Result<()>)
        requires self.wf(context), self.kind.is_2022(), repr(*address), old(dst)@.len() == 0, context.identity_keys@.len() <= 0x0fff_ffff,
        ensures
            //#C02 C03 C12 C14
            // SIP022 3.2: the datagram on the wire is exactly one packet carrying this session id, this packet id, the type byte 0, the
            // current time, the address and the whole payload, sealed under the key of this session (whole or an error)
            r is Ok ==> exists|nonce: Seq<u8>, pad: Seq<u8>| #[trigger] udp22_c2s_is(self.kind, *context, session.client_session_id, session.packet_id, absaddr(*address), item@, nonce, pad, final(dst)@),
    {
        let padding_length = a22__next_padding_length(&item);
        let nonce_size = a22udp__nonce_length(self.kind);
        let tag_size = self.kind.tag_size();
        let require_eih = self.kind.support_eih() && !context.identity_keys.is_empty();
        let eih_len = if require_eih { 16 * context.identity_keys.len() } else { 0 };
        dst.reserve(nonce_size + 8 + 8 + eih_len + 1 + 8 + 2 + padding_length as usize + address__length(address) + item.remaining() + tag_size);
        if nonce_size > 0 {
            unsafe { dst.advance_mut(nonce_size) };
            let nonce = dst.v_range_mut(0,nonce_size);
            dice::fill_bytes(nonce);
        }
        let ghost nonce_g = dst@;
        let ghost sid = session.client_session_id;
        let ghost pid = session.packet_id;
        let ghost hdr = be_bytes(sid as nat, 8) + be_bytes(pid as nat, 8);
        proof { lemma_be_bytes_len(sid as nat, 8); lemma_be_bytes_len(pid as nat, 8); assert(nonce_g.len() == nonce_size); }
        dst.put_u64(session.client_session_id);
        dst.put_u64(session.packet_id);
        proof { assert(dst@ =~= nonce_g + hdr); }
        let ghost iks = iks_seq(context.identity_keys@);
        let ghost eihb: Seq<u8> = if require_eih { udp_eih_prefix(self.kind, context.key@, iks, hdr, context.identity_keys@.len() as int) } else { Seq::empty() };
        if require_eih {
            let mut session_id_packet_id = [0; 16];
            proof { assert(nonce_size == 0); assert(dst@.skip(0) =~= hdr); }
            session_id_packet_id.copy_from_slice(&dst[nonce_size..]);
            a22udp__with_eih(self.kind, context.key, context.identity_keys, &session_id_packet_id, dst)?
        }
        proof {
            assert(dst@ =~= nonce_g + hdr + eihb);
            if require_eih { lemma_udp_eih_prefix_len(self.kind, context.key@, iks, hdr, context.identity_keys@.len() as int); }
            assert(eihb.len() == eih_len);
        }
        dst.put_u8(Mode::Client.to_u8());
        dst.put_u64(a22__now()?);
        dst.put_u16(padding_length);
        let ghost d_before_pad = dst@;
        dst.extend_from_slice(&dice::roll_bytes(padding_length as usize));
        let ghost pad = dst@.skip(d_before_pad.len() as int);
        address__encode(address, dst);
        dst.extend_from_slice(&item);
        let ghost body = udp22_body_c2s(wall_clock(), pad, absaddr(*address), item@);
        proof {
            assert(pad.len() == padding_length);
            assert(seq![0u8] =~= Seq::<u8>::empty().push(0u8));
            assert(dst@ =~= nonce_g + hdr + eihb + body);
        }
        let ghost plain = dst@;
        unsafe {
            dst.advance_mut(tag_size);
        }
        match self.kind {
            CipherKind::Aead2022Blake3Aes128Gcm | CipherKind::Aead2022Blake3Aes256Gcm => {
                proof {
                    assert(nonce_g.len() == 0);
                    assert(plain =~= hdr + eihb + body);
                    lemma_udp_parts(dst@, hdr, eihb, body);
                }
                let (header, mut text) = dst.split_at_mut(16);
                let ghost text0 = text@;
                let mut nonce = [0; 12];
                nonce.copy_from_slice(&header[4..16]);
                let key = if context.identity_keys.is_empty() { context.key } else { &context.identity_keys[0] };
                a22udp__aes_encrypt_in_place(self.kind, key, header)?;
                if eih_len > 0 {
                    text = verif_reslice_mut(text,eih_len);
                }
                proof { assert(text@ == text0.skip(eih_len as int)); assert(text@.len() == body.len() + 16); }
                let cipher = unsafe { udp__get_cipher(self.kind, context.key, session.client_session_id) };
                cipher.encrypt_in_place_detached(&nonce, &[], text).map_err(|e| verif_err())?;
                proof {
                    let hk = if context.identity_keys@.len() == 0 { context.key@ } else { context.identity_keys@[0]@ };
                    let sealed = aead_seal(alg_of(self.kind), udp22_session_key(self.kind, context.key@, sid), hdr.subrange(4, 16), Seq::empty(), body);
                    assert(nonce@ =~= hdr.subrange(4, 16));
                    assert(text0.take(eih_len as int) == eihb);
                    assert(dst@.take(16) == aes_ecb_enc(aes_bits(self.kind), hk, hdr));
                    assert(dst@.skip(16) =~= eihb + sealed);
                    assert(dst@ =~= aes_ecb_enc(aes_bits(self.kind), hk, hdr) + eihb + sealed);
                    assert(udp22_c2s_is(self.kind, *context, sid, pid, absaddr(*address), item@, nonce_g, pad, dst@));
                }
                Ok(())
            }
            CipherKind::Aead2022Blake3ChaCha8Poly1305 | CipherKind::Aead2022Blake3ChaCha20Poly1305 => {
                proof {
                    assert(nonce_g.len() == 24); assert(eihb.len() == 0);
                    assert(plain =~= nonce_g + Seq::<u8>::empty() + (hdr + body));
                    lemma_udp_parts(dst@, nonce_g, Seq::<u8>::empty(), hdr + body);
                    assert(dst@.skip(24).skip(0) =~= dst@.skip(24));
                }
                let (nonce, plaintext) = dst.split_at_mut(nonce_size);
                let cipher = unsafe { udp__get_cipher(self.kind, context.key, session.client_session_id) };
                cipher.encrypt_in_place_detached(nonce, &[], plaintext).map_err(|e| verif_err())?;
                proof {
                    assert(udp22_c2s_is(self.kind, *context, sid, pid, absaddr(*address), item@, nonce_g, pad, dst@));
                }
                Ok(())
            }
            _ => return Err(verif_err()),
        }
    }

    #[verifier::spinoff_prover]
    #[verifier::rlimit(120)]
    fn encode_server_packet_aead_2022(
        &self,
        context: &udp__Context<N>,
        session: &udp__Session<N>,
        address: &Address,
        item: BytesMut,
        dst: &mut BytesMut,
    ) -> (r: anyhow::Result<()>)
        requires self.wf(context), self.kind.is_2022(), repr(*address), old(dst)@.len() == 0,
        ensures
            //#C02 C03 C12 C14 C06
            // SIP022 3.2: one packet carrying the server session id, this packet id, the type byte 1, the current time, the client session id,
            // the address and the whole payload, sealed under the key of the user the session belongs to (whole or an error)
            r is Ok ==> exists|nonce: Seq<u8>, pad: Seq<u8>| #[trigger] udp22_s2c_is(self.kind, *context, session_key_of(*context, *session), session.server_session_id, session.packet_id,
                session.client_session_id, absaddr(*address), item@, nonce, pad, final(dst)@),
    {
        let padding_length = a22__next_padding_length(&item);
        let nonce_length = a22udp__nonce_length(self.kind);
        let tag_size = self.kind.tag_size();
        dst.reserve(nonce_length + 8 + 8 + 1 + 8 + 8 + 2 + padding_length as usize + address__length(address) + item.remaining() + tag_size);
        if nonce_length > 0 {
            unsafe {
                dst.advance_mut(nonce_length);
            }
            let nonce = dst.v_range_mut(0,nonce_length);
            dice::fill_bytes(nonce);
        }
        let ghost nonce_g = dst@;
        let ghost sid = session.server_session_id;
        let ghost pid = session.packet_id;
        let ghost hdr = be_bytes(sid as nat, 8) + be_bytes(pid as nat, 8);
        proof { lemma_be_bytes_len(sid as nat, 8); lemma_be_bytes_len(pid as nat, 8); assert(nonce_g.len() == nonce_length); }
        dst.put_u64(session.server_session_id);
        dst.put_u64(session.packet_id);
        dst.put_u8(Mode::Server.to_u8());
        dst.put_u64(a22__now()?);
        dst.put_u64(session.client_session_id);
        dst.put_u16(padding_length);
        let ghost d_before_pad = dst@;
        if padding_length > 0 {
            unsafe {
                dst.advance_mut(padding_length as usize);
            }
        }
        let ghost pad = dst@.skip(d_before_pad.len() as int);
        proof { assert(dst@ =~= d_before_pad + pad); assert(d_before_pad =~= nonce_g + hdr + seq![1u8] + be_bytes(wall_clock() as nat, 8) + be_bytes(session.client_session_id as nat, 8) + be_bytes(padding_length as nat, 2)) by { assert(seq![1u8] =~= Seq::<u8>::empty().push(1u8)); } }
        address__encode(address, dst);
        dst.extend_from_slice(&item);
        let ghost body = udp22_body_s2c(wall_clock(), session.client_session_id, pad, absaddr(*address), item@);
        proof {
            assert(pad.len() == padding_length);
            assert(seq![1u8] =~= Seq::<u8>::empty().push(1u8));
            assert(dst@ =~= nonce_g + hdr + body);
        }
        let ghost plain = dst@;
        unsafe { dst.advance_mut(tag_size) };
        match self.kind {
            CipherKind::Aead2022Blake3Aes128Gcm | CipherKind::Aead2022Blake3Aes256Gcm => {
                proof {
                    assert(nonce_g.len() == 0);
                    assert(plain =~= hdr + Seq::<u8>::empty() + body);
                    lemma_udp_parts(dst@, hdr, Seq::<u8>::empty(), body);
                    assert(dst@.skip(16).skip(0) =~= dst@.skip(16));
                }
                let (header, text) = dst.split_at_mut(16);
                let mut nonce = [0; 12];
                nonce.copy_from_slice(&header[4..16]);
                let key = if let Some(user) = &session.user {
                    /*R2*/
                    &user.key
                } else {
                    context.key
                };
                a22udp__aes_encrypt_in_place(self.kind, key, header)?;
                let cipher = unsafe { udp__get_cipher(self.kind, key, session.server_session_id) };
                cipher.encrypt_in_place_detached(&nonce, &[], text).map_err(|e| verif_err())?;
                proof {
                    let uk = session_key_of(*context, *session);
                    let sealed = aead_seal(alg_of(self.kind), udp22_session_key(self.kind, uk, sid), hdr.subrange(4, 16), Seq::empty(), body);
                    assert(nonce@ =~= hdr.subrange(4, 16));
                    assert(dst@.take(16) == aes_ecb_enc(aes_bits(self.kind), uk, hdr));
                    assert(dst@.skip(16) =~= sealed);
                    assert(dst@ =~= aes_ecb_enc(aes_bits(self.kind), uk, hdr) + Seq::<u8>::empty() + sealed);
                    assert(udp22_s2c_is(self.kind, *context, uk, sid, pid, session.client_session_id, absaddr(*address), item@, nonce_g, pad, dst@));
                }
                Ok(())
            }
            CipherKind::Aead2022Blake3ChaCha8Poly1305 | CipherKind::Aead2022Blake3ChaCha20Poly1305 => {
                proof {
                    assert(nonce_g.len() == 24);
                    assert(plain =~= nonce_g + Seq::<u8>::empty() + (hdr + body));
                    lemma_udp_parts(dst@, nonce_g, Seq::<u8>::empty(), hdr + body);
                    assert(dst@.skip(24).skip(0) =~= dst@.skip(24));
                }
                let (nonce, plaintext) = dst.split_at_mut(nonce_length);
                let cipher = unsafe { udp__get_cipher(self.kind, context.key, session.server_session_id) };
                cipher.encrypt_in_place_detached(nonce, &[], plaintext).map_err(|e| verif_err())?;
                proof {
                    assert(udp22_s2c_is(self.kind, *context, session_key_of(*context, *session), sid, pid, session.client_session_id, absaddr(*address), item@, nonce_g, pad, dst@));
                }
                Ok(())
            }
            _ => return Err(verif_err()),
        }
    }

    fn new_encoder(&self, key: &[u8], salt: &[u8]) -> (r: anyhow::Result<ChunkEncoder>)
        requires !(self.kind is Unknown), salt@.len() >= key_len_of(self.kind),
        ensures r matches Ok(e) ==> e.wf() && e.auth.alg() == alg_of(self.kind) && is_init(e.auth.n()) && e.auth.key() == legacy_subkey(self.kind, key@, salt@),
    {
        ssaead__new_encoder(self.kind, key, salt).map_err(|e| verif_err())
    }

    fn decode(&self, context: &udp__Context<N>, src: &mut BytesMut) -> (r: anyhow::Result<udp__SessionPacket<N>>)
        requires self.wf(context),
        ensures
            //#C11 C07
            r is Err == udp_err(*self, *context, old(src)@),
            //#C02 C05 C06 C03
            // legacy datagram: delivered only if the whole body opens under the sub-key of the received salt; address and payload are exactly the decrypted bytes
            (!self.kind.is_2022() && r is Ok) ==> ({
                let k = context.key@.len() as int;
                old(src)@.len() >= k && (aead_open(alg_of(self.kind), legacy_subkey(self.kind, context.key@, old(src)@.take(k)), Seq::new(12, |i: int| 0u8), Seq::empty(), old(src)@.skip(k)) matches Some(p)
                    && (parse5(p) matches Some((v, n)) && absaddr(r->Ok_0.1) == v && canonical(r->Ok_0.1) && r->Ok_0.0@ == p.skip(n as int))) }),
    {
        match (self.kind.is_aead_2022(), context.stream_type) {
            (true, Mode::Client) => self.decode_server_packet_aead_2022(context, src),
            (true, Mode::Server) => self.decode_client_packet_aead_2022(context, src),
            (false, _) => {
                if src.remaining() < context.key.len() {
                    return Err(verif_err());
                }
                let salt = src.split_to(context.key.len());
                let mut decoder = self.new_decoder(context.key, &salt).map_err(verif_err_from)?;
                proof { lemma_init_first(decoder.n()); }
                let mut packet = decoder.decode_packet(src).map_err(|e| verif_err())?;
                let address = address__decode(&mut packet)?;
                Ok((packet, address, udp__Session::default()))
            }
        }
    }

    // for client mode
    fn decode_server_packet_aead_2022(&self, context: &udp__Context<N>, src: &mut BytesMut) -> (r: Result<udp__SessionPacket<N>, anyhow::Error>)
        requires self.wf(context), self.kind.is_2022(), context.stream_type is Client,
        ensures
            //#C05 C10 C02 C03 C11
            // a server packet is delivered exactly if it opens under the pre-shared key, is typed as a server packet, is fresh and well-formed
            r is Err == !(clock_ok() && udp22_parse(self.kind, context.key@, context.key@, 0, true, old(src)@) is Some),
            //#C05 C10 C02 C03 C14
            r matches Ok(t) ==> (udp22_parse(self.kind, context.key@, context.key@, 0, true, old(src)@) matches Some(p)
                && t.0@ == p.body.payload && absaddr(t.1) == p.body.addr && canonical(t.1)
                && t.2.client_session_id == p.body.csid && t.2.server_session_id == p.sid && t.2.packet_id == p.pid && t.2.user is None),
    {
        fn decrypt_message<'a, const N: usize>(
            kind: CipherKind,
            src: &'a mut BytesMut,
            context: &udp__Context<'_, N>,
        ) -> (r: Result<(u64, u64, &'a [u8]), anyhow::Error>)
            requires kind.is_2022(), context.key@.len() == key_len_of(kind), old(src)@.len() >= nonce_len22(kind) + 32,
            ensures
                //#C05 C03
                match udp22_open(kind, context.key@, context.key@, 16, old(src)@) {
                    Some((sid, pid, b)) => r matches Ok(t) && t.0 == sid && t.1 == pid && t.2@ == b,
                    None => r is Err,
                },
                r matches Ok(t) ==> t.2@.len() + nonce_len22(kind) + 32 == old(src)@.len(),
        {
            let ghost s0 = src@;
            let tag_size = kind.tag_size();
            match kind {
                CipherKind::Aead2022Blake3Aes128Gcm | CipherKind::Aead2022Blake3Aes256Gcm => {
                    let (session_id_packet_id, text) = src.split_at_mut(16);
                    a22udp__aes_decrypt_in_place(kind, context.key, session_id_packet_id)?;
                    let ghost hdr = session_id_packet_id@;
                    proof { assert(hdr == udp22_hdr(kind, context.key@, s0)); lemma_take_is_subrange(hdr, 8); }
                    let mut cursor = Cursor::new(session_id_packet_id);
                    let server_session_id = cursor.get_u64();
                    let packet_id = cursor.get_u64();
                    let session_id_packet_id = cursor.into_inner();
                    let nonce = &session_id_packet_id[4..16];
                    let cipher = unsafe { udp__get_cipher(kind, context.key, server_session_id) };
                    let ghost ct = text@;
                    proof { assert(ct == s0.skip(16)); }
                    cipher.decrypt_in_place_detached(nonce, &[], text).map_err(|e| verif_err())?;
                    let ghost dec_text = text@;
                    let text = &text[..text.len() - tag_size];
                    proof { lemma_take_is_subrange(dec_text, ct.len() - 16); }
                    Ok((server_session_id, packet_id, text))
                }
                CipherKind::Aead2022Blake3ChaCha8Poly1305 | CipherKind::Aead2022Blake3ChaCha20Poly1305 => {
                    let (nonce, text) = src.split_at_mut(a22udp__nonce_length(kind));
                    let session_id = {
                        let slice = &text[..8];
                        let slice: &[u64] = verif_from_raw_parts(slice, 1);
                        u64::from_be(slice[0])
                    };
                    let cipher = unsafe { udp__get_cipher(kind, context.key, session_id) };
                    let ghost ct = text@;
                    proof { assert(ct == s0.skip(24)); assert(nonce@ == s0.take(24)); lemma_take_all(context.key@); }
                    cipher.decrypt_in_place_detached(nonce, &[], text).map_err(|e| verif_err())?;
                    let ghost p = text@.take(ct.len() - 16);
                    let mut cursor = Cursor::new(text);
                    let server_session_id = cursor.get_u64();
                    let packet_id = cursor.get_u64();
                    let text = cursor.into_inner();
                    let ghost cursor_text = text@;
                    proof { lemma_take_is_subrange(p, 8); lemma_take_sub(text@, ct.len() - 16, 0, 8); lemma_take_sub(text@, ct.len() - 16, 8, 16); }
                    let text = &text[16..text.len() - tag_size];
                    proof { lemma_take_skip(cursor_text, ct.len() - 16, 16); }
                    Ok((server_session_id, packet_id, text))
                }
                _ => return Err(verif_err()),
            }
        }

        let ghost s0 = src@;
        proof { if s0.len() >= nonce_len22(self.kind) + 32 { lemma_udp22_open_len(self.kind, context.key@, context.key@, 0, s0); } }

        let nonce_length = a22udp__nonce_length(self.kind);
        let tag_size = self.kind.tag_size();
        let header_length = nonce_length + tag_size + 8 + 8 + 1 + 8 + 8 + 2;
        if src.remaining() < header_length {
            return Err(verif_err());
        }
        let (server_session_id, packet_id, text) = decrypt_message(self.kind, src, context)?;
        let ghost b = text@;
        proof { lemma_udp22_body_cuts(b); }
        let mut packet = BytesMut::with_capacity(text.len());
        packet.extend_from_slice(text);
        proof { assert(Seq::<u8>::empty() + b =~= b); }
        let stream_type = packet.get_u8();
        let expect_stream_type = context.stream_type.expect_u8();
        if stream_type != expect_stream_type {
            return Err(verif_err());
        }
        a22__validate_timestamp(packet.get_u64()).map_err(verif_err_from)?;
        let client_session_id = packet.get_u64();
        let padding_length = packet.get_u16();
        if packet.remaining() < padding_length as usize {
            return Err(verif_err());
        }
        if padding_length > 0 {
            packet.advance(padding_length as usize);
        }
        proof { lemma_skip_skip(b, 19, padding_length as int); }
        let session = udp__Session::new(client_session_id, server_session_id, packet_id, None);
        let address = address__decode(&mut packet)?;
        proof { let n = parse5(b.skip(19 + padding_length))->Some_0.1; lemma_parse5_len(b.skip(19 + padding_length)); lemma_skip_skip(b, 19 + padding_length, n as int); }
        Ok((packet, address, session))
    }

    // for server mode
    fn decode_client_packet_aead_2022(&self, context: &udp__Context<N>, src: &mut BytesMut) -> (r: Result<udp__SessionPacket<N>, anyhow::Error>)
        requires self.wf(context), self.kind.is_2022(), context.stream_type is Server,
        ensures
            //#C05 C06 C10 C02 C03 C11
            // a client packet is delivered exactly if it opens under the pre-shared key (with users: under the key of the registered user named by
            // the identity header), is typed as a client packet, is fresh and well-formed
            r is Err == !(clock_ok() && udp22_server_parse(self.kind, *context, old(src)@) is Some),
            //#C05 C06 C10 C02 C03 C14
            r matches Ok(t) ==> (udp22_server_parse(self.kind, *context, old(src)@) matches Some(pu)
                && t.0@ == pu.0.body.payload && absaddr(t.1) == pu.0.body.addr && canonical(t.1)
                && t.2.client_session_id == pu.0.sid && t.2.server_session_id == 0 && t.2.packet_id == pu.0.pid
                && (match pu.1 { Some(u) => t.2.user matches Some(a) && *a == u && context.user_manager->0.registered(u), None => t.2.user is None })),
    {
        let ghost s0 = src@;
        let ghost eihg: int = udp22_eih(self.kind, *context);
        proof { if s0.len() < nonce_len22(self.kind) + 43 + eihg { lemma_udp22_server_short(self.kind, *context, s0); } }
        let nonce_length = a22udp__nonce_length(self.kind);
        let tag_size = self.kind.tag_size();
        let user_manager = context.user_manager.as_ref();
        let require_eih = self.kind.support_eih() && user_manager.is_some_and(|u| -> (r: bool) ensures r == (u.count() > 0) { u.user_count() > 0 });
        proof { assert(require_eih == (eihg == 16)); }
        let eih_size = if require_eih { 16 } else { 0 };
        let header_length = nonce_length + tag_size + 8 + 8 + eih_size + 1 + 8 + 2;
        if src.remaining() < header_length {
            return Err(verif_err());
        }
        let mut user = None;
        let (session_id, packet_id, mut packet) = match self.kind {
            CipherKind::Aead2022Blake3Aes128Gcm | CipherKind::Aead2022Blake3Aes256Gcm => {
                let mut session_id_packet_id = src.split_to(16);
                a22udp__aes_decrypt_in_place(self.kind, context.key, &mut session_id_packet_id)?;
                let ghost hdr = session_id_packet_id@;
                proof { assert(hdr == udp22_hdr(self.kind, context.key@, s0)); lemma_take_is_subrange(hdr, 8); }
                let mut nonce: [u8; 12] = [0; 12];
                nonce.copy_from_slice(&session_id_packet_id[4..16]);
                let mut cursor = Cursor::new(session_id_packet_id);
                let session_id = cursor.get_u64();
                let packet_id = cursor.get_u64();
                let session_id_packet_id = cursor.into_inner();
                if require_eih {
                    let mut eih = src.split_to(16);
                    proof { lemma_skip_take(s0, 16, 16); lemma_skip_skip(s0, 16, 16); }
                    /*R2*/
                    a22udp__aes_decrypt_in_place(self.kind, context.key, &mut eih)?;
                    eih.v_xor_with(session_id_packet_id);
                    proof {
                        assert(eih@ == udp22_user_hash(self.kind, context.key@, s0));
                        if context.user_manager->0.lookup(udp22_user_hash(self.kind, context.key@, s0)) is None { lemma_udp22_server_nouser(self.kind, *context, s0); }
                    }
                    if let Some(_user) = user_manager.unwrap().clone_user_by_hash(&eih) {
                        /*R2*/
                        user = Some(_user);
                    } else {
                        return Err(verif_err());
                    }
                }
                let key = if let Some(ref user) = user { &user.key } else { context.key };
                let ghost gu: Option<ServerUser<N>> = user_val(user);
                proof { assert(udp22_key_choice(self.kind, *context, s0, key@, gu)); lemma_udp22_server_compose(self.kind, *context, s0, key@, gu); }
                let cipher = unsafe { udp__get_cipher(self.kind, key, session_id) };
                let ghost src1 = src@;
                let mut packet = src.split_off(0);
                proof { lemma_take_all(src1); assert(packet@ == s0.skip(16 + eihg)); }
                cipher.decrypt_in_place(&nonce, &[], &mut packet).map_err(|e| verif_err())?;
                proof { assert(udp22_open(self.kind, context.key@, key@, 16 + eihg, s0) == Some((session_id, packet_id, packet@))); lemma_udp22_open_len(self.kind, context.key@, key@, eihg, s0); }
                (session_id, packet_id, packet)
            }
            CipherKind::Aead2022Blake3ChaCha8Poly1305 | CipherKind::Aead2022Blake3ChaCha20Poly1305 => {
                let (nonce, text) = src.split_at_mut(nonce_length);
                let session_id = {
                    let slice = &text[..8];
                    let slice: &[u64] = verif_from_raw_parts(slice, 1);
                    u64::from_be(slice[0])
                };
                let cipher = unsafe { udp__get_cipher(self.kind, context.key, session_id) };
                let ghost ct = text@;
                proof { assert(ct == s0.skip(24)); assert(nonce@ == s0.take(24)); lemma_take_all(context.key@);
                    assert(udp22_key_choice(self.kind, *context, s0, context.key@, None)); lemma_udp22_server_compose(self.kind, *context, s0, context.key@, None); }
                cipher.decrypt_in_place_detached(nonce, &[], text).map_err(|e| verif_err())?;
                let ghost p = text@.take(ct.len() - 16);
                let mut cursor = Cursor::new(text);
                let server_session_id = cursor.get_u64();
                let packet_id = cursor.get_u64();
                let text = cursor.into_inner();
                let ghost cursor_text = text@;
                proof { lemma_take_is_subrange(p, 8); lemma_take_sub(text@, ct.len() - 16, 0, 8); lemma_take_sub(text@, ct.len() - 16, 8, 16); }
                let text = &text[16..text.len() - tag_size];
                proof { lemma_take_skip(cursor_text, ct.len() - 16, 16); assert(udp22_open(self.kind, context.key@, context.key@, 16 + eihg, s0) == Some((server_session_id, packet_id, text@))); lemma_udp22_open_len(self.kind, context.key@, context.key@, eihg, s0); }
                (server_session_id, packet_id, BytesMut::from(text))
            }
            _ => return Err(verif_err()),
        };
        let ghost b = packet@;
        proof { lemma_udp22_body_cuts(b); }
        let stream_type = packet.get_u8();
        if stream_type != Mode::Client.to_u8() {
            return Err(verif_err());
        }
        a22__validate_timestamp(packet.get_u64()).map_err(verif_err_from)?;
        let padding_length = packet.get_u16();
        if packet.remaining() < padding_length as usize {
            return Err(verif_err());
        }
        if padding_length > 0 {
            packet.advance(padding_length as usize);
        }
        proof { lemma_skip_skip(b, 11, padding_length as int); }
        let session = udp__Session::new(session_id, 0, packet_id, user);
        let address = address__decode(&mut packet)?;
        proof { let n = parse5(b.skip(11 + padding_length))->Some_0.1; lemma_parse5_len(b.skip(11 + padding_length)); lemma_skip_skip(b, 11 + padding_length, n as int); }
        Ok((packet, address, session))
    }

    fn new_decoder(&self, key: &[u8], salt: &BytesMut) -> (r: anyhow::Result<ChunkDecoder>)
        requires !(self.kind is Unknown), salt@.len() >= key_len_of(self.kind),
        ensures salt@.len() <= 5100 ==> r is Ok,
            r matches Ok(d) ==> d.wf() && d.alg() == alg_of(self.kind) && is_init(d.n()) && d.key() == legacy_subkey(self.kind, key@, salt@),
    {
        ssaead__new_decoder(self.kind, key, salt).map_err(|e| verif_err())
    }
}

//@@ octo-squirrel/src/codec/shadowsocks/udp.rs:343-343  type SessionPacket  sha=2a9212c2fdd9b1f5
pub type udp__SessionPacket<const N: usize> = (BytesMut, Address, udp__Session<N>);

//@@ octo-squirrel/src/codec/shadowsocks/udp.rs:345-348  struct SessionCodec  sha=3689553d9c2c80f8
pub struct udp__SessionCodec<'a, const N: usize> {
    context: udp__Context<'a, N>,
    cipher: udp__AEADCipherCodec<N>,
}

//@@ octo-squirrel/src/codec/shadowsocks/udp.rs:350-369  impl SessionCodec  sha=dfceca2ce4f76fd4
impl<'a, const N: usize> udp__SessionCodec<'a, N> {
    spec fn wf(&self) -> bool { self.cipher.wf(&self.context) }
    fn new(context: udp__Context<'a, N>, cipher: udp__AEADCipherCodec<N>) -> (r: udp__SessionCodec<'a, N>)
        ensures r.context == context, r.cipher == cipher,
    {
        udp__SessionCodec { context, cipher }
    }

    fn encode(&self, verif_arg2: udp__SessionPacket<N>, dst: &mut BytesMut) -> (r: anyhow::Result<()>)
        requires self.wf(), repr(verif_arg2.1),
            self.cipher.kind.is_2022() ==> old(dst)@.len() == 0 && (self.context.stream_type is Client ==> self.context.identity_keys@.len() <= 0x0fff_ffff),
        ensures
            //#C02 C03 C12
            (self.cipher.kind.is_2022() && self.context.stream_type is Client && r is Ok) ==> exists|nonce: Seq<u8>, pad: Seq<u8>| #[trigger] udp22_c2s_is(self.cipher.kind, self.context, verif_arg2.2.client_session_id, verif_arg2.2.packet_id, absaddr(verif_arg2.1), verif_arg2.0@, nonce, pad, final(dst)@),
            //#C02 C03 C12 C06
            (self.cipher.kind.is_2022() && self.context.stream_type is Server && r is Ok) ==> exists|nonce: Seq<u8>, pad: Seq<u8>| #[trigger] udp22_s2c_is(self.cipher.kind, self.context, session_key_of(self.context, verif_arg2.2), verif_arg2.2.server_session_id, verif_arg2.2.packet_id,
                verif_arg2.2.client_session_id, absaddr(verif_arg2.1), verif_arg2.0@, nonce, pad, final(dst)@),
    { let (content, address, session) = verif_arg2;
        self.cipher.encode(&self.context, &session, &address, content, dst)
    }

    fn decode(&self, src: &mut BytesMut) -> (r: anyhow::Result<Option<udp__SessionPacket<N>>>)
        requires self.wf(),
        ensures
            //#C11 C07 C02
            // a datagram is consumed whole; an error is exactly an undecodable datagram
            r is Err == (old(src)@.len() > 0 && udp_err(self.cipher, self.context, old(src)@)),
            r matches Ok(None) ==> old(src)@.len() == 0,
            final(src)@.len() == 0,
    {
        let ghost s0 = src@;
        if src.is_empty() {
            Ok(None)
        } else {
            let len = src.len();
            let mut src = src.split_to(len);
            proof { assert(src@ =~= s0); }
            let (content, address, session) = self.cipher.decode(&self.context, &mut src)?;
            Ok(Some((content, address, session)))
        }
    }
}

//@@ octo-squirrel/src/codec/shadowsocks/udp.rs:371-377  struct Context  sha=1530ebc6b918883e
pub struct udp__Context<'a, const N: usize> {
    stream_type: Mode,
    user_manager: Option<Arc<ServerUserManager<N>>>,
    key: &'a [u8],
    identity_keys: &'a [[u8; N]],
}

//@@ octo-squirrel/src/codec/shadowsocks/udp.rs:379-388  impl Context  sha=8c24f917f48b55c1
impl<const N: usize> udp__Context<'_, N> {
    fn new<'a>(
        stream_type: Mode,
        user_manager: Option<Arc<ServerUserManager<N>>>,
        key: &'a [u8],
        identity_keys: &'a [[u8; N]],
    ) -> (r: udp__Context<'a, N>)
        ensures r.stream_type == stream_type, r.user_manager == user_manager, r.key@ == key@, r.identity_keys@ == identity_keys@,
    {
        udp__Context { stream_type, user_manager, key, identity_keys }
    }
}

//@@ octo-squirrel/src/codec/shadowsocks/udp.rs:390-396  struct Session  sha=f14d3bc94bb4d5cf
pub struct udp__Session<const N: usize> {
    pub client_session_id: u64,
    pub server_session_id: u64,
    pub packet_id: u64,
    pub user: Option<Arc<ServerUser<N>>>,
}

//@@ octo-squirrel/src/codec/shadowsocks/udp.rs:398-406  impl Session  sha=79c481f875a751f4
impl<const N: usize> udp__Session<N> {
    fn new(client_session_id: u64, server_session_id: u64, packet_id: u64, user: Option<Arc<ServerUser<N>>>) -> (r: Self)
        ensures r.client_session_id == client_session_id, r.server_session_id == server_session_id, r.packet_id == packet_id, r.user == user,
    {
        Self { client_session_id, server_session_id, packet_id, user }
    }

    fn increase_packet_id(&mut self)
        ensures
            //#C12
            // packet ids only ever advance: the id is part of the AEAD nonce, so it must never repeat within a session
            final(self).packet_id == old(self).packet_id + 1,
            final(self).client_session_id == old(self).client_session_id, final(self).server_session_id == old(self).server_session_id, final(self).user == old(self).user,
    {
        self.packet_id = self.packet_id.wrapping_add(1);
    }
}

//@@ octo-squirrel-client/src/client/shadowsocks.rs:133-135  mod udp / fn new_key  sha=bd601572270d91f5
fn new_key(from: SocketAddr, verif_arg2: &Address) -> (r: SocketAddr)
    ensures
        //#C02
        r == from,
{
        from
    }

//@@ octo-squirrel-client/src/client/shadowsocks.rs:137-140  mod udp / fn to_outbound_send  sha=31db5f18cb2ff9f4
fn to_outbound_send(item: DatagramPacket, proxy: SocketAddr) -> (r: (DatagramPacket, SocketAddr))
    ensures
        //#C02
        r.0 == item && r.1 == proxy,
{
        let (content, target) = item;
        ((content, target), proxy)
    }

//@@ octo-squirrel-client/src/client/shadowsocks.rs:142-145  mod udp / fn to_inbound_recv  sha=fc7358620b7919dc
fn to_inbound_recv(item: (DatagramPacket, SocketAddr), verif_arg2: &Address, sender: SocketAddr) -> (r: (DatagramPacket, SocketAddr))
    ensures
        //#C02
        r.0 == item.0 && r.1 == sender,
{
        let (item, _) = item;
        (item, sender)
    }

//@@ octo-squirrel-client/src/client/shadowsocks.rs:147-151  mod udp / struct DatagramPacketCodec  sha=a064ded263e50c89
pub struct DatagramPacketCodec<'a, const N: usize> {
        codec: udp__SessionCodec<'a, N>,
        session: udp__Session<N>,
        filter: PacketWindowFilter,
    }

//@@ octo-squirrel-client/src/client/shadowsocks.rs:153-157  mod udp / impl DatagramPacketCodec  sha=7d7a12f7c1d658b1
impl<const N: usize> DatagramPacketCodec<'_, N> {
        fn new(codec: udp__SessionCodec<N>) -> (r: DatagramPacketCodec<'_, N>)
            ensures r.codec == codec,
                //#C11 C12
                fresh(r.filter) && r.session.packet_id == 0,
        {
            DatagramPacketCodec { codec, session: udp__Session::from(Mode::Client), filter: PacketWindowFilter::default() }
        }
    }

//@@ octo-squirrel-client/src/client/shadowsocks.rs:159-166  mod udp / impl Encoder for DatagramPacketCodec  sha=d3cec9aeed301659
impl<const N: usize> DatagramPacketCodec<'_, N> {

        fn encode(&mut self, verif_arg2: DatagramPacket, dst: &mut BytesMut) -> (r: anyhow::Result<()>)
            requires old(self).codec.wf(), repr(verif_arg2.1),
                old(self).codec.cipher.kind.is_2022() ==> old(dst)@.len() == 0 && old(self).codec.context.identity_keys@.len() <= 0x0fff_ffff,
            ensures
                //#C12
                final(self).session.packet_id == old(self).session.packet_id + 1,
                //#C02 C12 C03
                // the datagram that goes out is one SIP022 packet of this client session carrying the packet id just taken, the target and the whole payload
                (old(self).codec.cipher.kind.is_2022() && old(self).codec.context.stream_type is Client && r is Ok) ==> exists|nonce: Seq<u8>, pad: Seq<u8>| #[trigger] udp22_c2s_is(old(self).codec.cipher.kind, old(self).codec.context,
                    old(self).session.client_session_id, final(self).session.packet_id, absaddr(verif_arg2.1), verif_arg2.0@, nonce, pad, final(dst)@),
                final(self).codec == old(self).codec, final(self).filter == old(self).filter,
        { let (content, addr) = verif_arg2;
            self.session.increase_packet_id();
            self.codec.encode((content, addr, self.session.clone()), dst)
        }
    }

//@@ octo-squirrel-client/src/client/shadowsocks.rs:168-190  mod udp / impl Decoder for DatagramPacketCodec  sha=b2d6ea905290fb89
impl<const N: usize> DatagramPacketCodec<'_, N> {

        fn decode(&mut self, src: &mut BytesMut) -> (r: anyhow::Result<Option<DatagramPacket>>)
            requires old(self).codec.wf(),
            ensures final(self).codec == old(self).codec,
                //#C11
                // a refused (duplicate / stale) packet id is dropped: the only error is an undecodable datagram
                r is Err ==> (old(src)@.len() > 0 && udp_err(old(self).codec.cipher, old(self).codec.context, old(src)@)),
                //#C11
                // every datagram passes through one step of the packet window, and is delivered iff the window accepts its id
                (r is Ok && old(src)@.len() > 0) ==> (exists|pid: u64, acc: bool| #[trigger] step_ok(old(self).filter, pid, u64::MAX, final(self).filter, acc) && (acc == (r matches Ok(Some(_))))),
                //#C12
                final(self).session.packet_id == old(self).session.packet_id && final(self).session.client_session_id == old(self).session.client_session_id,
        {
            if src.is_empty() {
                Ok(None)
            } else {
                match self.codec.decode(src)? {
                    Some((content, addr, session)) => {
                        if !self.filter.validate_packet_id(session.packet_id, u64::MAX) {
                            /*R2*/
                            proof { assert(step_ok(old(self).filter, session.packet_id, u64::MAX, self.filter, false)); }
                            return Ok(None);
                        }
                        proof { assert(step_ok(old(self).filter, session.packet_id, u64::MAX, self.filter, true)); }
                        self.session.server_session_id = session.server_session_id;
                        proof { assert(step_ok(old(self).filter, session.packet_id, u64::MAX, self.filter, true)); }
                        Ok(Some((content, addr)))
                    }
                    None => Ok(None),
                }
            }
        }
    }

//@@ octo-squirrel/src/codec/shadowsocks/aead_2022/udp.rs:21-28  fn nonce_length  sha=dfb9590ac15c2102
/// SIP022 UDP: the AES variants use no separate nonce (session id | packet id is the nonce), the ChaCha variants a 24-byte XChaCha nonce
fn a22udp__nonce_length(kind: CipherKind) -> (r: usize)
    requires kind.is_2022(),
    ensures
        //#C03 C16
        r == (if kind.has_eih() { 0int } else { 24int }),
{
    match kind {
        CipherKind::Aead2022Blake3Aes128Gcm | CipherKind::Aead2022Blake3Aes256Gcm => 0,
        CipherKind::Aead2022Blake3ChaCha8Poly1305 => 24,
        CipherKind::Aead2022Blake3ChaCha20Poly1305 => 24,
        _ => verif_panic(),
    }
}

//@@ octo-squirrel/src/codec/shadowsocks/aead_2022/udp.rs:30-46  fn new_cipher  sha=024f06d68781379f
fn a22udp__new_cipher(kind: CipherKind, key: &[u8], session_id: u64) -> (r: CipherMethod)
    requires kind.is_2022(), key@.len() >= key_len_of(kind),
    ensures
        //#C16 C03
        // SIP022 UDP: AES-GCM under the per-session sub-key; XChaCha8 / XChaCha20-Poly1305 under the pre-shared key itself
        kind.has_eih() ==> (r.alg() == alg_of(kind) && r.key() == blake3_kdf("shadowsocks 2022 session subkey"@, key@ + be_bytes(session_id as nat, 8)).take(key_len_of(kind) as int)),
        //#C16 C03
        kind is Aead2022Blake3ChaCha8Poly1305 ==> (r.alg() == 4 && r.key() == key@.take(32)),
        //#C16 C03
        kind is Aead2022Blake3ChaCha20Poly1305 ==> (r.alg() == 5 && r.key() == key@.take(32)),
{
    match kind {
        CipherKind::Aead2022Blake3Aes128Gcm | CipherKind::Aead2022Blake3Aes256Gcm => {
            let key = a22__session_sub_key(key, &session_id.v_to_be_bytes());
            CipherMethod::new(kind, &key)
        }
        CipherKind::Aead2022Blake3ChaCha8Poly1305 => {
            let key = &key[..32];
            CipherMethod::XChaCha8Poly1305(XChaCha8Poly1305::new(Key::<XChaCha8Poly1305>::from_slice(key)))
        }
        CipherKind::Aead2022Blake3ChaCha20Poly1305 => {
            let key = &key[..32];
            CipherMethod::XChaCha20Poly1305(XChaCha20Poly1305::new(Key::<XChaCha20Poly1305>::from_slice(key)))
        }
        _ => verif_panic(),
    }
}

//@@ octo-squirrel/src/codec/shadowsocks/aead_2022/udp.rs:86-104  fn with_eih  sha=580035083c27ddcf
/// SIP022 3.2.4 (UDP identity headers): header j = AES-ECB(iPSK_j, hash(iPSK_{j+1})[0..16] xor (session id | packet id)); the last one names the user key
spec fn udp_eih_one(kind: CipherKind, ipsk: Seq<u8>, next: Seq<u8>, sidpid: Seq<u8>) -> Seq<u8> {
    aes_ecb_enc(aes_bits(kind), ipsk, xor_seq(blake3_hash(next).take(16), sidpid))
}
spec fn udp_eih_prefix(kind: CipherKind, key: Seq<u8>, iks: Seq<Seq<u8>>, sidpid: Seq<u8>, n: int) -> Seq<u8>
    decreases n
{
    if n <= 0 { Seq::empty() } else { udp_eih_prefix(kind, key, iks, sidpid, n - 1) + udp_eih_one(kind, iks[n - 1], if n == iks.len() { key } else { iks[n] }, sidpid) }
}
fn a22udp__with_eih<const N: usize>(
    kind: CipherKind,
    key: &[u8],
    identity_keys: &[[u8; N]],
    session_id_packet_id: &[u8],
    dst: &mut BytesMut,
) -> (r: anyhow::Result<()>)
    requires kind.has_eih(), N == key_len_of(kind),
    ensures
        //#C03 C06
        r is Ok ==> final(dst)@ == old(dst)@ + udp_eih_prefix(kind, key@, identity_keys@.map_values(|k: [u8; N]| k@), session_id_packet_id@, identity_keys@.len() as int),
        r is Ok,
{
    let ghost iks = identity_keys@.map_values(|k: [u8; N]| k@);
    let len = identity_keys.len();
    for i in 0..len
        invariant kind.has_eih(), N == key_len_of(kind), len == identity_keys@.len(), iks == identity_keys@.map_values(|k: [u8; N]| k@),
            dst@ == old(dst)@ + udp_eih_prefix(kind, key@, iks, session_id_packet_id@, i as int),
    {
        let mut identity_header = [0; 16];
        if i != len - 1 {
            a22udp__make_eih(kind, &identity_keys[i], &identity_keys[i + 1], session_id_packet_id, &mut identity_header)?;
        } else {
            a22udp__make_eih(kind, &identity_keys[i], key, session_id_packet_id, &mut identity_header)?;
        }
        dst.extend_from_slice(&identity_header);
        proof { assert(dst@ =~= old(dst)@ + udp_eih_prefix(kind, key@, iks, session_id_packet_id@, i + 1)); }
    }
    Ok(())
}

//@@ octo-squirrel/src/codec/shadowsocks/aead_2022/udp.rs:106-114  fn make_eih  sha=66392f5da1017ba6
fn a22udp__make_eih(kind: CipherKind, ipsk: &[u8], ipskn: &[u8], session_id_packet_id: &[u8], identity_header: &mut [u8; 16]) -> (r: anyhow::Result<()>)
    requires kind.has_eih(),
    ensures
        //#C03 C06 C16
        r is Ok == (ipsk@.len() == key_len_of(kind)),
        r is Ok ==> final(identity_header)@ == udp_eih_one(kind, ipsk@, ipskn@, session_id_packet_id@),
{
    let hash = blake3::hash(ipskn);
    let plain_text = &hash.as_bytes()[..16];
    identity_header.copy_from_slice(plain_text);
    identity_header.v_xor_with(session_id_packet_id);
    let res = a22udp__aes_encrypt_in_place(kind, ipsk, identity_header);
    /*R2*/
    res
}
