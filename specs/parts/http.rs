// ---- part http: client/handshake.rs recognize_http: the request-target of a local HTTP proxy request -> the tunnel target (C13, C07) ----
// RFC 3986 3.2: "The authority component is preceded by a double slash ("//") and is terminated by the next slash ("/"), question mark ("?") ...
// or by the end of the URI."  RFC 7230 5.3.2 absolute-form (http://authority/path?query), 5.3.3 authority-form (CONNECT host:port).
spec fn sep3() -> Seq<u8> { seq![58u8, 47u8, 47u8] }
/// `s`: where the authority starts: just after the first "://", or 0 when there is no "://" (authority-form)
spec fn auth_start(b: Seq<u8>, s: int) -> bool {
    (no_occ(b, sep3()) && s == 0) || first_occ(b, sep3(), s - 3)
}
/// `e`: where the authority that starts at `s` ends: at the next '/' or '?', or at the end
spec fn auth_end(b: Seq<u8>, s: int, e: int) -> bool {
    0 <= s <= e <= b.len() && (e == b.len() || b[e] == 47u8 || b[e] == 63u8) && (forall|k: int| s <= k < e ==> b[k] != 47u8 && b[k] != 63u8)
}
/// the request-target is one the property speaks about: what precedes the first "://" is a scheme (no '/', '?', ':'), the authority is not empty,
/// and authority-form (no scheme) has no path
spec fn target_wf(b: Seq<u8>, s: int, e: int) -> bool {
    &&& s < e
    &&& forall|k: int| 0 <= k < s - 3 ==> b[k] != 47u8 && b[k] != 63u8 && b[k] != 58u8
    &&& s == 0 ==> (e == b.len() || b[e] == 63u8)
}
spec fn is_target(r: Result<Proxy, anyhow::Error>, https: bool, host: Seq<u8>, port: u16) -> bool {
    if https { r matches Ok(Proxy::Https(Address::Domain(h, p))) && sbytes(h) == host && p == port }
    else { r matches Ok(Proxy::Http(Address::Domain(h, p))) && sbytes(h) == host && p == port }
}
spec fn with_port(r: Result<Proxy, anyhow::Error>, https: bool, host: Seq<u8>, port: Seq<u8>) -> bool {
    match parse_u16_spec(port) { Some(v) => is_target(r, https, host, v), None => r is Err }
}
/// what the authority `a` names: host[:port]; a ':' inside the brackets of an IPv6 literal is not the port separator; plain HTTP defaults to port 80
spec fn names(r: Result<Proxy, anyhow::Error>, connect: bool, a: Seq<u8>) -> bool {
    if connect {
        (no_byte(a, 58u8) ==> r is Err)
        && (forall|i: int| #[trigger] is_last(a, 58u8, i) ==> with_port(r, true, a.subrange(0, i), a.subrange(i + 1, a.len() as int)))
    } else {
        (no_byte(a, 58u8) ==> is_target(r, false, a, 80))
        && (forall|i: int, k: int| #[trigger] is_last(a, 58u8, i) && #[trigger] is_last(a, 93u8, k) && i < k ==> is_target(r, false, a, 80))
        && (forall|i: int| #[trigger] is_last(a, 58u8, i) && (no_byte(a, 93u8) || (exists|k: int| is_last(a, 93u8, k) && k < i)) ==> with_port(r, false, a.subrange(0, i), a.subrange(i + 1, a.len() as int)))
    }
}
/// the same, told by the search results the code has at hand: hc / hb = index of the last ':' / ']' (or -1)
spec fn names_by(r: Result<Proxy, anyhow::Error>, connect: bool, a: Seq<u8>, hc: int, hb: int) -> bool {
    if connect {
        if hc == -1 { r is Err } else { with_port(r, true, a.subrange(0, hc), a.subrange(hc + 1, a.len() as int)) }
    } else {
        if hc == -1 || hc < hb { is_target(r, false, a, 80) } else { with_port(r, false, a.subrange(0, hc), a.subrange(hc + 1, a.len() as int)) }
    }
}
proof fn lemma_last_unique(a: Seq<u8>, c: u8, i: int, j: int)
    requires is_last(a, c, i), is_last(a, c, j),
    ensures i == j,
{ reveal(is_last); }
proof fn lemma_last_not_none(a: Seq<u8>, c: u8, i: int)
    requires is_last(a, c, i), no_byte(a, c),
    ensures false,
{ reveal(is_last); reveal(no_byte); }
proof fn lemma_names(r: Result<Proxy, anyhow::Error>, connect: bool, a: Seq<u8>, hc: int, hb: int)
    requires names_by(r, connect, a, hc, hb),
        if hc == -1 { no_byte(a, 58u8) } else { is_last(a, 58u8, hc) },
        connect || (if hb == -1 { no_byte(a, 93u8) } else { is_last(a, 93u8, hb) }),
    ensures names(r, connect, a),
{
    if hc != -1 { lemma_last_lt(a, 58u8, hc); }
    if !connect && hb != -1 { lemma_last_lt(a, 93u8, hb); }
    assert forall|i: int| #[trigger] is_last(a, 58u8, i) implies i == hc && hc != -1 by {
        if hc == -1 { lemma_last_not_none(a, 58u8, i); } else { lemma_last_unique(a, 58u8, i, hc); }
    }
    if hc != -1 && no_byte(a, 58u8) { lemma_last_not_none(a, 58u8, hc); }
    if !connect {
        assert forall|k: int| #[trigger] is_last(a, 93u8, k) implies k == hb && hb != -1 by {
            if hb == -1 { lemma_last_not_none(a, 93u8, k); } else { lemma_last_unique(a, 93u8, k, hb); }
        }
        if hb != -1 && no_byte(a, 93u8) { lemma_last_not_none(a, 93u8, hb); }
    }
}
/// what the cuts of recognize_http keep true of the remaining text `p` (a prefix of the request-target): the authority is still p[s..e]
spec fn cut_inv(p0: Seq<u8>, p: Seq<u8>, s: int, e: int) -> bool {
    &&& 0 <= s < e <= p.len() <= p0.len()
    &&& p == p0.subrange(0, p.len() as int)
    &&& forall|k: int| s <= k < e ==> p[k] != 47u8 && p[k] != 63u8
    &&& e == p.len() || p[e] == 47u8
    &&& s == 0 ==> e == p.len()
    &&& auth_start(p0, s)
}
/// cutting at the first '?' (q; or nothing to cut: q = len)
proof fn lemma_cut_query(p0: Seq<u8>, s: int, e: int, q: int)
    requires auth_start(p0, s), auth_end(p0, s, e), target_wf(p0, s, e),
        (q == p0.len() && no_byte(p0, 63u8)) || is_first(p0, 63u8, q),
    ensures cut_inv(p0, p0.subrange(0, q), s, e),
{
    reveal(no_byte); reveal(is_first); reveal(first_occ); reveal(no_occ);
    // the first '?' is not before the authority ends: the scheme has none, "://" has none, the authority has none
    if q < e {
        if q < s - 3 { } else if q < s { assert(occurs_at(p0, sep3(), s - 3)); assert(p0.subrange(s - 3, s)[q - (s - 3)] == p0[q]); } else { }
        assert(false);
    }
}
/// dropping one trailing '/'
proof fn lemma_cut_slash(p0: Seq<u8>, p: Seq<u8>, s: int, e: int)
    requires cut_inv(p0, p, s, e), p[p.len() - 1] == 47u8,
    ensures cut_inv(p0, p.subrange(0, p.len() - 1), s, e),
{
    assert(p.subrange(0, p.len() - 1) =~= p0.subrange(0, p.len() - 1));
    if e == p.len() { assert(p[e - 1] != 47u8); }
}
/// the prefix kept so far has its first "://" exactly where the request-target has it (gi: its index, or -1)
proof fn lemma_cut_scheme(p0: Seq<u8>, p: Seq<u8>, s: int, e: int, gi: int)
    requires cut_inv(p0, p, s, e), target_wf(p0, s, e),
        (gi == -1 && no_occ(p, sep3())) || first_occ(p, sep3(), gi),
    ensures gi == -1 ==> s == 0, gi != -1 ==> s == gi + 3,
{
    reveal(first_occ); reveal(no_occ);
    assert forall|j: int| occurs_at(p, sep3(), j) implies occurs_at(p0, sep3(), j) by { assert(p.subrange(j, j + 3) =~= p0.subrange(j, j + 3)); }
    if s >= 3 && occurs_at(p0, sep3(), s - 3) { assert(p.subrange(s - 3, s) =~= p0.subrange(s - 3, s)); assert(occurs_at(p, sep3(), s - 3)); }
}
/// the first '/' at or after the start of the authority is where the authority ends (gj: its index relative to s, or -1)
proof fn lemma_cut_path(p: Seq<u8>, s: int, e: int, gj: int)
    requires 0 <= s < e <= p.len(), forall|k: int| s <= k < e ==> p[k] != 47u8, e == p.len() || p[e] == 47u8,
        (gj == -1 && no_byte(p.subrange(s, p.len() as int), 47u8)) || is_first(p.subrange(s, p.len() as int), 47u8, gj),
    ensures gj == -1 ==> e == p.len(), gj != -1 ==> gj + s == e,
{
    reveal(no_byte); reveal(is_first);
    let t = p.subrange(s, p.len() as int);
    if gj == -1 { if e < p.len() { assert(t[e - s] == p[e]); } }
    else {
        assert(t[gj] == p[s + gj]);
        if gj + s > e { assert(t[e - s] == p[e]); }
        if gj + s < e { assert(p[s + gj] != 47u8); }
    }
}
/// all three cuts together: what is left is the authority
proof fn lemma_cuts(p0: Seq<u8>, s: int, e: int, q: int, p1: Seq<u8>, p2: Seq<u8>, gi: int, gj: int, a: Seq<u8>)
    requires auth_start(p0, s), auth_end(p0, s, e), target_wf(p0, s, e),
        (q == p0.len() && no_byte(p0, 63u8)) || is_first(p0, 63u8, q),
        p1 == p0.subrange(0, q),
        p2 == (if p1.len() > 0 && p1[p1.len() - 1] == 47u8 { p1.subrange(0, p1.len() - 1) } else { p1 }),
        (gi == -1 && no_occ(p2, sep3())) || (first_occ(p2, sep3(), gi) && gi + 3 <= p2.len()),
        gi == -1 ==> a == p2,
        gi != -1 ==> ((gj == -1 && no_byte(p2.subrange(gi + 3, p2.len() as int), 47u8) && a == p2.subrange(gi + 3, p2.len() as int))
            || (is_first(p2.subrange(gi + 3, p2.len() as int), 47u8, gj) && a == p2.subrange(gi + 3, gi + 3 + gj))),
    ensures a == p0.subrange(s, e),
{
    lemma_cut_query(p0, s, e, q);
    if p2 != p1 { lemma_cut_slash(p0, p1, s, e); }
    assert(cut_inv(p0, p2, s, e));
    lemma_cut_scheme(p0, p2, s, e, gi);
    if gi != -1 {
        if is_first(p2.subrange(gi + 3, p2.len() as int), 47u8, gj) { lemma_first_lt(p2.subrange(gi + 3, p2.len() as int), 47u8, gj); }
        lemma_cut_path(p2, s, e, gj); assert(a == p2.subrange(s, e)); } else { assert(a == p2.subrange(s, e)) by { assert(p2.subrange(0, p2.len() as int) =~= p2); } }
    assert(p2.subrange(s, e) =~= p0.subrange(s, e));
}
proof fn lemma_cb_shift(child: Seq<u8>, parent: Seq<u8>, lo: int, k: int)
    requires cb_shift(child, parent, lo), 0 <= k <= child.len(),
    ensures cb(child, k) == cb(parent, lo + k),
{ reveal(cb_shift); }
proof fn lemma_first_lt(a: Seq<u8>, c: u8, i: int) requires is_first(a, c, i) ensures 0 <= i < a.len() { reveal(is_first); }
proof fn lemma_last_lt(a: Seq<u8>, c: u8, i: int) requires is_last(a, c, i) ensures 0 <= i < a.len() { reveal(is_last); }
//@@ octo-squirrel-client/src/client/handshake.rs:14-20  enum Proxy  sha=f99bae47548f5418
pub enum Proxy {
    Http(Address),
    Https(Address),
    Socks5,
    Unknown,
    Error(String),
}

//@@ octo-squirrel-client/src/client/handshake.rs:68-110  fn recognize_http  sha=a9369f9a9500c083
#[verifier::external_body] fn verif_str_5a5e2bae0f() -> (r: &'static str) ensures strb(r) =~= seq![58u8, 47u8, 47u8] { "://" }
#[verifier::external_body] fn verif_str_5bb4dc6f47() -> (r: &'static str) ensures strb(r) =~= seq![67u8, 79u8, 78u8, 78u8, 69u8, 67u8, 84u8] { "CONNECT" }
enum Port {
            Parse(usize),
            Default,
        }
fn recognize_http(method: &str, mut path: &str) -> (r: Result<Proxy, anyhow::Error>)
    ensures
        //#C13
        // for every request-target with a (possibly absent) scheme and a non-empty authority: the tunnel goes to exactly the host and port the
        // authority names (port 80 by default for plain HTTP), or the request is refused
        forall|s: int, e: int| auth_start(strb(path), s) && auth_end(strb(path), s, e) && #[trigger] target_wf(strb(path), s, e)
            ==> names(r, strb(method) == seq![67u8, 79u8, 78u8, 78u8, 69u8, 67u8, 84u8], strb(path).subrange(s, e)),
        // an HTTP request is never taken for anything but an HTTP request
        r matches Ok(p) ==> p is Http || p is Https,
{
    let ghost p0 = strb(path);
    let ghost connect = strb(method) == seq![67u8, 79u8, 78u8, 78u8, 69u8, 67u8, 84u8];
    let ghost q: int = p0.len() as int;
    if let Some(i) = path.v_find_c('?') {
        proof { q = i as int; }
        path = path.v_sub(0,i);
    }
    let ghost p1 = strb(path);
    proof { assert(p0.subrange(0, p0.len() as int) =~= p0); }
    if path.v_ends_with_c('/') {
        path = path.v_sub(0,path.v_len() - 1);
    }
    let ghost p2 = strb(path);
    let ghost gi: int = -1;
    let ghost gj: int = -1;
    if let Some(i) = path.v_find_s(verif_str_5a5e2bae0f()).map(|i| -> (r: usize) requires i <= usize::MAX - 3 ensures r - 3 == i { i + 3 }) {
        proof { gi = i as int - 3; }
        let ghost sub = p2.subrange(i as int, p2.len() as int);
        if let Some(j) = path.v_sub(i,path.v_len()).v_find_c('/').map(|j| -> (r: usize) requires j <= usize::MAX - i ensures r - i == j { j + i }) { proof { gj = j as int - i as int; lemma_first_lt(sub, 47u8, gj); lemma_cb_shift(sub, p2, i as int, gj); } path = path.v_sub(i,j) } else { path = path.v_sub(i,path.v_len()) }
    }
    let ghost a = strb(path);
    proof {
        // the text left is exactly the authority of the request-target
        assert forall|s: int, e: int| auth_start(p0, s) && auth_end(p0, s, e) && #[trigger] target_wf(p0, s, e) implies a == p0.subrange(s, e) by {
            lemma_cuts(p0, s, e, q, p1, p2, gi, gj, a);
        }
    }
    let ghost hc: int = -1;
    let ghost hb: int = -1;
    if method.v_eq(verif_str_5bb4dc6f47()) {
        proof { assert forall|rr: Result<Proxy, anyhow::Error>| names_by(rr, connect, a, -1, -1) && no_byte(a, 58u8) implies names(rr, connect, a) by { lemma_names(rr, connect, a, -1, -1); } }
        let h_end = path.v_rfind_c(':').ok_or_else(|| verif_err())?;
        proof { hc = h_end as int; lemma_last_lt(a, 58u8, hc);
            assert forall|rr: Result<Proxy, anyhow::Error>| names_by(rr, connect, a, hc, -1) implies names(rr, connect, a) by { lemma_names(rr, connect, a, hc, -1); } }
        let host = path.v_sub(0,h_end).v_to_owned();
        let port = path.v_sub(h_end + 1,path.v_len()).v_parse()?;
        Ok(Proxy::Https(Address::Domain(host, port)))
    } else {
        let h_end = path.v_rfind_c(':');
        let h_v6_end = path.v_rfind_c(']');
        proof {
            hc = match h_end { Some(x) => x as int, None => -1 };
            hb = match h_v6_end { Some(x) => x as int, None => -1 };
            if hc != -1 { lemma_last_lt(a, 58u8, hc); }
            assert forall|rr: Result<Proxy, anyhow::Error>| names_by(rr, connect, a, hc, hb) implies names(rr, connect, a) by { lemma_names(rr, connect, a, hc, hb); }
        }
        if let Port::Parse(index) = match (h_end, h_v6_end) {
            (None, _) => Port::Default,
            (Some(h_end), None) => Port::Parse(h_end),
            (Some(h_end), Some(h_v6_end)) => {
                if h_end < h_v6_end {
                    Port::Default
                } else {
                    Port::Parse(h_end)
                }
            }
        } {
            let p_start = index + 1;
            let host = path.v_sub(0,index).v_to_owned();
            let port = path.v_sub(p_start,path.v_len()).v_parse()?;
            Ok(Proxy::Http(Address::Domain(host, port)))
        } else {
            let host = path.v_to_owned();
            Ok(Proxy::Http(Address::Domain(host, 80)))
        }
    }
}
