// ---- part httphs: client/handshake.rs get_request_addr + recognize: the local inbound handshake of one accepted connection (R29: sequential code over
// a TcpStream described by a ghost inbox / outbox) ----
spec fn crlf2() -> Seq<u8> { seq![13u8, 10u8, 13u8, 10u8] }
spec fn ok200() -> Seq<u8> { seq![72u8, 84u8, 84u8, 80u8, 47u8, 49u8, 46u8, 49u8, 32u8, 50u8, 48u8, 48u8, 32u8, 67u8, 111u8, 110u8, 110u8, 101u8, 99u8, 116u8, 105u8, 111u8, 110u8, 32u8, 101u8, 115u8, 116u8, 97u8, 98u8, 108u8, 105u8, 115u8, 104u8, 101u8, 100u8, 13u8, 10u8, 13u8, 10u8] }
/// the prefix of length k ends with the blank line that ends a request head
spec fn ends_head(s: Seq<u8>, k: int) -> bool { 4 <= k <= s.len() && s.subrange(k - 4, k) == crlf2() }
/// .. and it is the first one: k is exactly the length of the request head (request line, header lines, blank line)
spec fn head_len(s: Seq<u8>, k: int) -> bool { ends_head(s, k) && forall|j: int| 4 <= j < k ==> !#[trigger] ends_head(s, j) }
/// protocol/socks5/handshake.rs server::no_auth (FramedRead / FramedWrite over the split stream): NOT verified.  The precondition is what RFC 1928 asks of
/// the reply the caller prepares: succeeded, bound address = the local address of this connection
#[verifier::external_body]
fn s5srv__no_auth(stream: &mut TcpStream, response: Socks5CommandResponse) -> (r: anyhow::Result<Socks5CommandRequest>)
    requires response.command_status is Success, response.bnd_addr == Address::Socket(old(stream).local()),
{ unimplemented!() }

//@@ octo-squirrel-client/src/client/handshake.rs:22-54  fn get_request_addr  sha=fcfe7b29160d3a0e
#[verifier::external_body] fn verif_lit_dba5166ad9() -> (r: &'static [u8]) ensures r@ =~= seq![13u8, 10u8, 13u8, 10u8] { b"\r\n\r\n" }
#[verifier::external_body] fn verif_lit_f55260227c() -> (r: &'static [u8]) ensures r@ =~= seq![72u8, 84u8, 84u8, 80u8, 47u8, 49u8, 46u8, 49u8, 32u8, 50u8, 48u8, 48u8, 32u8, 67u8, 111u8, 110u8, 110u8, 101u8, 99u8, 116u8, 105u8, 111u8, 110u8, 32u8, 101u8, 115u8, 116u8, 97u8, 98u8, 108u8, 105u8, 115u8, 104u8, 101u8, 100u8, 13u8, 10u8, 13u8, 10u8] { b"HTTP/1.1 200 Connection established\r\n\r\n" }
fn get_request_addr(stream: &mut TcpStream) -> (r: anyhow::Result<Address>)
    ensures
        //#C13
        // HTTP (anything that does not start with the SOCKS5 version byte): either nothing is consumed and nothing is answered (plain HTTP: the request
        // is forwarded untouched), or exactly the request head - up to and including its first blank line, however it was segmented - is consumed and
        // exactly "HTTP/1.1 200 Connection established" is answered (CONNECT)
        (r is Ok && !(old(stream).inbox().len() > 0 && old(stream).inbox()[0] == 5)) ==>
            (final(stream).inbox() == old(stream).inbox() && final(stream).outbox() == old(stream).outbox())
            || (final(stream).outbox() == old(stream).outbox() + ok200()
                && exists|k: int| #[trigger] head_len(old(stream).inbox(), k) && final(stream).inbox() == old(stream).inbox().skip(k)),
{
    { verif_timeout(Duration::from_secs(30))?;
        let next = recognize(stream)?;
        match next {
            Proxy::Http(address) => Ok(address),
            Proxy::Https(address) => {
                // consume the CONNECT request exactly: up to and including the blank line that ends its head, however it is segmented
                let mut head: Vec<u8> = Vec::new();
                let mut byte = [0; 1];
                let ghost in0 = stream.inbox();
                while !head.ends_with(verif_lit_dba5166ad9())
                    invariant
                        head@.len() <= in0.len(), head@ == in0.take(head@.len() as int), stream.inbox() == in0.skip(head@.len() as int),
                        stream.outbox() == old(stream).outbox(), byte@.len() == 1, head@.len() <= 8192,
                        forall|j: int| 4 <= j < head@.len() ==> !#[trigger] ends_head(in0, j),
                    decreases 8192 - head@.len(),
                {
                    if head.len() >= 8192 {
                        return Err(verif_err());
                    }
                    proof {
                        let n = head@.len() as int;
                        assert(!crlf2().is_suffix_of(head@));
                        if n >= 4 { assert(in0.subrange(n - 4, n) =~= head@.subrange(n - 4, n)); }
                    }
                    let ghost ib = stream.inbox();
                    if stream.read(&mut byte)? == 0 {
                        return Err(verif_err());
                    }
                    proof {
                        assert(ib.len() >= 1);
                        assert(byte@.take(1)[0] == ib.take(1)[0]);
                        assert(byte@[0] == in0[head@.len() as int]);
                        assert(stream.inbox() == ib.skip(1));
                    }
                    proof { assert(in0.take(head@.len() as int + 1) =~= head@.push(byte@[0])); assert(in0.skip(head@.len() as int).skip(1) =~= in0.skip(head@.len() as int + 1)); }
                    head.push(byte[0]);
                }
                proof {
                    let n = head@.len() as int;
                    assert(crlf2().is_suffix_of(head@));
                    assert(n >= 4);
                    assert(in0.subrange(n - 4, n) =~= head@.subrange(n - 4, n));
                    assert(ends_head(in0, n));
                    assert(head_len(in0, n));
                }
                stream.write_all(verif_lit_f55260227c())?;
                Ok(address)
            }
            Proxy::Socks5 => {
                let local_addr = stream.local_addr()?;
                let response = Socks5CommandResponse::new(Socks5CommandStatus::Success, local_addr.into());
                let handshake = s5srv__no_auth(stream, response)?;
                Ok(handshake.dst_addr)
            }
            Proxy::Unknown => return Err(verif_err()),
            Proxy::Error(msg) => return Err(verif_err()),
        }
    }
}

//@@ octo-squirrel-client/src/client/handshake.rs:56-77  fn recognize  sha=0d99050d215ee906
#[verifier::external_body] fn verif_lit_0468b3505b() -> (r: &'static [u8]) ensures r@ =~= seq![72u8, 84u8, 84u8, 80u8, 47u8, 49u8, 46u8, 49u8, 32u8, 52u8, 49u8, 52u8, 32u8, 85u8, 82u8, 73u8, 32u8, 84u8, 111u8, 111u8, 32u8, 76u8, 111u8, 110u8, 103u8, 13u8, 10u8, 13u8, 10u8] { b"HTTP/1.1 414 URI Too Long\r\n\r\n" }
fn recognize(stream: &mut TcpStream) -> (r: Result<Proxy, anyhow::Error>)
    ensures
        //#C13
        // sniffing only peeks: whatever kind of handshake it is, not one byte of it is consumed here
        final(stream).inbox() == old(stream).inbox(), final(stream).local() == old(stream).local(),
        //#C13
        // SOCKS5 exactly when the first byte is the version byte 5
        (r matches Ok(Proxy::Socks5)) ==> old(stream).inbox().len() > 0 && old(stream).inbox()[0] == 5,
        (r is Ok && old(stream).inbox().len() > 0 && old(stream).inbox()[0] == 5) ==> r matches Ok(Proxy::Socks5),
        //#C13
        // nothing is answered before the kind of request is known; an unparsable request line is answered 414 and refused
        (r is Ok && !(r matches Ok(Proxy::Error(_)))) ==> final(stream).outbox() == old(stream).outbox(),
{
    let mut buf = [0; 1];
    stream.peek(&mut buf)?;
    proof {
        if stream.inbox().len() > 0 { assert(buf@.take(1)[0] == stream.inbox().take(1)[0]); } else { assert(buf@.skip(0)[0] == 0u8); }
    }
    let version = SocksVersion::from(buf[0]);
    if matches!(version, SocksVersion::Socks5) {
        Ok(Proxy::Socks5)
    } else {
        let mut buf = [0; 1024];
        let len = stream.peek(&mut buf)?;
        let mut headers = [];
        let mut req = httparse::Request::new(&mut headers);
        match (req.parse(&buf[..len]), req.path, req.method) {
            (_, Some(path), Some(method)) => Ok(recognize_http(method, path)?),
            (_, None, Some(_)) => {
                stream.write_all(verif_lit_0468b3505b())?;
                stream.shutdown()?;
                Ok(Proxy::Error("URI too long".to_owned()))
            }
            _ => Ok(Proxy::Unknown),
        }
    }
}
