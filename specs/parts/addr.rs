// ---- part addr: protocol/address.rs, protocol/socks5*.rs ----
/// abstract value of an Address (RFC 1928 fields); IPv6 flow label / scope id are not part of any wire format
spec fn absaddr(a: Address) -> AddrV {
    match a {
        Address::Domain(h, p) => AddrV::Dom(sbytes(h), p),
        Address::Socket(SocketAddr::V4(s)) => AddrV::V4(v4_octets(sa4_ip(s)), sa4_port(s)),
        Address::Socket(SocketAddr::V6(s)) => AddrV::V6(v6_octets(sa6_ip(s)), sa6_port(s)),
    }
}
/// what a decoder builds: IPv6 with flow label and scope id 0
spec fn canonical(a: Address) -> bool {
    a matches Address::Socket(SocketAddr::V6(s)) ==> sa6_flow(s) == 0 && sa6_scope(s) == 0
}
/// representable in one length byte (C14: longer names must be refused before anything is sent)
spec fn repr(a: Address) -> bool { a matches Address::Domain(h, _) ==> sbytes(h).len() <= 255 }
//#C14
/// C14: two canonical addresses with the same abstract value are the same address
proof fn lemma_abs_injective(a: Address, b: Address)
    requires absaddr(a) == absaddr(b), canonical(a), canonical(b)
    ensures a == b
{
    match (a, b) {
        (Address::Domain(h1, p1), Address::Domain(h2, p2)) => { axiom_string_ext(h1, h2); }
        (Address::Socket(SocketAddr::V4(s1)), Address::Socket(SocketAddr::V4(s2))) => { axiom_v4_ext(sa4_ip(s1), sa4_ip(s2)); axiom_sa4_ext(s1, s2); }
        (Address::Socket(SocketAddr::V6(s1)), Address::Socket(SocketAddr::V6(s2))) => { axiom_v6_ext(sa6_ip(s1), sa6_ip(s2)); axiom_sa6_ext(s1, s2); }
        _ => {}
    }
}
impl vstd::std_specs::convert::TryFromSpecImpl<u8> for Socks5CommandStatus {
    open spec fn obeys_try_from_spec() -> bool { false }
    open spec fn try_from_spec(v: u8) -> core::result::Result<Self, Self::Error> { arbitrary() }
}
impl vstd::std_specs::convert::TryFromSpecImpl<u8> for Socks5AddressType {
    open spec fn obeys_try_from_spec() -> bool { false }
    open spec fn try_from_spec(v: u8) -> core::result::Result<Self, Self::Error> { arbitrary() }
}
spec fn atyp_code(t: Socks5AddressType) -> u8 { match t { Socks5AddressType::Ipv4 => 1, Socks5AddressType::Domain => 3, Socks5AddressType::Ipv6 => 4 } }



//@@ octo-squirrel/src/protocol/address.rs:9-13  enum Address  sha=d701f69e752e0952
#[derive(PartialEq, Eq)]
pub enum Address {
    Domain(String, u16),
    Socket(SocketAddr),
}
/// R6: the derived Clone of Address (String / SocketAddr clones) is replaced by its specification: a clone is equal to the original
impl Clone for Address {
    #[verifier::external_body]
    fn clone(&self) -> (r: Self) ensures r == *self { unimplemented!() }
}

impl vstd::std_specs::convert::FromSpecImpl<SocketAddr> for Address {
    open spec fn obeys_from_spec() -> bool { false }
    open spec fn from_spec(v: SocketAddr) -> Self { arbitrary() }
}
impl From<SocketAddr> for Address {
    fn from(value: SocketAddr) -> (r: Self)
        ensures r == Address::Socket(value),
    {
        Address::Socket(value)
    }
}

//@@ octo-squirrel/src/protocol/socks5.rs:9-9  const VERSION  sha=31c82d410f6df766
const VERSION: u8 = 5;

//@@ octo-squirrel/src/protocol/socks5.rs:11-15  enum Socks5CommandStatus  sha=a67902fd29d73d0f
#[derive(PartialEq, Eq, Clone, Copy)]
pub enum Socks5CommandStatus {
    Success,
    Failure,
}

//@@ octo-squirrel/src/protocol/socks5.rs:17-29  impl TryFrom for Socks5CommandStatus  sha=fd0d55fe4da0bd20
impl TryFrom<u8> for Socks5CommandStatus {
    type Error = anyhow::Error;

    fn try_from(value: u8) -> (r: Result<Self, Self::Error>)
        ensures match r { Ok(t) => (value == 0 && t is Success) || (value == 1 && t is Failure), Err(_) => value > 1 },
    {
        if Self::Success as u8 == value {
            Ok(Self::Success)
        } else if Self::Failure as u8 == value {
            Ok(Self::Failure)
        } else {
            return Err(verif_err());
        }
    }
}

//@@ octo-squirrel/src/protocol/socks5.rs:31-36  enum Socks5AddressType  sha=6571f459743d9f1b
#[derive(PartialEq, Eq, Clone, Copy)]
pub enum Socks5AddressType {
    Ipv4 = 1,
    Domain = 3,
    Ipv6 = 4,
}

//@@ octo-squirrel/src/protocol/socks5.rs:38-52  impl TryFrom for Socks5AddressType  sha=a2da60cfb209176f
impl TryFrom<u8> for Socks5AddressType {
    type Error = anyhow::Error;

    fn try_from(value: u8) -> (r: Result<Self, Self::Error>)
        ensures
            //#C14 C07
            match r { Ok(t) => (value == 1 && t is Ipv4) || (value == 3 && t is Domain) || (value == 4 && t is Ipv6), Err(_) => value != 1 && value != 3 && value != 4 },
    {
        if Self::Ipv4 as u8 == value {
            Ok(Self::Ipv4)
        } else if Self::Domain as u8 == value {
            Ok(Self::Domain)
        } else if Self::Ipv6 as u8 == value {
            Ok(Self::Ipv6)
        } else {
            return Err(verif_err());
        }
    }
}

//@@ octo-squirrel/src/protocol/socks5.rs:54-59  enum Socks5CommandType  sha=dc476d448b8347ac
#[derive(PartialEq, Copy, Clone)]
pub enum Socks5CommandType {
    Connect = 1,
    Bind = 2,
    UdpAssociate = 3,
}

//@@ octo-squirrel/src/protocol/socks5.rs:61-73  impl Socks5CommandType  sha=c537aa93435591bf
impl Socks5CommandType {
    fn new(byte: u8) -> (r: Result<Self>)
        ensures match r { Ok(t) => (byte == 1 && t is Connect) || (byte == 2 && t is Bind) || (byte == 3 && t is UdpAssociate), Err(_) => byte < 1 || byte > 3 },
    {
        if Self::Connect as u8 == byte {
            Ok(Self::Connect)
        } else if Self::Bind as u8 == byte {
            Ok(Self::Bind)
        } else if Self::UdpAssociate as u8 == byte {
            Ok(Self::UdpAssociate)
        } else {
            return Err(verif_err());
        }
    }
}

//@@ octo-squirrel/src/protocol/socks5.rs:75-81  enum Socks5AuthMethod  sha=6d6099cb2a681b28
#[derive(PartialEq, Eq, Clone, Copy)]
pub enum Socks5AuthMethod {
    NoAuth,
    Gssapi,
    Password,
    Unaccepted = 255,
}

//@@ octo-squirrel/src/protocol/socks5.rs:83-97  impl Socks5AuthMethod  sha=d8a72e4c7070a4ae
impl Socks5AuthMethod {
    fn new(byte: u8) -> (r: Result<Self>)
        ensures
            //#C13 C03
            // RFC 1928 3: method codes 0 (no authentication), 1 (GSSAPI), 2 (username/password), 255 (no acceptable method); everything else is refused
            match r { Ok(m) => (byte == 0 && m is NoAuth) || (byte == 1 && m is Gssapi) || (byte == 2 && m is Password) || (byte == 255 && m is Unaccepted), Err(_) => 2 < byte < 255 },
    {
        if Self::NoAuth as u8 == byte {
            Ok(Self::NoAuth)
        } else if Self::Gssapi as u8 == byte {
            Ok(Self::Gssapi)
        } else if Self::Password as u8 == byte {
            Ok(Self::Password)
        } else if Self::Unaccepted as u8 == byte {
            Ok(Self::Unaccepted)
        } else {
            return Err(verif_err())
        }
    }
}

//@@ octo-squirrel/src/protocol/socks5/address.rs:16-35  fn encode  sha=2d4531094da3eeb9
fn address__encode(addr: &Address, dst: &mut BytesMut)
    requires
        //#C14
        repr(*addr),
    ensures
        //#C14 C03 C02
        final(dst)@ == old(dst)@ + enc5(absaddr(*addr)),
{
    match addr {
        Address::Domain(host, port) => {
            dst.put_u8(Socks5AddressType::Domain as u8);
            dst.put_u8(host.len() as u8);
            dst.extend_from_slice(host.as_bytes());
            dst.put_u16(*port);
            proof { assert(dst@ =~= old(dst)@ + enc5(absaddr(*addr))); }
        }
        Address::Socket(SocketAddr::V4(v4)) => {
            dst.put_u8(Socks5AddressType::Ipv4 as u8);
            dst.extend_from_slice(&v4.ip().octets());
            dst.put_u16(v4.port());
            proof { assert(dst@ =~= old(dst)@ + enc5(absaddr(*addr))); }
        }
        Address::Socket(SocketAddr::V6(v6)) => {
            dst.put_u8(Socks5AddressType::Ipv6 as u8);
            dst.extend_from_slice(&v6.ip().octets());
            dst.put_u16(v6.port())
            ; proof { assert(dst@ =~= old(dst)@ + enc5(absaddr(*addr))); }
        }
    }
}

//@@ octo-squirrel/src/protocol/socks5/address.rs:37-71  fn decode  sha=288a7ff43f0bf184
fn address__decode(src: &mut BytesMut) -> (r: Result<Address>)
    ensures
        //#C14 C07 C13 C03
        match parse5(old(src)@) {
            Some((v, n)) => r matches Ok(a) && absaddr(a) == v && canonical(a) && final(src)@ == old(src)@.skip(n as int),
            None => r is Err,
        },
{
    let ghost s0 = src@;
    if !src.has_remaining() {
        return Err(verif_err());
    }
    let addr_type = Socks5AddressType::try_from(src.get_u8())?;
    match addr_type {
        Socks5AddressType::Ipv4 => {
            if src.remaining() < 4 + 2 {
                return Err(verif_err());
            }
            proof { assert(s0.skip(1).take(4) =~= s0.subrange(1, 5)); assert(s0.skip(1).skip(4).take(2) =~= s0.subrange(5, 7)); assert(s0.skip(1).skip(4).skip(2) =~= s0.skip(7)); lemma_be_val_bound(s0.subrange(5, 7)); lemma_pow256_vals(); lemma_be_val_bound(s0.subrange(1, 5)); lemma_be_roundtrip2(s0.subrange(1, 5)); }
            let ip_v4 = Ipv4Addr::from(src.get_u32());
            Ok(Address::Socket(SocketAddr::V4(SocketAddrV4::new(ip_v4, src.get_u16()))))
        }
        Socks5AddressType::Domain => {
            if !src.has_remaining() {
                return Err(verif_err());
            }
            let len = src.get_u8();
            if src.remaining() < len as usize + 2 {
                return Err(verif_err());
            }
            proof { let l = len as int; assert(s0.skip(1).skip(1).take(l) =~= s0.subrange(2, 2 + l)); assert(s0.skip(1).skip(1).skip(l).take(2) =~= s0.subrange(2 + l, 4 + l)); assert(s0.skip(1).skip(1).skip(l).skip(2) =~= s0.skip(4 + l)); lemma_be_val_bound(s0.subrange(2 + l, 4 + l)); lemma_pow256_vals(); }
            let host_bytes = src.split_to(len as usize);
            let port = src.get_u16();
            let host = String::from_utf8(host_bytes.to_vec())?;
            Ok(Address::Domain(host, port))
        }
        Socks5AddressType::Ipv6 => {
            if src.remaining() < 16 + 2 {
                return Err(verif_err());
            }
            proof { assert(s0.skip(1).take(16) =~= s0.subrange(1, 17)); assert(s0.skip(1).skip(16).take(2) =~= s0.subrange(17, 19)); assert(s0.skip(1).skip(16).skip(2) =~= s0.skip(19)); lemma_be_val_bound(s0.subrange(17, 19)); lemma_pow256_vals(); lemma_be_val_bound(s0.subrange(1, 17)); lemma_be_roundtrip2(s0.subrange(1, 17)); }
            let ip_v6 = Ipv6Addr::from(src.get_u128());
            Ok(Address::Socket(SocketAddr::V6(SocketAddrV6::new(ip_v6, src.get_u16(), 0, 0))))
        }
    }
}

//@@ octo-squirrel/src/protocol/socks5/address.rs:73-81  fn length  sha=1ce35ec20bf8da66
fn address__length(addr: &Address) -> (r: usize)
    ensures
        //#C14 C02
        repr(*addr) ==> r == enc5(absaddr(*addr)).len(),
        repr(*addr) ==> r <= 259,
{
    proof { lemma_be_bytes_len(0, 2); match absaddr(*addr) { AddrV::Dom(n, p) => lemma_be_bytes_len(p as nat, 2), AddrV::V4(o, p) => lemma_be_bytes_len(p as nat, 2), AddrV::V6(o, p) => lemma_be_bytes_len(p as nat, 2) } }
    match addr {
        Address::Domain(host, _) => 1 + 1 + host.len() + 2,
        Address::Socket(socket_addr) => match socket_addr {
            SocketAddr::V4(_) => 1 + 4 + 2,
            SocketAddr::V6(_) => 1 + 8 * 2 + 2,
        },
    }
}

//@@ octo-squirrel/src/protocol/socks5/address.rs:83-89  fn try_decode_at  sha=5ccf7be5a6d37f47
fn address__try_decode_at(src: &BytesMut, at: usize) -> (r: Result<usize>)
    requires
        //#C07
        at + 1 < src@.len(),
    ensures
        //#C04 C13 C14
        match need5(src@, at as int) { Some(n) => r == Ok::<usize, anyhow::Error>(n as usize), None => r is Err },
{
    match Socks5AddressType::try_from(src[at])? {
        Socks5AddressType::Ipv4 => Ok(1 + 4 + 2),
        Socks5AddressType::Domain => Ok(1 + 1 + src[at + 1] as usize + 2),
        Socks5AddressType::Ipv6 => Ok(1 + 8 * 2 + 2),
    }
}

//@@ octo-squirrel/src/protocol/socks5/message.rs:15-17  struct Socks5InitialRequest  sha=1f38e54f5ce6f2db
pub struct Socks5InitialRequest {
    auth_methods: Vec<Socks5AuthMethod>,
}

//@@ octo-squirrel/src/protocol/socks5/message.rs:19-23  impl Socks5InitialRequest  sha=66b70fecd4f00ef9
impl Socks5InitialRequest {
    fn new(auth_methods: Vec<Socks5AuthMethod>) -> (r: Self)
        ensures r.auth_methods == auth_methods,
    {
        Socks5InitialRequest { auth_methods }
    }
}

//@@ octo-squirrel/src/protocol/socks5/message.rs:24-32  impl Socks5Message for Socks5InitialRequest  sha=058dad5f7f457d1d
impl Socks5InitialRequest {
    fn encode(&mut self, dst: &mut BytesMut) {
        dst.put_u8(VERSION);
        dst.put_u8(self.auth_methods.len() as u8);
        for auth_method in self.auth_methods.iter() {
            dst.put_u8(*auth_method as u8);
        }
    }
}

//@@ octo-squirrel/src/protocol/socks5/message.rs:34-36  struct Socks5InitialResponse  sha=a0c0c6134306fe8c
pub struct Socks5InitialResponse {
    pub auth_method: Socks5AuthMethod,
}

//@@ octo-squirrel/src/protocol/socks5/message.rs:38-42  impl Socks5InitialResponse  sha=7a6280ab6a32c0a3
impl Socks5InitialResponse {
    fn new(auth_method: Socks5AuthMethod) -> (r: Self)
        ensures r.auth_method == auth_method,
    {
        Self { auth_method }
    }
}

//@@ octo-squirrel/src/protocol/socks5/message.rs:44-49  impl Socks5Message for Socks5InitialResponse  sha=8dd6279b740c0a99
impl Socks5InitialResponse {
    fn encode(&mut self, dst: &mut BytesMut)
        ensures
            //#C13
            // RFC 1928 3: VER 5, METHOD
            final(dst)@ == old(dst)@ + seq![5u8, old(self).auth_method as u8], *final(self) == *old(self),
    {
        dst.put_u8(VERSION);
        dst.put_u8(self.auth_method as u8);
        proof { assert(dst@ =~= old(dst)@ + seq![5u8, old(self).auth_method as u8]); }
    }
}

//@@ octo-squirrel/src/protocol/socks5/message.rs:51-55  struct Socks5CommandRequest  sha=130272c42a34f604
#[derive(PartialEq, Clone)]
pub struct Socks5CommandRequest {
    pub command_type: Socks5CommandType,
    pub dst_addr: Address,
}

//@@ octo-squirrel/src/protocol/socks5/message.rs:57-61  impl Socks5CommandRequest  sha=1349fbb1a81b1852
impl Socks5CommandRequest {
    fn new(command_type: Socks5CommandType, dst_addr: Address) -> (r: Self)
        ensures r.command_type == command_type, r.dst_addr == dst_addr,
    {
        Self { command_type, dst_addr }
    }
}

//@@ octo-squirrel/src/protocol/socks5/message.rs:63-70  impl Socks5Message for Socks5CommandRequest  sha=f6e234156e560fc6
impl Socks5CommandRequest {
    fn encode(&mut self, dst: &mut BytesMut)
        requires repr(old(self).dst_addr),
        ensures
            //#C13 C14
            final(dst)@ == old(dst)@ + seq![5u8, old(self).command_type as u8, 0u8] + enc5(absaddr(old(self).dst_addr)),
            *final(self) == *old(self),
    {
        dst.put_u8(VERSION);
        dst.put_u8(self.command_type as u8);
        dst.put_u8(0);
        address__encode(&self.dst_addr, dst);
    }
}

//@@ octo-squirrel/src/protocol/socks5/message.rs:72-75  struct Socks5CommandResponse  sha=1824c387399e2856
pub struct Socks5CommandResponse {
    pub command_status: Socks5CommandStatus,
    pub bnd_addr: Address,
}

//@@ octo-squirrel/src/protocol/socks5/message.rs:77-84  impl Socks5Message for Socks5CommandResponse  sha=ebab27fe779588e9
impl Socks5CommandResponse {
    fn encode(&mut self, dst: &mut BytesMut)
        requires repr(old(self).bnd_addr),
        ensures
            //#C13
            final(dst)@ == old(dst)@ + seq![5u8, old(self).command_status as u8, 0u8] + enc5(absaddr(old(self).bnd_addr)),
            *final(self) == *old(self),
    {
        dst.put_u8(VERSION);
        dst.put_u8(self.command_status as u8);
        dst.put_u8(0x00);
        address__encode(&self.bnd_addr, dst);
    }
}

//@@ octo-squirrel/src/protocol/socks5/message.rs:86-90  impl Socks5CommandResponse  sha=27aec98fbb40980e
impl Socks5CommandResponse {
    fn new(command_status: Socks5CommandStatus, bnd_addr: Address) -> (r: Self)
        ensures r.command_status == command_status, r.bnd_addr == bnd_addr,
    {
        Self { command_status, bnd_addr }
    }
}

//@@ octo-squirrel/src/protocol/socks5/codec.rs:42-42  struct Socks5InitialRequestDecoder  sha=afb7b11cbafe5eb2
pub struct Socks5InitialRequestDecoder;

//@@ octo-squirrel/src/protocol/socks5/codec.rs:44-64  impl Decoder for Socks5InitialRequestDecoder  sha=728eea90ebc48856
impl Socks5InitialRequestDecoder {

    fn decode(&mut self, src: &mut BytesMut) -> (r: Result<Option<Socks5InitialRequest>>)
        ensures
            //#C13 C04 C07
            match r {
                Ok(None) => final(src)@ == old(src)@ && (old(src)@.len() < 2 || old(src)@.len() < 2 + old(src)@[1]),
                Ok(Some(req)) => old(src)@[0] == 5 && final(src)@ == old(src)@.skip(2 + old(src)@[1]),
                Err(_) => old(src)@.len() >= 2,
            },
    {
        if src.remaining() < 2 || src.remaining() < 2 + src[1] as usize {
            return Ok(None);
        }
        let version = src.get_u8();
        if VERSION != version {
            return Err(verif_err());
        }
        let count = src.get_u8() as usize;
        proof { assert(src@ =~= old(src)@.skip(2)); }
        let mut auth_methods = Vec::with_capacity(count);
        for _ in iter: 0..count
            invariant 0 <= iter.index@ <= count, src@ == old(src)@.skip(2 + iter.index@), old(src)@.len() >= 2 + count,
        {
            proof { assert(src@.skip(1) =~= old(src)@.skip(2 + iter.index@ + 1)); }
            auth_methods.push(Socks5AuthMethod::new(src.get_u8())?);
        }
        proof { assert(src@ == old(src)@.skip(2 + count)); assert(count == old(src)@[1]); }
        Ok(Some(Socks5InitialRequest::new(auth_methods)))
    }
}

//@@ octo-squirrel/src/protocol/socks5/codec.rs:66-66  struct Socks5CommandRequestDecoder  sha=d53c7fcfd58b0c29
pub struct Socks5CommandRequestDecoder;

//@@ octo-squirrel/src/protocol/socks5/codec.rs:68-86  impl Decoder for Socks5CommandRequestDecoder  sha=0cf4f3ed562e5442
impl Socks5CommandRequestDecoder {

    fn decode(&mut self, src: &mut BytesMut) -> (r: Result<Option<Socks5CommandRequest>>)
        ensures
            //#C13 C04 C07
            match r {
                Ok(None) => final(src)@ == old(src)@ && (old(src)@.len() < 5 || (need5(old(src)@, 3) matches Some(n) && old(src)@.len() < 3 + n)),
                Ok(Some(req)) => old(src)@[0] == 5 && req.command_type as u8 == old(src)@[1] && (parse5(old(src)@.skip(3)) matches Some((v, n)) && absaddr(req.dst_addr) == v
                    && canonical(req.dst_addr) && repr(req.dst_addr) && final(src)@ == old(src)@.skip(3 + n as int)),
                Err(_) => old(src)@.len() >= 5 && (need5(old(src)@, 3) is None || old(src)@[0] != 5 || old(src)@[1] < 1 || old(src)@[1] > 3 || parse5(old(src)@.skip(3)) is None),
            },
    {
        if src.remaining() < 5 || src.remaining() < 3 + address__try_decode_at(src, 3)? {
            return Ok(None);
        }
        let version = src.get_u8();
        if VERSION != version {
            return Err(verif_err());
        }
        let command_type = Socks5CommandType::new(src.get_u8())?;
        src.advance(1); // Reserved
        proof { assert(src@ =~= old(src)@.skip(3)); if parse5(src@) is Some { let n = parse5(src@).unwrap().1 as int; assert(src@.skip(n) =~= old(src)@.skip(3 + n as int)); } }
        let addr = address__decode(src)?;
        Ok(Some(Socks5CommandRequest::new(command_type, addr)))
    }
}

//@@ octo-squirrel/src/protocol/socks5/codec.rs:88-88  struct Socks5InitialResponseDecoder  sha=c052d73bb6a96e4f
pub struct Socks5InitialResponseDecoder;

//@@ octo-squirrel/src/protocol/socks5/codec.rs:90-105  impl Decoder for Socks5InitialResponseDecoder  sha=11560866b116d94f
impl Socks5InitialResponseDecoder {

    fn decode(&mut self, src: &mut BytesMut) -> (r: Result<Option<Socks5InitialResponse>, anyhow::Error>)
        ensures
            //#C13 C04 C07
            match r {
                Ok(None) => final(src)@ == old(src)@ && old(src)@.len() < 2,
                Ok(Some(rsp)) => old(src)@[0] == 5 && final(src)@ == old(src)@.skip(2),
                Err(_) => old(src)@.len() >= 2,
            },
    {
        if src.remaining() < 2 {
            return Ok(None);
        }
        let version = src.get_u8();
        if VERSION != version {
            return Err(verif_err());
        }
        proof { assert(old(src)@.skip(1).skip(1) =~= old(src)@.skip(2)); }
        Ok(Some(Socks5InitialResponse::new(Socks5AuthMethod::new(src.get_u8())?)))
    }
}

//@@ octo-squirrel/src/protocol/socks5/codec.rs:107-107  struct Socks5CommandResponseDecoder  sha=70bbae6b1f6a9f5e
pub struct Socks5CommandResponseDecoder;

//@@ octo-squirrel/src/protocol/socks5/codec.rs:109-127  impl Decoder for Socks5CommandResponseDecoder  sha=856e5fee1ca728c7
impl Socks5CommandResponseDecoder {

    fn decode(&mut self, src: &mut BytesMut) -> (r: Result<Option<Socks5CommandResponse>>)
        ensures
            //#C13 C04 C07
            match r {
                Ok(None) => final(src)@ == old(src)@ && (old(src)@.len() < 5 || (need5(old(src)@, 3) matches Some(n) && old(src)@.len() < 3 + n)),
                Ok(Some(rsp)) => old(src)@[0] == 5 && (parse5(old(src)@.skip(3)) matches Some((v, n)) && absaddr(rsp.bnd_addr) == v && final(src)@ == old(src)@.skip(3 + n as int)),
                Err(_) => old(src)@.len() >= 5,
            },
    {
        if src.remaining() < 5 || src.remaining() < 3 + address__try_decode_at(src, 3)? {
            return Ok(None);
        }
        let version = src.get_u8();
        if VERSION != version {
            return Err(verif_err());
        }
        let command_status = Socks5CommandStatus::try_from(src.get_u8())?;
        src.advance(1); // Reserved
        proof { assert(src@ =~= old(src)@.skip(3)); if parse5(src@) is Some { let n = parse5(src@).unwrap().1 as int; assert(src@.skip(n) =~= old(src)@.skip(3 + n as int)); } }
        let addr = address__decode(src)?;
        Ok(Some(Socks5CommandResponse::new(command_status, addr)))
    }
}

//@@ octo-squirrel/src/protocol/socks5/codec.rs:129-129  struct Socks5UdpCodec  sha=0d7428243bf68631
pub struct Socks5UdpCodec;

//@@ octo-squirrel/src/protocol/socks5/codec.rs:131-150  impl Decoder for Socks5UdpCodec  sha=d32cc3de6bd24cdb
impl Socks5UdpCodec {

    fn decode(&mut self, src: &mut BytesMut) -> (r: Result<Option<DatagramPacket>, anyhow::Error>)
        ensures
            //#C02 C13 C07 C14
            match r {
                Ok(None) => old(src)@.len() == 0,
                Ok(Some(pkt)) => old(src)@.len() >= 5 && old(src)@[2] == 0 && (parse5(old(src)@.skip(3)) matches Some((v, n)) && absaddr(pkt.1) == v && canonical(pkt.1) && repr(pkt.1)
                    && pkt.0@ == old(src)@.skip(3 + n as int)),
                Err(_) => old(src)@.len() > 0 && (old(src)@.len() < 5 || old(src)@[2] != 0 || parse5(old(src)@.skip(3)) is None),
            },
    {
        if src.is_empty() {
            return Ok(None);
        }
        if src.remaining() < 5 {
            return Err(verif_err());
        }
        if src[2] != 0 {
            return Err(verif_err());
        }
        src.advance(3);
        proof { if parse5(src@) is Some { let n = parse5(src@).unwrap().1 as int; assert(src@.skip(n).skip(0) =~= old(src)@.skip(3 + n as int)); } }
        let recipient = address__decode(src)?;
        Ok(Some((src.split_off(0), recipient)))
    }
}

//@@ octo-squirrel/src/protocol/socks5/codec.rs:152-161  impl Encoder for Socks5UdpCodec  sha=cfd7b2faecfc9eac
impl Socks5UdpCodec {

    fn encode(&mut self, item: DatagramPacket, dst: &mut BytesMut) -> (r: Result<(), anyhow::Error>)
        requires repr(item.1),
        ensures
            //#C02 C14
            r is Ok && final(dst)@ == old(dst)@ + seq![0u8, 0u8, 0u8] + enc5(absaddr(item.1)) + item.0@,
    {
        dst.extend_from_slice(&[0, 0, 0]); // Fragment
        address__encode(&item.1, dst);
        dst.extend_from_slice(&item.0);
        Ok(())
    }
}

