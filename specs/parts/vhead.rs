// ---- part vhead: util.rs fnv, protocol/vmess/aead/{kdf consts, auth_id, encrypt}.rs, server/vmess.rs, client/vmess.rs ----
impl core::convert::From<SystemTimeError> for anyhow::Error {
    #[verifier::external_body]
    fn from(e: SystemTimeError) -> anyhow::Error { unimplemented!() }
}
proof fn lemma_path3(p: Seq<&[u8]>, a: Seq<u8>, b: Seq<u8>, c: Seq<u8>)
    requires p.len() == 3, p[0]@ == a, p[1]@ == b, p[2]@ == c
    ensures path_view(p) == seq![a, b, c]
{ assert(path_view(p) =~= seq![a, b, c]); }

//@@ octo-squirrel/src/util.rs:15-22  mod fnv / fn fnv1a32  sha=6db10d0668e87ad2
fn fnv__fnv1a32(data: &[u8]) -> (r: u32)
    ensures
        //#C03
        r == fnv1a32_spec(data@),
 {
        let mut hash: u32 = 2166136261; // offset basis
        for b in it: data 
            invariant hash == fnv1a32_spec(data@.take(it.index@)), 0 <= it.index@ <= data@.len(),
        {
            hash ^= *b as u32;
            hash = hash.wrapping_mul(16777619); // prime
            proof { let k = it.index@; assert(*b == data@[k]); assert(data@.take(k + 1).drop_last() =~= data@.take(k)); assert(data@.take(k + 1).last() == data@[k]); }
        }
        proof { assert(data@.take(data@.len() as int) =~= data@); }
        hash
    }

//@@ octo-squirrel/src/protocol/vmess/aead/kdf.rs:6-6  const SALT_LENGTH_KEY  sha=342c6667ca5461c2
#[verifier::external_body] exec const kdf__SALT_LENGTH_KEY: &'static [u8] ensures kdf__SALT_LENGTH_KEY@ =~= seq![86u8, 77u8, 101u8, 115u8, 115u8, 32u8, 72u8, 101u8, 97u8, 100u8, 101u8, 114u8, 32u8, 65u8, 69u8, 65u8, 68u8, 32u8, 75u8, 101u8, 121u8, 95u8, 76u8, 101u8, 110u8, 103u8, 116u8, 104u8] { b"VMess Header AEAD Key_Length" }

//@@ octo-squirrel/src/protocol/vmess/aead/kdf.rs:7-7  const SALT_LENGTH_IV  sha=6efb98bd8bf2645d
#[verifier::external_body] exec const kdf__SALT_LENGTH_IV: &'static [u8] ensures kdf__SALT_LENGTH_IV@ =~= seq![86u8, 77u8, 101u8, 115u8, 115u8, 32u8, 72u8, 101u8, 97u8, 100u8, 101u8, 114u8, 32u8, 65u8, 69u8, 65u8, 68u8, 32u8, 78u8, 111u8, 110u8, 99u8, 101u8, 95u8, 76u8, 101u8, 110u8, 103u8, 116u8, 104u8] { b"VMess Header AEAD Nonce_Length" }

//@@ octo-squirrel/src/protocol/vmess/aead/kdf.rs:8-8  const SALT_PAYLOAD_KEY  sha=b5c9891c7a7ca059
#[verifier::external_body] exec const kdf__SALT_PAYLOAD_KEY: &'static [u8] ensures kdf__SALT_PAYLOAD_KEY@ =~= seq![86u8, 77u8, 101u8, 115u8, 115u8, 32u8, 72u8, 101u8, 97u8, 100u8, 101u8, 114u8, 32u8, 65u8, 69u8, 65u8, 68u8, 32u8, 75u8, 101u8, 121u8] { b"VMess Header AEAD Key" }

//@@ octo-squirrel/src/protocol/vmess/aead/kdf.rs:9-9  const SALT_PAYLOAD_IV  sha=765c0a6a51994b20
#[verifier::external_body] exec const kdf__SALT_PAYLOAD_IV: &'static [u8] ensures kdf__SALT_PAYLOAD_IV@ =~= seq![86u8, 77u8, 101u8, 115u8, 115u8, 32u8, 72u8, 101u8, 97u8, 100u8, 101u8, 114u8, 32u8, 65u8, 69u8, 65u8, 68u8, 32u8, 78u8, 111u8, 110u8, 99u8, 101u8] { b"VMess Header AEAD Nonce" }

//@@ octo-squirrel/src/protocol/vmess/aead/kdf.rs:10-10  const SALT_AEAD_RESP_HEADER_LEN_KEY  sha=683332e147cbed0e
#[verifier::external_body] exec const kdf__SALT_AEAD_RESP_HEADER_LEN_KEY: &'static [u8] ensures kdf__SALT_AEAD_RESP_HEADER_LEN_KEY@ =~= seq![65u8, 69u8, 65u8, 68u8, 32u8, 82u8, 101u8, 115u8, 112u8, 32u8, 72u8, 101u8, 97u8, 100u8, 101u8, 114u8, 32u8, 76u8, 101u8, 110u8, 32u8, 75u8, 101u8, 121u8] { b"AEAD Resp Header Len Key" }

//@@ octo-squirrel/src/protocol/vmess/aead/kdf.rs:11-11  const SALT_AEAD_RESP_HEADER_LEN_IV  sha=8eacb24c495afd5a
#[verifier::external_body] exec const kdf__SALT_AEAD_RESP_HEADER_LEN_IV: &'static [u8] ensures kdf__SALT_AEAD_RESP_HEADER_LEN_IV@ =~= seq![65u8, 69u8, 65u8, 68u8, 32u8, 82u8, 101u8, 115u8, 112u8, 32u8, 72u8, 101u8, 97u8, 100u8, 101u8, 114u8, 32u8, 76u8, 101u8, 110u8, 32u8, 73u8, 86u8] { b"AEAD Resp Header Len IV" }

//@@ octo-squirrel/src/protocol/vmess/aead/kdf.rs:12-12  const SALT_AEAD_RESP_HEADER_PAYLOAD_KEY  sha=c6861bbf0827410e
#[verifier::external_body] exec const kdf__SALT_AEAD_RESP_HEADER_PAYLOAD_KEY: &'static [u8] ensures kdf__SALT_AEAD_RESP_HEADER_PAYLOAD_KEY@ =~= seq![65u8, 69u8, 65u8, 68u8, 32u8, 82u8, 101u8, 115u8, 112u8, 32u8, 72u8, 101u8, 97u8, 100u8, 101u8, 114u8, 32u8, 75u8, 101u8, 121u8] { b"AEAD Resp Header Key" }

//@@ octo-squirrel/src/protocol/vmess/aead/kdf.rs:13-13  const SALT_AEAD_RESP_HEADER_PAYLOAD_IV  sha=5649b3fd258b2cba
#[verifier::external_body] exec const kdf__SALT_AEAD_RESP_HEADER_PAYLOAD_IV: &'static [u8] ensures kdf__SALT_AEAD_RESP_HEADER_PAYLOAD_IV@ =~= seq![65u8, 69u8, 65u8, 68u8, 32u8, 82u8, 101u8, 115u8, 112u8, 32u8, 72u8, 101u8, 97u8, 100u8, 101u8, 114u8, 32u8, 73u8, 86u8] { b"AEAD Resp Header IV" }

//@@ octo-squirrel/src/protocol/vmess/aead/auth_id.rs:11-21  fn create  sha=d3e82d0099898d6a
#[verifier::external_body] fn verif_lit_8b6369acd5() -> (r: &'static [u8]) ensures r@ =~= seq![65u8, 69u8, 83u8, 32u8, 65u8, 117u8, 116u8, 104u8, 32u8, 73u8, 68u8, 32u8, 69u8, 110u8, 99u8, 114u8, 121u8, 112u8, 116u8, 105u8, 111u8, 110u8] { b"AES Auth ID Encryption" }
fn auth_id__create(key: &[u8], time: i64) -> (r: [u8; 16])
    ensures
        //#C03 C12
        // the plaintext under the auth-id key is be64(time) | 4 random bytes | be32(crc32 of those 12 bytes)
        ({ let p = aes_ecb_dec(128, authid_key(key@), r@);
           p.len() == 16 && p.take(8) == be_bytes(i64_nat(time), 8) && p.skip(12) == be_bytes(i32_nat(crc32_spec(p.take(12)) as i32), 4) }),
 {
    let mut auth_id = [0; 16];
    let mut buf = BytesMut::new();
    buf.put_i64(time);
    buf.put_u32(random());
    let crc32 = vmess__crc32(&buf);
    let ghost b12 = buf@;
    buf.put_i32(crc32 as i32);
    proof { lemma_be_bytes_len(i64_nat(time), 8); lemma_be_bytes_len(i32_nat(crc32 as i32), 4); assert(b12.len() == 12); assert(buf@.len() == 16); }
    auth_id.copy_from_slice(&buf);
    let ghost plain = auth_id@;
    proof { assert(plain.take(12) =~= b12); assert(plain.take(8) =~= be_bytes(i64_nat(time), 8)); assert(plain.skip(12) =~= be_bytes(i32_nat(crc32 as i32), 4)); }
    Aes128EcbNoPadding::encrypt(&kdf__kdf16(key, vec![verif_lit_8b6369acd5()]), &mut auth_id, 16);
    proof { let kk = authid_key(key@); assert(kk.take(16) =~= kk); assert(plain.take(16) =~= plain); assert(plain.skip(16) =~= Seq::<u8>::empty()); assert(auth_id@ =~= aes_ecb_enc(128, authid_key(key@), plain)); axiom_ecb_inverse(128, authid_key(key@), plain); }
    auth_id
}

//@@ octo-squirrel/src/protocol/vmess/aead/auth_id.rs:23-36  fn matching  sha=1ab4a83c6fc1d1ef
fn auth_id__matching(authid: &[u8], keys: &Vec<[u8; 16]>) -> (r: Result<Option<[u8; 16]>, SystemTimeError>)
    requires authid@.len() == 16
    ensures
        //#C06 C10
        // a key is returned only if it is a registered key under which the token decrypts to a CRC-valid plaintext stamped within 120 s of the clock
        r matches Ok(Some(k)) ==> exists|i: int| 0 <= i < keys@.len() && keys@[i] == k && #[trigger] authid_ok(keys@[i]@, authid@, vclock()),
        //#C06 C10
        r matches Ok(None) ==> forall|i: int| 0 <= i < keys@.len() ==> !#[trigger] authid_ok(keys@[i]@, authid@, vclock()),
 {
    for key in it: keys 
        invariant authid@.len() == 16, 0 <= it.index@ <= keys@.len(),
            forall|i: int| 0 <= i < it.index@ ==> !#[trigger] authid_ok(keys@[i]@, authid@, vclock()),
    {
        let mut cur = [0; 16];
        cur.copy_from_slice(authid);
        Aes128EcbNoPadding::decrypt(&kdf__kdf16(key, vec![verif_lit_8b6369acd5()]), &mut cur);
        let crc32 = vmess__crc32(&cur[..12]);
        let ghost p = cur@;
        proof { let kk = authid_key(key@); assert(kk.take(16) =~= kk); assert(*key == keys@[it.index@]); assert(p == aes_ecb_dec(128, authid_key(key@), authid@)); axiom_ecb_inverse(128, authid_key(key@), authid@); }
        let (l, r) = cur.split_at(12);
        proof { assert(l@ =~= p.take(12)); assert(r@ =~= p.skip(12)); assert(l@.take(8) =~= p.take(8)); }
        let now = i64::v_from_be_bytes(l[..8].v_try_into().unwrap());
        if i32::v_from_be_bytes(r.v_try_into().unwrap()) == crc32 as i32 && now.abs_diff(vmess__now()?) <= 120 {
            proof { let idx = it.index@; assert(p.len() == 16); assert(nat_i32(be_val(p.skip(12))) == (crc32_spec(p.take(12)) as i32)); assert(nat_i64(be_val(p.take(8))) == now); assert(authid_plain_ok(p, vclock())); assert(authid_ok(keys@[idx]@, authid@, vclock())); }
            return Ok(Some(*key));
        }
    }
    Ok(None)
}

//@@ octo-squirrel/src/protocol/vmess/aead/encrypt.rs:20-20  const NONCE_SIZE  sha=e0c733e46a4c3f2f
const encrypt__NONCE_SIZE: usize = 12;

//@@ octo-squirrel/src/protocol/vmess/aead/encrypt.rs:21-21  const TAG_SIZE  sha=7ad0b22869ec88e2
const encrypt__TAG_SIZE: usize = 16;

//@@ octo-squirrel/src/protocol/vmess/aead/encrypt.rs:23-41  fn seal_header  sha=8ab7ccb464f79684
fn encrypt__seal_header(key: &[u8], header: Bytes) -> (r: Result<Vec<u8>>)
    requires header@.len() <= 0xffff
    ensures
        //#C03 C12
        r matches Ok(v) ==> vhdr_sealed(key@, header@, v@),
 {
    let auth_id = auth_id__create(key, timestamp(30)?);
    let connection_nonce: [u8; 8] = random();
    let length = (header.len() as u16).v_to_be_bytes();
    let length_key = kdf__kdf16(key, vec![kdf__SALT_LENGTH_KEY, &auth_id, &connection_nonce]);
    let length_iv: [u8; encrypt__NONCE_SIZE] = kdf__kdfn(key, vec![kdf__SALT_LENGTH_IV, &auth_id, &connection_nonce]);
    let length_encrypted =
        Aes128Gcm::new_from_slice(&length_key)?.encrypt(&length_iv.into(), Payload { msg: &length, aad: &auth_id }).map_err(|e| verif_err())?;
    let header_key = kdf__kdf16(key, vec![kdf__SALT_PAYLOAD_KEY, &auth_id, &connection_nonce]);
    let header_iv: [u8; encrypt__NONCE_SIZE] = kdf__kdfn(key, vec![kdf__SALT_PAYLOAD_IV, &auth_id, &connection_nonce]);
    let header_encrypted =
        Aes128Gcm::new_from_slice(&header_key)?.encrypt(&header_iv.into(), Payload { msg: &header, aad: &auth_id }).map_err(|e| verif_err())?;
    let ghost le = length_encrypted@;
    let ghost he = header_encrypted@;
    proof { lemma_be_bytes_len(header@.len(), 2); }
    let mut res = Vec::new();
    res.extend_from_slice(&auth_id); // 16
    res.extend_from_slice(&length_encrypted); // 2 + TAG_SIZE
    res.extend_from_slice(&connection_nonce); // 8
    res.extend_from_slice(&header_encrypted); // payload + TAG_SIZE
    proof {
        let w = res@;
        assert(w =~= auth_id@ + le + connection_nonce@ + he);
        assert(w.subrange(0, 16) =~= auth_id@);
        assert(w.subrange(34, 42) =~= connection_nonce@);
        assert(w.subrange(16, 34) =~= le);
        assert(w.subrange(42, w.len() as int) =~= he);
    }
    Ok(res)
}

//@@ octo-squirrel/src/protocol/vmess/aead/encrypt.rs:43-72  fn open_header  sha=a286a59407e33888
fn encrypt__open_header(key: &[u8], src: &mut BytesMut) -> (r: Result<Option<Vec<u8>>>)
    ensures
        //#C04 C06 C05 C03 C07
        match vhdr_parse(key@, old(src)@) {
            VHdr::Wait => r matches Ok(None) && final(src)@ == old(src)@,
            VHdr::Bad => r is Err,
            VHdr::Done(h, n) => r matches Ok(Some(v)) && v@ == h && final(src)@ == old(src)@.skip(n as int),
        },
 {
    let mut cursor = Cursor::new(src);
    if cursor.remaining() < encrypt__TAG_SIZE + 2 + encrypt__TAG_SIZE + 8 + encrypt__TAG_SIZE {
        proof { axiom_cursor_dropped(&cursor); }
        return Ok(None);
    }
    let mut auth_id = [0; encrypt__TAG_SIZE];
    let mut length_encrypted = [0; 2 + encrypt__TAG_SIZE];
    let mut nonce = [0; 8];
    cursor.copy_to_slice(&mut auth_id);
    cursor.copy_to_slice(&mut length_encrypted);
    cursor.copy_to_slice(&mut nonce);
    proof { assert(auth_id@ =~= old(src)@.subrange(0, 16)); assert(length_encrypted@ =~= old(src)@.subrange(16, 34)); assert(nonce@ =~= old(src)@.subrange(34, 42)); }
    let length_key = kdf__kdf16(key, vec![kdf__SALT_LENGTH_KEY, &auth_id, &nonce]);
    let length_iv: [u8; encrypt__NONCE_SIZE] = kdf__kdfn(key, vec![kdf__SALT_LENGTH_IV, &auth_id, &nonce]);
    let length_bytes = Aes128Gcm::new_from_slice(&length_key)?
        .decrypt(&length_iv.into(), Payload { msg: &length_encrypted, aad: &auth_id })
        .map_err(|e| verif_err())?;
    let ghost lb = length_bytes@;
    proof { let aid = old(src)@.subrange(0, 16); let nn = old(src)@.subrange(34, 42); let lenc = old(src)@.subrange(16, 34);
        assert(aead_open(0, vh_key(key@, lbl_len_key(), aid, nn), vh_iv(key@, lbl_len_iv(), aid, nn), aid, lenc) == Some(lb));
        axiom_open_unique(0, vh_key(key@, lbl_len_key(), aid, nn), vh_iv(key@, lbl_len_iv(), aid, nn), aid, lenc);
        axiom_seal_len(0, vh_key(key@, lbl_len_key(), aid, nn), vh_iv(key@, lbl_len_iv(), aid, nn), aid, lb);
        assert(lb.len() == 2); }
    let length = u16::v_from_be_bytes(length_bytes.v_try_into().map_err(|_verif_ign0| verif_err())?) as usize;
    proof { lemma_be_val_bound(lb); lemma_pow256_vals(); }
    if cursor.remaining() < length + encrypt__TAG_SIZE {
        proof { axiom_cursor_dropped(&cursor); }
        return Ok(None);
    }
    let header_key = kdf__kdf16(key, vec![kdf__SALT_PAYLOAD_KEY, &auth_id, &nonce]);
    let header_iv: [u8; encrypt__NONCE_SIZE] = kdf__kdfn(key, vec![kdf__SALT_PAYLOAD_IV, &auth_id, &nonce]);
    let header_encrypted = cursor.copy_to_bytes(length + encrypt__TAG_SIZE);
    proof { assert(header_encrypted@ =~= old(src)@.subrange(42, 42 + length + 16)); }
    let header_bytes = Aes128Gcm::new_from_slice(&header_key)?
        .decrypt(&header_iv.into(), Payload { msg: &header_encrypted, aad: &auth_id })
        .map_err(|e| verif_err())?;
    let pos = cursor.position();
    cursor.into_inner().advance(pos as usize);
    Ok(Some(header_bytes))
}
