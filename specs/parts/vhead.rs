// ---- part vhead: util.rs fnv, protocol/vmess/aead/{kdf consts, auth_id, encrypt}.rs, server/vmess.rs, client/vmess.rs ----
impl core::convert::From<SystemTimeError> for anyhow::Error {
    #[verifier::external_body]
    fn from(e: SystemTimeError) -> anyhow::Error { unimplemented!() }
}
/// protocol/vmess/header.rs RequestOption::{values, from_mask, get_mask} (iterator adapters, R9): option list <-> bit mask.  ASSUMED contracts.
/// V2Fly VMess: option bits S=1 (chunk stream), R=2 (connection reuse), M=4 (chunk masking), P=8 (global padding), A=16 (authenticated length)
spec fn opt_bit(o: RequestOption) -> u8 { match o { RequestOption::ChunkStream => 1, RequestOption::ConnectionReuse => 2, RequestOption::ChunkMasking => 4, RequestOption::GlobalPadding => 8, RequestOption::AuthenticatedLength => 16 } }
//#C03
proof fn lemma_opt_bits(o: RequestOption) ensures opt_bit(o) == o as u8 {}
spec fn mask_of(s: Seq<RequestOption>) -> u8 decreases s.len() { if s.len() == 0 { 0u8 } else { mask_of(s.drop_last()) | opt_bit(s.last()) } }
impl RequestOption {
    #[verifier::external_body]
    fn from_mask(mask: u8) -> (r: Vec<RequestOption>)
        ensures forall|o: RequestOption| r@.contains(o) == (opt_bit(o) & mask != 0)
    { unimplemented!() }
    #[verifier::external_body]
    fn get_mask(options: &[RequestOption]) -> (r: u8)
        ensures r == mask_of(options@)
    { unimplemented!() }
}
spec fn seg(s: Seq<u8>, a: int, n: int) -> Seq<u8> { s.subrange(a, a + n) }
proof fn lemma_path3(p: Seq<&[u8]>, a: Seq<u8>, b: Seq<u8>, c: Seq<u8>)
    requires p.len() == 3, p[0]@ == a, p[1]@ == b, p[2]@ == c
    ensures path_view(p) == seq![a, b, c]
{ assert(path_view(p) =~= seq![a, b, c]); }

//@@ octo-squirrel/src/util.rs:15-22  mod fnv / fn fnv1a32  sha=6db10d0668e87ad2
fn fnv__fnv1a32(data: &[u8]) -> (r: u32)
    ensures
        //#C03
        r == fnv1a32_spec(data@),
 {
        let mut hash: u32 = 2166136261; // offset basis
        for b in it: data 
            invariant hash == fnv1a32_spec(data@.take(it.index@)), 0 <= it.index@ <= data@.len(),
        {
            hash ^= *b as u32;
            hash = hash.wrapping_mul(16777619); // prime
            proof { let k = it.index@; assert(*b == data@[k]); assert(data@.take(k + 1).drop_last() =~= data@.take(k)); assert(data@.take(k + 1).last() == data@[k]); }
        }
        proof { assert(data@.take(data@.len() as int) =~= data@); }
        hash
    }

//@@ octo-squirrel/src/protocol/vmess.rs:13-13  const VERSION  sha=ed005120139ab396
pub const vmessp__VERSION: u8 = 1;

//@@ octo-squirrel/src/protocol/vmess/aead/kdf.rs:6-6  const SALT_LENGTH_KEY  sha=342c6667ca5461c2
#[verifier::external_body] exec const kdf__SALT_LENGTH_KEY: &'static [u8] ensures kdf__SALT_LENGTH_KEY@ =~= seq![86u8, 77u8, 101u8, 115u8, 115u8, 32u8, 72u8, 101u8, 97u8, 100u8, 101u8, 114u8, 32u8, 65u8, 69u8, 65u8, 68u8, 32u8, 75u8, 101u8, 121u8, 95u8, 76u8, 101u8, 110u8, 103u8, 116u8, 104u8] { b"VMess Header AEAD Key_Length" }

//@@ octo-squirrel/src/protocol/vmess/aead/kdf.rs:7-7  const SALT_LENGTH_IV  sha=6efb98bd8bf2645d
#[verifier::external_body] exec const kdf__SALT_LENGTH_IV: &'static [u8] ensures kdf__SALT_LENGTH_IV@ =~= seq![86u8, 77u8, 101u8, 115u8, 115u8, 32u8, 72u8, 101u8, 97u8, 100u8, 101u8, 114u8, 32u8, 65u8, 69u8, 65u8, 68u8, 32u8, 78u8, 111u8, 110u8, 99u8, 101u8, 95u8, 76u8, 101u8, 110u8, 103u8, 116u8, 104u8] { b"VMess Header AEAD Nonce_Length" }

//@@ octo-squirrel/src/protocol/vmess/aead/kdf.rs:8-8  const SALT_PAYLOAD_KEY  sha=b5c9891c7a7ca059
#[verifier::external_body] exec const kdf__SALT_PAYLOAD_KEY: &'static [u8] ensures kdf__SALT_PAYLOAD_KEY@ =~= seq![86u8, 77u8, 101u8, 115u8, 115u8, 32u8, 72u8, 101u8, 97u8, 100u8, 101u8, 114u8, 32u8, 65u8, 69u8, 65u8, 68u8, 32u8, 75u8, 101u8, 121u8] { b"VMess Header AEAD Key" }

//@@ octo-squirrel/src/protocol/vmess/aead/kdf.rs:9-9  const SALT_PAYLOAD_IV  sha=765c0a6a51994b20
#[verifier::external_body] exec const kdf__SALT_PAYLOAD_IV: &'static [u8] ensures kdf__SALT_PAYLOAD_IV@ =~= seq![86u8, 77u8, 101u8, 115u8, 115u8, 32u8, 72u8, 101u8, 97u8, 100u8, 101u8, 114u8, 32u8, 65u8, 69u8, 65u8, 68u8, 32u8, 78u8, 111u8, 110u8, 99u8, 101u8] { b"VMess Header AEAD Nonce" }

//@@ octo-squirrel/src/protocol/vmess/aead/kdf.rs:10-10  const SALT_AEAD_RESP_HEADER_LEN_KEY  sha=683332e147cbed0e
#[verifier::external_body] exec const kdf__SALT_AEAD_RESP_HEADER_LEN_KEY: &'static [u8] ensures kdf__SALT_AEAD_RESP_HEADER_LEN_KEY@ =~= seq![65u8, 69u8, 65u8, 68u8, 32u8, 82u8, 101u8, 115u8, 112u8, 32u8, 72u8, 101u8, 97u8, 100u8, 101u8, 114u8, 32u8, 76u8, 101u8, 110u8, 32u8, 75u8, 101u8, 121u8] { b"AEAD Resp Header Len Key" }

//@@ octo-squirrel/src/protocol/vmess/aead/kdf.rs:11-11  const SALT_AEAD_RESP_HEADER_LEN_IV  sha=8eacb24c495afd5a
#[verifier::external_body] exec const kdf__SALT_AEAD_RESP_HEADER_LEN_IV: &'static [u8] ensures kdf__SALT_AEAD_RESP_HEADER_LEN_IV@ =~= seq![65u8, 69u8, 65u8, 68u8, 32u8, 82u8, 101u8, 115u8, 112u8, 32u8, 72u8, 101u8, 97u8, 100u8, 101u8, 114u8, 32u8, 76u8, 101u8, 110u8, 32u8, 73u8, 86u8] { b"AEAD Resp Header Len IV" }

//@@ octo-squirrel/src/protocol/vmess/aead/kdf.rs:12-12  const SALT_AEAD_RESP_HEADER_PAYLOAD_KEY  sha=c6861bbf0827410e
#[verifier::external_body] exec const kdf__SALT_AEAD_RESP_HEADER_PAYLOAD_KEY: &'static [u8] ensures kdf__SALT_AEAD_RESP_HEADER_PAYLOAD_KEY@ =~= seq![65u8, 69u8, 65u8, 68u8, 32u8, 82u8, 101u8, 115u8, 112u8, 32u8, 72u8, 101u8, 97u8, 100u8, 101u8, 114u8, 32u8, 75u8, 101u8, 121u8] { b"AEAD Resp Header Key" }

//@@ octo-squirrel/src/protocol/vmess/aead/kdf.rs:13-13  const SALT_AEAD_RESP_HEADER_PAYLOAD_IV  sha=5649b3fd258b2cba
#[verifier::external_body] exec const kdf__SALT_AEAD_RESP_HEADER_PAYLOAD_IV: &'static [u8] ensures kdf__SALT_AEAD_RESP_HEADER_PAYLOAD_IV@ =~= seq![65u8, 69u8, 65u8, 68u8, 32u8, 82u8, 101u8, 115u8, 112u8, 32u8, 72u8, 101u8, 97u8, 100u8, 101u8, 114u8, 32u8, 73u8, 86u8] { b"AEAD Resp Header IV" }

//@@ octo-squirrel/src/protocol/vmess/aead/auth_id.rs:11-21  fn create  sha=d3e82d0099898d6a
#[verifier::external_body] fn verif_lit_8b6369acd5() -> (r: &'static [u8]) ensures r@ =~= seq![65u8, 69u8, 83u8, 32u8, 65u8, 117u8, 116u8, 104u8, 32u8, 73u8, 68u8, 32u8, 69u8, 110u8, 99u8, 114u8, 121u8, 112u8, 116u8, 105u8, 111u8, 110u8] { b"AES Auth ID Encryption" }
fn auth_id__create(key: &[u8], time: i64) -> (r: [u8; 16])
    ensures
        //#C03 C12
        // the plaintext under the auth-id key is be64(time) | 4 random bytes | be32(crc32 of those 12 bytes)
        ({ let p = aes_ecb_dec(128, authid_key(key@), r@);
           p.len() == 16 && p.take(8) == be_bytes(i64_nat(time), 8) && p.skip(12) == be_bytes(i32_nat(crc32_spec(p.take(12)) as i32), 4) }),
 {
    let mut auth_id = [0; 16];
    let mut buf = BytesMut::new();
    buf.put_i64(time);
    buf.put_u32(random());
    let crc32 = vmess__crc32(&buf);
    let ghost b12 = buf@;
    buf.put_i32(crc32 as i32);
    proof { lemma_be_bytes_len(i64_nat(time), 8); lemma_be_bytes_len(i32_nat(crc32 as i32), 4); assert(b12.len() == 12); assert(buf@.len() == 16); }
    auth_id.copy_from_slice(&buf);
    let ghost plain = auth_id@;
    proof { assert(plain.take(12) =~= b12); assert(plain.take(8) =~= be_bytes(i64_nat(time), 8)); assert(plain.skip(12) =~= be_bytes(i32_nat(crc32 as i32), 4)); }
    Aes128EcbNoPadding::encrypt(&kdf__kdf16(key, vec![verif_lit_8b6369acd5()]), &mut auth_id, 16);
    proof { let kk = authid_key(key@); assert(kk.take(16) =~= kk); assert(plain.take(16) =~= plain); assert(plain.skip(16) =~= Seq::<u8>::empty()); assert(auth_id@ =~= aes_ecb_enc(128, authid_key(key@), plain)); axiom_ecb_inverse(128, authid_key(key@), plain); }
    auth_id
}

//@@ octo-squirrel/src/protocol/vmess/aead/auth_id.rs:23-36  fn matching  sha=1ab4a83c6fc1d1ef
fn auth_id__matching(authid: &[u8], keys: &Vec<[u8; 16]>) -> (r: Result<Option<[u8; 16]>, SystemTimeError>)
    requires authid@.len() == 16
    ensures
        //#C06 C10
        // a key is returned only if it is a registered key under which the token decrypts to a CRC-valid plaintext stamped within 120 s of the clock
        r matches Ok(Some(k)) ==> exists|i: int| 0 <= i < keys@.len() && keys@[i] == k && #[trigger] authid_ok(keys@[i]@, authid@, vclock()),
        //#C06 C10
        r matches Ok(None) ==> forall|i: int| 0 <= i < keys@.len() ==> !#[trigger] authid_ok(keys@[i]@, authid@, vclock()),
 {
    for key in it: keys 
        invariant authid@.len() == 16, 0 <= it.index@ <= keys@.len(),
            forall|i: int| 0 <= i < it.index@ ==> !#[trigger] authid_ok(keys@[i]@, authid@, vclock()),
    {
        let mut cur = [0; 16];
        cur.copy_from_slice(authid);
        Aes128EcbNoPadding::decrypt(&kdf__kdf16(key, vec![verif_lit_8b6369acd5()]), &mut cur);
        let crc32 = vmess__crc32(&cur[..12]);
        let ghost p = cur@;
        proof { let kk = authid_key(key@); assert(kk.take(16) =~= kk); assert(*key == keys@[it.index@]); assert(p == aes_ecb_dec(128, authid_key(key@), authid@)); axiom_ecb_inverse(128, authid_key(key@), authid@); }
        let (l, r) = cur.split_at(12);
        proof { assert(l@ =~= p.take(12)); assert(r@ =~= p.skip(12)); assert(l@.take(8) =~= p.take(8)); }
        let now = i64::v_from_be_bytes(l[..8].v_try_into().unwrap());
        if i32::v_from_be_bytes(r.v_try_into().unwrap()) == crc32 as i32 && now.abs_diff(vmess__now()?) <= 120 {
            proof { let idx = it.index@; assert(p.len() == 16); assert(nat_i32(be_val(p.skip(12))) == (crc32_spec(p.take(12)) as i32)); assert(nat_i64(be_val(p.take(8))) == now); assert(authid_plain_ok(p, vclock())); assert(authid_ok(keys@[idx]@, authid@, vclock())); }
            return Ok(Some(*key));
        }
    }
    Ok(None)
}

//@@ octo-squirrel/src/protocol/vmess/aead/encrypt.rs:20-20  const NONCE_SIZE  sha=e0c733e46a4c3f2f
const encrypt__NONCE_SIZE: usize = 12;

//@@ octo-squirrel/src/protocol/vmess/aead/encrypt.rs:21-21  const TAG_SIZE  sha=7ad0b22869ec88e2
const encrypt__TAG_SIZE: usize = 16;

//@@ octo-squirrel/src/protocol/vmess/aead/encrypt.rs:23-41  fn seal_header  sha=8ab7ccb464f79684
fn encrypt__seal_header(key: &[u8], header: Bytes) -> (r: Result<Vec<u8>>)
    requires header@.len() <= 0xffff
    ensures
        //#C03 C12
        r matches Ok(v) ==> vhdr_sealed(key@, header@, v@),
 {
    let auth_id = auth_id__create(key, timestamp(30)?);
    let connection_nonce: [u8; 8] = random();
    let length = (header.len() as u16).v_to_be_bytes();
    let length_key = kdf__kdf16(key, vec![kdf__SALT_LENGTH_KEY, &auth_id, &connection_nonce]);
    let length_iv: [u8; encrypt__NONCE_SIZE] = kdf__kdfn(key, vec![kdf__SALT_LENGTH_IV, &auth_id, &connection_nonce]);
    let length_encrypted =
        Aes128Gcm::new_from_slice(&length_key)?.encrypt(&length_iv.into(), Payload { msg: &length, aad: &auth_id }).map_err(|e| verif_err())?;
    let header_key = kdf__kdf16(key, vec![kdf__SALT_PAYLOAD_KEY, &auth_id, &connection_nonce]);
    let header_iv: [u8; encrypt__NONCE_SIZE] = kdf__kdfn(key, vec![kdf__SALT_PAYLOAD_IV, &auth_id, &connection_nonce]);
    let header_encrypted =
        Aes128Gcm::new_from_slice(&header_key)?.encrypt(&header_iv.into(), Payload { msg: &header, aad: &auth_id }).map_err(|e| verif_err())?;
    let ghost le = length_encrypted@;
    let ghost he = header_encrypted@;
    proof { lemma_be_bytes_len(header@.len(), 2); }
    let mut res = Vec::new();
    res.extend_from_slice(&auth_id); // 16
    res.extend_from_slice(&length_encrypted); // 2 + TAG_SIZE
    res.extend_from_slice(&connection_nonce); // 8
    res.extend_from_slice(&header_encrypted); // payload + TAG_SIZE
    proof {
        let w = res@;
        assert(w =~= auth_id@ + le + connection_nonce@ + he);
        assert(w.subrange(0, 16) =~= auth_id@);
        assert(w.subrange(34, 42) =~= connection_nonce@);
        assert(w.subrange(16, 34) =~= le);
        assert(w.subrange(42, w.len() as int) =~= he);
    }
    Ok(res)
}

//@@ octo-squirrel/src/protocol/vmess/aead/encrypt.rs:43-72  fn open_header  sha=a286a59407e33888
fn encrypt__open_header(key: &[u8], src: &mut BytesMut) -> (r: Result<Option<Vec<u8>>>)
    ensures
        //#C04 C06 C05 C03 C07
        match vhdr_parse(key@, old(src)@) {
            VHdr::Wait => r matches Ok(None) && final(src)@ == old(src)@,
            VHdr::Bad => r is Err,
            VHdr::Done(h, n) => r matches Ok(Some(v)) && v@ == h && final(src)@ == old(src)@.skip(n as int),
        },
 {
    let mut cursor = Cursor::new(src);
    if cursor.remaining() < encrypt__TAG_SIZE + 2 + encrypt__TAG_SIZE + 8 + encrypt__TAG_SIZE {
        proof { axiom_cursor_dropped(&cursor); }
        return Ok(None);
    }
    let mut auth_id = [0; encrypt__TAG_SIZE];
    let mut length_encrypted = [0; 2 + encrypt__TAG_SIZE];
    let mut nonce = [0; 8];
    cursor.copy_to_slice(&mut auth_id);
    cursor.copy_to_slice(&mut length_encrypted);
    cursor.copy_to_slice(&mut nonce);
    proof { assert(auth_id@ =~= old(src)@.subrange(0, 16)); assert(length_encrypted@ =~= old(src)@.subrange(16, 34)); assert(nonce@ =~= old(src)@.subrange(34, 42)); }
    let length_key = kdf__kdf16(key, vec![kdf__SALT_LENGTH_KEY, &auth_id, &nonce]);
    let length_iv: [u8; encrypt__NONCE_SIZE] = kdf__kdfn(key, vec![kdf__SALT_LENGTH_IV, &auth_id, &nonce]);
    let length_bytes = Aes128Gcm::new_from_slice(&length_key)?
        .decrypt(&length_iv.into(), Payload { msg: &length_encrypted, aad: &auth_id })
        .map_err(|e| verif_err())?;
    let ghost lb = length_bytes@;
    proof { let aid = old(src)@.subrange(0, 16); let nn = old(src)@.subrange(34, 42); let lenc = old(src)@.subrange(16, 34);
        assert(aead_open(0, vh_key(key@, lbl_len_key(), aid, nn), vh_iv(key@, lbl_len_iv(), aid, nn), aid, lenc) == Some(lb));
        axiom_open_unique(0, vh_key(key@, lbl_len_key(), aid, nn), vh_iv(key@, lbl_len_iv(), aid, nn), aid, lenc);
        axiom_seal_len(0, vh_key(key@, lbl_len_key(), aid, nn), vh_iv(key@, lbl_len_iv(), aid, nn), aid, lb);
        assert(lb.len() == 2); }
    let length = u16::v_from_be_bytes(length_bytes.v_try_into().map_err(|_verif_ign0| verif_err())?) as usize;
    proof { lemma_be_val_bound(lb); lemma_pow256_vals(); }
    if cursor.remaining() < length + encrypt__TAG_SIZE {
        proof { axiom_cursor_dropped(&cursor); }
        return Ok(None);
    }
    let header_key = kdf__kdf16(key, vec![kdf__SALT_PAYLOAD_KEY, &auth_id, &nonce]);
    let header_iv: [u8; encrypt__NONCE_SIZE] = kdf__kdfn(key, vec![kdf__SALT_PAYLOAD_IV, &auth_id, &nonce]);
    let header_encrypted = cursor.copy_to_bytes(length + encrypt__TAG_SIZE);
    proof { assert(header_encrypted@ =~= old(src)@.subrange(42, 42 + length + 16)); }
    let header_bytes = Aes128Gcm::new_from_slice(&header_key)?
        .decrypt(&header_iv.into(), Payload { msg: &header_encrypted, aad: &auth_id })
        .map_err(|e| verif_err())?;
    let pos = cursor.position();
    cursor.into_inner().advance(pos as usize);
    Ok(Some(header_bytes))
}

//@@ octo-squirrel-server/src/server/template.rs:39-43  mod message / enum InboundIn  sha=900b92278fa20e17
pub enum InboundIn {
        ConnectTcp(BytesMut, Address),
        RelayTcp(BytesMut),
        RelayUdp(BytesMut, Address),
    }

//@@ octo-squirrel-server/src/server/template.rs:71-74  mod message / enum OutboundIn  sha=8f4f430e0a7dd220
pub enum OutboundIn {
        Tcp(BytesMut),
        Udp((BytesMut, SocketAddr)),
    }

//@@ octo-squirrel-server/src/server/template.rs:76-83  mod message / impl From for BytesMut  sha=836a0617d15043fc
impl vstd::std_specs::convert::FromSpecImpl<OutboundIn> for BytesMut {
    open spec fn obeys_from_spec() -> bool { true }
    open spec fn from_spec(v: OutboundIn) -> Self { match v { OutboundIn::Tcp(b) => b, OutboundIn::Udp((b, _)) => b } }
}
impl From<OutboundIn> for BytesMut {
        fn from(value: OutboundIn) -> Self {
            match value {
                OutboundIn::Tcp(bytes) => bytes,
                OutboundIn::Udp((bytes, _)) => bytes,
            }
        }
    }

//@@ octo-squirrel-server/src/server/vmess.rs:37-40  enum DecodeState  sha=c97ebb9f52444016
enum vsrv__DecodeState {
    Init,
    Ready(RequestHeader, ServerSession, Box<AEADBodyCodec>),
}

//@@ octo-squirrel-server/src/server/vmess.rs:42-45  enum EncodeState  sha=23b179cf3462b1cd
enum vsrv__EncodeState {
    Init,
    Ready(Box<AEADBodyCodec>),
}

//@@ octo-squirrel-server/src/server/vmess.rs:47-53  struct ServerAeadCodec  sha=9184cf7c0e48a02e
pub struct ServerAeadCodec {
    keys: Vec<[u8; 16]>,
    decode_state: vsrv__DecodeState,
    encode_state: vsrv__EncodeState,
    /// whether the item that carries the target address has been delivered
    connected: bool,
}

//@@ octo-squirrel-server/src/server/vmess.rs:55-116  impl ServerAeadCodec  sha=044ec0173ea6c4ec
impl ServerAeadCodec {
    spec fn wf(&self) -> bool {
        (self.decode_state matches vsrv__DecodeState::Ready(h, s, d) ==> d.wf())
        && (self.encode_state matches vsrv__EncodeState::Ready(e) ==> e.wf())
        && (self.decode_state is Init ==> !self.connected)
    }
    fn encode(
        item: BytesMut,
        dst: &mut BytesMut,
        request_header: &RequestHeader,
        session: &mut ServerSession,
        encoder: &mut AEADBodyCodec,
    ) -> (r: anyhow::Result<()>)
        requires old(encoder).wf(),
        ensures final(encoder).wf(), final(encoder).same_static(old(encoder)), final(encoder).state == old(encoder).state, sess_same(old(session), final(session)),
            //#C01 C02 C03
            r is Ok ==> final(dst)@.len() >= old(dst)@.len() && final(dst)@.take(old(dst)@.len() as int) == old(dst)@,
            //#C01 C03
            (r is Ok && request_header.command is TCP) ==> vwire_rel(old(encoder).ecfg(old(session)), old(encoder).dynv(), item@, final(dst)@.skip(old(dst)@.len() as int)),
            //#C02 C03
            (r is Ok && request_header.command is UDP) ==> (final(dst)@ == old(dst)@ || vchunk_rel(old(encoder).ecfg(old(session)), old(encoder).dynv(), item@, final(dst)@.skip(old(dst)@.len() as int))),
    {
        match request_header.command {
            RequestCommand::TCP => encoder.encode_payload(item, dst, session).map_err(|e| verif_err()),
            RequestCommand::UDP => encoder.encode_packet(item, dst, session).map_err(|e| verif_err()),
        }
    }

    fn decode_header(
        src: &mut BytesMut,
        header: &mut RequestHeader,
        session: &mut ServerSession,
        decoder: &mut AEADBodyCodec,
    ) -> (r: anyhow::Result<Option<InboundIn>>)
        requires old(decoder).wf(),
        ensures final(decoder).wf(), final(decoder).same_static(old(decoder)), sess_same(old(session), final(session)), *final(header) == *old(header),
            //#C04 C05 C01 C06 C07
            // TCP: the plaintext of all complete chunks together with the target address, or nothing yet; an authentication failure is an error
            old(header).command is TCP ==> match vparse(old(decoder).dcfg(old(session)), old(decoder).abs(), old(decoder).dynv(), old(src)@) {
                None => r is Err,
                Some(q) => final(decoder).abs() == q.st && final(decoder).dynv() == q.d && final(src)@ == q.rest
                    && (if q.out.len() == 0 { r matches Ok(None) } else { r matches Ok(Some(InboundIn::ConnectTcp(b, a))) && b@ == q.out && a == old(header).address }),
            },
            //#C04 C05 C02 C06 C07
            old(header).command is UDP ==> match vparse_pkt(old(decoder).dcfg(old(session)), old(decoder).abs(), old(decoder).dynv(), old(src)@) {
                None => r is Err,
                Some(q) => final(decoder).abs() == q.st && final(decoder).dynv() == q.d && final(src)@ == q.rest
                    && match q.pkt { None => r matches Ok(None), Some(p) => r matches Ok(Some(InboundIn::RelayUdp(b, a))) && b@ == p && a == old(header).address },
            },
    {
        match header.command {
            RequestCommand::TCP => {
                if let Some(msg) = decoder.decode_payload(src, session).map_err(|e| verif_err())? {
                    Ok(Some(InboundIn::ConnectTcp(msg, header.address.clone())))
                } else {
                    Ok(None)
                }
            }
            RequestCommand::UDP => {
                if let Some(msg) = decoder.decode_packet(src, session).map_err(|e| verif_err())? {
                    Ok(Some(InboundIn::RelayUdp(msg, header.address.clone())))
                } else {
                    Ok(None)
                }
            }
        }
    }

    fn decode_body(
        src: &mut BytesMut,
        header: &mut RequestHeader,
        session: &mut ServerSession,
        decoder: &mut AEADBodyCodec,
    ) -> (r: anyhow::Result<Option<InboundIn>>)
        requires old(decoder).wf(),
        ensures final(decoder).wf(), final(decoder).same_static(old(decoder)), sess_same(old(session), final(session)), *final(header) == *old(header),
            //#C04 C05 C01 C06 C07
            // TCP: the plaintext of all complete chunks, or nothing yet; an authentication failure is an error
            old(header).command is TCP ==> match vparse(old(decoder).dcfg(old(session)), old(decoder).abs(), old(decoder).dynv(), old(src)@) {
                None => r is Err,
                Some(q) => final(decoder).abs() == q.st && final(decoder).dynv() == q.d && final(src)@ == q.rest
                    && (if q.out.len() == 0 { r matches Ok(None) } else { r matches Ok(Some(InboundIn::RelayTcp(b))) && b@ == q.out }),
            },
            //#C04 C05 C02 C06 C07
            old(header).command is UDP ==> match vparse_pkt(old(decoder).dcfg(old(session)), old(decoder).abs(), old(decoder).dynv(), old(src)@) {
                None => r is Err,
                Some(q) => final(decoder).abs() == q.st && final(decoder).dynv() == q.d && final(src)@ == q.rest
                    && match q.pkt { None => r matches Ok(None), Some(p) => r matches Ok(Some(InboundIn::RelayUdp(b, a))) && b@ == p && a == old(header).address },
            },
    {
        match header.command {
            RequestCommand::TCP => {
                if let Some(msg) = decoder.decode_payload(src, session).map_err(|e| verif_err())? {
                    Ok(Some(InboundIn::RelayTcp(msg)))
                } else {
                    Ok(None)
                }
            }
            RequestCommand::UDP => {
                if let Some(msg) = decoder.decode_packet(src, session).map_err(|e| verif_err())? {
                    Ok(Some(InboundIn::RelayUdp(msg, header.address.clone())))
                } else {
                    Ok(None)
                }
            }
        }
    }
}

//@@ octo-squirrel-server/src/server/vmess.rs:118-151  impl Encoder for ServerAeadCodec  sha=4046402ed276a29b
impl ServerAeadCodec {

    fn encode_item(&mut self, item: OutboundIn, dst: &mut BytesMut) -> (r: Result<(), anyhow::Error>)
        requires old(self).wf(),
        ensures final(self).wf(), final(self).keys == old(self).keys, final(self).connected == old(self).connected,
            //#C06
            // nothing is sent before a request was accepted
            old(self).decode_state is Init ==> r is Err && final(dst)@ == old(dst)@,
            //#C03 C05 C10
            // the first reply starts with the response header sealed under keys derived from this session's response key / iv and echoes its response byte
            (r is Ok && old(self).encode_state is Init) ==> (old(self).decode_state matches vsrv__DecodeState::Ready(h, s, d) && final(dst)@.len() >= old(dst)@.len() + 38
                && seg(final(dst)@, old(dst)@.len() as int, 18) == aead_seal(0, vkdf(s.response_body_key@, seq![lbl_resp_len_key()]).take(16), vkdf(s.response_body_iv@, seq![lbl_resp_len_iv()]).take(12), Seq::empty(), be_bytes(4, 2))
                && seg(final(dst)@, (old(dst)@.len() + 18) as int, 20) == aead_seal(0, vkdf(s.response_body_key@, seq![lbl_resp_key()]).take(16), vkdf(s.response_body_iv@, seq![lbl_resp_iv()]).take(12), Seq::empty(), seq![s.response_header, mask_of(h.option@), 0u8, 0u8])),
    {
        if let vsrv__DecodeState::Ready(ref request_header, ref mut session, _) = self.decode_state {
            match self.encode_state {
                vsrv__EncodeState::Init => {
                    const NONCE_SIZE: usize = 12;
                    let header_len_key = kdf__kdf16(&session.response_body_key, vec![kdf__SALT_AEAD_RESP_HEADER_LEN_KEY]);
                    let cipher = Aes128Gcm::new_from_slice(&header_len_key)?;
                    let header_len_iv: [u8; NONCE_SIZE] = kdf__kdfn(&session.response_body_iv, vec![kdf__SALT_AEAD_RESP_HEADER_LEN_IV]);
                    let option = RequestOption::get_mask(&request_header.option);
                    let header: [u8; 4] = [session.response_header, option, 0, 0];
                    let ghost d0 = dst@;
                    dst.extend_from_slice(
                        &cipher
                            .encrypt(&header_len_iv.into(), Payload { msg: &(header.len() as u16).v_to_be_bytes(), aad: &[] })
                            .map_err(|e| verif_err())?,
                    );
                    let ghost d1 = dst@;
                    proof { assert(header@ =~= seq![session.response_header, option, 0u8, 0u8]); assert(d1.len() == d0.len() + 18); assert(seg(d1, d0.len() as int, 18) =~= d1.skip(d0.len() as int)); }
                    let payload_len_key = kdf__kdf16(&session.response_body_key, vec![kdf__SALT_AEAD_RESP_HEADER_PAYLOAD_KEY]);
                    let cipher = Aes128Gcm::new_from_slice(&payload_len_key)?;
                    let payload_len_iv: [u8; NONCE_SIZE] = kdf__kdfn(&session.response_body_iv, vec![kdf__SALT_AEAD_RESP_HEADER_PAYLOAD_IV]);
                    dst.extend_from_slice(&cipher.encrypt(&payload_len_iv.into(), Payload { msg: &header, aad: &[] }).map_err(|e| verif_err())?);
                    let ghost d2 = dst@;
                    proof { assert(d2.len() == d1.len() + 20); assert(seg(d2, d0.len() as int, 18) =~= d1.skip(d0.len() as int)); assert(seg(d2, (d0.len() + 18) as int, 20) =~= d2.skip(d1.len() as int)); }
                    let mut encoder = AEADBodyCodec::new_encoder(request_header, session)?;
                    let res = Self::encode(item.into(), dst, request_header, session, &mut encoder);
                    proof { if res is Ok { assert(dst@.take(d2.len() as int) == d2); assert(seg(dst@, d0.len() as int, 18) =~= seg(d2, d0.len() as int, 18)); assert(seg(dst@, (d0.len() + 18) as int, 20) =~= seg(d2, (d0.len() + 18) as int, 20)); } }
                    self.encode_state = vsrv__EncodeState::Ready(Box::new(encoder));
                    res
                }
                vsrv__EncodeState::Ready(ref mut encoder) => Self::encode(item.into(), dst, request_header, session, encoder),
            }
        } else {
            return Err(verif_err())
        }
    }
}

//@@ octo-squirrel-server/src/server/vmess.rs:153-227  impl Decoder for ServerAeadCodec  sha=331d79b2c3150535
impl ServerAeadCodec {

    fn decode(&mut self, src: &mut BytesMut) -> (r: Result<Option<InboundIn>, anyhow::Error>)
        requires old(self).wf(),
        ensures final(self).wf(), final(self).keys == old(self).keys,
            //#C04 C07
            // waiting for the auth id / the rest of the header consumes nothing
            (old(self).decode_state is Init && final(self).decode_state is Init && r is Ok) ==> (r matches Ok(None) && final(src)@ == old(src)@),
            //#C04
            (old(self).decode_state is Init && old(src)@.len() < 16) ==> (r matches Ok(None) && final(self).decode_state is Init),
            //#C06 C10 C05
            // the header is accepted only if the auth id opens, CRC-valid and within 120 s, under a registered user key, and the sealed header opens under that same key
            (old(self).decode_state is Init && final(self).decode_state is Ready) ==> exists|i: int| 0 <= i < old(self).keys@.len()
                && #[trigger] authid_ok(old(self).keys@[i]@, old(src)@.subrange(0, 16), vclock()) && vhdr_parse(old(self).keys@[i]@, old(src)@) is Done,
            //#C06
            // no item is delivered from a connection that has not passed that check
            r matches Ok(Some(_)) ==> final(self).decode_state is Ready,
            //#C01 C06
            // the first item of a TCP flow carries the target address, later ones never do
            (r matches Ok(Some(InboundIn::ConnectTcp(_, _)))) ==> (!(old(self).decode_state is Ready && old(self).connected) && final(self).connected),
            (r matches Ok(Some(InboundIn::RelayTcp(_)))) ==> old(self).connected,
            //#C04 C01
            // `connected` means exactly that the item carrying the target address has been delivered: it is never set by a call that is still waiting
            (final(self).connected && !old(self).connected) ==> r matches Ok(Some(_)),
    {
        match self.decode_state {
            vsrv__DecodeState::Init => {
                if src.len() < 16 {
                    return Ok(None);
                }
                let ghost s0 = src@;
                let ghost aid = src@.subrange(0, 16);
                let auth_id = &src[0..16];
                if let Some(key) = auth_id__matching(auth_id, &self.keys)? {
                    let ghost ki = choose|i: int| 0 <= i < self.keys@.len() && self.keys@[i] == key && authid_ok(self.keys@[i]@, aid, vclock());
                    if let Some(header) = encrypt__open_header(&key, src)? {
                        // version, body iv and key, response byte, options, padding/security, reserved, command .. fnv1a32
                        if header.len() < 1 + 16 + 16 + 1 + 1 + 1 + 1 + 1 + 4 {
                            return Err(verif_err())
                        }
                        proof { assert(vhdr_parse(self.keys@[ki]@, s0) is Done); }
                        let data = header[..header.len() - 4].to_vec();
                        let mut header = Bytes::from(header);
                        let version = header.get_u8();
                        let mut request_body_iv = [0; 16];
                        header.copy_to_slice(&mut request_body_iv);
                        let mut request_body_key = [0; 16];
                        header.copy_to_slice(&mut request_body_key);
                        let response_header = header.get_u8();
                        let option = header.get_u8();
                        let security = header.get_u8();
                        let padding_len = security >> 4;
                        proof { assert(padding_len <= 15) by (bit_vector) requires padding_len == security >> 4u8; }
                        let security = SecurityType::from(security & 0xF);
                        header.advance(1); // fixed 0
                        let command = header.get_u8();
                        if command != RequestCommand::TCP as u8 && command != RequestCommand::UDP as u8 {
                            return Err(verif_err())
                        }
                        let command = if command == RequestCommand::TCP as u8 { RequestCommand::TCP } else { RequestCommand::UDP };
                        let address = vaddress__read_address_port(&mut header)?;
                        if header.remaining() < padding_len as usize + 4 {
                            return Err(verif_err())
                        }
                        header.advance(padding_len as usize);
                        let actual = header.get_u32();
                        if fnv__fnv1a32(&data) != actual {
                            return Err(verif_err())
                        }
                        let mut header = RequestHeader::new(version, command, RequestOption::from_mask(option), security, address, key);
                        let mut session = ServerSession::new(request_body_iv, request_body_key, response_header);
                        /*R2*/
                        let mut decoder = AEADBodyCodec::new_decoder(&header, &mut session)?;
                        let res = Self::decode_header(src, &mut header, &mut session, &mut decoder);
                        self.connected = matches!(res, Ok(Some(_)));
                        self.decode_state = vsrv__DecodeState::Ready(header, session, Box::new(decoder));
                        res
                    } else {
                        Ok(None)
                    }
                } else {
                    return Err(verif_err())
                }
            }
            vsrv__DecodeState::Ready(ref mut header, ref mut session, ref mut decoder) => {
                if src.is_empty() {
                    Ok(None)
                } else if self.connected {
                    Self::decode_body(src, header, session, decoder)
                } else {
                    // the request header arrived without a complete first chunk: the first payload still carries the target
                    let res = Self::decode_header(src, header, session, decoder);
                    self.connected = matches!(res, Ok(Some(_)));
                    res
                }
            }
        }
    }
}

//@@ octo-squirrel-client/src/client/vmess.rs:31-36  struct ClientAEADCodec  sha=598bf887866d7890
pub struct ClientAEADCodec {
    header: RequestHeader,
    session: ClientSession,
    body_encoder: Option<AEADBodyCodec>,
    body_decoder: Option<AEADBodyCodec>,
}

//@@ octo-squirrel-client/src/client/vmess.rs:38-44  impl ClientAEADCodec  sha=4975ce78cabec317
impl ClientAEADCodec {
    spec fn wf(&self) -> bool {
        (self.body_encoder matches Some(e) ==> e.wf()) && (self.body_decoder matches Some(d) ==> d.wf())
    }
}
/// V2Fly VMess request header (plaintext, before sealing): version 1 | body iv (16) | body key (16) | response byte | option mask |
/// padding length (high nibble) and security (low nibble) | reserved 0 | command | port, type, address | padding | FNV-1a of all that (4, big endian)
spec fn vreq_layout(h: Seq<u8>, iv: Seq<u8>, key: Seq<u8>, resp: u8, mask: u8, sec: u8, cmd: u8, addr: Seq<u8>) -> bool {
    let p = (h[35] >> 4u8) as int;
    &&& h.len() == 38 + addr.len() + p + 4
    &&& h[0] == 1 && h.subrange(1, 17) == iv && h.subrange(17, 33) == key && h[33] == resp && h[34] == mask
    &&& (h[35] & 0x0fu8) == sec && h[36] == 0 && h[37] == cmd
    &&& h.subrange(38, 38 + addr.len() as int) == addr
    &&& h.subrange(h.len() - 4, h.len() as int) == be_bytes(fnv1a32_spec(h.take(h.len() - 4)) as nat, 4)
}
proof fn lemma_nibbles(p: u8, s: u8)
    requires p < 16, s < 16,
    ensures (((p << 4u8) | s) >> 4u8) == p, (((p << 4u8) | s) & 0x0fu8) == s,
{
    assert((((p << 4u8) | s) >> 4u8) == p && (((p << 4u8) | s) & 0x0fu8) == s) by (bit_vector) requires p < 16, s < 16;
}
impl ClientAEADCodec {
    fn new(header: RequestHeader) -> (r: Self)
        ensures r.header == header, r.body_encoder is None, r.body_decoder is None, r.wf(),
            //#C05 C10
            r.session.response_body_iv@ == sha256(r.session.request_body_iv@).take(16), r.session.response_body_key@ == sha256(r.session.request_body_key@).take(16),
    {
        let session = ClientSession::new();
        /*R2*/
        Self { header, session, body_encoder: None, body_decoder: None }
    }
}

//@@ octo-squirrel-client/src/client/vmess.rs:46-76  impl Encoder for ClientAEADCodec  sha=1dc1698ac9fdac04
impl ClientAEADCodec {

    fn encode(&mut self, item: BytesMut, dst: &mut BytesMut) -> (r: Result<(), anyhow::Error>)
        requires old(self).wf(),
        ensures final(self).wf(), final(self).header == old(self).header,
            //#C14
            // an unrepresentable target (empty or longer than 255 bytes) is refused before anything is sent
            (old(self).body_encoder is None && !repr_v(old(self).header.address)) ==> (r is Err && final(dst)@ == old(dst)@),
            //#C03 C01
            r is Ok ==> final(dst)@.len() >= old(dst)@.len() && final(dst)@.take(old(dst)@.len() as int) == old(dst)@ && final(self).body_encoder is Some,
        decreases (if old(self).body_encoder is None { 1int } else { 0int }),
    {
        match self.body_encoder {
            None => {
                let mut header = BytesMut::new();
                header.put_u8(vmessp__VERSION);
                header.extend_from_slice(&self.session.request_body_iv);
                header.extend_from_slice(&self.session.request_body_key);
                header.put_u8(self.session.response_header);
                header.put_u8(RequestOption::get_mask(&self.header.option)); // option mask
                let padding_len = rand::rng().random_range(0..16); // dice roll 16
                let security = self.header.security;
                header.put_u8((padding_len << 4) | security as u8);
                header.put_u8(0);
                header.put_u8(self.header.command as u8);
                vaddress__write_address_port(&self.header.address, &mut header)?; // address
                header.extend_from_slice(&dice::roll_bytes(padding_len as usize)); // padding
                let ghost h0 = header@;
                header.put_u32(fnv__fnv1a32(&header));
                let ghost h = header@;
                proof {
                    let a = encv(absaddr(self.header.address));
                    lemma_nibbles(padding_len, security as u8);
                    lemma_be_bytes_len(fnv1a32_spec(h0) as nat, 4);
                    assert(h0.len() == 38 + a.len() + padding_len);
                    assert(h.take(h.len() - 4) =~= h0);
                    assert(h.subrange(h.len() - 4, h.len() as int) =~= be_bytes(fnv1a32_spec(h0) as nat, 4));
                    assert(h.subrange(1, 17) =~= self.session.request_body_iv@);
                    assert(h.subrange(17, 33) =~= self.session.request_body_key@);
                    assert(h.subrange(38, 38 + a.len() as int) =~= a);
                    //#C03 C01 C14
                    // what is sealed as the request header is the published layout, with this session's body key/iv and response byte, and the target address
                    assert(vreq_layout(h, self.session.request_body_iv@, self.session.request_body_key@, self.session.response_header, mask_of(self.header.option@), self.header.security as u8, self.header.command as u8, a));
                }
                dst.extend_from_slice(&encrypt__seal_header(&self.header.id, header.freeze())?);
                self.body_encoder = Some(AEADBodyCodec::new_encoder(&self.header, &mut self.session)?);
                self.encode(item, dst)
            }
            Some(ref mut encoder) => match self.header.command {
                RequestCommand::TCP => encoder.encode_payload(item, dst, &mut self.session).map_err(|e| verif_err()),
                RequestCommand::UDP => encoder.encode_packet(item, dst, &mut self.session).map_err(|e| verif_err()),
            },
        }
    }
}

//@@ octo-squirrel-client/src/client/vmess.rs:78-130  impl Decoder for ClientAEADCodec  sha=eaf96c34f8a69c5d
impl ClientAEADCodec {

    fn decode(&mut self, mut src: &mut BytesMut) -> (r: Result<Option<BytesMut>, anyhow::Error>)
        requires old(self).wf(),
        ensures final(self).wf(), final(self).header == old(self).header,
            //#C04
            old(src)@.len() == 0 ==> r matches Ok(None),
            //#C04 C07
            (old(self).body_decoder is None && final(self).body_decoder is None && r is Ok) ==> (r matches Ok(None) && final(src)@ == old(src)@),
            //#C10 C05
            // the response is accepted only if its length and header open under the keys derived from this session's response key / iv
            // (themselves derived from the request key / iv this client sent) and it echoes this request's response byte
            (old(self).body_decoder is None && final(self).body_decoder is Some) ==> ({
                let k = old(self).session.response_body_key@; let iv = old(self).session.response_body_iv@; let s = old(src)@;
                s.len() >= 18
                && (aead_open(0, vkdf(k, seq![lbl_resp_len_key()]).take(16), vkdf(iv, seq![lbl_resp_len_iv()]).take(12), Seq::empty(), s.subrange(0, 18)) matches Some(lb)
                    && s.len() >= 18 + be_val(lb.take(2)) + 16
                    && (aead_open(0, vkdf(k, seq![lbl_resp_key()]).take(16), vkdf(iv, seq![lbl_resp_iv()]).take(12), Seq::empty(), s.subrange(18, (18 + be_val(lb.take(2)) + 16) as int)) matches Some(h)
                        && h.len() >= 1 && h[0] == old(self).session.response_header)) }),
            //#C05 C10
            r matches Ok(Some(_)) ==> final(self).body_decoder is Some,
            old(self).body_decoder is Some ==> final(self).body_decoder is Some,
        decreases (if old(self).body_decoder is None { 1int } else { 0int }),
    {
        if src.is_empty() {
            return Ok(None);
        }
        match self.body_decoder {
            None => {
                const NONCE_SIZE: usize = 12;
                const TAG_SIZE: usize = 16;
                let header_length_cipher =
                    Aes128Gcm::new_from_slice(&kdf__kdf16(&self.session.response_body_key, vec![kdf__SALT_AEAD_RESP_HEADER_LEN_KEY]))?;
                let ghost s0 = src@;
                if src.remaining() < size_of::<u16>() + TAG_SIZE {
                    return Ok(None);
                }
                let header_length_iv: [u8; NONCE_SIZE] = kdf__kdfn(&self.session.response_body_iv, vec![kdf__SALT_AEAD_RESP_HEADER_LEN_IV]);
                let mut cursor = Cursor::new(src);
                let header_length_bytes = cursor.copy_to_bytes(size_of::<u16>() + TAG_SIZE);
                let mut header_length_bytes = BytesMut::from(&header_length_bytes[..]);
                proof { assert(header_length_bytes@ =~= s0.subrange(0, 18)); }
                header_length_cipher.decrypt_in_place(&header_length_iv.into(), &[], &mut header_length_bytes).map_err(|e| verif_err())?;
                let ghost lb = header_length_bytes@;
                proof { lemma_be_val_bound(lb.take(2)); lemma_pow256_vals(); }
                let header_length = header_length_bytes.get_u16() as usize;
                if cursor.remaining() < header_length + TAG_SIZE {
                    proof { axiom_cursor_dropped(&cursor); }
                    /*R2*/
                    return Ok(None);
                }
                let position = cursor.position();
                src = cursor.into_inner();
                src.advance(position as usize);
                let header_cipher =
                    Aes128Gcm::new_from_slice(&kdf__kdf16(&self.session.response_body_key, vec![kdf__SALT_AEAD_RESP_HEADER_PAYLOAD_KEY]))?;
                let header_iv: [u8; NONCE_SIZE] = kdf__kdfn(&self.session.response_body_iv, vec![kdf__SALT_AEAD_RESP_HEADER_PAYLOAD_IV]);
                let mut header_bytes = src.split_to(header_length + TAG_SIZE);
                proof { assert(header_bytes@ =~= s0.subrange(18, 18 + header_length + 16)); }
                header_cipher.decrypt_in_place(&header_iv.into(), &[], &mut header_bytes).map_err(|e| verif_err())?;
                if header_bytes.is_empty() || self.session.response_header != header_bytes[0] {
                    return Err(verif_err());
                }
                self.body_decoder = Some(AEADBodyCodec::new_decoder(&self.header, &mut self.session)?);
                self.decode(src)
            }
            Some(ref mut decoder) => match self.header.command {
                RequestCommand::TCP => decoder.decode_payload(src, &mut self.session).map_err(|e| verif_err()),
                RequestCommand::UDP => decoder.decode_packet(src, &mut self.session).map_err(|e| verif_err()),
            },
        }
    }
}

//@@ octo-squirrel-client/src/client/vmess.rs:171-173  mod udp / fn new_key  sha=d16244dc3036a560
fn vcli__new_key(sender: SocketAddr, target: &Address) -> (r: (SocketAddr, Address))
    ensures
        //#C02
        r.0 == sender, r.1 == *target,
 {
        (sender, target.clone())
    }

//@@ octo-squirrel-client/src/client/vmess.rs:217-219  mod udp / fn to_outbound_send  sha=ff2a9d687a871710
fn vcli__to_outbound_send(item: DatagramPacket, verif_arg2: SocketAddr) -> (r: BytesMut)
    ensures
        //#C02
        r == item.0,
 {
        item.0
    }

//@@ octo-squirrel-client/src/client/vmess.rs:221-223  mod udp / fn to_inbound_recv  sha=3e9de2d53df4a66b
fn vcli__to_inbound_recv(item: BytesMut, recipient: &Address, sender: SocketAddr) -> (r: (DatagramPacket, SocketAddr))
    ensures
        //#C02
        r.0.0 == item, r.0.1 == *recipient, r.1 == sender,
 {
        ((item, recipient.clone()), sender)
    }
