// ---- part tjkeys: where the Trojan credential comes from: server new_codec (SHA-224 of the configured password) and the client codecs' constructors
// (its lower-case hex, 56 characters) ----
//@@ octo-squirrel/src/config.rs:64-84  struct ServerConfig  sha=4a1981ff06f0d60b
pub struct ServerConfig<S: Clone + Default> {
    pub host: String,
    pub port: u16,
    pub mode: cfg__Mode,
    pub password: String,
    pub protocol: Protocol,
    pub cipher: cfgk__CipherKind,
    pub ssl: Option<S>,
    pub ws: Option<WebSocketConfig>,
    pub quic: Option<S>,
    pub user: Vec<User>,
    marker: PhantomData<S>,
}

//@@ octo-squirrel/src/config.rs:92-98  struct WebSocketConfig  sha=f6c7c5e2c14b9f62
pub struct WebSocketConfig {
    pub header: HashMap<String, String>,
    pub path: String,
}

//@@ octo-squirrel/src/config.rs:100-104  struct User  sha=bb2d5e07d1c8ea18
pub struct User {
    pub name: String,
    pub password: String,
}

//@@ octo-squirrel-server/src/server/config.rs:9-17  struct SslConfig  sha=e1273042d9ebfa96
#[derive(Default, Clone)]
pub struct SslConfig {
    pub certificate_file: String,
    pub key_file: String,
    pub server_name: String,
}

//@@ octo-squirrel-server/src/server/trojan.rs:27-32  fn new_codec  sha=617103c6dd0c7af4
fn new_codec(config: &ServerConfig<SslConfig>) -> (r: anyhow::Result<ServerCodec>)
    ensures
        //#C06 C03 C16
        // trojan-gfw protocol: the server knows SHA-224(password); a connection is served only if it presents the hex of exactly this digest
        r matches Ok(c) && c.key@ == sha224(sbytes(config.password)) && c.state is Header,
{
    let mut hasher = Sha224::new();
    hasher.update(config.password.as_bytes());
    let key = hasher.finalize().into();
    Ok(ServerCodec { key, state: tsrv__CodecState::Header })
}

//@@ octo-squirrel-client/src/client/trojan.rs:21-23  mod tcp / fn new_codec  sha=e3d1947347924cdf
fn ttcp__new_codec(addr: &Address, password: String) -> (r: anyhow::Result<ttcp__ClientCodec>)
    ensures
        //#C03 C14 C01
        // a CONNECT (command 1) codec for exactly this target, keyed by the password
        r matches Ok(c) && c.key@ == hexenc(sha224(sbytes(password))) && c.command == 1 && c.address == *addr && c.status is Header,
{
        Ok(ttcp__ClientCodec::new(password.as_bytes(), Socks5CommandType::Connect as u8, addr.clone()))
    }

//@@ octo-squirrel-client/src/client/trojan.rs:32-41  mod tcp / impl ClientCodec  sha=17df0e32247b70ad
impl ttcp__ClientCodec {
        fn new(password: &[u8], command: u8, address: Address) -> (r: Self)
            ensures
                //#C03 C06
                // trojan-gfw protocol: the request starts with hex(SHA-224(password)), 56 lower-case hex characters
                r.key@ == hexenc(sha224(password@)), r.command == command, r.address == address, r.status is Header,
        {
            let mut hasher = Sha224::new();
            hasher.update(password);
            let hash: [u8; 28] = hasher.finalize().into();
            let mut key: [u8; 56] = [0; 56];
            proof { axiom_hexenc(hash@); axiom_sha224_len(password@); }
            key.copy_from_slice(hex__encode(&hash).as_bytes());
            Self { key, command, address, status: tcli__CodecState::Header }
        }
    }

//@@ octo-squirrel-client/src/client/trojan.rs:147-156  mod udp / impl ClientCodec  sha=17df0e32247b70ad
impl tudp__ClientCodec {
        fn new(password: &[u8], command: u8, address: Address) -> (r: Self)
            ensures
                //#C03 C06
                // trojan-gfw protocol: the request starts with hex(SHA-224(password)), 56 lower-case hex characters
                r.key@ == hexenc(sha224(password@)), r.command == command, r.address == address, r.status is Header,
        {
            let mut hasher = Sha224::new();
            hasher.update(password);
            let hash: [u8; 28] = hasher.finalize().into();
            let mut key: [u8; 56] = [0; 56];
            proof { axiom_hexenc(hash@); axiom_sha224_len(password@); }
            key.copy_from_slice(hex__encode(&hash).as_bytes());
            Self { key, command, address, status: tcli__CodecState::Header }
        }
    }

/// C03 / C06: what a client built from the configured password sends is exactly what the server built from the same password accepts
proof fn lemma_trojan_key_roundtrip(pw: Seq<u8>)
    ensures unhex(hexenc(sha224(pw))) == Some(sha224(pw)), hexenc(sha224(pw)).len() == 56,
{
    axiom_hexenc(sha224(pw)); axiom_sha224_len(pw);
}
