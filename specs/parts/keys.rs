// ---- part keys: protocol/shadowsocks.rs aead::openssl_bytes_to_key, aead_2022::password_to_keys (how the configured password becomes key bytes) ----
/// OpenSSL EVP_BytesToKey with MD5, no salt, one iteration: D1 = MD5(pw), D2 = MD5(D1 || pw), key = (D1 || D2)[0..N]
spec fn evp_md5(pw: Seq<u8>) -> Seq<u8> { md5(pw) + md5(md5(pw) + pw) }

//@@ octo-squirrel/src/protocol/shadowsocks.rs:27-47  mod aead / fn openssl_bytes_to_key  sha=7641dae4dfdc4611
fn ssaeadk__openssl_bytes_to_key<const N: usize>(password: &[u8]) -> (r: [u8; N])
    requires 16 <= N <= 32, password@.len() <= 0x7fff_ffff,
    ensures
        //#C03 C16
        // the key of a legacy cipher is EVP_BytesToKey(MD5) of the password bytes
        r@ == evp_md5(password@).take(N as int),
{
        let mut encoded: [u8; N] = [0; N];
        let size = encoded.len();
        let mut hasher = Md5::new();
        hasher.update(password);
        let mut password_digest = hasher.finalize_reset();
        let ghost d1 = password_digest@;
        proof { axiom_md5_len(password@); axiom_md5_len(d1 + password@); }
        let mut container: Vec<u8> = vec![0; password.len() + password_digest.len()];
        let len = size.min(password_digest.len());
        encoded[..len].copy_from_slice(&password_digest);
        proof { assert(encoded@.take(16) =~= d1.take(16)); assert(d1.take(16) =~= d1); }
        let mut index = password_digest.len();
        while index < size
            invariant size == N, 16 <= N <= 32, index == 16 || index == 32, container@.len() == password@.len() + 16, hasher.acc() == Seq::<u8>::empty(),
                d1 == md5(password@), d1.len() == 16, password_digest@.len() == 16,
                index == 16 ==> password_digest@ == d1,
                index == 16 ==> encoded@.take(16) == d1,
                index == 32 ==> encoded@ == (d1 + md5(d1 + password@)).take(N as int),
            decreases 32 - index
        {
            let len = password_digest.len();
            proof { assert(len == 16); assert(container@.len() >= 16); assert(password_digest@.len() == 16); }
            container.v_range_mut(0,len).copy_from_slice(&password_digest);
            proof { assert(container@.len() == password@.len() + 16); }
            container.v_range_mut(len,container.len()).copy_from_slice(password);
            proof { assert(container@ =~= d1 + password@); }
            hasher.update(&container);
            password_digest = hasher.finalize_reset();
            proof { axiom_md5_len(d1 + password@); assert(index == 16); assert(encoded@.skip(16).len() == N - 16); }
            encoded[index..].copy_from_slice(&password_digest[..password_digest.len().min(size - index)]);
            index += password_digest.len();
            proof { assert(encoded@ =~= (d1 + md5(d1 + password@)).take(N as int)); }
        }
        proof { if index == 16 { assert(N == 16); assert(encoded@ =~= encoded@.take(16)); assert(evp_md5(password@).take(16) =~= d1); } }
        encoded
    }


/// a stored key `k` (N bytes) holds the decoded bytes `d`, zero-filled behind them
spec fn key_holds(k: Seq<u8>, d: Seq<u8>) -> bool { d.len() <= k.len() && k == d + Seq::new((k.len() - d.len()) as nat, |i: int| 0u8) }
/// SIP022/SIP023 credential format: base64 keys separated by ':', identity keys first (in relay order), the user/encryption key last
spec fn keys_of(segs: Seq<Seq<u8>>, k: Seq<u8>, iks: Seq<Seq<u8>>) -> bool {
    &&& iks.len() == segs.len() - 1
    &&& forall|j: int| 0 <= j < iks.len() ==> (#[trigger] b64dec(segs[j]) matches Some(d) && key_holds(iks[j], d))
    &&& b64dec(segs[segs.len() - 1]) matches Some(d) && key_holds(k, d)
}
spec fn keys_exact(segs: Seq<Seq<u8>>, n: int) -> bool {
    forall|j: int| 0 <= j < segs.len() ==> (#[trigger] b64dec(segs[j]) matches Some(d) && d.len() == n)
}
spec fn arrs<const N: usize>(v: Seq<[u8; N]>) -> Seq<Seq<u8>> { Seq::new(v.len(), |i: int| v[i]@) }

//@@ octo-squirrel/src/protocol/shadowsocks.rs:70-80  mod aead_2022 / fn password_to_keys  sha=1241d19edc88b140
fn ss22k__password_to_keys<const N: usize>(password: &str) -> (r: Result<([u8; N], Vec<[u8; N]>), base64ct::Error>)
    ensures
        //#C16 C03
        // every ':'-separated field is one base64 key; the last field is the encryption key, the fields before it are the identity keys in the configured order
        r matches Ok((k, iks)) ==> keys_of(str_split(strb(password), 0x3a), k@, arrs(iks@)),
        //#C16
        // a key of the wrong length stops startup with an error
        r matches Ok((k, iks)) ==> keys_exact(str_split(strb(password), 0x3a), N as int),
        //#C16
        // a password in the documented format is accepted
        keys_exact(str_split(strb(password), 0x3a), N as int) ==> r is Ok,
{
        let split = password.v_split_c(':');
        let ghost segs = str_split(strb(password), 0x3a);
        proof { axiom_str_split_nonempty(strb(password), 0x3a); }
        let mut identity_keys: Vec<[u8; N]> = Vec::new();
        for s in it: split
            invariant
                strs_bytes(it.seq()) == segs, segs == str_split(strb(password), 0x3a),
                identity_keys@.len() == it.index@,
                forall|j: int| 0 <= j < it.index@ ==> (#[trigger] b64dec(segs[j]) matches Some(d) && key_holds(identity_keys@[j]@, d)),
        {
            let mut bytes = [0; N];
            let ghost z = bytes@;
            proof { assert(strb(s) == segs[it.index@]); assert(0 <= it.index@ < segs.len()); if keys_exact(segs, N as int) { assert(b64dec(segs[it.index@]) matches Some(d) && d.len() == N); assert(b64dec(strb(s)) matches Some(d) && d.len() <= bytes@.len()); } }
            Base64::decode(s, &mut bytes)?;
            proof {
                let d = b64dec(segs[it.index@]).unwrap();
                assert(bytes@ =~= d + Seq::new((N - d.len()) as nat, |i: int| 0u8));
            }
            identity_keys.push(bytes);
        }
        let enc_key = identity_keys.remove(identity_keys.len() - 1);
        proof { assert(arrs(identity_keys@).len() + 1 == segs.len()); }
        Ok((enc_key, identity_keys))
    }
