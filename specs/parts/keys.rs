// ---- part keys: protocol/shadowsocks.rs aead::openssl_bytes_to_key, aead_2022::password_to_keys (how the configured password becomes key bytes) ----
/// OpenSSL EVP_BytesToKey with MD5, no salt, one iteration: D1 = MD5(pw), D2 = MD5(D1 || pw), key = (D1 || D2)[0..N]
spec fn evp_md5(pw: Seq<u8>) -> Seq<u8> { md5(pw) + md5(md5(pw) + pw) }

//@@ octo-squirrel/src/protocol/shadowsocks.rs:27-47  mod aead / fn openssl_bytes_to_key  sha=7641dae4dfdc4611
fn ssaeadk__openssl_bytes_to_key<const N: usize>(password: &[u8]) -> (r: [u8; N])
    requires 16 <= N <= 32, password@.len() <= 0x7fff_ffff_ffff_ffff,
    ensures
        //#C03 C16
        // the key of a legacy cipher is EVP_BytesToKey(MD5) of the password bytes
        r@ == evp_md5(password@).take(N as int),
{
        let mut encoded: [u8; N] = [0; N];
        let size = encoded.len();
        let mut hasher = Md5::new();
        hasher.update(password);
        let mut password_digest = hasher.finalize_reset();
        let ghost d1 = password_digest@;
        proof { axiom_md5_len(password@); axiom_md5_len(d1 + password@); }
        let mut container: Vec<u8> = vec![0; password.len() + password_digest.len()];
        let len = size.min(password_digest.len());
        encoded[..len].copy_from_slice(&password_digest);
        proof { assert(encoded@.take(16) =~= d1.take(16)); assert(d1.take(16) =~= d1); }
        let mut index = password_digest.len();
        while index < size
            invariant size == N, 16 <= N <= 32, index == 16 || index == 32, container@.len() == password@.len() + 16, password@.len() <= 0x7fff_ffff_ffff_ffff, hasher.acc() == Seq::<u8>::empty(),
                d1 == md5(password@), d1.len() == 16, password_digest@.len() == 16,
                index == 16 ==> password_digest@ == d1,
                index == 16 ==> encoded@.take(16) == d1,
                index == 32 ==> encoded@ == (d1 + md5(d1 + password@)).take(N as int),
            decreases 32 - index
        {
            let len = password_digest.len();
            proof { assert(len == 16); assert(container@.len() >= 16); assert(password_digest@.len() == 16); }
            container.v_range_mut(0,len).copy_from_slice(&password_digest);
            proof { assert(container@.len() == password@.len() + 16); }
            container.v_range_mut(len,container.len()).copy_from_slice(password);
            proof { assert(container@ =~= d1 + password@); }
            hasher.update(&container);
            password_digest = hasher.finalize_reset();
            proof { axiom_md5_len(d1 + password@); assert(index == 16); assert(encoded@.skip(16).len() == N - 16); }
            encoded[index..].copy_from_slice(&password_digest[..password_digest.len().min(size - index)]);
            index += password_digest.len();
            proof { assert(encoded@ =~= (d1 + md5(d1 + password@)).take(N as int)); }
        }
        proof { if index == 16 { assert(N == 16); assert(encoded@ =~= encoded@.take(16)); assert(evp_md5(password@).take(16) =~= d1); } }
        encoded
    }


/// a stored key `k` (N bytes) holds the decoded bytes `d`, zero-filled behind them
spec fn key_holds(k: Seq<u8>, d: Seq<u8>) -> bool { d.len() <= k.len() && k == d + Seq::new((k.len() - d.len()) as nat, |i: int| 0u8) }
/// SIP022/SIP023 credential format: base64 keys separated by ':', identity keys first (in relay order), the user/encryption key last
spec fn keys_of(segs: Seq<Seq<u8>>, k: Seq<u8>, iks: Seq<Seq<u8>>) -> bool {
    &&& iks.len() == segs.len() - 1
    &&& forall|j: int| 0 <= j < iks.len() ==> (#[trigger] b64dec(segs[j]) matches Some(d) && key_holds(iks[j], d))
    &&& b64dec(segs[segs.len() - 1]) matches Some(d) && key_holds(k, d)
}
spec fn keys_exact(segs: Seq<Seq<u8>>, n: int) -> bool {
    forall|j: int| 0 <= j < segs.len() ==> (#[trigger] b64dec(segs[j]) matches Some(d) && d.len() == n)
}
spec fn arrs<const N: usize>(v: Seq<[u8; N]>) -> Seq<Seq<u8>> { Seq::new(v.len(), |i: int| v[i]@) }

//@@ octo-squirrel/src/protocol/shadowsocks.rs:70-80  mod aead_2022 / fn password_to_keys  sha=1241d19edc88b140
fn ss22k__password_to_keys<const N: usize>(password: &str) -> (r: Result<([u8; N], Vec<[u8; N]>), base64ct::Error>)
    ensures
        //#C16 C03
        // every ':'-separated field is one base64 key; the last field is the encryption key, the fields before it are the identity keys in the configured order
        r matches Ok((k, iks)) ==> keys_of(str_split(strb(password), 0x3a), k@, arrs(iks@)),
        //#C16
        // a key of the wrong length stops startup with an error
        r matches Ok((k, iks)) ==> keys_exact(str_split(strb(password), 0x3a), N as int),
        //#C16
        // a password in the documented format is accepted
        keys_exact(str_split(strb(password), 0x3a), N as int) ==> r is Ok,
{
        let split = password.v_split_c(':');
        let ghost segs = str_split(strb(password), 0x3a);
        proof { axiom_str_split_nonempty(strb(password), 0x3a); }
        let mut identity_keys: Vec<[u8; N]> = Vec::new();
        for s in it: split
            invariant
                strs_bytes(it.seq()) == segs, segs == str_split(strb(password), 0x3a),
                identity_keys@.len() == it.index@,
                forall|j: int| 0 <= j < it.index@ ==> (#[trigger] b64dec(segs[j]) matches Some(d) && key_holds(identity_keys@[j]@, d)),
        {
            let mut bytes = [0; N];
            let ghost z = bytes@;
            proof { assert(strb(s) == segs[it.index@]); assert(0 <= it.index@ < segs.len()); if keys_exact(segs, N as int) { assert(b64dec(segs[it.index@]) matches Some(d) && d.len() == N); assert(b64dec(strb(s)) matches Some(d) && d.len() <= bytes@.len()); } }
            Base64::decode(s, &mut bytes)?;
            proof {
                let d = b64dec(segs[it.index@]).unwrap();
                assert(bytes@ =~= d + Seq::new((N - d.len()) as nat, |i: int| 0u8));
            }
            identity_keys.push(bytes);
        }
        let enc_key = identity_keys.remove(identity_keys.len() - 1);
        proof { assert(arrs(identity_keys@).len() + 1 == segs.len()); }
        Ok((enc_key, identity_keys))
    }


/// README: the 2022-blake3-* ciphers take base64 keys (identity keys and the encryption key separated by ':'),
/// every other cipher takes an ordinary password that becomes the key through EVP_BytesToKey
spec fn is_2022(kind: CipherKind) -> bool {
    kind is Aead2022Blake3Aes128Gcm || kind is Aead2022Blake3Aes256Gcm || kind is Aead2022Blake3ChaCha8Poly1305 || kind is Aead2022Blake3ChaCha20Poly1305
}
spec fn cred_ok(kind: CipherKind, pw: Seq<u8>, n: int, key: Seq<u8>, iks: Seq<Seq<u8>>) -> bool {
    if is_2022(kind) { keys_of(str_split(pw, 0x3a), key, iks) } else { key == evp_md5(pw).take(n) && iks.len() == 0 }
}
/// R28: a value moved to the heap for the rest of the process
#[verifier::external_body]
fn verif_leak<T>(v: T) -> (r: &'static T) ensures *r == v { unimplemented!() }

//@@ octo-squirrel/src/config.rs:64-84  struct ServerConfig  sha=4a1981ff06f0d60b
pub struct ServerConfig<S: Clone + Default> {
    pub host: String,
    pub port: u16,
    pub mode: cfg__Mode,
    pub password: String,
    pub protocol: Protocol,
    pub cipher: CipherKind,
    pub ssl: Option<S>,
    pub ws: Option<WebSocketConfig>,
    pub quic: Option<S>,
    pub user: Vec<User>,
    marker: PhantomData<S>,
}

//@@ octo-squirrel/src/config.rs:92-98  struct WebSocketConfig  sha=f6c7c5e2c14b9f62
pub struct WebSocketConfig {
    pub header: HashMap<String, String>,
    pub path: String,
}

//@@ octo-squirrel/src/config.rs:100-104  struct User  sha=bb2d5e07d1c8ea18
pub struct User {
    pub name: String,
    pub password: String,
}

//@@ octo-squirrel/src/manager/shadowsocks.rs:70-81  impl TryFrom for ServerUser  sha=147844897c3f48a7
impl<const N: usize> ServerUser<N> {

    fn try_from(value: &User) -> (r: Result<Self, base64ct::Error>)
        ensures
            //#C16 C06 C03
            // a registered user is keyed by its base64 uPSK and named on the wire by the first 16 bytes of BLAKE3(uPSK) (SIP023)
            r matches Ok(u) ==> (b64dec(sbytes(value.password)) matches Some(d) && key_holds(u.key@, d)) && u.identity_hash@ == blake3_hash(u.key@).take(16),
    {
        let mut key = [0; N];
        let mut identity_hash = [0; 16];
        Base64::decode(&value.password, &mut key)?;
        proof {
            let d = b64dec(sbytes(value.password)).unwrap();
            assert(key@ =~= d + Seq::new((N - d.len()) as nat, |i: int| 0u8));
        }
        let hash = blake3::hash(&key);
        identity_hash.copy_from_slice(&hash.as_bytes()[..16]);
        proof { assert(identity_hash@ =~= blake3_hash(key@).take(16)); }
        Ok(Self { name: value.name.clone(), key, identity_hash })
    }
}

//@@ octo-squirrel-client/src/client/config.rs:30-38  struct SslConfig  sha=335b473079324dbf
#[derive(Default, Clone)]
pub struct SslConfig {
    pub certificate_file: Option<String>,
    pub key_file: Option<String>,
    pub server_name: Option<String>,
}

//@@ octo-squirrel-client/src/client/shadowsocks.rs:21-22  mod tcp / struct ClientContext  sha=2382d56aa048fd90
#[derive(Clone)]
    pub struct ClientContext<const N: usize>(Arc<Context<N>>);

//@@ octo-squirrel-client/src/client/shadowsocks.rs:24-38  mod tcp / impl TryFrom for ClientContext  sha=39de7352398736c5
impl<const N: usize> ClientContext<N> {

        fn try_from(value: &ServerConfig<SslConfig>) -> (r: Result<Self, anyhow::Error>)
            requires 16 <= N <= 32,
                //#C16
                // the key size the context is built with is the one the cipher name stands for
                !(value.cipher is Unknown), N == key_len_of(value.cipher),
            ensures r matches Ok(c) ==> c.0.wf(),
                //#C16 C03
                // the cipher name selects the credential format: base64 key list for 2022-blake3-*, EVP_BytesToKey of the password otherwise
                r matches Ok(c) ==> c.0.kind == value.cipher && cred_ok(value.cipher, sbytes(value.password), N as int, c.0.key@, arrs(c.0.identity_keys@)),
        {
            let kind = value.cipher;
            let (key, identity_keys) = if kind.is_aead_2022() {
                ss22k__password_to_keys(&value.password).map_err(|e| verif_err())?
            } else {
                let key = ssaeadk__openssl_bytes_to_key(value.password.as_bytes());
                (key, Vec::with_capacity(0))
            };
            let context = Arc::new(Context::new(key, identity_keys, value.cipher, None));
            Ok(Self(context))
        }
    }

//@@ octo-squirrel-client/src/client/shadowsocks.rs:103-108  mod udp / struct Client  sha=d93cebf4aeaa000b
#[derive(Clone, Copy)]
    pub struct Client<'a, const N: usize> {
        kind: CipherKind,
        key: &'a [u8],
        identity_keys: &'a [[u8; N]],
    }

//@@ octo-squirrel-client/src/client/shadowsocks.rs:110-121  mod udp / impl Client  sha=8c422fdb4dd96303
impl<const N: usize> Client<'_, N> {
        fn new_static(config: ServerConfig<SslConfig>) -> (r: anyhow::Result<Client<'static, N>>)
            requires 16 <= N <= 32,
            ensures
                //#C16 C03
                // on UDP exactly as on TCP
                r matches Ok(c) ==> c.kind == config.cipher && cred_ok(config.cipher, sbytes(config.password), N as int, c.key@, arrs(c.identity_keys@)),
        {
            let (key, identity_keys) = if config.cipher.is_aead_2022() {
                ss22k__password_to_keys(&config.password).map_err(|e| verif_err())?
            } else {
                (ssaeadk__openssl_bytes_to_key(config.password.as_bytes()), Vec::with_capacity(0))
            };
            let key: &'static [u8; N] = verif_leak(key);
            let identity_keys: &'static Vec<[u8; N]> = verif_leak(identity_keys);
            Ok(Client::<'static> { kind: config.cipher, key, identity_keys })
        }
    }

//@@ octo-squirrel-server/src/server/shadowsocks.rs:300-301  mod tcp / struct ServerContext  sha=e2f8b9f4fe8a2fbd
#[derive(Clone)]
    pub struct ServerContext<const N: usize>(Arc<Context<N>>);

//@@ octo-squirrel-server/src/server/shadowsocks.rs:303-315  mod tcp / impl ServerContext  sha=8a129de5264a3aff
impl<const N: usize> ServerContext<N> {
        fn init(config: &ServerConfig<SslConfig>, user_manager: Arc<ServerUserManager<N>>) -> (r: Result<Self>)
            requires 16 <= N <= 32,
            ensures
                //#C16 C03
                r matches Ok(c) ==> c.0.kind == config.cipher && cred_ok(config.cipher, sbytes(config.password), N as int, c.0.key@, arrs(c.0.identity_keys@))
                    && c.0.user_manager == Some(user_manager),
        {
            let kind = config.cipher;
            let (key, identity_keys) = if kind.is_aead_2022() {
                ss22k__password_to_keys(&config.password).map_err(|e| verif_err())?
            } else {
                let key = ssaeadk__openssl_bytes_to_key(config.password.as_bytes());
                (key, Vec::with_capacity(0))
            };
            let context = Arc::new(Context::new(key, identity_keys, config.cipher, Some(user_manager)));
            Ok(Self(context))
        }
    }
