// ---- part clientmain: client.rs transfer_tcp (which context constructor and codec constructor, and which key size N, each protocol / cipher name runs with) and
// client/shadowsocks.rs new_payload_codec ----
use Protocol::{Shadowsocks, VMess, Trojan};
#[verifier::external_body]
pub struct TcpListener { _l: u8 }
/// tokio_util::udp::UdpFramed (TRUSTED): keeps the codec it is given
#[verifier::external_body]
#[verifier::accept_recursive_types(C)]
pub struct UdpFramed<C> { _c: core::marker::PhantomData<C> }
impl<C> UdpFramed<C> {
    pub uninterp spec fn codec(&self) -> C;
    #[verifier::external_body]
    fn new(socket: UdpSocket, codec: C) -> (r: Self) ensures r.codec() == codec { unimplemented!() }
}
pub struct VmessClientCodec { _c: u8 }
pub struct TrojanClientCodec { _c: u8 }
/// client/vmess.rs tcp::new_codec, client/trojan.rs tcp::new_codec: under contract in u_vmess / u_trojan; here only their types matter
#[verifier::external_body]
fn vmesstcp__new_codec(addr: &Address, ctx: (CipherKind, String)) -> (r: anyhow::Result<VmessClientCodec>) { unimplemented!() }
#[verifier::external_body]
fn trojantcp__new_codec(addr: &Address, ctx: String) -> (r: anyhow::Result<TrojanClientCodec>) { unimplemented!() }
/// client/template.rs transfer_tcp (accept loop; per connection: local handshake, then `new_codec(target, context.clone())`): NOT verified.
/// Its precondition is what the caller must guarantee: the context constructor may be run on this configuration, and the codec constructor on every context it yields
#[verifier::external_body]
fn tmpl__transfer_tcp<Ctx, Codec, NC: FnOnce(&ServerConfig<SslConfig>) -> anyhow::Result<Ctx>, NK: FnOnce(&Address, Ctx) -> anyhow::Result<Codec>>(listener: TcpListener, config: ServerConfig<SslConfig>, new_context: NC, new_codec: NK)
    requires
        //#C16
        new_context.requires((&config,)),
        forall|ctx: Ctx, addr: &Address| new_context.ensures((&config,), Ok(ctx)) ==> #[trigger] new_codec.requires((addr, ctx)),
{ unimplemented!() }

// ---- client/template.rs try_transfer_tcp and new_{plain,tls,ws,wss}_outbound: which client-server transport a configuration's ssl / ws / quic
// sections select, and where it connects ----
/// tokio_util::codec::{Encoder, Decoder} (TRUSTED): `framed` wraps the stream with exactly this codec
pub trait Encoder<I> { type Error; }
pub trait Decoder: Sized {
    type Item; type Error;
    #[verifier::external_body]
    fn framed<S>(self, s: S) -> (r: Framed<S, Self>)
        ensures r.codec() == self, r.io() == s
    { unimplemented!() }
}
pub struct BytesCodec;
#[verifier::external_body]
#[verifier::accept_recursive_types(S)]
#[verifier::accept_recursive_types(C)]
pub struct Framed<S, C> { _s: core::marker::PhantomData<(S, C)> }
impl<S, C> Framed<S, C> {
    pub uninterp spec fn codec(&self) -> C;
    pub uninterp spec fn io(&self) -> S;
    #[verifier::external_body]
    fn new(s: S, c: C) -> (r: Self) ensures r.codec() == c, r.io() == s { unimplemented!() }
}
#[verifier::external_body]
pub struct relay__Result { _r: u8 }
#[verifier::external_body]
pub struct QuicStream { _r: u8 }
/// one outbound connection attempt of the client, as the steps taken for it: TCP connect to (host, port); TLS handshake for a server name under an
/// ssl section; WebSocket handshake for (host, port) under a ws section; or a QUIC connection to (host, port) under a quic section
pub struct Dial {
    pub tcp: Option<(Seq<char>, u16)>,
    pub tls: Option<(Seq<char>, SslConfig)>,
    pub ws: Option<(Seq<char>, u16, WebSocketConfig)>,
    pub quic: Option<(Seq<char>, u16, SslConfig)>,
}
pub struct TransportLog { pub dials: Seq<Dial>, pub relays: Seq<nat> }
/// README `serverName` (optional): the name the TLS handshake is made for is the configured one, the server's host otherwise
pub open spec fn tls_name(host: Seq<char>, ssl: SslConfig) -> Seq<char> {
    if ssl.server_name is Some { ssl.server_name->0@ } else { host }
}
/// README "Transport": quic section -> QUIC; otherwise TCP to the server, then TLS iff an ssl section, then WebSocket iff a ws section
pub closed spec fn dial_of(c: &ServerConfig<SslConfig>) -> Dial {
    if c.quic is Some { Dial { tcp: None, tls: None, ws: None, quic: Some((c.host@, c.port, c.quic->0)) } }
    else { Dial { tcp: Some((c.host@, c.port)),
        tls: if c.ssl is Some { Some((tls_name(c.host@, c.ssl->0), c.ssl->0)) } else { None },
        ws: if c.ws is Some { Some((c.host@, c.port, c.ws->0)) } else { None },
        quic: None } }
}
/// every step taken so far is a step of `t`
pub open spec fn partial(d: Dial, t: Dial) -> bool {
    (d.tcp is None || d.tcp == t.tcp) && (d.tls is None || d.tls == t.tls) && (d.ws is None || d.ws == t.ws) && (d.quic is None || d.quic == t.quic)
}
/// between two log states at most one attempt was made, all of its steps are steps of `t`, and success means all of `t` was done
pub open spec fn one_dial(old_d: Seq<Dial>, new_d: Seq<Dial>, t: Dial, ok: bool) -> bool {
    &&& ok ==> new_d =~= old_d.push(t)
    &&& new_d == old_d || (new_d.len() == old_d.len() + 1 && new_d.drop_last() =~= old_d && partial(new_d.last(), t))
}
/// tokio::net::TcpStream (TRUSTED): connect records the attempt
#[verifier::external_body]
pub struct TcpStream { _s: u8 }
impl TcpStream {
    #[verifier::external_body]
    fn connect(a: (&str, u16), Tracked(vlog): Tracked<&mut TransportLog>) -> (r: Result<TcpStream>)
        ensures final(vlog).relays == old(vlog).relays,
            final(vlog).dials == old(vlog).dials.push(Dial { tcp: Some((a.0@, a.1)), tls: None, ws: None, quic: None })
    { unimplemented!() }
}
#[verifier::external_body]
#[verifier::accept_recursive_types(S)]
pub struct TlsStream<S> { _s: core::marker::PhantomData<S> }
/// ToOwned for Clone types (std blanket impl): to_owned is clone
pub assume_specification<T: Clone>[ <T as std::borrow::ToOwned>::to_owned ](t: &T) -> (r: T)
    ensures call_ensures(T::clone, (t,), r);
/// rustls client configuration as built by client/template.rs rustls_client_config (root store or platform verifier): NOT verified; it remembers its ssl section
#[verifier::external_body]
pub struct ClientConfig { _s: u8 }
impl ClientConfig { pub uninterp spec fn made_from(&self) -> SslConfig; }
#[verifier::external_body]
fn rustls_client_config(ssl_config: &SslConfig) -> (r: Result<ClientConfig>)
    ensures r matches Ok(c) ==> c.made_from() == *ssl_config
{ unimplemented!() }
/// tokio_rustls::TlsConnector, rustls ServerName (TRUSTED): the handshake is a step of the attempt under way, for the name and configuration given
#[verifier::external_body]
pub struct TlsConnector { _s: u8 }
#[verifier::external_body]
pub struct ServerName { _s: u8 }
impl ServerName {
    pub uninterp spec fn text(&self) -> Seq<char>;
    #[verifier::external_body]
    fn try_from(s: String) -> (r: Result<ServerName>) ensures r matches Ok(n) ==> n.text() == s@ { unimplemented!() }
}
impl TlsConnector {
    pub uninterp spec fn cfg(&self) -> SslConfig;
    #[verifier::external_body]
    fn from(c: Arc<ClientConfig>) -> (r: TlsConnector) ensures r.cfg() == (*c).made_from() { unimplemented!() }
    #[verifier::external_body]
    fn connect(&self, name: ServerName, s: TcpStream, Tracked(vlog): Tracked<&mut TransportLog>) -> (r: Result<TlsStream<TcpStream>, WsError>)
        requires old(vlog).dials.len() > 0
        ensures final(vlog).relays == old(vlog).relays,
            final(vlog).dials == old(vlog).dials.drop_last().push(Dial { tls: Some((name.text(), self.cfg())), ..old(vlog).dials.last() })
    { unimplemented!() }
}
/// tokio_websockets::ClientBuilder as built by client/template.rs new_ws_builder (headers, ws:// URI): NOT verified; it remembers what it was built for
#[verifier::external_body]
pub struct ClientBuilder { _s: u8 }
#[verifier::external_body]
#[verifier::accept_recursive_types(S)]
pub struct WebSocketStream<S> { _s: core::marker::PhantomData<S> }
pub struct WsResponse { _r: u8 }
pub struct WsError { _r: u8 }
impl ClientBuilder {
    pub uninterp spec fn target(&self) -> (Seq<char>, u16, WebSocketConfig);
    /// the WebSocket handshake is a step of the attempt under way
    #[verifier::external_body]
    fn connect_on<S>(self, s: S, Tracked(vlog): Tracked<&mut TransportLog>) -> (r: Result<(WebSocketStream<S>, WsResponse), WsError>)
        requires old(vlog).dials.len() > 0
        ensures final(vlog).relays == old(vlog).relays,
            final(vlog).dials == old(vlog).dials.drop_last().push(Dial { ws: Some(self.target()), ..old(vlog).dials.last() })
    { unimplemented!() }
}
#[verifier::external_body]
fn new_ws_builder(host: &str, port: u16, ws_config: &WebSocketConfig) -> (r: Result<ClientBuilder>)
    ensures r matches Ok(b) ==> b.target() == (host@, port, *ws_config)
{ unimplemented!() }
/// codec.rs WebSocketFramed::new: under contract in u_ws; here it keeps the codec it is given
#[verifier::external_body]
#[verifier::accept_recursive_types(S)]
#[verifier::accept_recursive_types(C)]
#[verifier::accept_recursive_types(E)]
#[verifier::accept_recursive_types(D)]
pub struct WebSocketFramed<S, C, E, D> { _s: core::marker::PhantomData<(S, C, E, D)> }
impl<S, C, E, D> WebSocketFramed<S, C, E, D> {
    pub uninterp spec fn codec(&self) -> C;
    #[verifier::external_body]
    fn new(s: WebSocketStream<S>, c: C) -> (r: Self) ensures r.codec() == c { unimplemented!() }
}
/// client/template.rs new_quic_outbound (rustls / quinn set-up, QUIC connect, open_bi): NOT verified; records the attempt
#[verifier::external_body]
fn new_quic_outbound<C>(host: &str, port: u16, codec: C, config: &SslConfig, Tracked(vlog): Tracked<&mut TransportLog>) -> (r: Result<Framed<QuicStream, C>>)
    ensures final(vlog).relays == old(vlog).relays,
        one_dial(old(vlog).dials, final(vlog).dials, Dial { tcp: None, tls: None, ws: None, quic: Some((host@, port, *config)) }, r is Ok),
        r matches Ok(f) ==> f.codec() == codec,
{ unimplemented!() }
/// client/template.rs relay_tcp (split / forward / try_join): NOT verified; records after how many attempts the relay ran
#[verifier::external_body]
fn relay_tcp<I, O>(local_client: I, client_server: O, Tracked(vlog): Tracked<&mut TransportLog>) -> (r: relay__Result)
    ensures final(vlog).dials == old(vlog).dials,
        final(vlog).relays == old(vlog).relays.push(old(vlog).dials.len())
{ unimplemented!() }
//@@ octo-squirrel-client/src/client/shadowsocks.rs:40-42  mod tcp / fn new_payload_codec  sha=1f38991046ebd3b8
fn sscli__new_payload_codec<const N: usize>(addr: &Address, config: ClientContext<N>) -> (r: Result<sscli__PayloadCodec<N>>)
    requires config.0.wf(),
    ensures
        //#C14 C01
        // a client codec for exactly the requested target
        r matches Ok(c) && c.session.address == Some(*addr) && c.session.mode is Client && c.context == config.0,
{
        Ok(sscli__PayloadCodec::new(config.0, Mode::Client, Some(addr.clone())))
    }

//@@ octo-squirrel-client/src/client/shadowsocks.rs:123-136  mod udp / fn new_plain_outbound  sha=ab722790d4dfa290
fn ssucli__new_plain_outbound<'a, const N: usize>(
        verif_arg1: &Address,
        client: &Client<'a, N>,
    ) -> (r: anyhow::Result<UdpFramed<DatagramPacketCodec<'a, N>>>)
        ensures
            //#C16 C03 C12
            // the datagram codec of a new binding: this client's cipher, key and identity keys, the client side of the protocol, a fresh session (packet id 0, fresh replay window)
            r matches Ok(f) ==> f.codec().codec.cipher.kind == client.kind && f.codec().codec.context.key@ == client.key@ && f.codec().codec.context.identity_keys@ == client.identity_keys@
                && f.codec().codec.context.stream_type is Client && f.codec().codec.context.user_manager is None && f.codec().session.packet_id == 0 && fresh(f.codec().filter),
    {
        let outbound = UdpSocket::bind(SocketAddrV4::new(verif_ipv4_unspecified(), 0))?;
        let outbound_framed = UdpFramed::new(
            outbound,
            DatagramPacketCodec::new(udp__SessionCodec::new(
                udp__Context::new(Mode::Client, None, client.key, client.identity_keys),
                udp__AEADCipherCodec::new(client.kind),
            )),
        );
        Ok(outbound_framed)
    }


//@@ octo-squirrel-client/src/client.rs:42-72  fn transfer_tcp  sha=053e21b3dd8afc4c
fn transfer_tcp(listener: TcpListener, current: ServerConfig<SslConfig>) {
    match current.protocol {
        Shadowsocks => match current.cipher {
            CipherKind::Aes128Gcm | CipherKind::Aead2022Blake3Aes128Gcm => {
                tmpl__transfer_tcp(
                    listener,
                    current,
                    |c: &ServerConfig<SslConfig>| -> (r: anyhow::Result<ClientContext<16>>)
                        requires !(c.cipher is Unknown), 16 == key_len_of(c.cipher)
                        ensures r matches Ok(x) ==> x.0.wf()
                    { ClientContext::<16>::try_from(c) },
                    sscli__new_payload_codec::<16>,
                )
            }
            CipherKind::Aes256Gcm
            | CipherKind::Aead2022Blake3Aes256Gcm
            | CipherKind::ChaCha20Poly1305
            | CipherKind::Aead2022Blake3ChaCha8Poly1305
            | CipherKind::Aead2022Blake3ChaCha20Poly1305 => {
                tmpl__transfer_tcp(
                    listener,
                    current,
                    |c: &ServerConfig<SslConfig>| -> (r: anyhow::Result<ClientContext<32>>)
                        requires !(c.cipher is Unknown), 32 == key_len_of(c.cipher)
                        ensures r matches Ok(x) ==> x.0.wf()
                    { ClientContext::<32>::try_from(c) },
                    sscli__new_payload_codec::<32>,
                )
            }
            CipherKind::Unknown => (),
        },
        VMess => tmpl__transfer_tcp(listener, current, |c| Ok((c.cipher, c.password.clone())), vmesstcp__new_codec),
        Trojan => tmpl__transfer_tcp(listener, current, |c| Ok(c.password.clone()), trojantcp__new_codec),
    }
}

//@@ octo-squirrel-client/src/client/template.rs:99-134  fn try_transfer_tcp  sha=b59c4e834d63662b
fn try_transfer_tcp<Context, NewCodec, Codec>(
    inbound: TcpStream,
    peer_addr: &Address,
    config: &ServerConfig<SslConfig>,
    context: Context,
    new_codec: NewCodec,Tracked(vlog): Tracked<&mut TransportLog>
) -> (r: Result<relay__Result>)
where
    NewCodec: FnOnce(&Address, Context) -> Result<Codec>,
    Codec: Encoder<BytesMut, Error = anyhow::Error> + Decoder<Item = BytesMut, Error = anyhow::Error> + Send + 'static + Unpin,
    requires
        new_codec.requires((peer_addr, context)),
    ensures
        //#C16 C01
        // at most one outbound attempt, every step of it a step of the transport the configuration's sections name, to the configured server;
        // Ok means the whole of it was done
        one_dial(old(vlog).dials, final(vlog).dials, dial_of(config), r is Ok),
        // a relay ran only after that attempt succeeded, and Ok means it ran
        r is Ok ==> final(vlog).relays == old(vlog).relays.push(final(vlog).dials.len()),
        r is Err ==> final(vlog).relays == old(vlog).relays,
{
    let local_client = Framed::new(inbound, BytesCodec);
    let codec = new_codec(peer_addr, context)?;
    Ok(match (&config.ssl, &config.ws, &config.quic) {
        (None, None, None) => {
            let client_server = new_plain_outbound(&config.host, config.port, codec, Tracked(vlog))?;
            relay_tcp(local_client, client_server, Tracked(vlog))
        }
        (_, _, Some(quic_config)) => {
            let client_server = new_quic_outbound(&config.host, config.port, codec, quic_config, Tracked(vlog))?;
            relay_tcp(local_client, client_server, Tracked(vlog))
        }
        (None, Some(ws_config), None) => {
            let client_server = new_ws_outbound(&config.host, config.port, codec, ws_config, Tracked(vlog))?;
            relay_tcp(local_client, client_server, Tracked(vlog))
        }
        (Some(ssl_config), None, None) => {
            let client_server = new_tls_outbound(&config.host, config.port, codec, ssl_config, Tracked(vlog))?;
            relay_tcp(local_client, client_server, Tracked(vlog))
        }
        (Some(ssl_config), Some(ws_config), None) => {
            let client_server = new_wss_outbound(&config.host, config.port, codec, ssl_config, ws_config, Tracked(vlog))?;
            relay_tcp(local_client, client_server, Tracked(vlog))
        }
    })
}

//@@ octo-squirrel-client/src/client/template.rs:294-301  fn new_plain_outbound  sha=09673406cd095822
fn new_plain_outbound<C, E, D>(host: &str, port: u16, codec: C, Tracked(vlog): Tracked<&mut TransportLog>) -> (r: Result<Framed<TcpStream, C>, anyhow::Error>)
where
    C: Encoder<E, Error = anyhow::Error> + Decoder<Item = D, Error = anyhow::Error>,
    ensures
        //#C16 C01
        final(vlog).relays == old(vlog).relays,
        one_dial(old(vlog).dials, final(vlog).dials, Dial { tcp: Some((host@, port)), tls: None, ws: None, quic: None }, r is Ok),
        r matches Ok(f) ==> f.codec() == codec,
{
    let outbound = TcpStream::connect((host, port), Tracked(vlog))?;
    let client_server = codec.framed(outbound);
    Ok(client_server)
}

//@@ octo-squirrel-client/src/client/template.rs:318-324  fn new_tls_outbound  sha=70960c9746a9bdb7
fn new_tls_outbound<C, E, D>(host: &str, port: u16, codec: C, ssl_config: &SslConfig, Tracked(vlog): Tracked<&mut TransportLog>) -> (r: Result<Framed<TlsStream<TcpStream>, C>>)
where
    C: Encoder<E, Error = anyhow::Error> + Decoder<Item = D, Error = anyhow::Error>,
    ensures
        //#C16 C01
        final(vlog).relays == old(vlog).relays,
        one_dial(old(vlog).dials, final(vlog).dials, Dial { tcp: Some((host@, port)), tls: Some((tls_name(host@, *ssl_config), *ssl_config)), ws: None, quic: None }, r is Ok),
        r matches Ok(f) ==> f.codec() == codec,
{
    let outbound = rustls_stream(host, port, ssl_config, Tracked(vlog))?;
    Ok(codec.framed(outbound))
}

//@@ octo-squirrel-client/src/client/template.rs:326-333  fn new_ws_outbound  sha=82dae80f08bff00b
fn new_ws_outbound<C, E, D>(host: &str, port: u16, codec: C, ws_config: &WebSocketConfig, Tracked(vlog): Tracked<&mut TransportLog>) -> (r: Result<WebSocketFramed<TcpStream, C, E, D>>)
where
    C: Encoder<E, Error = anyhow::Error> + Decoder<Item = D, Error = anyhow::Error>,
    ensures
        //#C16 C01
        final(vlog).relays == old(vlog).relays,
        one_dial(old(vlog).dials, final(vlog).dials, Dial { tcp: Some((host@, port)), tls: None, ws: Some((host@, port, *ws_config)), quic: None }, r is Ok),
        r matches Ok(f) ==> f.codec() == codec,
{
    let outbound = TcpStream::connect((host, port), Tracked(vlog))?;
    let (outbound, _) = new_ws_builder(host, port, ws_config)?.connect_on(outbound, Tracked(vlog)).map_err(|e| verif_err())?;
    Ok(WebSocketFramed::new(outbound, codec))
}

//@@ octo-squirrel-client/src/client/template.rs:335-348  fn new_wss_outbound  sha=1e8658c59e113840
fn new_wss_outbound<C, E, D>(
    host: &str,
    port: u16,
    codec: C,
    ssl_config: &SslConfig,
    ws_config: &WebSocketConfig,Tracked(vlog): Tracked<&mut TransportLog>
) -> (r: Result<WebSocketFramed<TlsStream<TcpStream>, C, E, D>>)
where
    C: Encoder<E, Error = anyhow::Error> + Decoder<Item = D, Error = anyhow::Error>,
    ensures
        //#C16 C01
        final(vlog).relays == old(vlog).relays,
        one_dial(old(vlog).dials, final(vlog).dials, Dial { tcp: Some((host@, port)), tls: Some((tls_name(host@, *ssl_config), *ssl_config)), ws: Some((host@, port, *ws_config)), quic: None }, r is Ok),
        r matches Ok(f) ==> f.codec() == codec,
{
    let outbound = rustls_stream(host, port, ssl_config, Tracked(vlog))?;
    let (outbound, _) = new_ws_builder(host, port, ws_config)?.connect_on(outbound, Tracked(vlog)).map_err(|e| verif_err())?;
    Ok(WebSocketFramed::new(outbound, codec))
}

//@@ octo-squirrel-client/src/client/template.rs:368-378  fn rustls_stream  sha=916d255d3a37d89f
fn rustls_stream(host: &str, port: u16, ssl_config: &SslConfig, Tracked(vlog): Tracked<&mut TransportLog>) -> (r: Result<TlsStream<TcpStream>>)
    ensures
        //#C16 C01
        final(vlog).relays == old(vlog).relays,
        // TCP to the server, then the TLS handshake under this ssl section, for the configured server name or else the host
        one_dial(old(vlog).dials, final(vlog).dials, Dial { tcp: Some((host@, port)), tls: Some((tls_name(host@, *ssl_config), *ssl_config)), ws: None, quic: None }, r is Ok),
{
    let stream = TcpStream::connect((host, port), Tracked(vlog))?;
    let config = rustls_client_config(ssl_config)?;
    let connector = TlsConnector::from(Arc::new(config));
    let server_name = if let Some(server_name) = &ssl_config.server_name {
        ServerName::try_from(server_name.to_owned())?
    } else {
        ServerName::try_from(host.to_owned())?
    };
    connector.connect(server_name, stream, Tracked(vlog)).map_err(|e| verif_err())
}
