// ---- part clientmain: client.rs transfer_tcp (which context constructor and codec constructor, and which key size N, each protocol / cipher name runs with) and
// client/shadowsocks.rs new_payload_codec ----
use Protocol::{Shadowsocks, VMess, Trojan};
#[verifier::external_body]
pub struct TcpListener { _l: u8 }
/// tokio_util::udp::UdpFramed (TRUSTED): keeps the codec it is given
#[verifier::external_body]
#[verifier::accept_recursive_types(C)]
pub struct UdpFramed<C> { _c: core::marker::PhantomData<C> }
impl<C> UdpFramed<C> {
    pub uninterp spec fn codec(&self) -> C;
    #[verifier::external_body]
    fn new(socket: UdpSocket, codec: C) -> (r: Self) ensures r.codec() == codec { unimplemented!() }
}
pub struct VmessClientCodec { _c: u8 }
pub struct TrojanClientCodec { _c: u8 }
/// client/vmess.rs tcp::new_codec, client/trojan.rs tcp::new_codec: under contract in u_vmess / u_trojan; here only their types matter
#[verifier::external_body]
fn vmesstcp__new_codec(addr: &Address, ctx: (CipherKind, String)) -> (r: anyhow::Result<VmessClientCodec>) { unimplemented!() }
#[verifier::external_body]
fn trojantcp__new_codec(addr: &Address, ctx: String) -> (r: anyhow::Result<TrojanClientCodec>) { unimplemented!() }
/// client/template.rs transfer_tcp (accept loop; per connection: local handshake, then `new_codec(target, context.clone())`): NOT verified.
/// Its precondition is what the caller must guarantee: the context constructor may be run on this configuration, and the codec constructor on every context it yields
#[verifier::external_body]
fn tmpl__transfer_tcp<Ctx, Codec, NC: FnOnce(&ServerConfig<SslConfig>) -> anyhow::Result<Ctx>, NK: FnOnce(&Address, Ctx) -> anyhow::Result<Codec>>(listener: TcpListener, config: ServerConfig<SslConfig>, new_context: NC, new_codec: NK)
    requires
        //#C16
        new_context.requires((&config,)),
        forall|ctx: Ctx, addr: &Address| new_context.ensures((&config,), Ok(ctx)) ==> #[trigger] new_codec.requires((addr, ctx)),
{ unimplemented!() }

//@@ octo-squirrel-client/src/client/shadowsocks.rs:40-42  mod tcp / fn new_payload_codec  sha=1f38991046ebd3b8
fn sscli__new_payload_codec<const N: usize>(addr: &Address, config: ClientContext<N>) -> (r: Result<sscli__PayloadCodec<N>>)
    requires config.0.wf(),
    ensures
        //#C14 C01
        // a client codec for exactly the requested target
        r matches Ok(c) && c.session.address == Some(*addr) && c.session.mode is Client && c.context == config.0,
{
        Ok(sscli__PayloadCodec::new(config.0, Mode::Client, Some(addr.clone())))
    }

//@@ octo-squirrel-client/src/client/shadowsocks.rs:123-136  mod udp / fn new_plain_outbound  sha=ab722790d4dfa290
fn ssucli__new_plain_outbound<'a, const N: usize>(
        verif_arg1: &Address,
        client: &Client<'a, N>,
    ) -> (r: anyhow::Result<UdpFramed<DatagramPacketCodec<'a, N>>>)
        ensures
            //#C16 C03 C12
            // the datagram codec of a new binding: this client's cipher, key and identity keys, the client side of the protocol, a fresh session (packet id 0, fresh replay window)
            r matches Ok(f) ==> f.codec().codec.cipher.kind == client.kind && f.codec().codec.context.key@ == client.key@ && f.codec().codec.context.identity_keys@ == client.identity_keys@
                && f.codec().codec.context.stream_type is Client && f.codec().codec.context.user_manager is None && f.codec().session.packet_id == 0 && fresh(f.codec().filter),
    {
        let outbound = UdpSocket::bind(SocketAddrV4::new(verif_ipv4_unspecified(), 0))?;
        let outbound_framed = UdpFramed::new(
            outbound,
            DatagramPacketCodec::new(udp__SessionCodec::new(
                udp__Context::new(Mode::Client, None, client.key, client.identity_keys),
                udp__AEADCipherCodec::new(client.kind),
            )),
        );
        Ok(outbound_framed)
    }


//@@ octo-squirrel-client/src/client.rs:42-72  fn transfer_tcp  sha=053e21b3dd8afc4c
fn transfer_tcp(listener: TcpListener, current: ServerConfig<SslConfig>) {
    match current.protocol {
        Shadowsocks => match current.cipher {
            CipherKind::Aes128Gcm | CipherKind::Aead2022Blake3Aes128Gcm => {
                tmpl__transfer_tcp(
                    listener,
                    current,
                    |c: &ServerConfig<SslConfig>| -> (r: anyhow::Result<ClientContext<16>>)
                        requires !(c.cipher is Unknown), 16 == key_len_of(c.cipher)
                        ensures r matches Ok(x) ==> x.0.wf()
                    { ClientContext::<16>::try_from(c) },
                    sscli__new_payload_codec::<16>,
                )
            }
            CipherKind::Aes256Gcm
            | CipherKind::Aead2022Blake3Aes256Gcm
            | CipherKind::ChaCha20Poly1305
            | CipherKind::Aead2022Blake3ChaCha8Poly1305
            | CipherKind::Aead2022Blake3ChaCha20Poly1305 => {
                tmpl__transfer_tcp(
                    listener,
                    current,
                    |c: &ServerConfig<SslConfig>| -> (r: anyhow::Result<ClientContext<32>>)
                        requires !(c.cipher is Unknown), 32 == key_len_of(c.cipher)
                        ensures r matches Ok(x) ==> x.0.wf()
                    { ClientContext::<32>::try_from(c) },
                    sscli__new_payload_codec::<32>,
                )
            }
            CipherKind::Unknown => (),
        },
        VMess => tmpl__transfer_tcp(listener, current, |c| Ok((c.cipher, c.password.clone())), vmesstcp__new_codec),
        Trojan => tmpl__transfer_tcp(listener, current, |c| Ok(c.password.clone()), trojantcp__new_codec),
    }
}
