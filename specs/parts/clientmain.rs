// ---- part clientmain: client.rs transfer_tcp (which context constructor and codec constructor, and which key size N, each protocol / cipher name runs with) and
// client/shadowsocks.rs new_payload_codec ----
use Protocol::{Shadowsocks, VMess, Trojan};
#[verifier::external_body]
pub struct TcpListener { _l: u8 }
/// tokio_util::udp::UdpFramed (TRUSTED): keeps the codec it is given
#[verifier::external_body]
#[verifier::accept_recursive_types(C)]
pub struct UdpFramed<C> { _c: core::marker::PhantomData<C> }
impl<C> UdpFramed<C> {
    pub uninterp spec fn codec(&self) -> C;
    #[verifier::external_body]
    fn new(socket: UdpSocket, codec: C) -> (r: Self) ensures r.codec() == codec { unimplemented!() }
}
pub struct VmessClientCodec { _c: u8 }
pub struct TrojanClientCodec { _c: u8 }
/// client/vmess.rs tcp::new_codec, client/trojan.rs tcp::new_codec: under contract in u_vmess / u_trojan; here only their types matter
#[verifier::external_body]
fn vmesstcp__new_codec(addr: &Address, ctx: (CipherKind, String)) -> (r: anyhow::Result<VmessClientCodec>) { unimplemented!() }
#[verifier::external_body]
fn trojantcp__new_codec(addr: &Address, ctx: String) -> (r: anyhow::Result<TrojanClientCodec>) { unimplemented!() }
/// client/template.rs transfer_tcp (accept loop; per connection: local handshake, then `new_codec(target, context.clone())`): NOT verified.
/// Its precondition is what the caller must guarantee: the context constructor may be run on this configuration, and the codec constructor on every context it yields
#[verifier::external_body]
fn tmpl__transfer_tcp<Ctx, Codec, NC: FnOnce(&ServerConfig<SslConfig>) -> anyhow::Result<Ctx>, NK: FnOnce(&Address, Ctx) -> anyhow::Result<Codec>>(listener: TcpListener, config: ServerConfig<SslConfig>, new_context: NC, new_codec: NK)
    requires
        //#C16
        new_context.requires((&config,)),
        forall|ctx: Ctx, addr: &Address| new_context.ensures((&config,), Ok(ctx)) ==> #[trigger] new_codec.requires((addr, ctx)),
{ unimplemented!() }

// ---- client/template.rs try_transfer_tcp: which client-server transport a configuration's ssl / ws / quic sections select ----
/// tokio_util::codec::{Encoder, Decoder}: only the bounds of try_transfer_tcp name them here
pub trait Encoder<I> { type Error; }
pub trait Decoder { type Item; type Error; }
#[verifier::external_body]
pub struct TcpStream { _s: u8 }
pub struct BytesCodec;
#[verifier::external_body]
#[verifier::accept_recursive_types(S)]
#[verifier::accept_recursive_types(C)]
pub struct Framed<S, C> { _s: core::marker::PhantomData<(S, C)> }
impl<S, C> Framed<S, C> {
    #[verifier::external_body]
    fn new(s: S, c: C) -> (r: Self) { unimplemented!() }
}
#[verifier::external_body]
pub struct relay__Result { _r: u8 }
#[verifier::external_body]
pub struct OutStream { _r: u8 }
pub enum Transport { Plain, Tls, Ws, Wss, Quic }
/// one outbound connection attempt of the client: which transport, to which host and port, with which ssl / ws section
pub struct Dial { pub kind: Transport, pub host: Seq<char>, pub port: u16, pub ssl: Option<SslConfig>, pub ws: Option<WebSocketConfig> }
pub struct TransportLog { pub dials: Seq<Dial>, pub relays: Seq<nat> }
/// README "Transport": quic section -> QUIC; otherwise ssl+ws -> WebSocket over TLS, ssl -> TLS, ws -> WebSocket, neither -> plain TCP
pub closed spec fn transport_of(c: &ServerConfig<SslConfig>) -> Transport {
    if c.quic is Some { Transport::Quic }
    else if c.ssl is Some { if c.ws is Some { Transport::Wss } else { Transport::Tls } }
    else if c.ws is Some { Transport::Ws } else { Transport::Plain }
}
pub closed spec fn dial_of(c: &ServerConfig<SslConfig>) -> Dial {
    Dial { kind: transport_of(c), host: c.host@, port: c.port,
        ssl: if c.quic is Some { c.quic } else { c.ssl },
        ws: if c.quic is Some { None } else { c.ws } }
}
/// client/template.rs new_*_outbound (connect, TLS / WebSocket / QUIC handshake): NOT verified; each records the attempt, successful or not
#[verifier::external_body]
fn new_plain_outbound<C>(host: &str, port: u16, codec: C, Tracked(vlog): Tracked<&mut TransportLog>) -> (r: Result<Framed<OutStream, C>>)
    ensures final(vlog).relays == old(vlog).relays,
        final(vlog).dials == old(vlog).dials.push(Dial { kind: Transport::Plain, host: host@, port, ssl: None, ws: None })
{ unimplemented!() }
#[verifier::external_body]
fn new_quic_outbound<C>(host: &str, port: u16, codec: C, config: &SslConfig, Tracked(vlog): Tracked<&mut TransportLog>) -> (r: Result<Framed<OutStream, C>>)
    ensures final(vlog).relays == old(vlog).relays,
        final(vlog).dials == old(vlog).dials.push(Dial { kind: Transport::Quic, host: host@, port, ssl: Some(*config), ws: None })
{ unimplemented!() }
#[verifier::external_body]
fn new_tls_outbound<C>(host: &str, port: u16, codec: C, ssl_config: &SslConfig, Tracked(vlog): Tracked<&mut TransportLog>) -> (r: Result<Framed<OutStream, C>>)
    ensures final(vlog).relays == old(vlog).relays,
        final(vlog).dials == old(vlog).dials.push(Dial { kind: Transport::Tls, host: host@, port, ssl: Some(*ssl_config), ws: None })
{ unimplemented!() }
#[verifier::external_body]
fn new_ws_outbound<C>(host: &str, port: u16, codec: C, ws_config: &WebSocketConfig, Tracked(vlog): Tracked<&mut TransportLog>) -> (r: Result<Framed<OutStream, C>>)
    ensures final(vlog).relays == old(vlog).relays,
        final(vlog).dials == old(vlog).dials.push(Dial { kind: Transport::Ws, host: host@, port, ssl: None, ws: Some(*ws_config) })
{ unimplemented!() }
#[verifier::external_body]
fn new_wss_outbound<C>(host: &str, port: u16, codec: C, ssl_config: &SslConfig, ws_config: &WebSocketConfig, Tracked(vlog): Tracked<&mut TransportLog>) -> (r: Result<Framed<OutStream, C>>)
    ensures final(vlog).relays == old(vlog).relays,
        final(vlog).dials == old(vlog).dials.push(Dial { kind: Transport::Wss, host: host@, port, ssl: Some(*ssl_config), ws: Some(*ws_config) })
{ unimplemented!() }
/// client/template.rs relay_tcp (split / forward / try_join): NOT verified; records over which dial (by ordinal) the relay ran
#[verifier::external_body]
fn relay_tcp<I, O>(local_client: I, client_server: O, Tracked(vlog): Tracked<&mut TransportLog>) -> (r: relay__Result)
    ensures final(vlog).dials == old(vlog).dials,
        final(vlog).relays == old(vlog).relays.push(old(vlog).dials.len())
{ unimplemented!() }
//@@ octo-squirrel-client/src/client/shadowsocks.rs:40-42  mod tcp / fn new_payload_codec  sha=1f38991046ebd3b8
fn sscli__new_payload_codec<const N: usize>(addr: &Address, config: ClientContext<N>) -> (r: Result<sscli__PayloadCodec<N>>)
    requires config.0.wf(),
    ensures
        //#C14 C01
        // a client codec for exactly the requested target
        r matches Ok(c) && c.session.address == Some(*addr) && c.session.mode is Client && c.context == config.0,
{
        Ok(sscli__PayloadCodec::new(config.0, Mode::Client, Some(addr.clone())))
    }

//@@ octo-squirrel-client/src/client/shadowsocks.rs:123-136  mod udp / fn new_plain_outbound  sha=ab722790d4dfa290
fn ssucli__new_plain_outbound<'a, const N: usize>(
        verif_arg1: &Address,
        client: &Client<'a, N>,
    ) -> (r: anyhow::Result<UdpFramed<DatagramPacketCodec<'a, N>>>)
        ensures
            //#C16 C03 C12
            // the datagram codec of a new binding: this client's cipher, key and identity keys, the client side of the protocol, a fresh session (packet id 0, fresh replay window)
            r matches Ok(f) ==> f.codec().codec.cipher.kind == client.kind && f.codec().codec.context.key@ == client.key@ && f.codec().codec.context.identity_keys@ == client.identity_keys@
                && f.codec().codec.context.stream_type is Client && f.codec().codec.context.user_manager is None && f.codec().session.packet_id == 0 && fresh(f.codec().filter),
    {
        let outbound = UdpSocket::bind(SocketAddrV4::new(verif_ipv4_unspecified(), 0))?;
        let outbound_framed = UdpFramed::new(
            outbound,
            DatagramPacketCodec::new(udp__SessionCodec::new(
                udp__Context::new(Mode::Client, None, client.key, client.identity_keys),
                udp__AEADCipherCodec::new(client.kind),
            )),
        );
        Ok(outbound_framed)
    }


//@@ octo-squirrel-client/src/client.rs:42-72  fn transfer_tcp  sha=053e21b3dd8afc4c
fn transfer_tcp(listener: TcpListener, current: ServerConfig<SslConfig>) {
    match current.protocol {
        Shadowsocks => match current.cipher {
            CipherKind::Aes128Gcm | CipherKind::Aead2022Blake3Aes128Gcm => {
                tmpl__transfer_tcp(
                    listener,
                    current,
                    |c: &ServerConfig<SslConfig>| -> (r: anyhow::Result<ClientContext<16>>)
                        requires !(c.cipher is Unknown), 16 == key_len_of(c.cipher)
                        ensures r matches Ok(x) ==> x.0.wf()
                    { ClientContext::<16>::try_from(c) },
                    sscli__new_payload_codec::<16>,
                )
            }
            CipherKind::Aes256Gcm
            | CipherKind::Aead2022Blake3Aes256Gcm
            | CipherKind::ChaCha20Poly1305
            | CipherKind::Aead2022Blake3ChaCha8Poly1305
            | CipherKind::Aead2022Blake3ChaCha20Poly1305 => {
                tmpl__transfer_tcp(
                    listener,
                    current,
                    |c: &ServerConfig<SslConfig>| -> (r: anyhow::Result<ClientContext<32>>)
                        requires !(c.cipher is Unknown), 32 == key_len_of(c.cipher)
                        ensures r matches Ok(x) ==> x.0.wf()
                    { ClientContext::<32>::try_from(c) },
                    sscli__new_payload_codec::<32>,
                )
            }
            CipherKind::Unknown => (),
        },
        VMess => tmpl__transfer_tcp(listener, current, |c| Ok((c.cipher, c.password.clone())), vmesstcp__new_codec),
        Trojan => tmpl__transfer_tcp(listener, current, |c| Ok(c.password.clone()), trojantcp__new_codec),
    }
}

//@@ octo-squirrel-client/src/client/template.rs:99-134  fn try_transfer_tcp  sha=b59c4e834d63662b
fn try_transfer_tcp<Context, NewCodec, Codec>(
    inbound: TcpStream,
    peer_addr: &Address,
    config: &ServerConfig<SslConfig>,
    context: Context,
    new_codec: NewCodec,Tracked(vlog): Tracked<&mut TransportLog>
) -> (r: Result<relay__Result>)
where
    NewCodec: FnOnce(&Address, Context) -> Result<Codec>,
    Codec: Encoder<BytesMut, Error = anyhow::Error> + Decoder<Item = BytesMut, Error = anyhow::Error> + Send + 'static + Unpin,
    requires
        new_codec.requires((peer_addr, context)),
    ensures
        //#C16 C01
        // exactly one outbound attempt at most, over the transport the configuration's sections name, to the configured server
        final(vlog).dials == old(vlog).dials || final(vlog).dials == old(vlog).dials.push(dial_of(config)),
        // a relay ran only over that attempt, and Ok means it ran
        r is Ok ==> final(vlog).dials == old(vlog).dials.push(dial_of(config))
            && final(vlog).relays == old(vlog).relays.push(final(vlog).dials.len()),
        r is Err ==> final(vlog).relays == old(vlog).relays,
{
    let local_client = Framed::new(inbound, BytesCodec);
    let codec = new_codec(peer_addr, context)?;
    Ok(match (&config.ssl, &config.ws, &config.quic) {
        (None, None, None) => {
            let client_server = new_plain_outbound(&config.host, config.port, codec, Tracked(vlog))?;
            relay_tcp(local_client, client_server, Tracked(vlog))
        }
        (_, _, Some(quic_config)) => {
            let client_server = new_quic_outbound(&config.host, config.port, codec, quic_config, Tracked(vlog))?;
            relay_tcp(local_client, client_server, Tracked(vlog))
        }
        (None, Some(ws_config), None) => {
            let client_server = new_ws_outbound(&config.host, config.port, codec, ws_config, Tracked(vlog))?;
            relay_tcp(local_client, client_server, Tracked(vlog))
        }
        (Some(ssl_config), None, None) => {
            let client_server = new_tls_outbound(&config.host, config.port, codec, ssl_config, Tracked(vlog))?;
            relay_tcp(local_client, client_server, Tracked(vlog))
        }
        (Some(ssl_config), Some(ws_config), None) => {
            let client_server = new_wss_outbound(&config.host, config.port, codec, ssl_config, ws_config, Tracked(vlog))?;
            relay_tcp(local_client, client_server, Tracked(vlog))
        }
    })
}
