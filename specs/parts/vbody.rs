// ---- part vbody: codec/aead.rs (CountingNonceGenerator), codec/chunk.rs, protocol/vmess/{auth,header,session}.rs, codec/vmess/aead.rs ----
// (needs shims/vmess.rs + shims/crypto.rs + shims/ss.rs in the unit's shim module, specs/common_vbody.rs and common_cipher.rs)
impl core::convert::From<InvalidLength> for anyhow::Error {
    #[verifier::external_body]
    fn from(e: InvalidLength) -> anyhow::Error { unimplemented!() }
}
impl core::convert::From<aead::Error> for anyhow::Error {
    #[verifier::external_body]
    fn from(e: aead::Error) -> anyhow::Error { unimplemented!() }
}
/// the 16-byte buffers of a session keep their keys and bytes 2.. of every nonce buffer
pub open spec fn sess_same<S: Session + ?Sized>(a: &S, b: &S) -> bool {
    a.ekey() == b.ekey() && a.dkey() == b.dkey() && a.ckey() == b.ckey()
    && iv_tail(a.eiv()) == iv_tail(b.eiv()) && iv_tail(a.div()) == iv_tail(b.div()) && iv_tail(a.civ()) == iv_tail(b.civ())
}
pub open spec fn tail_kept(before: Seq<u8>, after: Seq<u8>) -> bool { after.len() == before.len() && after.skip(2) == before.skip(2) }
proof fn lemma_tail_kept(before: Seq<u8>, after: Seq<u8>)
    requires tail_kept(before, after), before.len() >= 12
    ensures iv_tail(after) == iv_tail(before)
{ assert(iv_tail(after) =~= after.skip(2).take(10)); assert(iv_tail(before) =~= before.skip(2).take(10)); }
/// VMess: the ChaCha20-Poly1305 key is MD5(k) ++ MD5(MD5(k))
spec fn chacha_key(k: Seq<u8>) -> Seq<u8> { md5(k) + md5(md5(k)) }
spec fn sec_alg(s: SecurityType) -> int { if s is Chacha20Poly1305 { 3 } else { 0 } }
spec fn sec_key(s: SecurityType, k: Seq<u8>) -> Seq<u8> { if s is Chacha20Poly1305 { chacha_key(k) } else { k.take(16) } }
spec fn opt_mode(o: Seq<RequestOption>) -> int {
    if o.contains(RequestOption::AuthenticatedLength) { 2 } else if o.contains(RequestOption::ChunkMasking) { 1 } else { 0 }
}
/// what AEADBodyCodec::new builds from the header options, the direction's key `k` / nonce `n` and the session's chunk key `ck`
spec fn vnew_post(c: AEADBodyCodec, h: RequestHeader, k: Seq<u8>, n: Seq<u8>, ck: Seq<u8>) -> bool {
    &&& c.wf() && c.abs() == VSt::Padding && c.dynv() == (VDyn { sp: 0, bc: 0, lc: 0 })
    &&& c.auth.alg() == sec_alg(h.security) && c.auth.key() == sec_key(h.security, k)
    &&& c.shake.seed() == n
    &&& (c.padding is Shake) == h.option@.contains(RequestOption::GlobalPadding)
    &&& c.mode() == opt_mode(h.option@)
    &&& (c.chunk matches ChunkSizeParser::Auth(a) ==> a.alg() == sec_alg(h.security) && a.key() == sec_key(h.security, vkdf(ck, seq![lbl_auth_len()]).take(16)))
}

//@@ octo-squirrel/src/codec/aead.rs:124-142  enum CipherKind  sha=0afd87d0c4335287
#[derive(Structural)] // (annotation: the derived == of this field-less enum is structural equality)
#[derive(Default, Clone, Copy, PartialEq, Eq)]
pub enum CipherKind {
    Aes128Gcm,
    Aes256Gcm,
    ChaCha20Poly1305,
    Aead2022Blake3Aes128Gcm,
    Aead2022Blake3Aes256Gcm,
    Aead2022Blake3ChaCha8Poly1305,
    Aead2022Blake3ChaCha20Poly1305,
    #[default]
    Unknown,
}

//@@ octo-squirrel/src/codec/aead.rs:202-205  struct CountingNonceGenerator  sha=0f5c21bf210e24b4
pub struct CountingNonceGenerator {
    count: u16,
    nonce_size: usize,
}

//@@ octo-squirrel/src/codec/aead.rs:207-211  impl CountingNonceGenerator#0  sha=f6b43176be373a63
impl CountingNonceGenerator {
    fn new(nonce_size: usize) -> (r: Self)
        ensures
            //#C12 C03
            r.count == 0, r.nonce_size == nonce_size,
    {
        Self { count: 0, nonce_size }
    }
}

//@@ octo-squirrel/src/codec/aead.rs:213-219  impl CountingNonceGenerator#1  sha=fff6485661402e51
impl CountingNonceGenerator {
    fn generate<'a>(&mut self, nonce: &'a mut [u8]) -> (r: &'a [u8])
        requires old(nonce)@.len() >= 2, old(self).nonce_size <= old(nonce)@.len(),
        ensures final(self).nonce_size == old(self).nonce_size,
            //#C12 C03 C05
            // (the counter is what binds a chunk to its position in the stream: C05's reorder/duplicate detection rests on it)
            final(self).count == add1(old(self).count),
            //#C12 C03
            final(nonce)@ == be_bytes(old(self).count as nat, 2) + old(nonce)@.skip(2),
            //#C12 C03
            r@ == final(nonce)@.take(old(self).nonce_size as int),
            tail_kept(old(nonce)@, final(nonce)@),
    {
        nonce[..size_of::<u16>()].copy_from_slice(&self.count.v_to_be_bytes());
        proof { lemma_be_bytes_len(old(self).count as nat, 2); assert(nonce@ =~= be_bytes(old(self).count as nat, 2) + old(nonce)@.skip(2)); assert(nonce@.skip(2) =~= old(nonce)@.skip(2)); }
        self.count = self.count.overflowing_add(1).0;
        &nonce[..self.nonce_size]
    }
}

//@@ octo-squirrel/src/codec/chunk.rs:3-4  struct PlainSizeParser  sha=2e272aede21acd00
#[derive(PartialEq, Eq)]
pub struct PlainSizeParser;

//@@ octo-squirrel/src/codec/chunk.rs:6-20  impl PlainSizeParser  sha=3ca6d4920bfa464c
impl PlainSizeParser {
    const fn size_bytes() -> (r: usize) ensures r == 2  {
        size_of::<u16>()
    }

    fn encode_size(size: usize) -> (r: Vec<u8>)
        ensures
            //#C03
            r@ == be_bytes((size as u16) as nat, 2), r@.len() == 2,
    {
        (size as u16).v_to_be_bytes().to_vec()
    }

    fn decode_size(data: &[u8]) -> (r: usize)
        requires data@.len() >= 2
        ensures
            //#C03 C04
            r == be_val(data@.take(2)),
    {
        let mut bytes = [0; Self::size_bytes()];
        bytes.copy_from_slice(&data[..Self::size_bytes()]);
        proof { assert(bytes@ =~= data@.take(2)); lemma_be_val_bound(bytes@); lemma_pow256_vals(); }
        u16::v_from_be_bytes(bytes) as usize
    }
}

//@@ octo-squirrel/src/protocol/vmess/auth.rs:3-13  fn generate_chacha20_poly1305_key  sha=e6965e7b5324fc02
fn vauth__generate_chacha20_poly1305_key(raw: &[u8]) -> (r: [u8; 32])
    ensures
        //#C03
        r@ == chacha_key(raw@),
 {
    let mut key = [0; 32];
    let mut hasher = Md5::new();
    hasher.update(raw);
    let res = hasher.finalize_reset();
    key[..16].copy_from_slice(&res);
    let ghost h1 = res@;
    proof { assert(key@.take(16) =~= h1); }
    hasher.update(&res[..16]);
    let res = hasher.finalize();
    key[16..].copy_from_slice(&res);
    proof { assert(res@ == md5(h1.take(16))); assert(h1.take(16) =~= h1); assert(key@ =~= h1 + res@); }
    key
}

//@@ octo-squirrel/src/protocol/vmess/header.rs:91-98  struct RequestHeader  sha=b65e8099b86fe635
pub struct RequestHeader {
    pub version: u8,
    pub command: RequestCommand,
    pub option: Vec<RequestOption>,
    pub security: SecurityType,
    pub address: Address,
    pub id: [u8; 16],
}

//@@ octo-squirrel/src/protocol/vmess/header.rs:100-115  impl RequestHeader {fn new}  sha=8900f2bb71f9a1ea
impl RequestHeader {
    fn new(version: u8, command: RequestCommand, option: Vec<RequestOption>, security: SecurityType, address: Address, id: [u8; 16]) -> (r: Self)
        ensures r.version == version, r.command == command, r.option == option, r.security == security, r.address == address, r.id == id,
    {
        Self { version, command, option, security, address, id }
    }
}

//@@ octo-squirrel/src/protocol/vmess/session.rs:14-21  session_impl!(ClientSession) / struct ClientSession  sha=bf3f57e2957c1317
#[derive(Clone)]
        pub struct ClientSession {
            pub request_body_iv: [u8; 16],
            pub request_body_key: [u8; 16],
            pub response_body_iv: [u8; 16],
            pub response_body_key: [u8; 16],
            pub response_header: u8,
        }

//@@ octo-squirrel/src/protocol/vmess/session.rs:23-36  session_impl!(ClientSession) / impl ClientSession  sha=aeae1eed5be4de8a
impl ClientSession {
            fn init(request_body_iv: [u8; 16], request_body_key: [u8; 16], response_header: u8) -> (r: Self)
                ensures r.request_body_iv == request_body_iv, r.request_body_key == request_body_key, r.response_header == response_header,
                    //#C03 C05 C10
                    // V2Fly VMess: response body key / iv = SHA256(request body key / iv)[0..16]
                    r.response_body_iv@ == sha256(request_body_iv@).take(16),
                    //#C03 C05 C10
                    r.response_body_key@ == sha256(request_body_key@).take(16),
            {
                let mut hasher = Sha256::new();
                hasher.update(request_body_iv);
                let res = hasher.finalize_reset();
                let mut response_body_iv = [0; 16];
                response_body_iv.copy_from_slice(&res[..16]);
                proof { assert(response_body_iv@ =~= sha256(request_body_iv@).take(16)); }
                hasher.update(request_body_key);
                let res = hasher.finalize_reset();
                let mut response_body_key = [0; 16];
                response_body_key.copy_from_slice(&res[..16]);
                proof { assert(response_body_key@ =~= sha256(request_body_key@).take(16)); }
                Self { request_body_iv, request_body_key, response_body_iv, response_body_key, response_header }
            }
        }

//@@ octo-squirrel/src/protocol/vmess/session.rs:14-21  session_impl!(ServerSession) / struct ServerSession  sha=613a651e6221cf44
#[derive(Clone)]
        pub struct ServerSession {
            pub request_body_iv: [u8; 16],
            pub request_body_key: [u8; 16],
            pub response_body_iv: [u8; 16],
            pub response_body_key: [u8; 16],
            pub response_header: u8,
        }

//@@ octo-squirrel/src/protocol/vmess/session.rs:23-36  session_impl!(ServerSession) / impl ServerSession  sha=331ea5508e871d41
impl ServerSession {
            fn init(request_body_iv: [u8; 16], request_body_key: [u8; 16], response_header: u8) -> (r: Self)
                ensures r.request_body_iv == request_body_iv, r.request_body_key == request_body_key, r.response_header == response_header,
                    //#C03 C05 C10
                    // V2Fly VMess: response body key / iv = SHA256(request body key / iv)[0..16]
                    r.response_body_iv@ == sha256(request_body_iv@).take(16),
                    //#C03 C05 C10
                    r.response_body_key@ == sha256(request_body_key@).take(16),
            {
                let mut hasher = Sha256::new();
                hasher.update(request_body_iv);
                let res = hasher.finalize_reset();
                let mut response_body_iv = [0; 16];
                response_body_iv.copy_from_slice(&res[..16]);
                proof { assert(response_body_iv@ =~= sha256(request_body_iv@).take(16)); }
                hasher.update(request_body_key);
                let res = hasher.finalize_reset();
                let mut response_body_key = [0; 16];
                response_body_key.copy_from_slice(&res[..16]);
                proof { assert(response_body_key@ =~= sha256(request_body_key@).take(16)); }
                Self { request_body_iv, request_body_key, response_body_iv, response_body_key, response_header }
            }
        }

//@@ octo-squirrel/src/protocol/vmess/session.rs:57-66  impl ClientSession  sha=dc7916b483264228
impl ClientSession {
    fn new() -> (r: Self)
        ensures r.response_body_iv@ == sha256(r.request_body_iv@).take(16), r.response_body_key@ == sha256(r.request_body_key@).take(16),
    {
        let mut request_body_iv: [u8; 16] = [0; 16];
        let mut request_body_key: [u8; 16] = [0; 16];
        let response_header = random();
        dice::fill_bytes(&mut request_body_iv);
        dice::fill_bytes(&mut request_body_key);
        Self::init(request_body_iv, request_body_key, response_header)
    }
}

//@@ octo-squirrel/src/protocol/vmess/session.rs:84-88  impl ServerSession  sha=863aa4479bd6febd
impl ServerSession {
    fn new(request_body_iv: [u8; 16], request_body_key: [u8; 16], response_header: u8) -> (r: Self)
        ensures r.request_body_iv == request_body_iv, r.request_body_key == request_body_key, r.response_header == response_header,
            //#C05 C10 C03
            r.response_body_iv@ == sha256(request_body_iv@).take(16), r.response_body_key@ == sha256(request_body_key@).take(16),
    {
        Self::init(request_body_iv, request_body_key, response_header)
    }
}

//@@ octo-squirrel/src/protocol/vmess/session.rs:102-111  trait Session  sha=4da6976679419429
pub trait Session {
    spec fn ekey(&self) -> Seq<u8>;
    spec fn eiv(&self) -> Seq<u8>;
    spec fn dkey(&self) -> Seq<u8>;
    spec fn div(&self) -> Seq<u8>;
    spec fn ckey(&self) -> Seq<u8>;
    spec fn civ(&self) -> Seq<u8>;
    fn encoder_key(&self) -> (r: &[u8]) ensures r@ == self.ekey(), r@.len() == 16;
    fn encoder_nonce(&self) -> (r: &[u8]) ensures r@ == self.eiv(), r@.len() == 16;
    fn encoder_nonce_mut(&mut self) -> (r: &mut [u8]) ensures r@ == old(self).eiv(), r@.len() == 16, tail_kept(r@, final(r)@) ==> (final(self).ekey() == old(self).ekey() && final(self).dkey() == old(self).dkey() && final(self).ckey() == old(self).ckey() && iv_tail(final(self).eiv()) == iv_tail(old(self).eiv()) && iv_tail(final(self).div()) == iv_tail(old(self).div()) && iv_tail(final(self).civ()) == iv_tail(old(self).civ()) && final(self).eiv() == final(r)@);
    fn decoder_key(&self) -> (r: &[u8]) ensures r@ == self.dkey(), r@.len() == 16;
    fn decoder_nonce(&self) -> (r: &[u8]) ensures r@ == self.div(), r@.len() == 16;
    fn decoder_nonce_mut(&mut self) -> (r: &mut [u8]) ensures r@ == old(self).div(), r@.len() == 16, tail_kept(r@, final(r)@) ==> (final(self).ekey() == old(self).ekey() && final(self).dkey() == old(self).dkey() && final(self).ckey() == old(self).ckey() && iv_tail(final(self).eiv()) == iv_tail(old(self).eiv()) && iv_tail(final(self).div()) == iv_tail(old(self).div()) && iv_tail(final(self).civ()) == iv_tail(old(self).civ()) && final(self).div() == final(r)@);
    fn chunk_key(&self) -> (r: &[u8]) ensures r@ == self.ckey(), r@.len() == 16;
    fn chunk_nonce(&mut self) -> (r: &mut [u8]) ensures r@ == old(self).civ(), r@.len() == 16, tail_kept(r@, final(r)@) ==> (final(self).ekey() == old(self).ekey() && final(self).dkey() == old(self).dkey() && final(self).ckey() == old(self).ckey() && iv_tail(final(self).eiv()) == iv_tail(old(self).eiv()) && iv_tail(final(self).div()) == iv_tail(old(self).div()) && iv_tail(final(self).civ()) == iv_tail(old(self).civ()) && final(self).civ() == final(r)@);
}

//@@ octo-squirrel/src/protocol/vmess/session.rs:113-138  impl Session for ClientSession  sha=4f2f94b37ca732e9
impl Session for ClientSession {
    // client: encodes with the request key/iv, decodes with the response key/iv; the length cipher uses the request key/iv
    open spec fn ekey(&self) -> Seq<u8> { self.request_body_key@ }
    open spec fn eiv(&self) -> Seq<u8> { self.request_body_iv@ }
    open spec fn dkey(&self) -> Seq<u8> { self.response_body_key@ }
    open spec fn div(&self) -> Seq<u8> { self.response_body_iv@ }
    open spec fn ckey(&self) -> Seq<u8> { self.request_body_key@ }
    open spec fn civ(&self) -> Seq<u8> { self.request_body_iv@ }
    fn encoder_key(&self) -> (r: &[u8]) {
        &self.request_body_key
    }
    fn encoder_nonce(&self) -> (r: &[u8]) {
        &self.request_body_iv
    }
    fn encoder_nonce_mut(&mut self) -> (r: &mut [u8]) {
        &mut self.request_body_iv
    }
    fn decoder_key(&self) -> (r: &[u8]) {
        &self.response_body_key
    }
    fn decoder_nonce(&self) -> (r: &[u8]) {
        &self.response_body_iv
    }
    fn decoder_nonce_mut(&mut self) -> (r: &mut [u8]) {
        &mut self.response_body_iv
    }
    fn chunk_key(&self) -> (r: &[u8]) {
        &self.request_body_key
    }
    fn chunk_nonce(&mut self) -> (r: &mut [u8]) {
        &mut self.request_body_iv
    }
}

//@@ octo-squirrel/src/protocol/vmess/session.rs:140-165  impl Session for ServerSession  sha=f345262f17d840b3
impl Session for ServerSession {
    // server: decodes with the request key/iv, encodes with the response key/iv; the length cipher uses the request key/iv
    open spec fn ekey(&self) -> Seq<u8> { self.response_body_key@ }
    open spec fn eiv(&self) -> Seq<u8> { self.response_body_iv@ }
    open spec fn dkey(&self) -> Seq<u8> { self.request_body_key@ }
    open spec fn div(&self) -> Seq<u8> { self.request_body_iv@ }
    open spec fn ckey(&self) -> Seq<u8> { self.request_body_key@ }
    open spec fn civ(&self) -> Seq<u8> { self.request_body_iv@ }
    fn encoder_key(&self) -> (r: &[u8]) {
        &self.response_body_key
    }
    fn encoder_nonce(&self) -> (r: &[u8]) {
        &self.response_body_iv
    }
    fn encoder_nonce_mut(&mut self) -> (r: &mut [u8]) {
        &mut self.response_body_iv
    }
    fn decoder_key(&self) -> (r: &[u8]) {
        &self.request_body_key
    }
    fn decoder_nonce(&self) -> (r: &[u8]) {
        &self.request_body_iv
    }
    fn decoder_nonce_mut(&mut self) -> (r: &mut [u8]) {
        &mut self.request_body_iv
    }
    fn chunk_key(&self) -> (r: &[u8]) {
        &self.request_body_key
    }
    fn chunk_nonce(&mut self) -> (r: &mut [u8]) {
        &mut self.request_body_iv
    }
}

//@@ octo-squirrel/src/codec/vmess/aead.rs:30-30  const AUTH_LEN  sha=e88774a73755d6db
#[verifier::external_body] exec const AUTH_LEN: &'static [u8] ensures AUTH_LEN@ =~= seq![97u8, 117u8, 116u8, 104u8, 95u8, 108u8, 101u8, 110u8] { b"auth_len" }

//@@ octo-squirrel/src/codec/vmess/aead.rs:31-31  const MAX_PADDING_LENGTH  sha=2b28c4f45deee898
const MAX_PADDING_LENGTH: usize = 63;

//@@ octo-squirrel/src/codec/vmess/aead.rs:33-40  struct AEADBodyCodec  sha=bdaacff0535c56be
pub struct AEADBodyCodec {
    auth: Authenticator,
    chunk: ChunkSizeParser,
    padding: PaddingLengthGenerator,
    shake: ShakeSizeParser,
    payload_limit: usize,
    state: DecodeState,
}

//@@ octo-squirrel/src/codec/vmess/aead.rs:42-202  impl AEADBodyCodec  sha=899f27ef05cfb78d
impl AEADBodyCodec {
    spec fn mode(&self) -> int { match self.chunk { ChunkSizeParser::Plain => 0, ChunkSizeParser::Shake => 1, ChunkSizeParser::Auth(_) => 2 } }
    /// static parameters of this codec, given bytes 2..12 of the body nonce buffer and of the length nonce buffer
    spec fn cfg(&self, biv: Seq<u8>, liv: Seq<u8>) -> VCfg {
        VCfg { alg: self.auth.alg(), key: self.auth.key(), mode: self.mode(),
               lalg: self.lalg(), lkey: self.lkey(),
               pad: self.padding is Shake, seed: self.shake.seed(), biv, liv }
    }
    spec fn dynv(&self) -> VDyn { VDyn { sp: self.shake.pos(), bc: self.auth.cnt(), lc: match self.chunk { ChunkSizeParser::Auth(a) => a.cnt(), _ => 0 } } }
    spec fn abs(&self) -> VSt { match self.state { DecodeState::Padding => VSt::Padding, DecodeState::Length(p) => VSt::Length(p as nat), DecodeState::Body(p, l) => VSt::Body(p as nat, l as nat) } }
    spec fn wf(&self) -> bool { self.payload_limit == 2048 && self.auth.wf() && (self.chunk matches ChunkSizeParser::Auth(a) ==> a.wf()) && vst_wf(self.abs()) }
    /// nothing but counters and the decode state differs
    spec fn same_static(&self, o: &Self) -> bool {
        self.auth.alg() == o.auth.alg() && self.auth.key() == o.auth.key() && self.mode() == o.mode() && self.lalg() == o.lalg() && self.lkey() == o.lkey()
        && (self.padding is Shake) == (o.padding is Shake) && self.shake.seed() == o.shake.seed() && self.payload_limit == o.payload_limit
    }
    spec fn lalg(&self) -> int { match self.chunk { ChunkSizeParser::Auth(a) => a.alg(), _ => 0 } }
    spec fn lkey(&self) -> Seq<u8> { match self.chunk { ChunkSizeParser::Auth(a) => a.key(), _ => Seq::empty() } }
    spec fn dcfg<S: Session>(&self, s: &S) -> VCfg { self.cfg(iv_tail(s.div()), iv_tail(s.civ())) }
    spec fn ecfg<S: Session>(&self, s: &S) -> VCfg { self.cfg(iv_tail(s.eiv()), iv_tail(s.civ())) }

    fn new<VDynSession: Session>(
        header: &RequestHeader,
        session: &mut VDynSession,
        key: impl FnOnce(&VDynSession) -> &[u8],
        nonce: impl FnOnce(&VDynSession) -> &[u8],
    ) -> (r: Result<Self, InvalidLength>)
        requires
            forall|s: &VDynSession| #[trigger] key.requires((s,)), forall|s: &VDynSession| #[trigger] nonce.requires((s,)),
            forall|s: &VDynSession, k: &[u8]| #[trigger] key.ensures((s,), k) ==> k@.len() == 16,
        ensures *final(session) == *old(session),
            //#C03 C05 C12 C16
            r matches Ok(c) ==> exists|k: &[u8], n: &[u8]| #![trigger key.ensures((&*old(session),), k), nonce.ensures((&*old(session),), n)]
                key.ensures((&*old(session),), k) && nonce.ensures((&*old(session),), n) && vnew_post(c, *header, k@, n@, old(session).ckey()),
    {
        let mut chunk = ChunkSizeParser::Plain;
        let mut padding = PaddingLengthGenerator::Empty;
        if header.option.contains(&RequestOption::ChunkMasking) {
            chunk = ChunkSizeParser::Shake;
        }
        if header.option.contains(&RequestOption::GlobalPadding) {
            padding = PaddingLengthGenerator::Shake;
        }
        if header.option.contains(&RequestOption::AuthenticatedLength) {
            let key = session.chunk_key();
            chunk = ChunkSizeParser::Auth(new_aead_chunk_size_cipher(header.security, key)?);
        }
        let key: &[u8] = key(session);
        let ghost k0 = key;
        proof { axiom_md5_len(k0@); axiom_md5_len(md5(k0@)); }
        let cipher = match header.security {
            SecurityType::Chacha20Poly1305 => new_aead_cipher(header.security, &vauth__generate_chacha20_poly1305_key(key)),
            _ => new_aead_cipher(header.security, key),
        };
        let nonce = nonce(session);
        let ghost n0 = nonce;
        let shake = ShakeSizeParser::new(nonce);
        proof {
            assert(cipher.alg() == sec_alg(header.security));
            assert(cipher.key() == sec_key(header.security, k0@));
            assert(shake.seed() == n0@);
            assert((padding is Shake) == header.option@.contains(RequestOption::GlobalPadding));
            assert((match chunk { ChunkSizeParser::Plain => 0int, ChunkSizeParser::Shake => 1int, ChunkSizeParser::Auth(_) => 2int }) == opt_mode(header.option@));
            assert(chunk matches ChunkSizeParser::Auth(a) ==> a.wf() && a.cnt() == 0 && a.alg() == sec_alg(header.security) && a.key() == sec_key(header.security, vkdf(session.ckey(), seq![lbl_auth_len()]).take(16)));
        }
        Ok(Self { auth: Authenticator::new(cipher), chunk, padding, shake, payload_limit: 2048, state: DecodeState::Padding })
    }

    fn new_encoder(header: &RequestHeader, session: &mut impl Session) -> (r: Result<Self, InvalidLength>)
        ensures *final(session) == *old(session),
            //#C05 C03 C12 C16
            // direction separation: this codec is keyed with the session's encoder key and seeded with its encoder nonce
            r matches Ok(c) ==> vnew_post(c, *header, old(session).ekey(), old(session).eiv(), old(session).ckey()),
    {
        Self::new(header, session, |s| -> (r: &[u8]) ensures r@ == s.ekey(), r@.len() == 16 { s.encoder_key() }, |s| -> (r: &[u8]) ensures r@ == s.eiv() { s.encoder_nonce() })
    }

    fn new_decoder(header: &RequestHeader, session: &mut impl Session) -> (r: Result<Self, InvalidLength>)
        ensures *final(session) == *old(session),
            //#C05 C03 C12 C16
            // direction separation: this codec is keyed with the session's decoder key and seeded with its decoder nonce
            r matches Ok(c) ==> vnew_post(c, *header, old(session).dkey(), old(session).div(), old(session).ckey()),
    {
        Self::new(header, session, |s| -> (r: &[u8]) ensures r@ == s.dkey(), r@.len() == 16 { s.decoder_key() }, |s| -> (r: &[u8]) ensures r@ == s.div() { s.decoder_nonce() })
    }

    fn encode_chunk(&mut self, src: &mut BytesMut, dst: &mut BytesMut, session: &mut impl Session) -> (r: Result<(), aead::Error>)
        requires old(self).wf(),
        ensures final(self).wf(), final(self).same_static(old(self)), final(self).state == old(self).state, sess_same(old(session), final(session)),
            //#C12 C03
            r is Ok ==> final(self).dynv() == vchunk_dyn(old(self).ecfg(old(session)), old(self).dynv(), vchunk_take(old(self).ecfg(old(session)), old(self).dynv(), old(src)@.len())),
            //#C02 C01
            r is Ok ==> final(src)@ == old(src)@.skip(vchunk_take(old(self).ecfg(old(session)), old(self).dynv(), old(src)@.len()) as int),
            //#C03 C01 C02 C12
            r is Ok ==> final(dst)@.len() >= old(dst)@.len() && final(dst)@.take(old(dst)@.len() as int) == old(dst)@
                && vchunk_rel(old(self).ecfg(old(session)), old(self).dynv(),
                       old(src)@.take(vchunk_take(old(self).ecfg(old(session)), old(self).dynv(), old(src)@.len()) as int), final(dst)@.skip(old(dst)@.len() as int)),
    {
        let ghost c = self.ecfg(&*session);
        let ghost d0 = self.dynv();
        let padding_length = self.next_padding_length();
        /*R2*/
        let ghost d1 = self.dynv();
        proof { assert(vpad(c, d0) == (padding_length as nat, d1)); }
        let tag_size = self.auth.cipher.tag_size();
        let encrypted_size = src.remaining().min(self.payload_limit - tag_size - self.chunk.size_bytes() - padding_length);
        let encrypted_size_bytes = self.encode_size(encrypted_size + padding_length + tag_size, session.chunk_nonce())?;
        let ghost d2 = self.dynv();
        let ghost sess1 = *session;
        proof { assert(iv_tail(session.civ()) == iv_tail(old(session).civ())); assert(vencode_len(c, d1, (encrypted_size + padding_length + tag_size) as nat) == (encrypted_size_bytes@, d2)); }
        dst.extend_from_slice(&encrypted_size_bytes);
        let mut payload_bytes = src.split_to(encrypted_size);
        self.auth.seal(&mut payload_bytes, session.encoder_nonce_mut())?;
        let ghost ct = payload_bytes@;
        dst.extend_from_slice(&payload_bytes);
        let mut padding_bytes: Vec<u8> = vec![0; padding_length];
        dice::fill_bytes(&mut padding_bytes);
        dst.extend_from_slice(&padding_bytes);
        proof {
            let sb = vsize_bytes(c) as int;
            let w = dst@.skip(old(dst)@.len() as int);
            assert(w =~= encrypted_size_bytes@ + ct + padding_bytes@);
            assert(w.take(sb) =~= encrypted_size_bytes@);
            assert(w.subrange(sb, sb + encrypted_size + 16) =~= ct);
            assert(dst@.take(old(dst)@.len() as int) =~= old(dst)@);
        }
        Ok(())
    }

    fn next_padding_length(&mut self) -> (r: usize)
        requires old(self).wf(),
        ensures final(self).wf(), final(self).same_static(old(self)), final(self).state == old(self).state,
            //#C03 C04
            (r as nat, final(self).dynv()) == vpad(old(self).cfg(Seq::empty(), Seq::empty()), old(self).dynv()), r < 64,
    {
        match self.padding {
            PaddingLengthGenerator::Empty => 0,
            PaddingLengthGenerator::Shake => self.shake.next_padding_length(),
        }
    }

    fn encode_size(&mut self, size: usize, nonce: &mut [u8]) -> (r: Result<Vec<u8>, aead::Error>)
        requires old(self).wf(), 16 <= size <= 0xffff, old(nonce)@.len() == 16,
        ensures final(self).wf(), final(self).same_static(old(self)), final(self).state == old(self).state, tail_kept(old(nonce)@, final(nonce)@),
            //#C03 C12
            final(self).dynv() == vencode_len(old(self).cfg(Seq::empty(), iv_tail(old(nonce)@)), old(self).dynv(), size as nat).1,
            //#C03 C12
            r matches Ok(v) ==> v@ == vencode_len(old(self).cfg(Seq::empty(), iv_tail(old(nonce)@)), old(self).dynv(), size as nat).0 && v@.len() == vsize_bytes(old(self).cfg(Seq::empty(), Seq::empty())),
            (old(self).chunk is Auth) || r is Ok,
    {
        match self.chunk {
            ChunkSizeParser::Plain => Ok(PlainSizeParser::encode_size(size)),
            ChunkSizeParser::Auth(ref mut parser) => parser.encode_size(size, nonce),
            ChunkSizeParser::Shake => Ok(self.shake.encode_size(size)),
        }
    }

    fn encode_payload(&mut self, mut src: BytesMut, dst: &mut BytesMut, session: &mut impl Session) -> (r: Result<(), aead::Error>)
        requires old(self).wf(),
        ensures final(self).wf(), final(self).same_static(old(self)), final(self).state == old(self).state, sess_same(old(session), final(session)),
            //#C03 C01 C12
            r is Ok ==> final(dst)@.len() >= old(dst)@.len() && final(dst)@.take(old(dst)@.len() as int) == old(dst)@
                && vwire_rel(old(self).ecfg(old(session)), old(self).dynv(), src@, final(dst)@.skip(old(dst)@.len() as int)),
            //#C12
            r is Ok ==> final(self).dynv() == vdyn_after(old(self).ecfg(old(session)), old(self).dynv(), src@),
    {
        let ghost src0 = src@;
        let ghost c = self.ecfg(&*session);
        let ghost d00 = self.dynv();
        proof { assert forall|t: Seq<u8>| #[trigger] vwire_rel(c, d00, src0, t) implies vwire_rel(c, d00, src0, dst@.skip(old(dst)@.len() as int) + t) by { assert(dst@.skip(old(dst)@.len() as int) + t =~= t); } }
        while src.has_remaining() 
            invariant
                self.wf(), self.same_static(old(self)), self.state == old(self).state, sess_same(old(session), &*session),
                c == old(self).ecfg(old(session)), d00 == old(self).dynv(),
                dst@.len() >= old(dst)@.len(), dst@.take(old(dst)@.len() as int) == old(dst)@,
                vdyn_after(c, d00, src0) == vdyn_after(c, self.dynv(), src@),
                forall|t: Seq<u8>| #[trigger] vwire_rel(c, self.dynv(), src@, t) ==> vwire_rel(c, d00, src0, dst@.skip(old(dst)@.len() as int) + t),
            decreases src@.len()
        {
            let ghost s1 = src@;
            let ghost dd = self.dynv();
            let ghost w1 = dst@;
            proof { assert(self.ecfg(&*session) == c); }
            self.encode_chunk(&mut src, dst, session)?;
            proof {
                let k0 = old(dst)@.len() as int;
                let n = vchunk_take(c, dd, s1.len());
                let ch = dst@.skip(w1.len() as int);
                lemma_vchunk_len(c, dd, s1.take(n as int), ch);
                assert(n > 0) by { lemma_vchunk_take_pos(c, dd, s1.len()); }
                assert(dst@.take(k0) =~= old(dst)@) by { assert(dst@.take(w1.len() as int) == w1); assert(dst@.take(k0) =~= w1.take(k0)); }
                assert forall|t: Seq<u8>| #[trigger] vwire_rel(c, self.dynv(), src@, t) implies vwire_rel(c, d00, src0, dst@.skip(k0) + t) by {
                    let cl = ch.len() as int;
                    assert((ch + t).take(cl) =~= ch);
                    assert((ch + t).skip(cl) =~= t);
                    assert(vwire_rel(c, dd, s1, ch + t));
                    assert(dst@.skip(k0) + t =~= w1.skip(k0) + (ch + t)) by { assert(dst@ =~= w1 + ch); }
                }
            }
        }
        proof { let k0 = old(dst)@.len() as int; assert(vwire_rel(c, self.dynv(), src@, Seq::empty())); assert(dst@.skip(k0) + Seq::<u8>::empty() =~= dst@.skip(k0)); }
        Ok(())
    }

    fn encode_packet(&mut self, mut src: BytesMut, dst: &mut BytesMut, session: &mut impl Session) -> (r: Result<(), aead::Error>)
        requires old(self).wf(),
        ensures final(self).wf(), final(self).same_static(old(self)), final(self).state == old(self).state, sess_same(old(session), final(session)),
            //#C02 C03
            // whole or not at all: either nothing is appended, or exactly one chunk that carries the entire datagram
            r is Ok ==> final(dst)@.len() >= old(dst)@.len() && final(dst)@.take(old(dst)@.len() as int) == old(dst)@
                && (final(dst)@ == old(dst)@ || vchunk_rel(old(self).ecfg(old(session)), old(self).dynv(), src@, final(dst)@.skip(old(dst)@.len() as int))),
            //#C02
            (r is Ok && src@.len() <= 2048 - 16 - 18 - 63) ==> final(dst)@ != old(dst)@,
    {
        // a datagram travels in exactly one chunk: one that cannot fit (with the largest padding) is dropped, never truncated
        if src.remaining() > self.payload_limit - self.auth.cipher.tag_size() - self.chunk.size_bytes() - MAX_PADDING_LENGTH {
            /*R2*/
            return Ok(());
        }
        proof { lemma_vchunk_take_all(self.ecfg(&*session), self.dynv(), src@.len()); assert(src@.take(src@.len() as int) =~= src@); }
        let ghost d0 = dst@;
        self.encode_chunk(&mut src, dst, session)
    }

    fn decode_packet(&mut self, src: &mut BytesMut, session: &mut impl Session) -> (r: Result<Option<BytesMut>, aead::Error>)
        requires old(self).wf(),
        ensures final(self).wf(), final(self).same_static(old(self)), sess_same(old(session), final(session)),
            //#C04 C05 C02 C03 C07
            match vparse_pkt(old(self).dcfg(old(session)), old(self).abs(), old(self).dynv(), old(src)@) {
                None => r is Err,
                Some(q) => r is Ok && final(self).abs() == q.st && final(self).dynv() == q.d && final(src)@ == q.rest
                    && match q.pkt { None => r matches Ok(None), Some(p) => r matches Ok(Some(b)) && b@ == p },
            },
    {
        let ghost c = self.dcfg(&*session);
        loop 
            invariant_except_break
                self.wf(), self.same_static(old(self)), sess_same(old(session), &*session), c == old(self).dcfg(old(session)),
                vparse_pkt(c, old(self).abs(), old(self).dynv(), old(src)@) == vparse_pkt(c, self.abs(), self.dynv(), src@),
            ensures false,
            decreases vst_rank(self.abs()),
        {
            match self.state {
                DecodeState::Padding => {
                    let padding = self.next_padding_length();
                    self.state = DecodeState::Length(padding)
                }
                DecodeState::Length(padding) => {
                    let size_bytes = self.chunk.size_bytes();
                    if src.remaining() < size_bytes {
                        return Ok(None);
                    }
                    let ghost s0 = src@;
                    let ghost dv = self.dynv();
                    proof { assert(self.dcfg(&*session) == c); }
                    let length = self.decode_size(&mut src.split_to(size_bytes), session.chunk_nonce())?;
                    proof { assert(src@ == s0.skip(size_bytes as int)); }
                    self.state = DecodeState::Body(padding, length)
                }
                DecodeState::Body(padding, length) => {
                    if length < padding + self.auth.cipher.tag_size() {
                        return Err(aead::Error);
                    }
                    if src.remaining() < length {
                        return Ok(None);
                    }
                    let ghost s0 = src@;
                    proof { assert(self.dcfg(&*session) == c); }
                    let mut packet_bytes = src.split_to(length - padding);
                    self.auth.open(&mut packet_bytes, session.decoder_nonce_mut())?;
                    src.advance(padding);
                    self.state = DecodeState::Padding;
                    proof { assert(src@ =~= s0.skip(length as int)); }
                    return Ok(Some(packet_bytes));
                }
            }
        }
    }

    fn decode_payload(&mut self, src: &mut BytesMut, session: &mut impl Session) -> (r: Result<Option<BytesMut>, aead::Error>)
        requires old(self).wf(),
        ensures final(self).wf(), final(self).same_static(old(self)), sess_same(old(session), final(session)),
            //#C04 C05 C01 C03 C07
            match vparse(old(self).dcfg(old(session)), old(self).abs(), old(self).dynv(), old(src)@) {
                None => r is Err,
                Some(q) => r is Ok && final(self).abs() == q.st && final(self).dynv() == q.d && final(src)@ == q.rest
                    && (if q.out.len() == 0 { r matches Ok(None) } else { r matches Ok(Some(b)) && b@ == q.out }),
            },
    {
        let mut dst = BytesMut::new();
        let ghost c = self.dcfg(&*session);
        proof { lemma_vprepend_empty(vparse(c, self.abs(), self.dynv(), src@)); }
        loop 
            invariant_except_break
                self.wf(), self.same_static(old(self)), sess_same(old(session), &*session), c == old(self).dcfg(old(session)),
                vparse(c, old(self).abs(), old(self).dynv(), old(src)@) == vprepend(dst@, vparse(c, self.abs(), self.dynv(), src@)),
            ensures
                self.wf(), self.same_static(old(self)), sess_same(old(session), &*session), c == old(self).dcfg(old(session)),
                vparse(c, old(self).abs(), old(self).dynv(), old(src)@) == Some(VP { out: dst@, st: self.abs(), d: self.dynv(), rest: src@ }),
            decreases src@.len(), vst_rank(self.abs()),
        {
            match self.state {
                DecodeState::Padding => {
                    let padding = self.next_padding_length();
                    /*R2*/
                    self.state = DecodeState::Length(padding)
                }
                DecodeState::Length(padding) => {
                    let size_bytes = self.chunk.size_bytes();
                    if src.remaining() < size_bytes {
                        proof { assert(dst@ + Seq::<u8>::empty() =~= dst@); }
                        break;
                    }
                    let ghost s0 = src@;
                    let ghost dv = self.dynv();
                    proof { assert(self.dcfg(&*session) == c); }
                    let length = self.decode_size(&mut src.split_to(size_bytes), session.chunk_nonce())?;
                    proof { assert(src@ == s0.skip(size_bytes as int)); }
                    /*R2*/
                    self.state = DecodeState::Body(padding, length)
                }
                DecodeState::Body(padding, length) => {
                    if length < padding + self.auth.cipher.tag_size() {
                        return Err(aead::Error);
                    }
                    if src.remaining() < length {
                        proof { assert(dst@ + Seq::<u8>::empty() =~= dst@); }
                        break;
                    }
                    let ghost s0 = src@;
                    let ghost dst0 = dst@;
                    let ghost dv = self.dynv();
                    proof { assert(self.dcfg(&*session) == c); }
                    dst.reserve(length);
                    let mut payload_bytes = src.split_to(length - padding);
                    self.auth.open(&mut payload_bytes, session.decoder_nonce_mut())?;
                    dst.extend_from_slice(&payload_bytes);
                    src.advance(padding);
                    proof {
                        assert(src@ =~= s0.skip(length as int));
                        let q = vparse(c, VSt::Padding, self.dynv(), src@);
                        assert(vparse(c, VSt::Body(padding as nat, length as nat), dv, s0) == vprepend(payload_bytes@, q));
                        if q is Some { assert(dst0 + (payload_bytes@ + q->0.out) =~= (dst0 + payload_bytes@) + q->0.out); }
                    }
                    self.state = DecodeState::Padding
                }
            }
        }
        if dst.is_empty() { Ok(None) } else { Ok(Some(dst)) }
    }

    fn decode_size(&mut self, data: &mut BytesMut, nonce: &mut [u8]) -> (r: Result<usize, aead::Error>)
        requires old(self).wf(), old(data)@.len() == vsize_bytes(old(self).cfg(Seq::empty(), Seq::empty())), old(nonce)@.len() == 16,
        ensures final(self).wf(), final(self).same_static(old(self)), final(self).state == old(self).state, tail_kept(old(nonce)@, final(nonce)@),
            //#C04 C05 C03 C12
            match vdecode_len(old(self).cfg(Seq::empty(), iv_tail(old(nonce)@)), old(self).dynv(), old(data)@) {
                None => r is Err,
                Some((len, d1)) => r matches Ok(n) && n == len && final(self).dynv() == d1 && n <= 0xffff + 16,
            },
    {
        proof { if data@.len() == 2 { assert(data@.take(2) =~= data@); lemma_be_val_bound(data@); lemma_pow256_vals(); } }
        match self.chunk {
            ChunkSizeParser::Plain => Ok(PlainSizeParser::decode_size(data)),
            ChunkSizeParser::Auth(ref mut parser) => parser.decode_size(data, nonce),
            ChunkSizeParser::Shake => Ok(self.shake.decode_size(data)),
        }
    }
}

//@@ octo-squirrel/src/codec/vmess/aead.rs:204-210  fn new_aead_chunk_size_cipher  sha=8c799de89cf4fcaf
fn new_aead_chunk_size_cipher(security: SecurityType, key: &[u8]) -> (r: Result<Authenticator, InvalidLength>)
    ensures
        //#C03 C16 C12 C05
        // (the length cipher has a key of its own, KDF(chunk key, "auth_len"): with the payload key it would share (key, nonce) pairs with the payload cipher)
        r matches Ok(a) && a.wf() && a.cnt() == 0 && a.alg() == sec_alg(security) && a.key() == sec_key(security, vkdf(key@, seq![lbl_auth_len()]).take(16)),
 {
    let key = &kdf__kdf16(key, vec![AUTH_LEN]);
    proof { axiom_md5_len(key@); axiom_md5_len(md5(key@)); }
    match security {
        SecurityType::Chacha20Poly1305 => Ok(Authenticator::new(new_aead_cipher(security, &vauth__generate_chacha20_poly1305_key(key)))),
        _ => Ok(Authenticator::new(new_aead_cipher(security, key))),
    }
}

//@@ octo-squirrel/src/codec/vmess/aead.rs:212-217  fn new_aead_cipher  sha=a43b34990658e958
fn new_aead_cipher(security: SecurityType, key: &[u8]) -> (r: CipherMethod)
    requires key@.len() >= (if security is Chacha20Poly1305 { 32int } else { 16int }),
    ensures
        //#C03 C16 C12
        r.alg() == sec_alg(security), r.key() == key@.take(if security is Chacha20Poly1305 { 32int } else { 16int }),
 {
    match security {
        SecurityType::Chacha20Poly1305 => CipherMethod::new(CipherKind::ChaCha20Poly1305, key),
        _ => CipherMethod::new(CipherKind::Aes128Gcm, key),
    }
}

//@@ octo-squirrel/src/codec/vmess/aead.rs:219-223  enum DecodeState  sha=4e14d0a969f8d1f8
enum DecodeState {
    Padding,
    Length(usize),
    Body(usize, usize),
}

//@@ octo-squirrel/src/codec/vmess/aead.rs:225-230  enum ChunkSizeParser  sha=169b4fbd176ccc20
enum ChunkSizeParser {
    Plain,
    Auth(Authenticator),
    Shake,
}

//@@ octo-squirrel/src/codec/vmess/aead.rs:232-240  impl ChunkSizeParser  sha=8751950b1084d57e
impl ChunkSizeParser {
    fn size_bytes(&self) -> (r: usize) ensures r == (if self is Auth { 18int } else { 2int })  {
        match self {
            ChunkSizeParser::Plain => PlainSizeParser::size_bytes(),
            ChunkSizeParser::Auth(parser) => parser.size_bytes(),
            ChunkSizeParser::Shake => ShakeSizeParser::size_bytes(),
        }
    }
}

//@@ octo-squirrel/src/codec/vmess/aead.rs:242-246  enum PaddingLengthGenerator  sha=75ac74a9f99599d7
#[derive(PartialEq, Eq)]
enum PaddingLengthGenerator {
    Empty,
    Shake,
}

//@@ octo-squirrel/src/codec/vmess/aead.rs:248-251  struct Authenticator  sha=74b8236c7f661d18
struct Authenticator {
    cipher: CipherMethod,
    counting: CountingNonceGenerator,
}

//@@ octo-squirrel/src/codec/vmess/aead.rs:253-281  impl Authenticator  sha=0239ba176a09b9a6
impl Authenticator {
    spec fn alg(&self) -> int { self.cipher.alg() }
    spec fn key(&self) -> Seq<u8> { self.cipher.key() }
    spec fn cnt(&self) -> u16 { self.counting.count }
    spec fn wf(&self) -> bool { self.counting.nonce_size == 12 && self.cipher.alg() < 4 }
    spec fn same_key(&self, o: &Authenticator) -> bool { self.alg() == o.alg() && self.key() == o.key() && self.wf() == o.wf() }
    fn new(cipher: CipherMethod) -> (r: Self)
        requires cipher.alg() < 4,
        ensures r.alg() == cipher.alg(), r.key() == cipher.key(), r.wf(),
            //#C12 C03
            r.cnt() == 0,
    {
        let counting = CountingNonceGenerator::new(cipher.nonce_size());
        Self { cipher, counting }
    }

    const fn size_bytes(&self) -> (r: usize) ensures r == 18  {
        size_of::<u16>() + self.cipher.tag_size()
    }

    fn encode_size(&mut self, size: usize, nonce: &mut [u8]) -> (r: Result<Vec<u8>, aead::Error>)
        requires old(self).wf(), 16 <= size <= 0xffff + 16, old(nonce)@.len() >= 12,
        ensures final(self).same_key(old(self)),
            //#C12 C03
            final(self).cnt() == add1(old(self).cnt()),
            final(nonce)@ == be_bytes(old(self).cnt() as nat, 2) + old(nonce)@.skip(2), tail_kept(old(nonce)@, final(nonce)@),
            //#C03 C12
            r matches Ok(v) ==> v@ == aead_seal(old(self).alg(), old(self).key(), vnonce(old(self).cnt(), iv_tail(old(nonce)@)), Seq::empty(), be_bytes(((size - 16) as u16) as nat, 2)) && v@.len() == 18,
    {
        let mut buffer = ((size - self.cipher.tag_size()) as u16).v_to_be_bytes().to_vec();
        self.seal(&mut buffer, nonce)?;
        Ok(buffer)
    }

    fn decode_size(&mut self, buffer: &mut BytesMut, nonce: &mut [u8]) -> (r: Result<usize, aead::Error>)
        requires old(self).wf(), old(buffer)@.len() == 18, old(nonce)@.len() >= 12,
        ensures final(self).same_key(old(self)),
            //#C12 C05
            final(self).cnt() == add1(old(self).cnt()),
            final(nonce)@ == be_bytes(old(self).cnt() as nat, 2) + old(nonce)@.skip(2), tail_kept(old(nonce)@, final(nonce)@),
            //#C05 C04 C03
            match aead_open(old(self).alg(), old(self).key(), vnonce(old(self).cnt(), iv_tail(old(nonce)@)), Seq::empty(), old(buffer)@) {
                None => r is Err,
                Some(p) => r matches Ok(n) && n == be_val(p.take(2)) + 16 && n <= 0xffff + 16,
            },
    {
        self.open(buffer, nonce)?;
        proof { lemma_be_val_bound(buffer@.take(2)); lemma_pow256_vals(); }
        Ok(buffer.get_u16() as usize + self.cipher.tag_size())
    }

    fn seal(&mut self, buffer: &mut impl Buffer, nonce: &mut [u8]) -> (r: Result<(), aead::Error>)
        requires old(self).wf(), old(nonce)@.len() >= 12,
        ensures final(self).same_key(old(self)),
            //#C12 C03
            final(self).cnt() == add1(old(self).cnt()),
            //#C12 C03
            final(nonce)@ == be_bytes(old(self).cnt() as nat, 2) + old(nonce)@.skip(2), tail_kept(old(nonce)@, final(nonce)@),
            //#C12 C03
            r is Ok ==> final(buffer).bview() == aead_seal(old(self).alg(), old(self).key(), vnonce(old(self).cnt(), iv_tail(old(nonce)@)), Seq::empty(), old(buffer).bview()),
    {
        proof { lemma_be_bytes_len(self.cnt() as nat, 2); assert((be_bytes(self.cnt() as nat, 2) + nonce@.skip(2)).take(12) =~= vnonce(self.cnt(), iv_tail(nonce@))); }
        self.cipher.encrypt_in_place(self.counting.generate(nonce), &[], buffer)
    }

    fn open(&mut self, buffer: &mut impl Buffer, nonce: &mut [u8]) -> (r: Result<(), aead::Error>)
        requires old(self).wf(), old(nonce)@.len() >= 12,
        ensures final(self).same_key(old(self)),
            //#C12 C05
            final(self).cnt() == add1(old(self).cnt()),
            final(nonce)@ == be_bytes(old(self).cnt() as nat, 2) + old(nonce)@.skip(2), tail_kept(old(nonce)@, final(nonce)@),
            //#C05 C04
            match aead_open(old(self).alg(), old(self).key(), vnonce(old(self).cnt(), iv_tail(old(nonce)@)), Seq::empty(), old(buffer).bview()) {
                Some(p) => r is Ok && final(buffer).bview() == p,
                None => r is Err,
            },
    {
        proof { lemma_be_bytes_len(self.cnt() as nat, 2); assert((be_bytes(self.cnt() as nat, 2) + nonce@.skip(2)).take(12) =~= vnonce(self.cnt(), iv_tail(nonce@))); }
        self.cipher.decrypt_in_place(self.counting.generate(nonce), &[], buffer)
    }
}

//@@ octo-squirrel/src/codec/vmess/aead.rs:288-321  impl ShakeSizeParser {fn size_bytes,fn encode_size,fn decode_size,fn next_padding_length}  sha=396be22bd3786112
impl ShakeSizeParser {

    fn size_bytes() -> (r: usize) ensures r == 2  {
        size_of::<u16>()
    }

    fn encode_size(&mut self, size: usize) -> (r: Vec<u8>)
        ensures final(self).seed() == old(self).seed(), final(self).pos() == old(self).pos() + 1,
            //#C03
            r@ == be_bytes((shake_u16(old(self).seed(), old(self).pos()) ^ (size as u16)) as nat, 2), r@.len() == 2,
    {
        let mask = self.next() ^ size as u16;
        mask.v_to_be_bytes().to_vec()
    }

    fn decode_size(&mut self, data: &[u8]) -> (r: usize)
        requires data@.len() == 2
        ensures final(self).seed() == old(self).seed(), final(self).pos() == old(self).pos() + 1,
            //#C03 C04
            r == (shake_u16(old(self).seed(), old(self).pos()) ^ (be_val(data@) as u16)) as nat,
    {
        let mask = self.next();
        let mut bytes = [0; 2];
        bytes.copy_from_slice(data);
        let size = u16::v_from_be_bytes(bytes);
        proof { assert(bytes@ =~= data@); lemma_be_val_bound(bytes@); lemma_pow256_vals(); }
        (mask ^ size) as usize
    }

    fn next_padding_length(&mut self) -> (r: usize)
        ensures final(self).seed() == old(self).seed(), final(self).pos() == old(self).pos() + 1,
            //#C03
            r == (shake_u16(old(self).seed(), old(self).pos()) % 64) as nat, r < 64,
    {
        (self.next() % 64) as usize
    }
}
