// ---- part sstcp: protocol/shadowsocks.rs (Mode), manager ServerUser, codec/shadowsocks/{aead,aead_2022,aead_2022/tcp,tcp}.rs ----
// (needs shims/ss.rs in the unit's shim module and its axioms in the unit's broadcast use)

// ---- assumed contracts (R9 bodies / external state): listed in evidence as unverified
impl core::convert::From<SystemTimeError> for anyhow::Error {
    #[verifier::external_body]
    fn from(e: SystemTimeError) -> anyhow::Error { unimplemented!() }
}
/// codec/aead.rs CipherKind::tag_size (macro over RustCrypto associated consts): every supported AEAD has a 16-byte tag; panics on Unknown
impl CipherKind {
    #[verifier::external_body]
    fn tag_size(&self) -> (r: usize)
        requires !(self is Unknown)
        ensures r == 16
    { unimplemented!() }
}
impl CipherKind {
    spec fn is_2022(&self) -> bool { self is Aead2022Blake3Aes128Gcm || self is Aead2022Blake3Aes256Gcm || self is Aead2022Blake3ChaCha8Poly1305 || self is Aead2022Blake3ChaCha20Poly1305 }
    spec fn has_eih(&self) -> bool { self is Aead2022Blake3Aes128Gcm || self is Aead2022Blake3Aes256Gcm }
}
/// "ss-subkey" (shadowsocks.org AEAD: HKDF-SHA1 info string)
spec fn ss_subkey_label() -> Seq<u8> { seq![115u8, 115u8, 45u8, 115u8, 117u8, 98u8, 107u8, 101u8, 121u8] }
/// aead_2022.rs now(): seconds since the epoch; constant during one decode call
#[verifier::external_body]
fn a22__now() -> (r: Result<u64, SystemTimeError>)
    ensures r matches Ok(t) ==> t == wall_clock(), r is Ok == clock_ok(),
{ unimplemented!() }
uninterp spec fn clock_ok() -> bool;
/// aead_2022.rs next_padding_length (rand)
#[verifier::external_body]
fn a22__next_padding_length(msg: &BytesMut) -> (r: u16)
    ensures r <= 900, msg@.len() > 0 ==> r == 0
{ unimplemented!() }
/// SIP022 3.1.4: the identity header is AES-ECB( BLAKE3-KDF("shadowsocks 2022 identity subkey", iPSK || salt), hash(uPSK)[0..16] )
spec fn eih_plain(kind: CipherKind, key: Seq<u8>, salt: Seq<u8>, eih: Seq<u8>) -> Seq<u8> {
    let sub = blake3_kdf("shadowsocks 2022 identity subkey"@, key + salt);
    if kind is Aead2022Blake3Aes128Gcm { aes_ecb_dec(128, sub.take(16), eih) } else { aes_ecb_dec(256, sub.take(32), eih) }
}
/// SIP022 3.1.4, sender side: one 16-byte identity header per identity key iPSK_j: AES-ECB under the identity sub-key of iPSK_j (derived with the
/// request salt) of hash(next key)[0..16], where the next key is iPSK_{j+1}, and the user key for the last header
spec fn eih_sub(ipsk: Seq<u8>, salt: Seq<u8>) -> Seq<u8> { blake3_kdf("shadowsocks 2022 identity subkey"@, ipsk + salt) }
spec fn eih_one(kind: CipherKind, sub: Seq<u8>, next: Seq<u8>) -> Seq<u8> {
    if kind is Aead2022Blake3Aes128Gcm { aes_ecb_enc(128, sub.take(16), blake3_hash(next).take(16)) } else { aes_ecb_enc(256, sub.take(32), blake3_hash(next).take(16)) }
}
/// headers 0..n of the chain (header j names iPSK_{j+1})
spec fn eih_prefix(kind: CipherKind, iks: Seq<Seq<u8>>, salt: Seq<u8>, n: int) -> Seq<u8>
    decreases n
{
    if n <= 0 { Seq::empty() } else { eih_prefix(kind, iks, salt, n - 1) + eih_one(kind, eih_sub(iks[n - 1], salt), iks[n]) }
}
spec fn eih_bytes(kind: CipherKind, key: Seq<u8>, identity_keys: Seq<Seq<u8>>, salt: Seq<u8>) -> Seq<u8> {
    if identity_keys.len() == 0 { Seq::empty() }
    else { eih_prefix(kind, identity_keys, salt, identity_keys.len() - 1) + eih_one(kind, eih_sub(identity_keys.last(), salt), key) }
}
proof fn lemma_eih_prefix_len(kind: CipherKind, iks: Seq<Seq<u8>>, salt: Seq<u8>, n: int)
    requires 0 <= n
    ensures eih_prefix(kind, iks, salt, n).len() == 16 * n
    decreases n
{
    if n > 0 {
        lemma_eih_prefix_len(kind, iks, salt, n - 1);
        axiom_ecb_inverse(128, eih_sub(iks[n - 1], salt).take(16), blake3_hash(iks[n]).take(16));
        axiom_ecb_inverse(256, eih_sub(iks[n - 1], salt).take(32), blake3_hash(iks[n]).take(16));
    }
}
/// manager/shadowsocks.rs ServerUserManager (HashMap keyed by identity hash)
#[verifier::external_body]
struct ServerUserManager<const N: usize> { _u: u8 }
impl<const N: usize> ServerUserManager<N> {
    uninterp spec fn registered(&self, u: ServerUser<N>) -> bool;
    /// the user table as a function of the identity hash (HashMap lookup)
    uninterp spec fn lookup(&self, hash: Seq<u8>) -> Option<ServerUser<N>>;
    #[verifier::external_body]
    fn get_user_by_hash(&self, user_hash: &[u8]) -> (r: Option<&ServerUser<N>>)
        ensures r matches Some(u) ==> self.registered(*u) && u.identity_hash@ == user_hash@,
            match self.lookup(user_hash@) { Some(u) => r == Some(&u), None => r is None },
    { unimplemented!() }
    uninterp spec fn count(&self) -> nat;
    #[verifier::external_body]
    fn user_count(&self) -> (r: usize) ensures r == self.count() { unimplemented!() }
}
impl<const N: usize> Clone for ServerUser<N> {
    #[verifier::external_body]
    fn clone(&self) -> (r: Self) ensures r == *self { unimplemented!() }
}
/// R20: the salt replay cache (Mutex<LruCache> reached through &Context) as a ghost token threaded through the decode path:
/// the set of salts the cache holds.  ASSUMED: what the Mutex guarantees - one critical section at a time (lookup / test-and-insert are each
/// one critical section since /repo a8d1336); no expiry/eviction inside one call.
pub tracked struct SaltCache { pub ghost salts: Set<Seq<u8>> }
/// tcp.rs Context::{check_nonce,set_nonce}: contracts over the token, bodies NOT verified
impl<const N: usize> Context<N> {
    spec fn has_users(&self) -> bool { self.user_manager matches Some(m) && m.count() > 0 }
    #[verifier::external_body]
    fn check_nonce(&self, nonce: &[u8], Tracked(vcache): Tracked<&mut SaltCache>) -> (r: bool)
        ensures r == old(vcache).salts.contains(nonce@), *final(vcache) == *old(vcache)
    { unimplemented!() }
    #[verifier::external_body]
    fn set_nonce(&self, nonce: [u8; N], Tracked(vcache): Tracked<&mut SaltCache>) -> (r: bool)
        ensures final(vcache).salts == old(vcache).salts.insert(nonce@),
            // test-and-set in one critical section: true exactly when the salt was not there
            r == !old(vcache).salts.contains(nonce@),
    { unimplemented!() }
}
impl<const N: usize> Default for Identity<N> {
    /// tcp.rs Identity::default (rand fill): fresh random salt, no request salt, no user
    #[verifier::external_body]
    fn default() -> (r: Self) { unimplemented!() }
}

//@@ octo-squirrel/src/protocol/shadowsocks.rs:1-5  enum Mode  sha=157d6a8583fec583
/// SIP022 3.1.2: type byte 0 = client request stream, 1 = server response stream
spec fn mode_code(m: Mode) -> u8 { match m { Mode::Client => 0, Mode::Server => 1 } }
spec fn other_mode(m: Mode) -> Mode { match m { Mode::Client => Mode::Server, Mode::Server => Mode::Client } }
#[derive(Copy, Clone)]
pub enum Mode {
    Client,
    Server,
}

//@@ octo-squirrel/src/protocol/shadowsocks.rs:7-21  impl Mode  sha=9b882a919133191f
impl Mode {
    fn to_u8(&self) -> (r: u8)
        ensures
            //#C05 C10 C03
            r == mode_code(*self),
    {
        match self {
            Self::Client => 0,
            Self::Server => 1,
        }
    }

    fn expect_u8(&self) -> (r: u8)
        ensures
            //#C05 C10 C03
            r == mode_code(other_mode(*self)),
    {
        match self {
            Self::Client => 1,
            Self::Server => 0,
        }
    }
}

//@@ octo-squirrel/src/manager/shadowsocks.rs:57-62  struct ServerUser  sha=2aac52e3ac4f8a54
pub struct ServerUser<const N: usize> {
    pub name: String,
    pub key: [u8; N],
    pub identity_hash: [u8; 16],
}

//@@ octo-squirrel/src/manager/shadowsocks.rs:64-68  impl ServerUser  sha=c287001fd705f8df
impl<const N: usize> ServerUser<N> {
    fn identity_hash(&self) -> (r: [u8; 16])
        ensures r == self.identity_hash,
    {
        self.identity_hash
    }
}

//@@ octo-squirrel/src/codec/shadowsocks/aead.rs:11-15  fn new_encoder  sha=f0b30e45bde266ed
spec fn legacy_subkey(kind: CipherKind, key: Seq<u8>, salt: Seq<u8>) -> Seq<u8> {
    hkdf_sha1(salt, key, ss_subkey_label(), salt.len()).take(key_len_of(kind) as int)
}
spec fn s2022_subkey(kind: CipherKind, key: Seq<u8>, salt: Seq<u8>) -> Seq<u8> {
    blake3_kdf("shadowsocks 2022 session subkey"@, key + salt).take(key_len_of(kind) as int)
}
fn ssaead__new_encoder(kind: CipherKind, key: &[u8], salt: &[u8]) -> (r: Result<ChunkEncoder, InvalidLength>)
    requires !(kind is Unknown), salt@.len() >= key_len_of(kind),
    ensures r matches Ok(e) ==> e.wf() && e.auth.alg() == alg_of(kind) && is_init(e.auth.n())
            //#C03 C06
            && e.auth.key() == legacy_subkey(kind, key@, salt@)
            //#C03
            && e.cap() <= 0x3FFF,
{
    let key = ssaead__hkdfsha1(key, salt)?;
    let auth = ssaead__new_auth(kind, &key);
    // payload length is capped at 0x3FFF: [2 + tag][0x3fff + tag]
    Ok(ChunkEncoder::new(0x3fff + 2 + 16 + 16, auth))
}

//@@ octo-squirrel/src/codec/shadowsocks/aead.rs:17-21  fn new_decoder  sha=65f571aeb68d3b81
fn ssaead__new_decoder(kind: CipherKind, key: &[u8], salt: &[u8]) -> (r: Result<ChunkDecoder, InvalidLength>)
    requires !(kind is Unknown), salt@.len() >= key_len_of(kind),
    ensures salt@.len() <= 5100 ==> r is Ok,
        r matches Ok(d) ==> d.wf() && d.abs() == St::Length && d.alg() == alg_of(kind) && is_init(d.n()) && d.n() == nonce_init()
            //#C03 C06
            && d.key() == legacy_subkey(kind, key@, salt@),
{
    let key = ssaead__hkdfsha1(key, salt)?;
    let auth = ssaead__new_auth(kind, &key);
    Ok(ChunkDecoder::new(auth))
}

//@@ octo-squirrel/src/codec/shadowsocks/aead.rs:24-29  fn hkdfsha1  sha=d2a19fc8c51673ee
#[verifier::external_body] fn verif_lit_8366e3dbc5() -> (r: &'static [u8]) ensures r@ =~= seq![115u8, 115u8, 45u8, 115u8, 117u8, 98u8, 107u8, 101u8, 121u8] { b"ss-subkey" }
fn ssaead__hkdfsha1(ikm: &[u8], salt: &[u8]) -> (r: Result<Vec<u8>, InvalidLength>)
    ensures
        //#C03 C06
        // shadowsocks.org AEAD: session sub-key = HKDF-SHA1(key = pre-shared key, salt, info = "ss-subkey"), as long as the salt
        r matches Ok(v) ==> v@ == hkdf_sha1(salt@, ikm@, ss_subkey_label(), salt@.len()),
        // RFC 5869: expand fails only for more than 255 * HashLen output bytes
        salt@.len() <= 5100 ==> r is Ok,
{
    let hk = Hkdf::<Sha1>::new(Some(salt), ikm);
    let mut okm = vec![0; salt.len()];
    hk.expand(verif_lit_8366e3dbc5(), &mut okm)?;
    Ok(okm)
}

//@@ octo-squirrel/src/codec/shadowsocks/aead.rs:30-33  fn new_auth  sha=8e34244a55e2383f
fn ssaead__new_auth(kind: CipherKind, key: &[u8]) -> (r: Authenticator)
    requires !(kind is Unknown), key@.len() >= key_len_of(kind),
    ensures r.alg() == alg_of(kind), r.key() == key@.take(key_len_of(kind) as int), is_init(r.n()), r.n() == nonce_init(),
{
    let method = CipherMethod::new(kind, key);
    Authenticator::new(method)
}

//@@ octo-squirrel/src/codec/shadowsocks/aead_2022.rs:18-18  const SERVER_STREAM_TIMESTAMP_MAX_DIFF  sha=7d2f18feb030e438
const a22__SERVER_STREAM_TIMESTAMP_MAX_DIFF: u64 = 30;

//@@ octo-squirrel/src/codec/shadowsocks/aead_2022.rs:19-19  const MIN_PADDING_LENGTH  sha=8368a47f3c652dc6
const a22__MIN_PADDING_LENGTH: u16 = 0;

//@@ octo-squirrel/src/codec/shadowsocks/aead_2022.rs:20-20  const MAX_PADDING_LENGTH  sha=0b7274712965a8d4
const a22__MAX_PADDING_LENGTH: u16 = 900;

//@@ octo-squirrel/src/codec/shadowsocks/aead_2022.rs:22-25  fn session_sub_key  sha=a547121b41890e9d
fn a22__session_sub_key(key: &[u8], salt: &[u8]) -> (r: [u8; blake3::OUT_LEN])
    ensures
        //#C03 C06
        r@ == blake3_kdf("shadowsocks 2022 session subkey"@, key@ + salt@),
{
    let key_material = verif_concat2(key, salt);
    blake3::derive_key("shadowsocks 2022 session subkey", &key_material)
}

//@@ octo-squirrel/src/codec/shadowsocks/aead_2022.rs:31-35  fn validate_timestamp  sha=786f62d2f7986d44
spec fn ts_fresh(ts: u64) -> bool { (if wall_clock() >= ts { wall_clock() - ts } else { ts - wall_clock() }) <= 30 }
fn a22__validate_timestamp(timestamp: u64) -> (r: Result<(), String>)
    ensures
        //#C10
        r is Ok ==> ts_fresh(timestamp),
        //#C10
        (clock_ok() && ts_fresh(timestamp)) ==> r is Ok,
        r is Ok ==> clock_ok(),
{
    let now = a22__now().map_err(|e| verif_string())?;
    let diff = now.abs_diff(timestamp);
    if diff > a22__SERVER_STREAM_TIMESTAMP_MAX_DIFF { Err(verif_string()) } else { Ok(()) }
}

//@@ octo-squirrel/src/codec/shadowsocks/aead_2022.rs:41-45  fn new_encoder  sha=5d72a3f8c44bde35
fn a22__new_encoder(kind: CipherKind, key: &[u8], salt: &[u8]) -> (r: ChunkEncoder)
    requires !(kind is Unknown),
    ensures r.wf(), r.auth.alg() == alg_of(kind), is_init(r.auth.n()),
        //#C03 C06
        r.auth.key() == s2022_subkey(kind, key@, salt@),
        //#C03
        r.cap() <= 0xFFFF,
{
    let key = a22__session_sub_key(key, salt);
    let auth = Authenticator::new(CipherMethod::new(kind, &key));
    ChunkEncoder::new(0xffff, auth)
}

//@@ octo-squirrel/src/codec/shadowsocks/aead_2022.rs:47-51  fn new_decoder  sha=ef455ce7fbaf1d29
fn a22__new_decoder(kind: CipherKind, key: &[u8], salt: &[u8]) -> (r: ChunkDecoder)
    requires !(kind is Unknown),
    ensures r.wf(), r.abs() == St::Length, r.alg() == alg_of(kind), is_init(r.n()),
        //#C03 C06
        r.key() == s2022_subkey(kind, key@, salt@),
{
    let key = a22__session_sub_key(key, salt);
    let auth = Authenticator::new(CipherMethod::new(kind, &key));
    ChunkDecoder::new(auth)
}

//@@ octo-squirrel/src/codec/shadowsocks/aead_2022/tcp.rs:20-37  fn new_header  sha=ae92849cbb23ba31
/// SIP022 3.1.2/3.1.3: fixed-length header = type, timestamp, [request salt], length of the first (variable-length header) chunk
spec fn fixed_header(t: Mode, now: u64, request_salt: Option<Seq<u8>>, len: nat) -> Seq<u8> {
    seq![mode_code(t)] + be_bytes(now as nat, 8) + (match request_salt { Some(s) => s, None => Seq::empty() }) + be_bytes(len, 2)
}
fn a22tcp__new_header(auth: &mut Authenticator, msg: &mut BytesMut, stream_type: &Mode, request_salt: Option<&[u8]>) -> (r: anyhow::Result<(Bytes, Bytes)>)
    requires old(auth).wf(), request_salt matches Some(s) ==> s@.len() <= 64,
    ensures final(auth).same_key(old(auth)),
        //#C12 C03
        r is Ok ==> final(auth).n() == inc2(old(auth).n()),
        r is Ok ==> final(msg)@ == old(msg)@.skip(min_nat(old(msg)@.len(), 0xffff) as int),
        //#C03 C12 C10
        r matches Ok((fix, via)) ==> {
            let len = min_nat(old(msg)@.len(), 0xffff);
            &&& fix@ == aead_seal(old(auth).alg(), old(auth).key(), inc_seq(old(auth).n()), Seq::empty(),
                    fixed_header(*stream_type, wall_clock(), (match request_salt { Some(s) => Some(s@), None => None }), len))
            &&& via@ == aead_seal(old(auth).alg(), old(auth).key(), inc2(old(auth).n()), Seq::empty(), old(msg)@.take(len as int))
        },
{
    let mut salt_len = 0;
    if let Some(request_salt) = request_salt {
        salt_len = request_salt.len();
    }
    let mut fixed = BytesMut::with_capacity(1 + 8 + salt_len + 2);
    fixed.put_u8(stream_type.to_u8());
    fixed.put_u64(a22__now()?);
    if let Some(request_salt) = request_salt {
        fixed.extend_from_slice(request_salt);
    }
    let len = msg.remaining().min(0xffff);
    let mut via = msg.split_to(len);
    fixed.put_u16(len as u16);
    proof {
        let rs = match request_salt { Some(s) => Some(s@), None => None::<Seq<u8>> };
        assert(fixed@ =~= fixed_header(*stream_type, wall_clock(), rs, len as nat));
    }
    auth.seal(&mut fixed).map_err(|e| verif_err())?;
    auth.seal(&mut via).map_err(|e| verif_err())?;
    Ok((fixed.freeze(), via.freeze()))
}

//@@ octo-squirrel/src/codec/shadowsocks/aead_2022/tcp.rs:39-63  fn new_decoder_with_eih  sha=58579b873adcd714
fn a22tcp__new_decoder_with_eih<const N: usize>(
    kind: CipherKind,
    key: &[u8],
    salt: &[u8],
    eih: &[u8],
    identity: &mut Identity<N>,
    user_manager: &ServerUserManager<N>,
) -> (r: Result<ChunkDecoder, anyhow::Error>)
    requires eih@.len() >= 16, N == key_len_of(kind),
    ensures
        //#C06 C03
        r matches Ok(d) ==> {
            &&& (kind is Aead2022Blake3Aes128Gcm || kind is Aead2022Blake3Aes256Gcm)
            &&& final(identity).user matches Some(u) && user_manager.registered(u)
                && u.identity_hash@ == eih_plain(kind, key@, salt@, eih@.take(16))
                && d.key() == s2022_subkey(kind, u.key@, salt@)
            &&& d.wf() && d.abs() == St::Length && d.alg() == alg_of(kind) && is_init(d.n())
        },
        final(identity).salt == old(identity).salt, final(identity).request_salt == old(identity).request_salt,
        //#C06 C03
        // functional: the decoder exists iff the cipher has identity headers and the table holds a user for the decrypted hash
        match (kind.has_eih(), user_manager.lookup(eih_plain(kind, key@, salt@, eih@.take(16)))) {
            (true, Some(u)) => r is Ok && final(identity).user == Some(u),
            _ => r is Err,
        },
{
    let identity_sub_key = blake3::derive_key("shadowsocks 2022 identity subkey", &verif_concat2(key, salt));
    let user_hash = &mut [0; 16];
    user_hash.copy_from_slice(&eih[..16]);
    match kind {
        CipherKind::Aead2022Blake3Aes128Gcm => Aes128EcbNoPadding::decrypt(&identity_sub_key, user_hash),
        CipherKind::Aead2022Blake3Aes256Gcm => Aes256EcbNoPadding::decrypt(&identity_sub_key, user_hash),
        _ => return Err(verif_err()),
    }
    /*R2*/
    if let Some(user) = user_manager.get_user_by_hash(user_hash) {
        /*R2*/
        identity.user = Some(user.clone());
        Ok(a22__new_decoder(kind, &user.key, salt))
    } else {
        return Err(verif_err())
    }
}

//@@ octo-squirrel/src/codec/shadowsocks/aead_2022/tcp.rs:65-77  fn with_eih  sha=46b0d27b4b9dc461
fn a22tcp__with_eih<const N: usize>(kind: &CipherKind, key: &[u8], identity_keys: &[[u8; N]], salt: &[u8], dst: &mut BytesMut)
    requires kind.has_eih(),
    ensures
        //#C03 C06
        final(dst)@ == old(dst)@ + eih_bytes(*kind, key@, identity_keys@.map_values(|k: [u8; N]| k@), salt@),
        eih_bytes(*kind, key@, identity_keys@.map_values(|k: [u8; N]| k@), salt@).len() == 16 * identity_keys@.len(),
{
    let ghost iks = identity_keys@.map_values(|k: [u8; N]| k@);
    let mut sub_key: Option<[u8; blake3::OUT_LEN]> = None;
    for ipsk in it: identity_keys.iter()
        invariant
            kind.has_eih(), iks == identity_keys@.map_values(|k: [u8; N]| k@), it.index@ <= identity_keys@.len(),
            it.index@ == 0 ==> sub_key is None && dst@ == old(dst)@,
            it.index@ > 0 ==> (sub_key matches Some(sk) && sk@ == eih_sub(iks[it.index@ - 1], salt@)) && dst@ == old(dst)@ + eih_prefix(*kind, iks, salt@, it.index@ - 1),
    {
        let ghost idx = it.index@;
        proof { assert(ipsk@ == iks[idx]); }
        if let Some(sub_key) = sub_key {
            a22tcp__make_eih(kind, &sub_key, ipsk, dst)
        }
        proof { if idx > 0 { assert(dst@ =~= old(dst)@ + eih_prefix(*kind, iks, salt@, idx)); } }
        let key_material = verif_concat2(ipsk, salt);
        sub_key = Some(blake3::derive_key("shadowsocks 2022 identity subkey", &key_material))
    }
    proof { let n = identity_keys@.len() as int; if n > 0 { lemma_eih_prefix_len(*kind, iks, salt@, n - 1); axiom_ecb_inverse(128, eih_sub(iks.last(), salt@).take(16), blake3_hash(key@).take(16)); axiom_ecb_inverse(256, eih_sub(iks.last(), salt@).take(32), blake3_hash(key@).take(16)); } }
    if let Some(sub_key) = sub_key {
        a22tcp__make_eih(kind, &sub_key, key, dst)
    }
    proof { assert(dst@ =~= old(dst)@ + eih_bytes(*kind, key@, iks, salt@)); }
}

//@@ octo-squirrel/src/codec/shadowsocks/aead_2022/tcp.rs:79-91  fn make_eih  sha=ecd643937aab1dec
fn a22tcp__make_eih(kind: &CipherKind, sub_key: &[u8], ipsk: &[u8], out: &mut BytesMut)
    requires kind.has_eih(), sub_key@.len() >= 32,
    ensures
        //#C03 C06 C16
        final(out)@ == old(out)@ + eih_one(*kind, sub_key@, ipsk@),
{
    let ipsk_hash = blake3::hash(ipsk);
    let ipsk_plain_text = &ipsk_hash.as_bytes()[..16];
    let mut ipsk_encrypt_text = [0; 16];
    ipsk_encrypt_text.copy_from_slice(ipsk_plain_text);
    let ghost pt = ipsk_encrypt_text@;
    proof { assert(pt =~= blake3_hash(ipsk@).take(16)); assert(pt.take(16) =~= pt); assert(pt.skip(16) =~= Seq::<u8>::empty()); }
    match kind {
        CipherKind::Aead2022Blake3Aes128Gcm => Aes128EcbNoPadding::encrypt(sub_key, &mut ipsk_encrypt_text, 16),
        CipherKind::Aead2022Blake3Aes256Gcm => Aes256EcbNoPadding::encrypt(sub_key, &mut ipsk_encrypt_text, 16),
        _ => verif_panic(),
    }
    /*R2*/
    proof { assert(ipsk_encrypt_text@ =~= eih_one(*kind, sub_key@, ipsk@)); }
    out.extend_from_slice(&ipsk_encrypt_text);
}

//@@ octo-squirrel/src/codec/shadowsocks/tcp.rs:29-35  struct Context  sha=f38c8bead60f1e38
pub struct Context<const N: usize> {
    key: [u8; N],
    identity_keys: Vec<[u8; N]>,
    kind: CipherKind,
    user_manager: Option<Arc<ServerUserManager<N>>>,
    nonce_cache: Mutex<LruCache<[u8; N], ()>>,
}

//@@ octo-squirrel/src/codec/shadowsocks/tcp.rs:37-58  impl Context {fn new}  sha=331b487b9d6ed6e7
impl<const N: usize> Context<N> {
    spec fn wf(&self) -> bool { !(self.kind is Unknown) && N == key_len_of(self.kind) }
    fn new(key: [u8; N], identity_keys: Vec<[u8; N]>, kind: CipherKind, user_manager: Option<Arc<ServerUserManager<N>>>) -> (r: Self)
        ensures r.key == key, r.identity_keys == identity_keys, r.kind == kind, r.user_manager == user_manager,
            //#C10
            // a salt must be remembered for as long as its timestamp can still be accepted: 2 x 30 s, plus the second being truncated
            r.nonce_cache.inner().ttl() >= 61,
    {
        // a salt has to be remembered for as long as its timestamp can still be accepted (2 x 30s window, rounded up)
        let nonce_cache = Mutex::new(LruCache::with_expiry_duration_and_capacity(Duration::from_secs(61), 102400));
        Self { key, identity_keys, kind, user_manager, nonce_cache }
    }
}

//@@ octo-squirrel/src/codec/shadowsocks/tcp.rs:60-64  struct AEADCipherCodec  sha=b91e742ceaa32d23
/// R6: the derived Default of AEADCipherCodec is replaced by its specification: no encoder, no decoder yet
impl<const N: usize> AEADCipherCodec<N> {
    #[verifier::external_body]
    fn default() -> (r: Self) ensures r.encoder is None, r.decoder is None { unimplemented!() }
}
pub struct AEADCipherCodec<const N: usize> {
    encoder: Option<ChunkEncoder>,
    decoder: Option<ChunkDecoder>,
}

//@@ octo-squirrel/src/codec/shadowsocks/tcp.rs:66-234  impl AEADCipherCodec  sha=6372e03ad2777fea
spec fn hs_eih_len<const N: usize>(mode: Mode, context: Context<N>) -> int { if mode is Server && context.kind.has_eih() && context.has_users() { 16 } else { 0 } }
spec fn hs_fixed_len(mode: Mode, n: int) -> int { 1 + 8 + (if mode is Server { 0int } else { n }) + 2 + 16 }
/// SIP022 3.1: outcome of the first decode of a 2022 stream as a function of the buffered bytes `s` (|s| >= N), the replay cache and the clock:
///   [salt N][identity header 16, multi-user AES servers only][fixed header: type 1, timestamp 8, (request salt N, responses only), length 2; sealed, nonce 0]
///   [first chunk of `length` bytes; sealed, nonce 1]   -- for a request: address, padding length 2, padding, initial payload
enum Hs22 { Bad, Wait, Accept(Seq<u8>, Option<AddrV>, Seq<u8>, nat) }
spec fn zero12() -> Seq<u8> { Seq::new(12, |i: int| 0u8) }
spec fn hs22_tail(server_first: bool, sk: Seq<u8>, pt: Seq<u8>, consumed: nat) -> Hs22 {
    if !server_first { Hs22::Accept(sk, None, pt, consumed) } else {
        match parse5(pt) {
            None => Hs22::Bad,
            Some((a, n)) => if pt.len() - n < 2 { Hs22::Bad } else {
                let pl = be_val(pt.subrange(n as int, (n + 2) as int));
                if pt.len() - n - 2 < pl { Hs22::Bad } else { Hs22::Accept(sk, Some(a), pt.skip((n + 2 + pl) as int), consumed) }
            },
        }
    }
}
/// stage 3: the fixed header `h` is open; `off` = offset of the first chunk, `n` = salt length
spec fn hs22_h(alg: int, mode: Mode, own_salt: Seq<u8>, addr_none: bool, s: Seq<u8>, off: int, n: int, sk: Seq<u8>, h: Seq<u8>) -> Hs22 {
    if h[0] != mode_code(other_mode(mode)) { Hs22::Bad }
    else if !(clock_ok() && ts_fresh(be_val(h.subrange(1, 9)) as u64)) { Hs22::Bad }
    else if mode is Client && h.subrange(9, 9 + n) != own_salt { Hs22::Bad }
    else {
        let len = be_val(h.subrange(h.len() - 2, h.len() as int));
        if s.len() - off < len + 16 { Hs22::Wait } else {
            match aead_open(alg, sk, inc_seq(zero12()), Seq::empty(), s.subrange(off, (off + len + 16) as int)) {
                None => Hs22::Bad,
                Some(pt) => hs22_tail(mode is Server && addr_none, sk, pt, (off + len + 16) as nat),
            }
        }
    }
}
/// stage 2: the session sub-key `sk` is known
spec fn hs22_k(alg: int, mode: Mode, own_salt: Seq<u8>, addr_none: bool, s: Seq<u8>, hoff: int, off: int, n: int, sk: Seq<u8>) -> Hs22 {
    match aead_open(alg, sk, zero12(), Seq::empty(), s.subrange(hoff, off)) {
        None => Hs22::Bad,
        Some(h) => hs22_h(alg, mode, own_salt, addr_none, s, off, n, sk, h),
    }
}
spec fn hs22<const N: usize>(ctx: Context<N>, mode: Mode, own_salt: Seq<u8>, addr_none: bool, seen: Set<Seq<u8>>, s: Seq<u8>) -> Hs22 {
    let e = hs_eih_len(mode, ctx);
    let f = hs_fixed_len(mode, N as int);
    let salt = s.take(N as int);
    if s.len() < N + e + f { Hs22::Bad }
    else if seen.contains(salt) { Hs22::Bad }
    else {
        let ukey: Option<Seq<u8>> = if e == 16 {
            match ctx.user_manager.unwrap().lookup(eih_plain(ctx.kind, ctx.key@, salt, s.subrange(N as int, N + 16))) { Some(u) => Some(u.key@), None => None }
        } else { Some(ctx.key@) };
        match ukey {
            None => Hs22::Bad,
            Some(k) => hs22_k(alg_of(ctx.kind), mode, own_salt, addr_none, s, N + e, N + e + f, N as int, s2022_subkey(ctx.kind, k, salt)),
        }
    }
}
/// legacy AEAD stream, first decode (shadowsocks.org AEAD spec): [salt][chunks..]; the sub-key is HKDF-SHA1(key, salt, "ss-subkey");
/// whatever complete chunks follow the salt are delivered by the same call (no stall), an incomplete salt is left untouched
/// what a keyed stream delivers from the plaintext `out` of the complete chunks at hand: those bytes -- except that a server which has not learnt the
/// target yet (original AEAD ciphers; the 2022 header path has set it before) takes the target address from their start: exactly the address, exactly its bytes
pub enum Dl { Nothing, Bytes(Seq<u8>), Error }
spec fn dl_of(r: anyhow::Result<Option<BytesMut>>) -> Dl { match r { Ok(None) => Dl::Nothing, Ok(Some(b)) => Dl::Bytes(b@), Err(_) => Dl::Error } }
spec fn deliver_ok(strip: bool, out: Seq<u8>, r: Dl, faddr: Option<Address>, oaddr: Option<Address>) -> bool {
    if out.len() == 0 { r is Nothing && faddr == oaddr }
    else if !strip { r == Dl::Bytes(out) && faddr == oaddr }
    else { match parse5(out) {
        Some((v, n)) => r == Dl::Bytes(out.skip(n as int)) && (faddr matches Some(a) && absaddr(a) == v && canonical(a)),
        None => r is Error,
    } }
}
spec fn wants_addr<const N: usize>(s: Session<N>) -> bool { s.mode is Server && s.address is None }
spec fn legacy_first<const N: usize>(o: AEADCipherCodec<N>, c: Context<N>, s: Seq<u8>, f: AEADCipherCodec<N>, rest: Seq<u8>, r: Dl, strip: bool, faddr: Option<Address>, oaddr: Option<Address>) -> bool {
    if s.len() < N { r is Nothing && rest == s && f.decoder is None && faddr == oaddr } else {
        let k = legacy_subkey(c.kind, c.key@, s.take(N as int));
        match parse(alg_of(c.kind), k, St::Length, nonce_init(), s.skip(N as int)) {
            None => r is Error,
            Some(q) => f.decoder matches Some(d2) && d2.key() == k && d2.alg() == alg_of(c.kind) && d2.abs() == q.st && d2.n() == q.n && rest == q.rest
                && deliver_ok(strip, q.out, r, faddr, oaddr),
        }
    }
}
impl<const N: usize> AEADCipherCodec<N> {
    spec fn wf(&self) -> bool {
        &&& self.encoder matches Some(e) ==> e.wf()
        &&& self.decoder matches Some(d) ==> d.wf()
    }
    fn encode(&mut self, context: &Context<N>, session: &Session<N>, mut item: BytesMut, dst: &mut BytesMut) -> (r: anyhow::Result<()>)
        requires old(self).wf(), context.wf(), session.can_encode(),
        ensures final(self).wf(),
            final(self).decoder == old(self).decoder,
            //#C03 C01 C12
            (old(self).encoder is Some && r is Ok) ==> ({
                let e = old(self).encoder.unwrap();
                final(self).encoder matches Some(e2) && e2.auth.same_key(&e.auth)
                && final(dst)@ == old(dst)@ + wire_chunks(e.auth.alg(), e.auth.key(), e.auth.n(), e.cap(), item@)
                && e2.auth.n() == nonce_after_chunks(e.auth.n(), e.cap(), item@) && e2.payload_limit == e.payload_limit }),
        decreases (if old(self).encoder is None { 1int } else { 0int }),
    {
        match self.encoder {
            Some(ref mut encoder) => encoder.encode_payload(item, dst).map_err(|e| verif_err()),
            None => {
                let mut encoder = Self::init_payload_encoder(context, session, dst)?;
                Self::handle_payload_header(&mut encoder, context, session, &mut item, dst)?;
                self.encoder = Some(encoder);
                self.encode(context, session, item, dst)
            }
        }
    }

    fn init_payload_encoder(context: &Context<N>, session: &Session<N>, dst: &mut BytesMut) -> (r: anyhow::Result<ChunkEncoder>)
        requires context.wf(),
        ensures
            r matches Ok(e) ==> {
                &&& e.wf() && is_init(e.auth.n()) && e.auth.alg() == alg_of(context.kind)
                //#C03 C06 C12
                &&& e.auth.key() == (if context.kind.is_2022() { s2022_subkey(context.kind, (match session.identity.user { Some(u) => u.key@, None => context.key@ }), session.identity.salt@) }
                        else { legacy_subkey(context.kind, context.key@, session.identity.salt@) })
                //#C03
                &&& final(dst)@.len() >= old(dst)@.len() + N && final(dst)@.take(old(dst)@.len() + N) == old(dst)@ + session.identity.salt@
                //#C03
                &&& e.cap() <= (if context.kind.is_2022() { 0xFFFFnat } else { 0x3FFFnat })
            },
    {
        Self::with_identity(context, session, &context.key, &context.identity_keys, dst);
        let salt = session.identity.salt;
        /*R2*/
        Ok(match (context.kind.is_aead_2022(), session.identity.user.as_ref()) {
            (true, Some(user)) => a22__new_encoder(context.kind, &user.key, &salt),
            (true, None) => a22__new_encoder(context.kind, &context.key, &salt),
            (false, _) => ssaead__new_encoder(context.kind, &context.key, &salt).map_err(verif_err_from)?,
        })
    }

    fn handle_payload_header(
        encoder: &mut ChunkEncoder,
        context: &Context<N>,
        session: &Session<N>,
        msg: &mut BytesMut,
        dst: &mut BytesMut,
    ) -> (r: anyhow::Result<()>)
        requires old(encoder).wf(), context.wf(), session.can_encode(),
        ensures final(encoder).wf(), final(encoder).auth.same_key(&old(encoder).auth), final(encoder).payload_limit == old(encoder).payload_limit,
            //#C03 C14
            (!context.kind.is_2022() && r is Ok) ==> (final(dst)@ == old(dst)@ && final(encoder).auth.n() == old(encoder).auth.n()
                && final(msg)@ == (if session.mode is Client { enc5(absaddr(session.address->0)) + old(msg)@ } else { old(msg)@ })),
    {
        match session.mode {
            Mode::Client => {
                let temp = msg.split_to(msg.len());
                address__encode(session.address.as_ref().unwrap(), msg);
                let is_aead_2022 = context.kind.is_aead_2022();
                if is_aead_2022 {
                    let padding = a22__next_padding_length(&temp);
                    msg.put_u16(padding);
                    msg.extend_from_slice(&dice::roll_bytes(padding as usize))
                }
                msg.extend_from_slice(&temp);
                if is_aead_2022 {
                    let (fix, via) =
                        a22tcp__new_header(&mut encoder.auth, msg, &session.mode, session.identity.request_salt.as_ref().map(|arr| -> (r: &[u8]) ensures r@ == arr@ { proof { assert(arr@.subrange(0, arr@.len() as int) =~= arr@); } &arr[..] }))
                            .map_err(|e| verif_err())?;
                    dst.extend_from_slice(&fix);
                    dst.extend_from_slice(&via);
                }
                Ok(())
            }
            Mode::Server => {
                if context.kind.is_aead_2022() {
                    let (fix, via) =
                        a22tcp__new_header(&mut encoder.auth, msg, &session.mode, session.identity.request_salt.as_ref().map(|arr| -> (r: &[u8]) ensures r@ == arr@ { proof { assert(arr@.subrange(0, arr@.len() as int) =~= arr@); } &arr[..] }))
                            .map_err(|e| verif_err())?;
                    dst.extend_from_slice(&fix);
                    dst.extend_from_slice(&via);
                }
                Ok(())
            }
        }
    }

    fn decode(&mut self, context: &Context<N>, session: &mut Session<N>, src: &mut BytesMut, Tracked(vcache): Tracked<&mut SaltCache>) -> (r: anyhow::Result<Option<BytesMut>>)
        requires old(self).wf(), context.wf(),
        ensures final(self).wf(), final(self).encoder == old(self).encoder,
            final(session).mode == old(session).mode, final(session).identity.salt == old(session).identity.salt,
            //#C04 C05 C01 C03
            // established stream: exactly the maximal-munch parse of the buffered bytes
            old(self).decoder is Some ==> ({ let d = old(self).decoder.unwrap(); match parse(d.alg(), d.key(), d.abs(), d.n(), old(src)@) {
                None => r is Err || old(src)@.len() == 0,
                Some(q) => old(src)@.len() > 0 ==> (final(self).decoder matches Some(d2) && d2.auth.same_key(&d.auth) && d2.abs() == q.st && d2.n() == q.n && final(src)@ == q.rest
                    && deliver_ok(wants_addr(*old(session)), q.out, dl_of(r), final(session).address, old(session).address)),
            }}),
            //#C01 C14 C04
            // whatever a server delivers, it has the target address by then (the relay dials it with the first item)
            (r matches Ok(Some(_)) && old(session).mode is Server) ==> final(session).address is Some,
            //#C04
            old(src)@.len() == 0 ==> (r matches Ok(None) && final(src)@ == old(src)@ && final(self).decoder == old(self).decoder && final(session).address == old(session).address),
            //#C04 C01 C10
            // the replay cache is touched only by an accepted 2022 request: never while waiting, never by an established or legacy stream
            (r matches Ok(None) || old(self).decoder is Some || !context.kind.is_2022()) ==> final(vcache).salts == old(vcache).salts,
            //#C04 C03 C06 C01
            (old(self).decoder is None && !context.kind.is_2022() && old(src)@.len() > 0) ==> legacy_first(*old(self), *context, old(src)@, *final(self), final(src)@, dl_of(r), wants_addr(*old(session)), final(session).address, old(session).address),
        decreases (if old(self).decoder is None { 2int } else { 0int }),
    {
        if src.is_empty() {
            return Ok(None);
        }
        match self.decoder {
            Some(ref mut decoder) => {
                let mut dst = BytesMut::new();
                decoder.decode_payload(src, &mut dst).map_err(|e| verif_err())?;
                if dst.is_empty() {
                    return Ok(None);
                }
                if matches!(session.mode, Mode::Server) && session.address.is_none() {
                    // a request sealed with one of the original AEAD ciphers starts with the target address
                    session.address = Some(address__decode(&mut dst)?);
                }
                Ok(Some(dst))
            }
            None => self.init_payload_decoder(context, session, src, Tracked(vcache)),
        }
    }

    fn init_payload_decoder(&mut self, context: &Context<N>, session: &mut Session<N>, src: &mut BytesMut, Tracked(vcache): Tracked<&mut SaltCache>) -> (r: anyhow::Result<Option<BytesMut>>)
        requires old(self).wf(), context.wf(), old(self).decoder is None,
        ensures final(self).wf(), final(self).encoder == old(self).encoder,
            final(session).mode == old(session).mode, final(session).identity.salt == old(session).identity.salt,
            //#C04 C07
            old(src)@.len() < N ==> (r matches Ok(None) && final(src)@ == old(src)@ && final(self).decoder is None),
            //#C04 C01 C10
            (r matches Ok(None) || !context.kind.is_2022()) ==> final(vcache).salts == old(vcache).salts,
            //#C04 C03 C06 C01
            !context.kind.is_2022() ==> legacy_first(*old(self), *context, old(src)@, *final(self), final(src)@, dl_of(r), wants_addr(*old(session)), final(session).address, old(session).address),
            (r matches Ok(Some(_)) && old(session).mode is Server) ==> final(session).address is Some,
        decreases 1int,
    {
        if src.remaining() < session.identity.salt.len() {
            return Ok(None);
        }
        if context.kind.is_aead_2022() {
            self.init_aead_2022_payload_decoder(context, session, src, Tracked(vcache))
        } else {
            let salt = src.split_to(session.identity.salt.len());
            /*R2*/
            self.decoder = Some(ssaead__new_decoder(context.kind, &context.key, &salt).map_err(verif_err_from)?);
            proof { assert(salt@ =~= old(src)@.take(N as int)); assert(context.key@.len() == N); }
            self.decode(context, session, src, Tracked(vcache))
        }
    }

    fn init_aead_2022_payload_decoder(
        &mut self,
        context: &Context<N>,
        session: &mut Session<N>,
        src: &mut BytesMut, Tracked(vcache): Tracked<&mut SaltCache>
    ) -> (r: anyhow::Result<Option<BytesMut>>)
        requires old(self).wf(), context.wf(), old(self).decoder is None, context.kind.is_2022(), old(src)@.len() >= N,
        ensures final(self).wf(), final(self).encoder == old(self).encoder,
            final(session).mode == old(session).mode, final(session).identity.salt == old(session).identity.salt,
            //#C04
            r matches Ok(None) ==> (final(src)@ == old(src)@ && final(self).decoder is None),
            //#C04 C01
            // waiting for the rest of the first chunk records nothing: the retry must not meet its own salt in the replay cache
            r matches Ok(None) ==> final(vcache).salts == old(vcache).salts,
            //#C01 C14
            (r matches Ok(Some(_)) && old(session).mode is Server) ==> final(session).address is Some,
            //#C10
            // an accepted request's salt was not in the cache, and is in it afterwards
            r matches Ok(Some(b)) ==> final(vcache).salts == old(vcache).salts.insert(old(src)@.take(N as int)),
            //#C10 C05 C06
            // accepted: the decoder is installed and the salt was not in the replay cache
            r matches Ok(Some(b)) ==> (final(self).decoder is Some && final(self).decoder.unwrap().alg() == alg_of(context.kind) && !old(vcache).salts.contains(old(src)@.take(N as int))),
            //#C06 C05 C03
            // key: the server key, or -- with identity headers -- the key of the registered user the header names
            r matches Ok(Some(b)) ==> (hs_eih_len(old(session).mode, *context) == 0 ==> final(self).decoder.unwrap().key() == s2022_subkey(context.kind, context.key@, old(src)@.take(N as int))),
            //#C06
            r matches Ok(Some(b)) ==> (hs_eih_len(old(session).mode, *context) == 16 ==> (final(session).identity.user matches Some(u) && context.user_manager.unwrap().registered(u)
                        && u.identity_hash@ == eih_plain(context.kind, context.key@, old(src)@.take(N as int), old(src)@.subrange(N as int, N + 16))
                        && final(self).decoder.unwrap().key() == s2022_subkey(context.kind, u.key@, old(src)@.take(N as int)))),
            //#C10 C05
            // the fixed header opened under that key with the first nonce, carries the expected type and a fresh timestamp
            r matches Ok(Some(b)) ==> ({
                let d = final(self).decoder.unwrap();
                let e = hs_eih_len(old(session).mode, *context);
                aead_open(d.alg(), d.key(), Seq::new(12, |i: int| 0u8), Seq::empty(), old(src)@.subrange(N + e, N + e + hs_fixed_len(old(session).mode, N as int))) matches Some(h)
                        && h.len() >= 11 && h[0] == mode_code(other_mode(old(session).mode)) && ts_fresh(be_val(h.subrange(1, 9)) as u64) }),
            /*H<*/
            //#C03 C04 C05 C06 C10 C01 C14
            // refinement: accepted, refused or waiting exactly as SIP022 says, delivering exactly the initial payload and the target address
            match hs22(*context, old(session).mode, old(session).identity.salt@, old(session).address is None, old(vcache).salts, old(src)@) {
                Hs22::Bad => r is Err,
                Hs22::Wait => r matches Ok(None),
                Hs22::Accept(sk, a, pay, n) => r matches Ok(Some(b)) && b@ == pay && final(src)@ == old(src)@.skip(n as int)
                    && final(self).decoder.unwrap().key() == sk
                    && (a matches Some(v) ==> (final(session).address matches Some(ad) && absaddr(ad) == v)),
            },
            /*>H*/
    {
        let ghost s00 = src@;
        let ghost fl = hs_fixed_len(old(session).mode, N as int);
        let tag_size = context.kind.tag_size();
        let request_salt_len = if let Mode::Server = session.mode { 0 } else { N };
        let mut require_eih = false;
        if matches!(session.mode, Mode::Server) {
            require_eih = context.kind.support_eih() && context.user_manager.as_ref().is_some_and(|m| -> (r: bool) ensures r == (m.count() > 0) { m.user_count() > 0 });
        }
        let eih_len = if require_eih { 16 } else { 0 };
        let header_len = eih_len + 1 + 8 + request_salt_len + 2 + tag_size;
        if src.remaining() < header_len + N {
            return Err(verif_err());
        }
        let mut salt = [0; N];
        let mut _src = Cursor::new(src);
        _src.copy_to_slice(&mut salt);
        proof { assert(salt@ =~= old(src)@.take(N as int)); }
        if context.check_nonce(&salt, Tracked(vcache)) {
            return Err(verif_err());
        }
        /*R2*/
        session.identity.request_salt = Some(salt);
        let mut header = BytesMut::from(_src.copy_to_bytes(header_len));
        let ghost h0 = header@;
        proof { assert(h0 =~= old(src)@.subrange(N as int, N + header_len)); }
        let mut decoder = if require_eih {
            let eih = header.split_to(16);
            proof { assert(eih@ =~= old(src)@.subrange(N as int, N + 16)); assert(header@ =~= old(src)@.subrange(N + 16, N + header_len)); assert(eih@.take(16) =~= eih@); }
            a22tcp__new_decoder_with_eih(
                context.kind,
                &context.key,
                &salt,
                &eih,
                &mut session.identity,
                context.user_manager.as_ref().unwrap(),
            )?
        } else {
            a22__new_decoder(context.kind, &context.key, &salt)
        };
        let ghost hct = header@;
        let ghost dk = decoder.key();
        let ghost da = decoder.alg();
        proof { lemma_init_first(decoder.n()); assert(hct.len() == 1 + 8 + request_salt_len + 2 + 16);
            assert(require_eih == (hs_eih_len(old(session).mode, *context) == 16));
            if !require_eih { assert(dk == s2022_subkey(context.kind, context.key@, salt@)); }
            else { assert(session.identity.user is Some); }
            assert(hct =~= old(src)@.subrange(N + eih_len, N + eih_len + hs_fixed_len(old(session).mode, N as int)));
        }
        let ghost hsv = hs22(*context, old(session).mode, old(session).identity.salt@, old(session).address is None, old(vcache).salts, s00);
        /*H<*/ proof {
            assert(zero12() == Seq::new(12, |i: int| 0u8));
            assert(hsv == hs22_k(da, old(session).mode, old(session).identity.salt@, old(session).address is None, s00, N + eih_len, N + eih_len + fl, N as int, dk));
        } /*>H*/
        decoder.auth.open(&mut header).map_err(|e| verif_err())?;
        /*H<*/ proof { assert(hsv == hs22_h(da, old(session).mode, old(session).identity.salt@, old(session).address is None, s00, N + eih_len + fl, N as int, dk, header@)); } /*>H*/
        proof { assert(aead_open(da, dk, Seq::new(12, |i: int| 0u8), Seq::empty(), hct) == Some(header@)); assert(header@.len() == 1 + 8 + request_salt_len + 2); }
        let ghost hp = header@;
        let stream_type = header.get_u8();
        proof { assert(header@.take(8) =~= hp.subrange(1, 9)); lemma_be_val_bound(hp.subrange(1, 9)); lemma_pow256_vals(); }
        let expect_stream_type = session.mode.expect_u8();
        if stream_type != expect_stream_type {
            return Err(verif_err())
        }
        a22__validate_timestamp(header.get_u64()).map_err(verif_err_from)?;
        if matches!(session.mode, Mode::Client) {
            let mut request_salt = [0; N];
            let ghost hb = header@;
            header.copy_to_slice(&mut request_salt);
            proof { assert(hb =~= hp.skip(9)); assert(request_salt@ =~= hp.subrange(9, 9 + N)); }
            /*R2*/
            if request_salt != session.identity.salt {
                return Err(verif_err())
            }
            session.identity.request_salt = Some(request_salt);
        };
        let ghost hrem = header@;
        proof { assert(hrem =~= hp.subrange(hp.len() - 2, hp.len() as int)); lemma_be_val_bound(hrem); lemma_pow256_vals(); }
        let length = header.get_u16() as usize;
        proof { assert(hrem.take(2) =~= hrem); assert(length == be_val(hp.subrange(hp.len() - 2, hp.len() as int)));
            /*H<*/ let off = N + eih_len + fl;
            assert(hp[0] == mode_code(other_mode(old(session).mode)));
            assert(clock_ok() && ts_fresh(be_val(hp.subrange(1, 9)) as u64));
            assert(old(session).mode is Client ==> hp.subrange(9, 9 + N) == old(session).identity.salt@);
            assert(hsv == (if s00.len() - off < length + 16 { Hs22::Wait } else {
                match aead_open(da, dk, inc_seq(zero12()), Seq::empty(), s00.subrange(off, (off + length + 16) as int)) {
                    None => Hs22::Bad,
                    Some(pt) => hs22_tail(old(session).mode is Server && old(session).address is None, dk, pt, (off + length + 16) as nat),
                } })); /*>H*/
        }
        if _src.remaining() >= length + tag_size {
            if !context.set_nonce(salt, Tracked(vcache)) {
                return Err(verif_err());
            }
            let position = _src.position();
            let src = _src.into_inner();
            src.advance(position as usize);
            let mut via = src.split_to(length + tag_size);
            let ghost vct = via@;
            proof { assert(vct =~= s00.subrange(N + eih_len + fl, (N + eih_len + fl + length + 16) as int)); assert(decoder.n() == zero12()); assert(src@ =~= s00.skip((N + eih_len + fl + length + 16) as int)); }
            decoder.auth.open(&mut via).map_err(|e| verif_err())?;
            let ghost vpt = via@;
            /*H<*/ proof { assert(hsv == hs22_tail(old(session).mode is Server && old(session).address is None, dk, vpt, (N + eih_len + fl + length + 16) as nat)); } /*>H*/
            self.decoder = Some(decoder);
            if matches!(session.mode, Mode::Server) && session.address.is_none() {
                session.address = Some(address__decode(&mut via)?);
                let ghost pn = parse5(vpt).unwrap().1;
                proof { assert(via@ == vpt.skip(pn as int)); }
                if via.remaining() < 2 {
                    return Err(verif_err());
                }
                proof { assert(via@.take(2) =~= vpt.subrange(pn as int, (pn + 2) as int)); lemma_be_val_bound(via@.take(2)); lemma_pow256_vals(); }
                let padding_len = via.get_u16();
                proof { assert(via@ =~= vpt.skip((pn + 2) as int)); }
                if via.remaining() < padding_len as usize {
                    return Err(verif_err());
                }
                via.advance(padding_len as usize);
                proof { assert(via@ =~= vpt.skip((pn + 2 + padding_len) as int)); }
            }
            return Ok(Some(via));
        }
        proof { axiom_cursor_dropped(&_src); }
        Ok(None)
    }

    fn with_identity(context: &Context<N>, session: &Session<N>, key: &[u8], identity_keys: &[[u8; N]], dst: &mut BytesMut)
        ensures
            //#C03
            final(dst)@.len() >= old(dst)@.len() + N && final(dst)@.take(old(dst)@.len() + N) == old(dst)@ + session.identity.salt@,
    {
        let salt = &session.identity.salt;
        dst.extend_from_slice(salt);
        if matches!(session.mode, Mode::Client) && context.kind.support_eih() {
            a22tcp__with_eih(&context.kind, key, identity_keys, salt, dst);
        }
    }
}

//@@ octo-squirrel/src/codec/shadowsocks/tcp.rs:236-243  struct Session  sha=1392850d69a201bf
pub struct Session<const N: usize> {
    mode: Mode,
    identity: Identity<N>,
    pub address: Option<Address>,
    }

//@@ octo-squirrel/src/codec/shadowsocks/tcp.rs:245-249  impl Session  sha=21df35fa41e24243
impl<const N: usize> Session<N> {
    /// a client session knows its target and the target is representable (C14)
    spec fn can_encode(&self) -> bool { self.mode is Client ==> (self.address matches Some(a) && repr(a)) }
    fn new(mode: Mode, identity: Identity<N>, address: Option<Address>) -> (r: Self)
        ensures r.mode == mode, r.identity == identity, r.address == address,
    {
        Self { mode, identity, address }
    }
}

//@@ octo-squirrel/src/codec/shadowsocks/tcp.rs:251-255  struct Identity  sha=1d0a7a0e004ea6f4
pub struct Identity<const N: usize> {
    pub salt: [u8; N],
    pub request_salt: Option<[u8; N]>,
    pub user: Option<ServerUser<N>>,
}
