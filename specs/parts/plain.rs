// ---- part plain: codec.rs BytesCodec (the plain side of every TCP relay) and protocol/socks.rs SocksVersion (first-byte sniffing of the local inbound) ----
//@@ octo-squirrel/src/codec.rs:31-31  struct BytesCodec  sha=e370c0c9b665f23f
pub struct BytesCodec;

//@@ octo-squirrel/src/codec.rs:33-45  impl Decoder for BytesCodec  sha=36c4625538f0f0a6
impl BytesCodec {

    fn decode(&mut self, buf: &mut BytesMut) -> (r: Result<Option<BytesMut>>)
        ensures
            //#C01 C04
            // everything that has been read goes out, unchanged and at once; nothing is kept back
            old(buf)@.len() > 0 ==> (r matches Ok(Some(b)) && b@ == old(buf)@),
            old(buf)@.len() == 0 ==> r matches Ok(None),
            final(buf)@.len() == 0,
    {
        let ghost b0 = buf@;
        if !buf.is_empty() {
            let len = buf.len();
            proof { assert(b0.take(len as int) =~= b0); }
            Ok(Some(buf.split_to(len)))
        } else {
            Ok(None)
        }
    }
}

//@@ octo-squirrel/src/codec.rs:47-54  impl Encoder for BytesCodec#0  sha=1bf9008e5cc78f08
impl BytesCodec {

    fn encode_bytes(&mut self, data: Bytes, buf: &mut BytesMut) -> (r: Result<()>)
        ensures
            //#C01
            r is Ok, final(buf)@ == old(buf)@ + data@,
    {
        buf.extend_from_slice(&data);
        Ok(())
    }
}

//@@ octo-squirrel/src/codec.rs:56-63  impl Encoder for BytesCodec#1  sha=60cbf13fa2a0a293
impl BytesCodec {

    fn encode(&mut self, data: BytesMut, buf: &mut BytesMut) -> (r: Result<()>)
        ensures
            //#C01
            r is Ok, final(buf)@ == old(buf)@ + data@,
    {
        buf.extend_from_slice(&data);
        Ok(())
    }
}

//@@ octo-squirrel/src/protocol/socks.rs:1-5  enum SocksVersion  sha=a233577e63cf4e43
pub enum SocksVersion {
    Socks4a = 4,
    Socks5 = 5,
    Unknown = 0xff,
}

//@@ octo-squirrel/src/protocol/socks.rs:7-17  impl From for SocksVersion  sha=f19247d01cc8c311
impl vstd::std_specs::convert::FromSpecImpl<u8> for SocksVersion {
    open spec fn obeys_from_spec() -> bool { true }
    open spec fn from_spec(v: u8) -> Self { if v == 4 { SocksVersion::Socks4a } else if v == 5 { SocksVersion::Socks5 } else { SocksVersion::Unknown } }
}
impl From<u8> for SocksVersion {
    fn from(value: u8) -> (r: Self)
        ensures
            //#C13
            // RFC 1928: a SOCKS5 client's first byte is 5 (4: SOCKS4a); anything else is not SOCKS
            (value == 5) == (r is Socks5), (value == 4) == (r is Socks4a),
    {
        if value == Self::Socks4a as u8 {
            return Self::Socks4a;
        }
        if value == Self::Socks5 as u8 {
            return Self::Socks5;
        }
        Self::Unknown
    }
}
