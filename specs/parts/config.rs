// ---- part config: config.rs Mode, protocol.rs Protocol, codec/aead.rs CipherKind names ----


//@@ octo-squirrel/src/config.rs:18-30  enum Mode  sha=957f62c1c01193ba
#[derive(Clone, Copy, PartialEq)]
pub enum cfg__Mode {
    Tcp,
    Udp,
    TcpAndUdp,
    Quic,
    TcpAndQuic,
}
spec fn serde_names__Mode(v: cfg__Mode) -> Seq<Seq<char>> {
    match v {
        cfg__Mode::Tcp => seq!["tcp"@],
        cfg__Mode::Udp => seq!["udp"@],
        cfg__Mode::TcpAndUdp => seq!["tcp_and_udp"@],
        cfg__Mode::Quic => seq!["quic"@],
        cfg__Mode::TcpAndQuic => seq!["tcp_and_quic"@],
    }
}
spec fn serde_other__Mode(v: cfg__Mode) -> bool {
    match v {
        cfg__Mode::Tcp => false,
        cfg__Mode::Udp => false,
        cfg__Mode::TcpAndUdp => false,
        cfg__Mode::Quic => false,
        cfg__Mode::TcpAndQuic => false,
    }
}

//@@ octo-squirrel/src/config.rs:32-44  impl Mode  sha=211fcf0f0c602cbb
impl cfg__Mode {
    fn enable_tcp(&self) -> (r: bool)
        ensures
            //#C16
            // README: tcp -> {tcp}, tcp_and_udp -> {tcp, udp}, tcp_and_quic -> {tcp, quic}
            r == (self is Tcp || self is TcpAndUdp || self is TcpAndQuic),
    {
        matches!(self, Self::Tcp | Self::TcpAndUdp | Self::TcpAndQuic)
    }

    fn enable_udp(&self) -> (r: bool)
        ensures
            //#C16
            r == (self is Udp || self is TcpAndUdp),
    {
        matches!(self, Self::Udp | Self::TcpAndUdp)
    }

    fn enable_quic(&self) -> (r: bool)
        ensures
            //#C16
            r == (self is Quic || self is TcpAndQuic),
    {
        matches!(self, Self::Quic | Self::TcpAndQuic)
    }
}

//@@ octo-squirrel/src/protocol.rs:14-20  enum Protocol  sha=f4fd8332bf4085d1
#[derive(PartialEq, Clone, Copy)]
pub enum Protocol {
    Shadowsocks,
    VMess,
    Trojan,
}
spec fn serde_names__Protocol(v: Protocol) -> Seq<Seq<char>> {
    match v {
        Protocol::Shadowsocks => seq!["shadowsocks"@],
        Protocol::VMess => seq!["vmess"@],
        Protocol::Trojan => seq!["trojan"@],
    }
}
spec fn serde_other__Protocol(v: Protocol) -> bool {
    match v {
        Protocol::Shadowsocks => false,
        Protocol::VMess => false,
        Protocol::Trojan => false,
    }
}

//@@ octo-squirrel/src/codec/aead.rs:124-142  enum CipherKind  sha=0afd87d0c4335287
#[derive(Default, Clone, Copy, PartialEq, Eq)]
pub enum cfgk__CipherKind {
    Aes128Gcm,
    Aes256Gcm,
    ChaCha20Poly1305,
    Aead2022Blake3Aes128Gcm,
    Aead2022Blake3Aes256Gcm,
    Aead2022Blake3ChaCha8Poly1305,
    Aead2022Blake3ChaCha20Poly1305,
    #[default]
    Unknown,
}
spec fn serde_names__CipherKind(v: cfgk__CipherKind) -> Seq<Seq<char>> {
    match v {
        cfgk__CipherKind::Aes128Gcm => seq!["aes-128-gcm"@],
        cfgk__CipherKind::Aes256Gcm => seq!["aes-256-gcm"@],
        cfgk__CipherKind::ChaCha20Poly1305 => seq!["chacha20-poly1305"@, "chacha20-ietf-poly1305"@],
        cfgk__CipherKind::Aead2022Blake3Aes128Gcm => seq!["2022-blake3-aes-128-gcm"@],
        cfgk__CipherKind::Aead2022Blake3Aes256Gcm => seq!["2022-blake3-aes-256-gcm"@],
        cfgk__CipherKind::Aead2022Blake3ChaCha8Poly1305 => seq!["2022-blake3-chacha8-poly1305"@],
        cfgk__CipherKind::Aead2022Blake3ChaCha20Poly1305 => seq!["2022-blake3-chacha20-poly1305"@],
        cfgk__CipherKind::Unknown => seq!["Unknown"@],
    }
}
spec fn serde_other__CipherKind(v: cfgk__CipherKind) -> bool {
    match v {
        cfgk__CipherKind::Aes128Gcm => false,
        cfgk__CipherKind::Aes256Gcm => false,
        cfgk__CipherKind::ChaCha20Poly1305 => false,
        cfgk__CipherKind::Aead2022Blake3Aes128Gcm => false,
        cfgk__CipherKind::Aead2022Blake3Aes256Gcm => false,
        cfgk__CipherKind::Aead2022Blake3ChaCha8Poly1305 => false,
        cfgk__CipherKind::Aead2022Blake3ChaCha20Poly1305 => false,
        cfgk__CipherKind::Unknown => false,
    }
}

//#C16
/// C16: the configuration names are exactly the documented ones (README "Ciphers" table + alias, mode list, protocol list),
/// and no enum has a catch-all (`#[serde(other)]`) variant: undocumented strings are a deserialisation error
proof fn lemma_names_match_readme()
    ensures
        serde_names__CipherKind(cfgk__CipherKind::Aes128Gcm) == seq!["aes-128-gcm"@],
        serde_names__CipherKind(cfgk__CipherKind::Aes256Gcm) == seq!["aes-256-gcm"@],
        serde_names__CipherKind(cfgk__CipherKind::ChaCha20Poly1305) == seq!["chacha20-poly1305"@, "chacha20-ietf-poly1305"@],
        serde_names__CipherKind(cfgk__CipherKind::Aead2022Blake3Aes128Gcm) == seq!["2022-blake3-aes-128-gcm"@],
        serde_names__CipherKind(cfgk__CipherKind::Aead2022Blake3Aes256Gcm) == seq!["2022-blake3-aes-256-gcm"@],
        serde_names__CipherKind(cfgk__CipherKind::Aead2022Blake3ChaCha8Poly1305) == seq!["2022-blake3-chacha8-poly1305"@],
        serde_names__CipherKind(cfgk__CipherKind::Aead2022Blake3ChaCha20Poly1305) == seq!["2022-blake3-chacha20-poly1305"@],
        forall|v: cfgk__CipherKind| !serde_other__CipherKind(v),
        serde_names__Mode(cfg__Mode::Tcp) == seq!["tcp"@],
        serde_names__Mode(cfg__Mode::Udp) == seq!["udp"@],
        serde_names__Mode(cfg__Mode::TcpAndUdp) == seq!["tcp_and_udp"@],
        serde_names__Mode(cfg__Mode::Quic) == seq!["quic"@],
        serde_names__Mode(cfg__Mode::TcpAndQuic) == seq!["tcp_and_quic"@],
        forall|v: cfg__Mode| !serde_other__Mode(v),
        serde_names__Protocol(Protocol::Shadowsocks) == seq!["shadowsocks"@],
        serde_names__Protocol(Protocol::VMess) == seq!["vmess"@],
        serde_names__Protocol(Protocol::Trojan) == seq!["trojan"@],
        forall|v: Protocol| !serde_other__Protocol(v),
{
}
