// ---- part sschunk: codec/aead.rs (kinds, nonce generator), codec/shadowsocks.rs ----
// ---------------------------------------------------------------- real code: codec/aead.rs
#[derive(Default, Clone, Copy, PartialEq, Eq)]
pub enum CipherKind {
    Aes128Gcm,
    Aes256Gcm,
    ChaCha20Poly1305,
    Aead2022Blake3Aes128Gcm,
    Aead2022Blake3Aes256Gcm,
    Aead2022Blake3ChaCha8Poly1305,
    Aead2022Blake3ChaCha20Poly1305,
    #[default]
    Unknown,
}

impl CipherKind {
    const fn is_aead_2022(&self) -> (r: bool)
        ensures r == (self is Aead2022Blake3Aes128Gcm || self is Aead2022Blake3Aes256Gcm || self is Aead2022Blake3ChaCha8Poly1305 || self is Aead2022Blake3ChaCha20Poly1305)
    {
        matches!(
            self,
            Self::Aead2022Blake3Aes128Gcm
                | Self::Aead2022Blake3Aes256Gcm
                | Self::Aead2022Blake3ChaCha8Poly1305
                | Self::Aead2022Blake3ChaCha20Poly1305
        )
    }

    const fn support_eih(&self) -> (r: bool)
        ensures r == (self is Aead2022Blake3Aes128Gcm || self is Aead2022Blake3Aes256Gcm)
    {
        matches!(self, Self::Aead2022Blake3Aes128Gcm | Self::Aead2022Blake3Aes256Gcm)
    }
}

pub struct IncreasingNonceGenerator {
    nonce: [u8; 12],
}

impl IncreasingNonceGenerator {
    fn init() -> (r: Self)
        ensures
            //#C12 C03
            is_init(r.nonce@),
            r.nonce@ =~= nonce_init(),
    {
        Self { nonce: [u8::MAX; 12] }
    }

    fn generate(&mut self) -> (r: &[u8])
        ensures
            //#C12 C03 C05
            final(self).nonce@ == inc_seq(old(self).nonce@),
            //#C12 C03 C05
            r@ == final(self).nonce@,
    {
        let ghost mut brk: int = 12;
        for i in 0..self.nonce.len()
            invariant_except_break
                forall|k: int| 0 <= k < i ==> old(self).nonce[k] == 255 && self.nonce[k] == 0,
                forall|k: int| i <= k < 12 ==> self.nonce[k] == old(self).nonce[k],
                brk == 12,
            ensures
                0 <= brk <= 12,
                forall|k: int| 0 <= k < brk ==> old(self).nonce[k] == 255 && self.nonce[k] == 0,
                brk < 12 ==> old(self).nonce[brk] != 255 && self.nonce[brk] == old(self).nonce[brk] + 1,
                forall|k: int| brk < k < 12 ==> self.nonce[k] == old(self).nonce[k],
        {
            self.nonce[i] = self.nonce[i].overflowing_add(1).0;
            if self.nonce[i] != 0 {
                proof { brk = i as int; }
                break;
            }
        }
        proof { lemma_inc_pattern(old(self).nonce@, self.nonce@, brk); }
        &self.nonce
    }
}

// ---------------------------------------------------------------- real code: codec/shadowsocks.rs
pub struct Authenticator {
    method: CipherMethod,
    nonce_generator: IncreasingNonceGenerator,
}

impl Authenticator {
    spec fn alg(&self) -> int { self.method.alg() }
    spec fn key(&self) -> Seq<u8> { self.method.key() }
    /// the last nonce used (the next AEAD call uses inc_seq of it)
    spec fn n(&self) -> Seq<u8> { self.nonce_generator.nonce@ }
    spec fn same_key(&self, o: &Authenticator) -> bool { self.alg() == o.alg() && self.key() == o.key() }
    /// the 96-bit counter nonce fits the cipher (the XChaCha variants take 24 bytes and are never used for streams)
    spec fn wf(&self) -> bool { self.method.alg() < 4 }

    fn new(method: CipherMethod) -> (r: Self)
        ensures r.alg() == method.alg(), r.key() == method.key(),
            //#C12 C03
            is_init(r.n()), r.n() == nonce_init(),
    {
        Self { method, nonce_generator: IncreasingNonceGenerator::init() }
    }

    fn size_bytes(&self) -> (r: usize)
        ensures r == 18
    {
        size_of::<u16>() + self.method.tag_size()
    }

    fn encode_size(&mut self, bytes: &mut [u8]) -> (r: Result<(), aes_gcm::aead::Error>)
        requires old(self).wf(), old(bytes)@.len() >= 16
        ensures final(self).same_key(old(self)),
            //#C12 C03
            final(self).n() == inc_seq(old(self).n()),
            final(bytes)@.len() == old(bytes)@.len(),
            //#C12 C03
            r is Ok ==> final(bytes)@ == aead_seal(old(self).alg(), old(self).key(), inc_seq(old(self).n()), Seq::empty(), old(bytes)@.take(old(bytes)@.len() - 16)),
    {
        self.method.encrypt_in_place_detached(self.nonce_generator.generate(), &[], bytes)
    }

    fn decode_size(&mut self, data: &mut BytesMut) -> (r: Result<usize, aes_gcm::aead::Error>)
        requires old(self).wf(), old(data)@.len() >= 18
        ensures final(self).same_key(old(self)),
            //#C12 C05
            final(self).n() == inc_seq(old(self).n()),
            //#C04 C05
            match aead_open(old(self).alg(), old(self).key(), inc_seq(old(self).n()), Seq::empty(), old(data)@) {
                Some(p) => r matches Ok(n) && n as nat == be_val(p.take(2)) + 16,
                None => r is Err,
            },
    {
        self.open(data)?;
        let size = data.get_u16();
        Ok(size as usize + self.method.tag_size())
    }

    fn seal(&mut self, plaintext: &mut impl Buffer) -> (r: Result<(), aes_gcm::aead::Error>)
        requires old(self).wf(),
        ensures final(self).same_key(old(self)),
            //#C12 C03
            final(self).n() == inc_seq(old(self).n()),
            //#C12 C03
            r is Ok ==> final(plaintext).bview() == aead_seal(old(self).alg(), old(self).key(), inc_seq(old(self).n()), Seq::empty(), old(plaintext).bview()),
    {
        self.method.encrypt_in_place(self.nonce_generator.generate(), &[], plaintext)
    }

    fn open(&mut self, ciphertext: &mut impl Buffer) -> (r: Result<(), aes_gcm::aead::Error>)
        requires old(self).wf(),
        ensures final(self).same_key(old(self)),
            //#C12 C05
            final(self).n() == inc_seq(old(self).n()),
            //#C05 C04
            match aead_open(old(self).alg(), old(self).key(), inc_seq(old(self).n()), Seq::empty(), old(ciphertext).bview()) {
                Some(p) => r is Ok && final(ciphertext).bview() == p,
                None => r is Err,
            },
    {
        self.method.decrypt_in_place(self.nonce_generator.generate(), &[], ciphertext)
    }
}

pub struct ChunkEncoder {
    payload_limit: usize,
    auth: Authenticator,
}

impl ChunkEncoder {
    /// largest plaintext carried by one chunk
    spec fn cap(&self) -> nat { (self.payload_limit - 34) as nat }
    spec fn wf(&self) -> bool { 34 < self.payload_limit <= 0xFFFF + 34 && self.auth.wf() }

    /// R9 (unsafe aliasing of dst's spare capacity): ASSUMED contract, cross-checked differentially by the replay harness
    #[verifier::external_body]
    fn encode_chunk(&mut self, src: &mut BytesMut, len: usize, dst: &mut BytesMut) -> (r: Result<(), aes_gcm::aead::Error>)
        requires old(self).auth.wf(), len <= old(src)@.len(), len <= 0xFFFF,
        ensures final(self).auth.same_key(&old(self).auth), final(self).payload_limit == old(self).payload_limit,
            final(self).auth.n() == inc2(old(self).auth.n()),
            final(src)@ == old(src)@.skip(len as int),
            r is Ok ==> final(dst)@ == old(dst)@ + wire_chunk(old(self).auth.alg(), old(self).auth.key(), old(self).auth.n(), old(src)@.take(len as int)),
    { unimplemented!() }

    fn new(payload_limit: usize, auth: Authenticator) -> (r: Self)
        ensures r.payload_limit == payload_limit, r.auth == auth,
    {
        Self { payload_limit, auth }
    }

    fn encode_payload(&mut self, mut src: BytesMut, dst: &mut BytesMut) -> (r: Result<(), aes_gcm::aead::Error>)
        requires old(self).wf(),
        ensures final(self).auth.same_key(&old(self).auth), final(self).payload_limit == old(self).payload_limit,
            //#C03 C01 C12
            r is Ok ==> final(dst)@ == old(dst)@ + wire_chunks(old(self).auth.alg(), old(self).auth.key(), old(self).auth.n(), old(self).cap(), src@),
            //#C03 C01 C12
            r is Ok ==> final(self).auth.n() == nonce_after_chunks(old(self).auth.n(), old(self).cap(), src@),
    {
        let ghost src0 = src@;
        let limit = self.payload_limit - self.auth.method.tag_size() - self.size_bytes();
        while src.has_remaining()
            invariant
                self.auth.same_key(&old(self).auth), self.auth.wf(), self.payload_limit == old(self).payload_limit,
                limit == old(self).cap(), 0 < limit <= 0xFFFF,
                old(dst)@ + wire_chunks(old(self).auth.alg(), old(self).auth.key(), old(self).auth.n(), old(self).cap(), src0)
                    == dst@ + wire_chunks(self.auth.alg(), self.auth.key(), self.auth.n(), old(self).cap(), src@),
                nonce_after_chunks(old(self).auth.n(), old(self).cap(), src0) == nonce_after_chunks(self.auth.n(), old(self).cap(), src@),
            decreases src@.len()
        {
            let ghost d0 = dst@;
            let ghost s0 = src@;
            let ghost n0 = self.auth.n();
            let len = src.remaining().min(limit);
            self.encode_chunk(&mut src, len, dst)?;
            proof {
                let w = wire_chunk(self.auth.alg(), self.auth.key(), n0, s0.take(len as int));
                let rest = wire_chunks(self.auth.alg(), self.auth.key(), inc2(n0), old(self).cap(), s0.skip(len as int));
                assert(d0 + (w + rest) =~= (d0 + w) + rest);
            }
        }
        proof {
            assert(dst@ + Seq::<u8>::empty() =~= dst@);
        }
        Ok(())
    }

    fn encode_packet(&mut self, mut src: BytesMut, dst: &mut BytesMut) -> (r: Result<(), aes_gcm::aead::Error>)
        requires old(self).auth.wf(),
        ensures final(self).auth.same_key(&old(self).auth),
            //#C12 C03 C02
            final(self).auth.n() == inc_seq(old(self).auth.n()),
            //#C03 C02
            r is Ok ==> final(dst)@ == old(dst)@ + aead_seal(old(self).auth.alg(), old(self).auth.key(), inc_seq(old(self).auth.n()), Seq::empty(), src@),
    {
        self.auth.seal(&mut src)?;
        dst.extend_from_slice(&src);
        Ok(())
    }

    fn size_bytes(&self) -> (r: usize)
        ensures r == 18
    {
        self.auth.size_bytes()
    }

    fn encode_size(&mut self, size_bytes: &mut [u8]) -> (r: Result<(), aes_gcm::aead::Error>)
        requires old(self).auth.wf(), old(size_bytes)@.len() >= 16
        ensures final(self).auth.same_key(&old(self).auth), final(self).payload_limit == old(self).payload_limit,
            final(self).auth.n() == inc_seq(old(self).auth.n()),
            final(size_bytes)@.len() == old(size_bytes)@.len(),
            r is Ok ==> final(size_bytes)@ == aead_seal(old(self).auth.alg(), old(self).auth.key(), inc_seq(old(self).auth.n()), Seq::empty(), old(size_bytes)@.take(old(size_bytes)@.len() - 16)),
    {
        self.auth.encode_size(size_bytes)
    }
}

enum DecodeState {
    Length,
    Payload(usize),
}

pub struct ChunkDecoder {
    auth: Authenticator,
    state: DecodeState,
}

impl ChunkDecoder {
    spec fn abs(&self) -> St { match self.state { DecodeState::Length => St::Length, DecodeState::Payload(n) => St::Payload(n as nat) } }
    spec fn alg(&self) -> int { self.auth.alg() }
    spec fn key(&self) -> Seq<u8> { self.auth.key() }
    spec fn n(&self) -> Seq<u8> { self.auth.n() }
    spec fn wf(&self) -> bool { st_wf(self.abs()) && self.auth.wf() }

    fn new(auth: Authenticator) -> (r: Self)
        requires auth.wf(),
        ensures r.auth == auth, r.abs() == St::Length, r.wf(),
    {
        Self { auth, state: DecodeState::Length }
    }

    fn decode_packet(&mut self, src: &mut BytesMut) -> (r: Result<BytesMut, aes_gcm::aead::Error>)
        requires old(self).auth.wf(),
        ensures final(self).auth.same_key(&old(self).auth), final(self).n() == inc_seq(old(self).n()),
            //#C05 C02 C03
            match aead_open(old(self).alg(), old(self).key(), inc_seq(old(self).n()), Seq::empty(), old(src)@) {
                Some(p) => r matches Ok(b) && b@ == p,
                None => r is Err,
            },
            final(src)@ == Seq::<u8>::empty(),
    {
        let mut opening = src.split_off(0);
        proof { assert(opening@ =~= old(src)@); }
        self.auth.open(&mut opening)?;
        Ok(opening)
    }

    fn decode_payload(&mut self, src: &mut BytesMut, dst: &mut BytesMut) -> (r: Result<(), aes_gcm::aead::Error>)
        requires old(self).wf(),
        ensures
            final(self).auth.same_key(&old(self).auth), final(self).wf(),
            //#C04 C05 C03 C01
            match parse(old(self).alg(), old(self).key(), old(self).abs(), old(self).n(), old(src)@) {
                None => r is Err,
                Some(q) => r is Ok && final(dst)@ == old(dst)@ + q.out && final(self).abs() == q.st && final(self).n() == q.n && final(src)@ == q.rest,
            },
    {
        loop
            invariant_except_break
                self.auth.same_key(&old(self).auth), self.wf(),
                old(dst)@.len() <= dst@.len(), dst@.take(old(dst)@.len() as int) == old(dst)@,
                parse(old(self).alg(), old(self).key(), old(self).abs(), old(self).n(), old(src)@)
                    == prepend(dst@.skip(old(dst)@.len() as int), parse(self.alg(), self.key(), self.abs(), self.n(), src@)),
            ensures
                self.auth.same_key(&old(self).auth), self.wf(),
                match parse(old(self).alg(), old(self).key(), old(self).abs(), old(self).n(), old(src)@) {
                    None => false,
                    Some(q) => dst@ == old(dst)@ + q.out && self.abs() == q.st && self.n() == q.n && src@ == q.rest,
                },
            decreases src@.len(), (if self.state is Length { 1int } else { 0int }),
        {
            match self.state {
                DecodeState::Length => {
                    let size_bytes = self.size_bytes();
                    let ghost k0 = old(dst)@.len() as int;
                    if src.remaining() < size_bytes {
                        proof {
                            assert(dst@ =~= old(dst)@ + dst@.skip(k0));
                            assert(dst@.skip(k0) + Seq::<u8>::empty() =~= dst@.skip(k0));
                        }
                        return Ok(());
                    }
                    let ghost src0 = src@;
                    let ghost n0 = self.n();
                    let len = self.decode_size(&mut src.split_to(size_bytes))?;
                    self.state = DecodeState::Payload(len);
                    proof {
                        assert(src@ == src0.skip(18));
                        let p = aead_open(self.alg(), self.key(), inc_seq(n0), Seq::empty(), src0.take(18))->0;
                        assert(parse(self.alg(), self.key(), St::Length, n0, src0) == parse(self.alg(), self.key(), St::Payload(be_val(p.take(2)) + 16), inc_seq(n0), src0.skip(18)));
                    }
                }
                DecodeState::Payload(len) => {
                    let ghost k0 = old(dst)@.len() as int;
                    if src.remaining() < len {
                        proof {
                            assert(dst@ =~= old(dst)@ + dst@.skip(k0));
                            assert(dst@.skip(k0) + Seq::<u8>::empty() =~= dst@.skip(k0));
                        }
                        return Ok(());
                    }
                    let ghost dst0 = dst@;
                    let ghost src0 = src@;
                    let ghost n0 = self.n();
                    dst.reserve(len);
                    let mut payload_bytes = src.split_to(len);
                    self.auth.open(&mut payload_bytes)?;
                    dst.extend_from_slice(&payload_bytes);
                    self.state = DecodeState::Length;
                    proof {
                        assert(len >= 16);
                        assert(dst@.skip(k0) =~= dst0.skip(k0) + payload_bytes@);
                        assert(dst@.take(k0) =~= old(dst)@);
                        let q = parse(self.alg(), self.key(), St::Length, inc_seq(n0), src0.skip(len as int));
                        assert(parse(self.alg(), self.key(), St::Payload(len as nat), n0, src0) == prepend(payload_bytes@, q));
                        if q is Some {
                            assert(dst0.skip(k0) + (payload_bytes@ + q->0.out) =~= (dst0.skip(k0) + payload_bytes@) + q->0.out);
                        }
                    }
                }
            }
        }
    }

    fn size_bytes(&self) -> (r: usize)
        ensures r == 18
    {
        self.auth.size_bytes()
    }

    fn decode_size(&mut self, data: &mut BytesMut) -> (r: Result<usize, aes_gcm::aead::Error>)
        requires old(self).auth.wf(), old(data)@.len() >= 18
        ensures final(self).auth.same_key(&old(self).auth), final(self).state == old(self).state,
            final(self).n() == inc_seq(old(self).n()),
            match aead_open(old(self).alg(), old(self).key(), inc_seq(old(self).n()), Seq::empty(), old(data)@) {
                Some(p) => r matches Ok(n) && n as nat == be_val(p.take(2)) + 16,
                None => r is Err,
            },
    {
        self.auth.decode_size(data)
    }
}

