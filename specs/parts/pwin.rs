// ---- part pwin: manager/packet_window.rs ----
// ---------------------------------------------------------------- specification (C11)
spec fn slot(id: u64) -> int { ((id / 64) % 128) as int }
spec fn cleared(cur: int, n: int, j: int) -> bool { ((j - (cur + 1)) % 128) < n }
spec fn lo(last: u64) -> u64 { if last >= 8128 { (last - 8128) as u64 } else { 0 } }
spec fn nclear(o_last: u64, id: u64) -> int {
    if id > o_last { if id / 64 - o_last / 64 > 128 { 128 } else { id / 64 - o_last / 64 } } else { 0 }
}
spec fn rc(o: PacketWindowFilter, id: u64, j: int) -> u64 {
    if cleared((o.last_packet_id / 64) as int, nclear(o.last_packet_id, id), j) { 0 } else { o.packet_ring[j] }
}
spec fn early_reject(o: PacketWindowFilter, id: u64, limit: u64) -> bool {
    id >= limit || (id <= o.last_packet_id && o.last_packet_id - id > 8128)
}
spec fn raw_post(o: PacketWindowFilter, id: u64, f: PacketWindowFilter, r: bool) -> bool {
    &&& f.last_packet_id == (if id > o.last_packet_id { id } else { o.last_packet_id })
    &&& forall|j: int| 0 <= j < 128 ==> #[trigger] f.packet_ring[j] == (if j == slot(id) { setbit(rc(o, id, j), id % 64) } else { rc(o, id, j) })
    &&& r == (rc(o, id, slot(id)) != setbit(rc(o, id, slot(id)), id % 64))
}
/// the whole contract of one validate_packet_id call
spec fn step_ok(o: PacketWindowFilter, id: u64, limit: u64, f: PacketWindowFilter, r: bool) -> bool {
    if early_reject(o, id, limit) { !r && f == o } else { raw_post(o, id, f, r) }
}

spec fn marked(f: PacketWindowFilter, id: u64) -> bool { bit(f.packet_ring[slot(id)], id % 64) }
spec fn in_window(f: PacketWindowFilter, id: u64) -> bool { lo(f.last_packet_id) <= id <= f.last_packet_id }
spec fn seen(f: PacketWindowFilter, id: u64) -> bool { in_window(f, id) && marked(f, id) }
spec fn wf(f: PacketWindowFilter) -> bool {
    forall|id: u64| f.last_packet_id < id && (id / 64) == (f.last_packet_id / 64) ==> !#[trigger] marked(f, id)
}

// value of the final ring for an id in the *new* window
proof fn lemma_final_marked(o: PacketWindowFilter, pid: u64, f: PacketWindowFilter, r: bool, id: u64)
    requires wf(o), raw_post(o, pid, f, r),
        !(pid <= o.last_packet_id && o.last_packet_id - pid > 8128),
        in_window(f, id),
    ensures marked(f, id) == (id == pid || (seen(o, id))),
{
    let cur = (o.last_packet_id / 64) as int;
    let n = nclear(o.last_packet_id, pid);
    let k = (id / 64) as int;
    let j = slot(id);
    let c = id % 64;
    lemma_bit_zero(c);
    lemma_bit_or(rc(o, pid, j), pid % 64, c);
    assert(f.packet_ring[j] == (if j == slot(pid) { setbit(rc(o, pid, j), pid % 64) } else { rc(o, pid, j) }));
    if pid > o.last_packet_id {
        let ib = (pid / 64) as int;
        assert(ib - 127 <= k <= ib);
        if k > cur {
            assert(cleared(cur, n, j)) by {
              if n < 128 {
                assert(0 <= k - (cur + 1) < n);
                assert(j == k % 128);
                assert((k % 128 - (cur + 1)) % 128 == (k - (cur + 1)) % 128) by (nonlinear_arith)
                    requires true;
              }
            }
            assert(!seen(o, id));
            assert(j == slot(pid) ==> k == ib) by {
                if j == slot(pid) { assert(k % 128 == ib % 128); }
            }
        } else {
            assert(!cleared(cur, n, j)) by {
                assert(-128 <= k - (cur + 1) < 0);
                assert(k - (cur + 1) + 128 >= n);
                assert(j == k % 128);
                assert((k % 128 - (cur + 1)) % 128 == (k - (cur + 1) + 128) % 128) by (nonlinear_arith)
                    requires true;
            }
            assert(rc(o, pid, j) == o.packet_ring[j]);
            if k == cur && id > o.last_packet_id {
                assert(!marked(o, id));
            }
            assert(j == slot(pid) ==> k == ib) by {
                if j == slot(pid) { assert(k % 128 == ib % 128); }
            }
        }
    } else {
        assert(n == 0);
        assert(!cleared(cur, 0, j));
        let ib = (pid / 64) as int;
        assert(j == slot(pid) ==> k == ib) by {
            if j == slot(pid) { assert(k % 128 == ib % 128); }
        }
    }
}

// no bit above the new last id inside its block
proof fn lemma_wf_preserved(o: PacketWindowFilter, pid: u64, f: PacketWindowFilter, r: bool, id: u64)
    requires wf(o), raw_post(o, pid, f, r),
        !(pid <= o.last_packet_id && o.last_packet_id - pid > 8128),
        id > f.last_packet_id, id / 64 == f.last_packet_id / 64,
    ensures !marked(f, id),
{
    let cur = (o.last_packet_id / 64) as int;
    let n = nclear(o.last_packet_id, pid);
    let k = (id / 64) as int;
    let j = slot(id);
    let c = id % 64;
    let ib = (pid / 64) as int;
    lemma_bit_zero(c);
    lemma_bit_or(rc(o, pid, j), pid % 64, c);
    assert(f.packet_ring[j] == (if j == slot(pid) { setbit(rc(o, pid, j), pid % 64) } else { rc(o, pid, j) }));
    if pid > o.last_packet_id {
        assert(k == ib);
        if ib > cur {
            assert(cleared(cur, n, j)) by {
                if n < 128 {
                    assert(0 <= k - (cur + 1) < n);
                    assert((k % 128 - (cur + 1)) % 128 == (k - (cur + 1)) % 128) by (nonlinear_arith) requires true;
                }
            }
        } else {
            assert(n == 0);
            assert(!cleared(cur, 0, j));
            assert(!marked(o, id));
        }
    } else {
        assert(n == 0);
        assert(!cleared(cur, 0, j));
        assert(k == cur);
        assert(!marked(o, id));
        assert(j == slot(pid) ==> k == ib) by {
            if j == slot(pid) { assert(k % 128 == ib % 128); }
        }
    }
}

// ---- abstract model taken from the property statement -------------------------------------
struct G { hi: u64, acc: Set<u64> }
spec fn g0() -> G { G { hi: 0, acc: Set::empty() } }
/// "accepted iff below the limit, not accepted before, not more than 8128 behind the highest accepted so far"
spec fn accept(g: G, id: u64, limit: u64) -> bool {
    id < limit && !g.acc.contains(id) && !(id <= g.hi && g.hi - id > 8128)
}
spec fn gstep(g: G, id: u64, limit: u64) -> G {
    if accept(g, id, limit) { G { hi: if id > g.hi { id } else { g.hi }, acc: g.acc.insert(id) } } else { g }
}
spec fn model(ids: Seq<u64>, limits: Seq<u64>) -> G
    decreases ids.len()
{
    if ids.len() == 0 || limits.len() != ids.len() { g0() } else {
        gstep(model(ids.drop_last(), limits.drop_last()), ids.last(), limits.last())
    }
}
spec fn rep(f: PacketWindowFilter, g: G) -> bool {
    &&& wf(f)
    &&& f.last_packet_id == g.hi
    &&& forall|id: u64| in_window(f, id) ==> (#[trigger] marked(f, id) <==> g.acc.contains(id))
    &&& forall|id: u64| #[trigger] g.acc.contains(id) ==> id <= g.hi
}

//#C11
proof fn lemma_step(o: PacketWindowFilter, g: G, pid: u64, limit: u64, f: PacketWindowFilter, r: bool)
    requires rep(o, g), step_ok(o, pid, limit, f, r),
    ensures r == accept(g, pid, limit), rep(f, gstep(g, pid, limit)),
{
    if early_reject(o, pid, limit) {
        assert(!accept(g, pid, limit));
    } else {
        let w = rc(o, pid, slot(pid));
        lemma_or_changed(w, pid % 64);
        // what was in pid's position before the call
        lemma_final_marked(o, pid, f, r, pid);
        let g2 = gstep(g, pid, limit);
        // r == !seen(o,pid)
        assert(r == !seen(o, pid)) by {
            // bit(w, pid%64) == seen(o,pid) restricted: use the definition of rc
            let cur = (o.last_packet_id / 64) as int;
            let n = nclear(o.last_packet_id, pid);
            let j = slot(pid);
            lemma_bit_zero(pid % 64);
            if pid > o.last_packet_id {
                let ib = (pid / 64) as int;
                if ib > cur {
                    assert(cleared(cur, n, j)) by {
                        if n < 128 {
                            assert(0 <= ib - (cur + 1) < n);
                            assert((ib % 128 - (cur + 1)) % 128 == (ib - (cur + 1)) % 128) by (nonlinear_arith) requires true;
                        }
                    }
                } else {
                    assert(n == 0);
                    assert(!cleared(cur, 0, j));
                    assert(!marked(o, pid));
                }
                assert(!seen(o, pid));
            } else {
                assert(n == 0);
                assert(!cleared(cur, 0, j));
                assert(w == o.packet_ring[j]);
                assert(in_window(o, pid));
            }
        }
        assert(r == accept(g, pid, limit));
        // representation is re-established
        assert(wf(f)) by {
            assert forall|id: u64| f.last_packet_id < id && (id / 64) == (f.last_packet_id / 64) implies !#[trigger] marked(f, id) by {
                lemma_wf_preserved(o, pid, f, r, id);
            }
        }
        assert forall|id: u64| in_window(f, id) implies (#[trigger] marked(f, id) <==> g2.acc.contains(id)) by {
            lemma_final_marked(o, pid, f, r, id);
            if id != pid {
                if in_window(o, id) {
                } else {
                    // outside the old window: never accepted ... or too old; in both cases not in acc unless <= hi
                    assert(!seen(o, id));
                    if g.acc.contains(id) {
                        assert(id <= g.hi);
                        assert(id < lo(o.last_packet_id));
                        assert(lo(f.last_packet_id) >= lo(o.last_packet_id));
                        assert(false);
                    }
                }
            }
        }
    }
}

/// a finite history of calls, each meeting the contract of the real function
spec fn history_ok(fs: Seq<PacketWindowFilter>, ids: Seq<u64>, limits: Seq<u64>, rs: Seq<bool>) -> bool {
    &&& fs.len() == ids.len() + 1 && limits.len() == ids.len() && rs.len() == ids.len()
    &&& fresh(fs[0])
    &&& forall|i: int| 0 <= i < ids.len() ==> #[trigger] step_ok(fs[i], ids[i], limits[i], fs[i + 1], rs[i])
}

//#C11
/// C11, the property statement: for every finite sequence of 64-bit ids, the i-th answer is `true` iff the
/// id is below the limit, has not been accepted before and is not more than 8128 behind the highest accepted.
proof fn lemma_history(fs: Seq<PacketWindowFilter>, ids: Seq<u64>, limits: Seq<u64>, rs: Seq<bool>, i: int)
    requires history_ok(fs, ids, limits, rs), 0 <= i <= ids.len(),
    ensures rep(fs[i], model(ids.take(i), limits.take(i))),
        i < ids.len() ==> rs[i] == accept(model(ids.take(i), limits.take(i)), ids[i], limits[i]),
    decreases i,
{
    if i == 0 {
        assert(ids.take(0).len() == 0);
        lemma_fresh(fs[0]);
    } else {
        lemma_history(fs, ids, limits, rs, i - 1);
        let g = model(ids.take(i - 1), limits.take(i - 1));
        let j = i - 1;
        assert(step_ok(fs[j], ids[j], limits[j], fs[j + 1], rs[j]));
        lemma_step(fs[i - 1], g, ids[i - 1], limits[i - 1], fs[i], rs[i - 1]);
        assert(ids.take(i).drop_last() =~= ids.take(i - 1));
        assert(limits.take(i).drop_last() =~= limits.take(i - 1));
        assert(ids.take(i).last() == ids[i - 1]);
        assert(limits.take(i).last() == limits[i - 1]);
    }
    if i < ids.len() {
        let g = model(ids.take(i), limits.take(i));
        assert(step_ok(fs[i], ids[i], limits[i], fs[i + 1], rs[i]));
        lemma_step(fs[i], g, ids[i], limits[i], fs[i + 1], rs[i]);
    }
}

/// new() and reset() both start a history
//#C11
/// the state new() and reset() must produce
spec fn fresh(f: PacketWindowFilter) -> bool { f.last_packet_id == 0 && f.packet_ring[0] == 0 }
proof fn lemma_fresh(f: PacketWindowFilter)
    requires fresh(f),
    ensures rep(f, g0()),
{
    assert forall|id: u64| 0 < id && (id / 64) == 0 implies !#[trigger] marked(f, id) by { lemma_bit_zero(id % 64); }
    assert forall|id: u64| in_window(f, id) implies (#[trigger] marked(f, id) <==> g0().acc.contains(id)) by { lemma_bit_zero(0); }
}

// ---------------------------------------------------------------- real code


//@@ octo-squirrel/src/manager/packet_window.rs:9-9  const BLOCK_BIT_LOG  sha=81c72e81da244832
const BLOCK_BIT_LOG: u64 = 6;

const BLOCK_BITS: u64 = 64;

const RING_BLOCKS: u64 = 128;

const WINDOW_SIZE: u64 = 8128;

const BLOCK_MASK: u64 = 127;

const BIT_MASK: u64 = 63;

#[derive(Clone)]
pub struct PacketWindowFilter {
    last_packet_id: u64,
    packet_ring: [u64; RING_BLOCKS as usize],
}

impl PacketWindowFilter {
    fn default() -> (r: PacketWindowFilter)
        ensures
            //#C11
            fresh(r),
    {
        PacketWindowFilter::new()
    }
}

impl PacketWindowFilter {
    /// Create an empty filter
    fn new() -> (r: PacketWindowFilter)
        ensures
            //#C11
            fresh(r),
    {
        PacketWindowFilter { last_packet_id: 0, packet_ring: [0u64; RING_BLOCKS as usize] }
    }

    /// Reset filter to the initial state
    fn reset(&mut self)
        ensures
            //#C11
            fresh(*final(self)),
    {
        self.last_packet_id = 0;
        self.packet_ring[0] = 0;
    }

    /// Check and remember the `packet_id`
    ///
    /// Overlimit `packet_id >= limit` are always rejected
    fn validate_packet_id(&mut self, packet_id: u64, limit: u64) -> (r: bool)
        ensures
            //#C11
            step_ok(*old(self), packet_id, limit, *final(self), r),
    {
        if packet_id >= limit {
            return false;
        }

        let mut index_block = packet_id >> BLOCK_BIT_LOG;
        if packet_id > self.last_packet_id {
            // Move the window forward

            let current = self.last_packet_id >> BLOCK_BIT_LOG;
            let mut diff = index_block - current;
            if diff > RING_BLOCKS {
                // Clear the whole filter
                diff = RING_BLOCKS;
            }
            for d in 1..=diff
                invariant
                    current == old(self).last_packet_id / 64,
                    diff <= 128, current + diff <= u64::MAX,
                    self.last_packet_id == old(self).last_packet_id,
                    forall|j: int| 0 <= j < 128 ==> #[trigger] self.packet_ring[j] == (
                        if cleared(current as int, d - 1, j) { 0u64 } else { old(self).packet_ring[j] }),
            {
                let i = current + d;
                self.packet_ring[(i & BLOCK_MASK) as usize] = 0;
            }
            self.last_packet_id = packet_id;
        } else if self.last_packet_id - packet_id > WINDOW_SIZE {
            // Behind the current window
            return false;
        }

        // Check and set bit
        index_block &= BLOCK_MASK;
        let index_bit = packet_id & BIT_MASK;
        let old = self.packet_ring[index_block as usize];
        let new = old | (1 << index_bit);
        self.packet_ring[index_block as usize] = new;
        old != new
    }
}

