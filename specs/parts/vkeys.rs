// ---- part vkeys: from the configured cipher name / UUID / target to the VMess request header the client seals ----
pub mod uuid {
    use vstd::prelude::*;
    #[verifier::external_body]
    pub struct Error { _e: u8 }
}
impl core::convert::From<uuid::Error> for anyhow::Error {
    #[verifier::external_body]
    fn from(e: uuid::Error) -> anyhow::Error { unimplemented!() }
}
/// the VMess user id of a UUID string: MD5(uuid bytes | "c48619fe-8f02-49e0-b9e9-edf763e17e21"); None for a malformed UUID (uninterpreted)
uninterp spec fn vmess_id(uuid: Seq<u8>) -> Option<Seq<u8>>;
/// protocol/vmess.rs id::from_password (uuid crate, MD5): NOT verified
#[verifier::external_body]
fn vid__from_password(uuid: &str) -> (r: Result<[u8; 16], uuid::Error>)
    ensures match vmess_id(uuid@.map_values(|c: char| c as u8)) { Some(i) => r matches Ok(a) && a@ == i, None => r is Err },
{ unimplemented!() }
/// README: VMess takes "aes-128-gcm" or "chacha20-poly1305"; V2Fly security codes 3 and 4
pub open spec fn vmess_security(kind: CipherKind) -> SecurityType { if kind is ChaCha20Poly1305 { SecurityType::Chacha20Poly1305 } else { SecurityType::Aes128Gcm } }

//@@ octo-squirrel/src/config.rs:64-84  struct ServerConfig  sha=4a1981ff06f0d60b
pub struct ServerConfig<S: Clone + Default> {
    pub host: String,
    pub port: u16,
    pub mode: cfg__Mode,
    pub password: String,
    pub protocol: Protocol,
    pub cipher: CipherKind,
    pub ssl: Option<S>,
    pub ws: Option<WebSocketConfig>,
    pub quic: Option<S>,
    pub user: Vec<User>,
    marker: PhantomData<S>,
}

//@@ octo-squirrel/src/config.rs:92-98  struct WebSocketConfig  sha=f6c7c5e2c14b9f62
pub struct WebSocketConfig {
    pub header: HashMap<String, String>,
    pub path: String,
}

//@@ octo-squirrel/src/config.rs:100-104  struct User  sha=bb2d5e07d1c8ea18
pub struct User {
    pub name: String,
    pub password: String,
}

//@@ octo-squirrel-server/src/server/config.rs:9-17  struct SslConfig  sha=e1273042d9ebfa96
#[derive(Default, Clone)]
pub struct SslConfig {
    pub certificate_file: String,
    pub key_file: String,
    pub server_name: String,
}

//@@ octo-squirrel/src/protocol/vmess/header.rs:68-75  impl From for SecurityType#0  sha=6733604020742d4a
impl vstd::std_specs::convert::FromSpecImpl<CipherKind> for SecurityType {
    open spec fn obeys_from_spec() -> bool { true }
    open spec fn from_spec(v: CipherKind) -> Self { vmess_security(v) }
}
impl From<CipherKind> for SecurityType {
    fn from(value: CipherKind) -> (r: Self)
        ensures
            //#C16
            r == vmess_security(value),
    {
        match value {
            CipherKind::ChaCha20Poly1305 => SecurityType::Chacha20Poly1305,
            _ => SecurityType::Aes128Gcm,
        }
    }
}

//@@ octo-squirrel/src/protocol/vmess/header.rs:100-115  impl RequestHeader {fn default}  sha=d9bf9e47b7a445ec
impl RequestHeader {

    fn default(command: RequestCommand, security: SecurityType, address: Address, uuid: &str) -> (r: Result<Self, uuid::Error>)
        ensures
            //#C03 C16 C14
            // version 1, the four standard options (chunk stream, chunk masking, global padding, authenticated length), exactly this command, security and target, the id of this UUID
            match vmess_id(uuid@.map_values(|c: char| c as u8)) {
                Some(i) => r matches Ok(h) && h.version == 1 && h.command == command && h.security == security && h.address == address && h.id@ == i
                    && h.option@ == seq![RequestOption::ChunkStream, RequestOption::ChunkMasking, RequestOption::GlobalPadding, RequestOption::AuthenticatedLength],
                None => r is Err,
            },
    {
        Ok(Self {
            version: vmessp__VERSION,
            command,
            option: vec![RequestOption::ChunkStream, RequestOption::ChunkMasking, RequestOption::GlobalPadding, RequestOption::AuthenticatedLength],
            security,
            address,
            id: vid__from_password(uuid)?,
        })
    }
}

//@@ octo-squirrel-client/src/client/vmess.rs:141-145  mod tcp / fn new_codec  sha=5357595b43c65602
fn vtcp__new_codec(addr: &Address, verif_arg2: (CipherKind, String)) -> (r: anyhow::Result<ClientAEADCodec>)
    ensures
        //#C16 C14 C01 C03
        // a TCP request for exactly this target, with the security the cipher name selects and the id of the configured UUID; a malformed UUID is an error
        r matches Ok(c) ==> c.header.command is TCP && c.header.address == *addr && c.header.security == vmess_security(verif_arg2.0)
            && vmess_id(verif_arg2.1@.map_values(|c: char| c as u8)) == Some(c.header.id@),
{ let (kind, password) = verif_arg2;
        let ghost k0 = kind;
        let security = if kind == CipherKind::ChaCha20Poly1305 { SecurityType::Chacha20Poly1305 } else { SecurityType::Aes128Gcm };
        proof { assert(security == vmess_security(k0)); }
        let header = RequestHeader::default(RequestCommand::TCP, security, addr.clone(), &password)?;
        Ok(ClientAEADCodec::new(header))
    }

//@@ octo-squirrel/src/protocol/vmess.rs:116-122  mod id / fn from_passwords  sha=a165dc0ac3488d15
spec fn str_u8(s: &String) -> Seq<u8> { s@.map_values(|c: char| c as u8) }
fn vid__from_passwords(uuid: Vec<&String>) -> (r: Result<Vec<[u8; 16]>, uuid::Error>)
    ensures
        //#C06 C03 C16
        // one id per configured UUID, in order; a malformed UUID is an error (never a default id)
        match r {
            Ok(v) => v@.len() == uuid@.len() && forall|i: int| 0 <= i < v@.len() ==> vmess_id(str_u8(uuid@[i])) == Some(#[trigger] v@[i]@),
            Err(_) => exists|i: int| 0 <= i < uuid@.len() && vmess_id(str_u8(uuid@[i])) is None,
        },
{
        let mut res: Vec<[u8; 16]> = Vec::with_capacity(uuid.len());
        let ghost all = uuid@;
        for uuid in it: uuid
            invariant it.seq() == all, res@.len() == it.index@,
                forall|i: int| 0 <= i < res@.len() ==> vmess_id(str_u8(all[i])) == Some(#[trigger] res@[i]@),
        {
            res.push(vid__from_password(uuid)?);
        }
        Ok(res)
    }

//@@ octo-squirrel-server/src/server/vmess.rs:229-237  impl TryFrom for ServerAeadCodec  sha=1a41f2b7fec5c188
impl ServerAeadCodec {

    fn try_from(config: &ServerConfig<SslConfig>) -> (r: Result<Self, anyhow::Error>)
        ensures
            //#C06 C16
            // the server honours exactly the ids of the configured users; one malformed user id stops startup with an error
            r matches Ok(c) ==> c.keys@.len() == config.user@.len() && forall|i: int| 0 <= i < c.keys@.len() ==> vmess_id(str_u8(&config.user@[i].password)) == Some(#[trigger] c.keys@[i]@),
            //#C01 C04 C06
            // a fresh codec has parsed no request header yet: the first bytes of the connection are read as the header, never as payload
            r matches Ok(c) ==> !c.connected && c.decode_state is Init && c.encode_state is Init,
    {
        let uuid: Vec<&String> = config.user.iter().map(|u: &User| -> (r: &String) ensures *r == u.password { &u.password }).collect();
        proof { assert(uuid@.len() == config.user@.len()); assert(forall|i: int| 0 <= i < uuid@.len() ==> *uuid@[i] == config.user@[i].password); }
        let keys = vid__from_passwords(uuid)?;
        Ok(Self { keys, decode_state: vsrv__DecodeState::Init, encode_state: vsrv__EncodeState::Init, connected: false })
    }
}

//@@ octo-squirrel-client/src/client/config.rs:30-38  struct SslConfig  sha=335b473079324dbf
#[derive(Default, Clone)]
pub struct cli__SslConfig {
    pub certificate_file: Option<String>,
    pub key_file: Option<String>,
    pub server_name: Option<String>,
}

//@@ octo-squirrel-client/src/client/vmess.rs:175-179  mod udp / fn new_codec  sha=efec707c29df7888
fn vudp__new_codec(addr: &Address, config: &ServerConfig<cli__SslConfig>) -> (r: Result<ClientAEADCodec>)
    ensures
        //#C16 C14 C02 C03
        // a UDP request for exactly this target, with the security the cipher name selects and the id of the configured UUID
        r matches Ok(c) ==> c.header.command is UDP && c.header.address == *addr && c.header.security == vmess_security(config.cipher)
            && vmess_id(config.password@.map_values(|c: char| c as u8)) == Some(c.header.id@),
{
        let security = if config.cipher == CipherKind::ChaCha20Poly1305 { SecurityType::Chacha20Poly1305 } else { SecurityType::Aes128Gcm };
        let header = RequestHeader::default(RequestCommand::UDP, security, addr.clone(), &config.password)?;
        Ok(ClientAEADCodec::new(header))
    }
