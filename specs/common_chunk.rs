// ---- specs/common_chunk.rs : Shadowsocks AEAD chunk stream (shadowsocks.org AEAD spec / SIP022 3.1) as spec functions ----
// [2-byte big-endian length, sealed][payload, sealed]; every seal/open uses the next value of one little-endian counter.
pub enum St { Length, Payload(nat) }
pub struct P { pub out: Seq<u8>, pub st: St, pub n: Seq<u8>, pub rest: Seq<u8> }
pub open spec fn inc2(n: Seq<u8>) -> Seq<u8> { inc_seq(inc_seq(n)) }

/// maximal-munch parse: everything obtainable from complete blocks in `s`, the state reached, the unconsumed rest
pub open spec fn parse(alg: int, key: Seq<u8>, st: St, n: Seq<u8>, s: Seq<u8>) -> Option<P>
    decreases s.len(), (if st is Length { 1int } else { 0int })
{
    match st {
        St::Length => if s.len() < 18 { Some(P { out: Seq::empty(), st, n, rest: s }) } else {
            match aead_open(alg, key, inc_seq(n), Seq::empty(), s.take(18)) {
                None => None,
                Some(p) => parse(alg, key, St::Payload(be_val(p.take(2)) + 16), inc_seq(n), s.skip(18)),
            }
        },
        St::Payload(len) => if len < 16 { None } else if s.len() < len { Some(P { out: Seq::empty(), st, n, rest: s }) } else {
            match aead_open(alg, key, inc_seq(n), Seq::empty(), s.take(len as int)) {
                None => None,
                Some(p) => match parse(alg, key, St::Length, inc_seq(n), s.skip(len as int)) {
                    None => None,
                    Some(q) => Some(P { out: p + q.out, st: q.st, n: q.n, rest: q.rest }),
                },
            }
        },
    }
}
pub open spec fn prepend(a: Seq<u8>, p: Option<P>) -> Option<P> {
    match p { None => None, Some(q) => Some(P { out: a + q.out, st: q.st, n: q.n, rest: q.rest }) }
}
pub open spec fn st_wf(st: St) -> bool { st matches St::Payload(n) ==> n >= 16 }

//#C04
/// C04: parsing x ++ y == parsing x, then parsing (rest ++ y) from the state reached -- for every cut
pub proof fn lemma_parse_compose(alg: int, key: Seq<u8>, st: St, n: Seq<u8>, x: Seq<u8>, y: Seq<u8>)
    ensures
        parse(alg, key, st, n, x + y) == (match parse(alg, key, st, n, x) {
            None => None::<P>,
            Some(p) => prepend(p.out, parse(alg, key, p.st, p.n, p.rest + y)),
        }),
    decreases x.len(), (if st is Length { 1int } else { 0int })
{
    let e = Seq::<u8>::empty();
    match st {
        St::Length => {
            if x.len() < 18 {
                let q = parse(alg, key, st, n, x + y);
                if q is Some { assert(e + q->0.out =~= q->0.out); }
            } else {
                assert((x + y).take(18) =~= x.take(18));
                assert((x + y).skip(18) =~= x.skip(18) + y);
                match aead_open(alg, key, inc_seq(n), e, x.take(18)) {
                    None => {},
                    Some(p) => { lemma_parse_compose(alg, key, St::Payload(be_val(p.take(2)) + 16), inc_seq(n), x.skip(18), y); }
                }
            }
        },
        St::Payload(len) => {
            if len < 16 {
            } else if x.len() < len {
                let q = parse(alg, key, st, n, x + y);
                if q is Some { assert(e + q->0.out =~= q->0.out); }
            } else {
                assert((x + y).take(len as int) =~= x.take(len as int));
                assert((x + y).skip(len as int) =~= x.skip(len as int) + y);
                match aead_open(alg, key, inc_seq(n), e, x.take(len as int)) {
                    None => {},
                    Some(p) => {
                        lemma_parse_compose(alg, key, St::Length, inc_seq(n), x.skip(len as int), y);
                        let a = parse(alg, key, St::Length, inc_seq(n), x.skip(len as int));
                        if a is Some {
                            let b = parse(alg, key, a->0.st, a->0.n, a->0.rest + y);
                            if b is Some { assert(p + (a->0.out + b->0.out) =~= (p + a->0.out) + b->0.out); }
                        }
                    }
                }
            }
        },
    }
}

/// what a sender must emit for one chunk / for a whole write (SIP004: payload length <= cap per chunk)
pub open spec fn wire_chunk(alg: int, key: Seq<u8>, n: Seq<u8>, chunk: Seq<u8>) -> Seq<u8> {
    aead_seal(alg, key, inc_seq(n), Seq::empty(), be_bytes(chunk.len(), 2)) + aead_seal(alg, key, inc2(n), Seq::empty(), chunk)
}
pub open spec fn min_nat(a: nat, b: nat) -> nat { if a < b { a } else { b } }
pub open spec fn wire_chunks(alg: int, key: Seq<u8>, n: Seq<u8>, cap: nat, s: Seq<u8>) -> Seq<u8>
    decreases s.len()
{
    if s.len() == 0 || cap == 0 { Seq::empty() } else {
        let l = min_nat(s.len(), cap);
        wire_chunk(alg, key, n, s.take(l as int)) + wire_chunks(alg, key, inc2(n), cap, s.skip(l as int))
    }
}
pub open spec fn nonce_after_chunks(n: Seq<u8>, cap: nat, s: Seq<u8>) -> Seq<u8>
    decreases s.len()
{
    if s.len() == 0 || cap == 0 { n } else { nonce_after_chunks(inc2(n), cap, s.skip(min_nat(s.len(), cap) as int)) }
}

//#C01 C03
/// C01/C03: what the encoder emits parses back to exactly the bytes written (any write size, any cap up to 0xFFFF),
/// followed by whatever the rest of the stream parses to
pub proof fn lemma_chunks_roundtrip(alg: int, key: Seq<u8>, n: Seq<u8>, cap: nat, s: Seq<u8>, tail: Seq<u8>)
    requires 0 < cap <= 0xFFFF,
    ensures parse(alg, key, St::Length, n, wire_chunks(alg, key, n, cap, s) + tail)
        == prepend(s, parse(alg, key, St::Length, nonce_after_chunks(n, cap, s), tail)),
    decreases s.len()
{
    broadcast use axiom_seal_len, axiom_open_seal;
    let e = Seq::<u8>::empty();
    if s.len() == 0 {
        assert(wire_chunks(alg, key, n, cap, s) + tail =~= tail);
        let q = parse(alg, key, St::Length, n, tail);
        if q is Some { assert(s + q->0.out =~= q->0.out); }
    } else {
        let l = min_nat(s.len(), cap);
        let c = s.take(l as int);
        let hdr = aead_seal(alg, key, inc_seq(n), e, be_bytes(l, 2));
        let body = aead_seal(alg, key, inc2(n), e, c);
        let restw = wire_chunks(alg, key, inc2(n), cap, s.skip(l as int));
        let w = wire_chunks(alg, key, n, cap, s) + tail;
        lemma_be_bytes_len(l, 2);
        assert(w =~= hdr + (body + (restw + tail)));
        assert(w.take(18) =~= hdr);
        assert(w.skip(18) =~= body + (restw + tail));
        lemma_pow256_vals();
        lemma_be_roundtrip(l, 2);
        assert(be_bytes(l, 2).take(2) =~= be_bytes(l, 2));
        let w2 = w.skip(18);
        assert(w2.take((l + 16) as int) =~= body);
        assert(w2.skip((l + 16) as int) =~= restw + tail);
        lemma_chunks_roundtrip(alg, key, inc2(n), cap, s.skip(l as int), tail);
        assert(aead_open(alg, key, inc_seq(n), e, w.take(18)) == Some(be_bytes(l, 2)));
        assert(parse(alg, key, St::Length, n, w) == parse(alg, key, St::Payload(l + 16), inc_seq(n), w2));
        assert(aead_open(alg, key, inc_seq(inc_seq(n)), e, w2.take((l + 16) as int)) == Some(c));
        assert(parse(alg, key, St::Payload(l + 16), inc_seq(n), w2) == prepend(c, parse(alg, key, St::Length, inc2(n), restw + tail)));
        let q = parse(alg, key, St::Length, nonce_after_chunks(n, cap, s), tail);
        if q is Some {
            assert(c + (s.skip(l as int) + q->0.out) =~= s + q->0.out);
        }
    }
}
