// ---- specs/common_vhead.rs : VMess AEAD request header sealing (V2Fly "VMess AEAD" header format) as specification functions ----
// wire:  auth_id(16) | AES-128-GCM(len_key, len_iv, aad = auth_id, be16(|header|)) (18) | connection nonce (8) | AES-128-GCM(hdr_key, hdr_iv, aad = auth_id, header)
// auth_id = AES-128-ECB(KDF16(cmd_key, "AES Auth ID Encryption"), be64(time) | rand(4) | be32(crc32(first 12 bytes)))
// keys/ivs = KDF(cmd_key, label, auth_id, nonce) with the labels below, truncated to 16 / 12 bytes
pub open spec fn lbl_authid() -> Seq<u8> { seq![65u8, 69u8, 83u8, 32u8, 65u8, 117u8, 116u8, 104u8, 32u8, 73u8, 68u8, 32u8, 69u8, 110u8, 99u8, 114u8, 121u8, 112u8, 116u8, 105u8, 111u8, 110u8] } // "AES Auth ID Encryption"
pub open spec fn lbl_len_key() -> Seq<u8> { seq![86u8, 77u8, 101u8, 115u8, 115u8, 32u8, 72u8, 101u8, 97u8, 100u8, 101u8, 114u8, 32u8, 65u8, 69u8, 65u8, 68u8, 32u8, 75u8, 101u8, 121u8, 95u8, 76u8, 101u8, 110u8, 103u8, 116u8, 104u8] } // "VMess Header AEAD Key_Length"
pub open spec fn lbl_len_iv() -> Seq<u8> { seq![86u8, 77u8, 101u8, 115u8, 115u8, 32u8, 72u8, 101u8, 97u8, 100u8, 101u8, 114u8, 32u8, 65u8, 69u8, 65u8, 68u8, 32u8, 78u8, 111u8, 110u8, 99u8, 101u8, 95u8, 76u8, 101u8, 110u8, 103u8, 116u8, 104u8] } // "VMess Header AEAD Nonce_Length"
pub open spec fn lbl_hdr_key() -> Seq<u8> { seq![86u8, 77u8, 101u8, 115u8, 115u8, 32u8, 72u8, 101u8, 97u8, 100u8, 101u8, 114u8, 32u8, 65u8, 69u8, 65u8, 68u8, 32u8, 75u8, 101u8, 121u8] } // "VMess Header AEAD Key"
pub open spec fn lbl_hdr_iv() -> Seq<u8> { seq![86u8, 77u8, 101u8, 115u8, 115u8, 32u8, 72u8, 101u8, 97u8, 100u8, 101u8, 114u8, 32u8, 65u8, 69u8, 65u8, 68u8, 32u8, 78u8, 111u8, 110u8, 99u8, 101u8] } // "VMess Header AEAD Nonce"
pub open spec fn lbl_resp_len_key() -> Seq<u8> { seq![65u8, 69u8, 65u8, 68u8, 32u8, 82u8, 101u8, 115u8, 112u8, 32u8, 72u8, 101u8, 97u8, 100u8, 101u8, 114u8, 32u8, 76u8, 101u8, 110u8, 32u8, 75u8, 101u8, 121u8] } // "AEAD Resp Header Len Key"
pub open spec fn lbl_resp_len_iv() -> Seq<u8> { seq![65u8, 69u8, 65u8, 68u8, 32u8, 82u8, 101u8, 115u8, 112u8, 32u8, 72u8, 101u8, 97u8, 100u8, 101u8, 114u8, 32u8, 76u8, 101u8, 110u8, 32u8, 73u8, 86u8] } // "AEAD Resp Header Len IV"
pub open spec fn lbl_resp_key() -> Seq<u8> { seq![65u8, 69u8, 65u8, 68u8, 32u8, 82u8, 101u8, 115u8, 112u8, 32u8, 72u8, 101u8, 97u8, 100u8, 101u8, 114u8, 32u8, 75u8, 101u8, 121u8] } // "AEAD Resp Header Key"
pub open spec fn lbl_resp_iv() -> Seq<u8> { seq![65u8, 69u8, 65u8, 68u8, 32u8, 82u8, 101u8, 115u8, 112u8, 32u8, 72u8, 101u8, 97u8, 100u8, 101u8, 114u8, 32u8, 73u8, 86u8] } // "AEAD Resp Header IV"

/// FNV-1a, 32 bit (offset basis 2166136261, prime 16777619)
pub open spec fn fnv1a32_spec(s: Seq<u8>) -> u32
    decreases s.len()
{
    if s.len() == 0 { 2166136261u32 } else { (((fnv1a32_spec(s.drop_last()) ^ (s.last() as u32)) as int * 16777619) % 0x1_0000_0000) as u32 }
}

pub open spec fn authid_key(cmd_key: Seq<u8>) -> Seq<u8> { vkdf(cmd_key, seq![lbl_authid()]).take(16) }
/// the acceptance test of an auth id's plaintext at clock value `now` (as the code computes it: CRC-32 over the first 12 bytes, 120 s window)
pub open spec fn authid_plain_ok(p: Seq<u8>, now: i64) -> bool {
    &&& p.len() == 16
    &&& nat_i32(be_val(p.skip(12))) == (crc32_spec(p.take(12)) as i32)
    &&& ({ let t = nat_i64(be_val(p.take(8))); (if t >= now { t - now } else { now - t }) <= 120 })
}
pub open spec fn authid_ok(cmd_key: Seq<u8>, authid: Seq<u8>, now: i64) -> bool {
    authid_plain_ok(aes_ecb_dec(128, authid_key(cmd_key), authid), now)
}

pub enum VHdr { Wait, Bad, Done(Seq<u8>, nat) }
pub open spec fn vh_key(cmd_key: Seq<u8>, label: Seq<u8>, aid: Seq<u8>, nonce: Seq<u8>) -> Seq<u8> { vkdf(cmd_key, seq![label, aid, nonce]).take(16) }
pub open spec fn vh_iv(cmd_key: Seq<u8>, label: Seq<u8>, aid: Seq<u8>, nonce: Seq<u8>) -> Seq<u8> { vkdf(cmd_key, seq![label, aid, nonce]).take(12) }
/// opening a sealed request header at the front of `s`
pub open spec fn vhdr_parse(cmd_key: Seq<u8>, s: Seq<u8>) -> VHdr {
    if s.len() < 16 + 18 + 8 + 16 { VHdr::Wait } else {
        let aid = s.subrange(0, 16);
        let lenc = s.subrange(16, 34);
        let nonce = s.subrange(34, 42);
        match aead_open(0, vh_key(cmd_key, lbl_len_key(), aid, nonce), vh_iv(cmd_key, lbl_len_iv(), aid, nonce), aid, lenc) {
            None => VHdr::Bad,
            Some(lb) => {
                let len = be_val(lb);
                if s.len() - 42 < len + 16 { VHdr::Wait } else {
                    match aead_open(0, vh_key(cmd_key, lbl_hdr_key(), aid, nonce), vh_iv(cmd_key, lbl_hdr_iv(), aid, nonce), aid, s.subrange(42, (42 + len + 16) as int)) {
                        None => VHdr::Bad,
                        Some(h) => VHdr::Done(h, (42 + len + 16) as nat),
                    }
                }
            }
        }
    }
}
/// the layout seal_header produces for `header` under `cmd_key` (auth id and connection nonce are fresh per call)
pub open spec fn vhdr_sealed(cmd_key: Seq<u8>, header: Seq<u8>, w: Seq<u8>) -> bool {
    let aid = w.subrange(0, 16);
    let nonce = w.subrange(34, 42);
    &&& w.len() == 16 + 18 + 8 + header.len() + 16
    &&& w.subrange(16, 34) == aead_seal(0, vh_key(cmd_key, lbl_len_key(), aid, nonce), vh_iv(cmd_key, lbl_len_iv(), aid, nonce), aid, be_bytes(header.len(), 2))
    &&& w.subrange(42, w.len() as int) == aead_seal(0, vh_key(cmd_key, lbl_hdr_key(), aid, nonce), vh_iv(cmd_key, lbl_hdr_iv(), aid, nonce), aid, header)
}
