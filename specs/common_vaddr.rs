// ---- specs/common_vaddr.rs : VMess address layout (V2Fly VMess "Command section": port(2) | type(1) | address) ----
pub open spec fn encv(v: AddrV) -> Seq<u8> {
    match v {
        AddrV::Dom(n, p) => be_bytes(p as nat, 2) + seq![2u8, n.len() as u8] + n,
        AddrV::V4(o, p) => be_bytes(p as nat, 2) + seq![1u8] + o,
        AddrV::V6(o, p) => be_bytes(p as nat, 2) + seq![3u8] + o,
    }
}
pub open spec fn parsev(s: Seq<u8>) -> Option<(AddrV, nat)> {
    if s.len() < 3 { None } else {
        let p = be_val(s.subrange(0, 2)) as u16;
        if s[2] == 1 { if s.len() < 7 { None } else { Some((AddrV::V4(s.subrange(3, 7), p), 7nat)) } }
        else if s[2] == 3 { if s.len() < 19 { None } else { Some((AddrV::V6(s.subrange(3, 19), p), 19nat)) } }
        else if s[2] == 2 {
            if s.len() < 4 || s.len() < 4 + s[3] { None } else {
                let l = s[3] as int;
                if is_utf8(s.subrange(4, 4 + l)) { Some((AddrV::Dom(s.subrange(4, 4 + l), p), (4 + l) as nat)) } else { None }
            }
        } else { None }
    }
}
//#C14
/// C14 (VMess encoding): every representable address is read back identically and occupies exactly its own bytes
pub proof fn lemma_addrv_roundtrip(v: AddrV, tail: Seq<u8>)
    requires addr_valid(v)
    ensures parsev(encv(v) + tail) == Some((v, encv(v).len())),
{
    let s = encv(v) + tail;
    lemma_pow256_vals();
    match v {
        AddrV::Dom(n, p) => {
            let l = n.len() as int;
            lemma_be_bytes_len(p as nat, 2);
            lemma_be_roundtrip(p as nat, 2);
            assert(s.subrange(0, 2) =~= be_bytes(p as nat, 2));
            assert(s[2] == 2 && s[3] == l);
            assert(s.subrange(4, 4 + l) =~= n);
        }
        AddrV::V4(o, p) => {
            lemma_be_bytes_len(p as nat, 2);
            lemma_be_roundtrip(p as nat, 2);
            assert(s.subrange(0, 2) =~= be_bytes(p as nat, 2));
            assert(s[2] == 1);
            assert(s.subrange(3, 7) =~= o);
        }
        AddrV::V6(o, p) => {
            lemma_be_bytes_len(p as nat, 2);
            lemma_be_roundtrip(p as nat, 2);
            assert(s.subrange(0, 2) =~= be_bytes(p as nat, 2));
            assert(s[2] == 3);
            assert(s.subrange(3, 19) =~= o);
        }
    }
}
