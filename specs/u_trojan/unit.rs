// u_trojan -- Trojan server and client codecs under contract (C06, C07, C04, C03, C02, C01)
#![feature(sized_hierarchy, const_destruct)]   // names core::marker::PointeeSized in the external specification of AsRef
use vstd::prelude::*;
verus! {
global size_of usize == 8;   // ASSUMPTION: 64-bit target
pub mod shim {
use vstd::prelude::*;
//@include ../../shims/prelude.rs
//@include ../../shims/bytes.rs
//@include ../../shims/net.rs
//@include ../../shims/misc.rs
}
use shim::*;
pub mod specs {
use vstd::prelude::*;
use super::shim::*;
//@include ../common_addr.rs
}
use specs::*;
use anyhow::Result;
use core::marker::PhantomData;
use std::collections::HashMap;
type DatagramPacket = (BytesMut, Address);
broadcast use axiom_v4_len, axiom_v6_len, axiom_string_utf8, axiom_ascii_utf8, axiom_unhex_len;
//@include ../parts/addr.rs
//@include ../parts/trojan.rs
//@include ../parts/config.rs
//@include ../parts/tjkeys.rs
//@include ../parts/srvmain.rs
} // verus!
fn main() {}
