

//@@ octo-squirrel/src/protocol/address.rs:9-13  enum Address  sha=d701f69e752e0952
#[derive(PartialEq, Eq)]
pub enum Address {
    Domain(String, u16),
    Socket(SocketAddr),
}

//@@ octo-squirrel/src/protocol/address.rs:56-60  impl From for Address  sha=3ef1d03c02fbf299
impl From<SocketAddr> for Address {
    fn from(value: SocketAddr) -> Self {
        Address::Socket(value)
    }
}

//@@ octo-squirrel/src/protocol/socks5.rs:9-9  const VERSION  sha=31c82d410f6df766
const VERSION: u8 = 5;

//@@ octo-squirrel/src/protocol/socks5.rs:11-15  enum Socks5CommandStatus  sha=a67902fd29d73d0f
#[derive(PartialEq, Eq, Clone, Copy)]
pub enum Socks5CommandStatus {
    Success,
    Failure,
}

//@@ octo-squirrel/src/protocol/socks5.rs:17-29  impl TryFrom for Socks5CommandStatus  sha=fd0d55fe4da0bd20
impl TryFrom<u8> for Socks5CommandStatus {
    type Error = anyhow::Error;

    fn try_from(value: u8) -> Result<Self, Self::Error> {
        if Self::Success as u8 == value {
            Ok(Self::Success)
        } else if Self::Failure as u8 == value {
            Ok(Self::Failure)
        } else {
            return Err(verif_err());
        }
    }
}

//@@ octo-squirrel/src/protocol/socks5.rs:31-36  enum Socks5AddressType  sha=6571f459743d9f1b
#[derive(PartialEq, Eq, Clone, Copy)]
pub enum Socks5AddressType {
    Ipv4 = 1,
    Domain = 3,
    Ipv6 = 4,
}

//@@ octo-squirrel/src/protocol/socks5.rs:38-52  impl TryFrom for Socks5AddressType  sha=a2da60cfb209176f
impl TryFrom<u8> for Socks5AddressType {
    type Error = anyhow::Error;

    fn try_from(value: u8) -> Result<Self, Self::Error> {
        if Self::Ipv4 as u8 == value {
            Ok(Self::Ipv4)
        } else if Self::Domain as u8 == value {
            Ok(Self::Domain)
        } else if Self::Ipv6 as u8 == value {
            Ok(Self::Ipv6)
        } else {
            return Err(verif_err());
        }
    }
}

//@@ octo-squirrel/src/protocol/socks5.rs:54-59  enum Socks5CommandType  sha=dc476d448b8347ac
#[derive(PartialEq, Copy, Clone)]
pub enum Socks5CommandType {
    Connect = 1,
    Bind = 2,
    UdpAssociate = 3,
}

//@@ octo-squirrel/src/protocol/socks5.rs:61-73  impl Socks5CommandType  sha=c537aa93435591bf
impl Socks5CommandType {
    fn new(byte: u8) -> Result<Self> {
        if Self::Connect as u8 == byte {
            Ok(Self::Connect)
        } else if Self::Bind as u8 == byte {
            Ok(Self::Bind)
        } else if Self::UdpAssociate as u8 == byte {
            Ok(Self::UdpAssociate)
        } else {
            return Err(verif_err());
        }
    }
}

//@@ octo-squirrel/src/protocol/socks5.rs:75-81  enum Socks5AuthMethod  sha=6d6099cb2a681b28
#[derive(PartialEq, Eq, Clone, Copy)]
pub enum Socks5AuthMethod {
    NoAuth,
    Gssapi,
    Password,
    Unaccepted = 255,
}

//@@ octo-squirrel/src/protocol/socks5.rs:83-97  impl Socks5AuthMethod  sha=d8a72e4c7070a4ae
impl Socks5AuthMethod {
    fn new(byte: u8) -> Result<Self> {
        if Self::NoAuth as u8 == byte {
            Ok(Self::NoAuth)
        } else if Self::Gssapi as u8 == byte {
            Ok(Self::Gssapi)
        } else if Self::Password as u8 == byte {
            Ok(Self::Password)
        } else if Self::Unaccepted as u8 == byte {
            Ok(Self::Unaccepted)
        } else {
            return Err(verif_err())
        }
    }
}

//@@ octo-squirrel/src/protocol/socks5/address.rs:16-35  fn encode  sha=2d4531094da3eeb9
fn address__encode(addr: &Address, dst: &mut BytesMut) {
    match addr {
        Address::Domain(host, port) => {
            dst.put_u8(Socks5AddressType::Domain as u8);
            dst.put_u8(host.len() as u8);
            dst.extend_from_slice(host.as_bytes());
            dst.put_u16(*port);
        }
        Address::Socket(SocketAddr::V4(v4)) => {
            dst.put_u8(Socks5AddressType::Ipv4 as u8);
            dst.extend_from_slice(&v4.ip().octets());
            dst.put_u16(v4.port());
        }
        Address::Socket(SocketAddr::V6(v6)) => {
            dst.put_u8(Socks5AddressType::Ipv6 as u8);
            dst.extend_from_slice(&v6.ip().octets());
            dst.put_u16(v6.port())
        }
    }
}

//@@ octo-squirrel/src/protocol/socks5/address.rs:37-71  fn decode  sha=288a7ff43f0bf184
fn address__decode(src: &mut BytesMut) -> Result<Address> {
    if !src.has_remaining() {
        return Err(verif_err());
    }
    let addr_type = Socks5AddressType::try_from(src.get_u8())?;
    match addr_type {
        Socks5AddressType::Ipv4 => {
            if src.remaining() < 4 + 2 {
                return Err(verif_err());
            }
            let ip_v4 = Ipv4Addr::from(src.get_u32());
            Ok(Address::Socket(SocketAddr::V4(SocketAddrV4::new(ip_v4, src.get_u16()))))
        }
        Socks5AddressType::Domain => {
            if !src.has_remaining() {
                return Err(verif_err());
            }
            let len = src.get_u8();
            if src.remaining() < len as usize + 2 {
                return Err(verif_err());
            }
            let host_bytes = src.split_to(len as usize);
            let port = src.get_u16();
            let host = String::from_utf8(host_bytes.to_vec())?;
            Ok(Address::Domain(host, port))
        }
        Socks5AddressType::Ipv6 => {
            if src.remaining() < 16 + 2 {
                return Err(verif_err());
            }
            let ip_v6 = Ipv6Addr::from(src.get_u128());
            Ok(Address::Socket(SocketAddr::V6(SocketAddrV6::new(ip_v6, src.get_u16(), 0, 0))))
        }
    }
}

//@@ octo-squirrel/src/protocol/socks5/address.rs:73-81  fn length  sha=1ce35ec20bf8da66
fn address__length(addr: &Address) -> usize {
    match addr {
        Address::Domain(host, _) => 1 + 1 + host.len() + 2,
        Address::Socket(socket_addr) => match socket_addr {
            SocketAddr::V4(_) => 1 + 4 + 2,
            SocketAddr::V6(_) => 1 + 8 * 2 + 2,
        },
    }
}

//@@ octo-squirrel/src/protocol/socks5/address.rs:83-89  fn try_decode_at  sha=5ccf7be5a6d37f47
fn address__try_decode_at(src: &BytesMut, at: usize) -> Result<usize> {
    match Socks5AddressType::try_from(src[at])? {
        Socks5AddressType::Ipv4 => Ok(1 + 4 + 2),
        Socks5AddressType::Domain => Ok(1 + 1 + src[at + 1] as usize + 2),
        Socks5AddressType::Ipv6 => Ok(1 + 8 * 2 + 2),
    }
}

//@@ octo-squirrel/src/protocol/socks5/message.rs:15-17  struct Socks5InitialRequest  sha=1f38e54f5ce6f2db
pub struct Socks5InitialRequest {
    auth_methods: Vec<Socks5AuthMethod>,
}

//@@ octo-squirrel/src/protocol/socks5/message.rs:19-23  impl Socks5InitialRequest  sha=66b70fecd4f00ef9
impl Socks5InitialRequest {
    fn new(auth_methods: Vec<Socks5AuthMethod>) -> Self {
        Socks5InitialRequest { auth_methods }
    }
}

//@@ octo-squirrel/src/protocol/socks5/message.rs:24-32  impl Socks5Message for Socks5InitialRequest  sha=058dad5f7f457d1d
impl Socks5InitialRequest {
    fn encode(&mut self, dst: &mut BytesMut) {
        dst.put_u8(VERSION);
        dst.put_u8(self.auth_methods.len() as u8);
        for auth_method in self.auth_methods.iter() {
            dst.put_u8(*auth_method as u8);
        }
    }
}

//@@ octo-squirrel/src/protocol/socks5/message.rs:34-36  struct Socks5InitialResponse  sha=a0c0c6134306fe8c
pub struct Socks5InitialResponse {
    pub auth_method: Socks5AuthMethod,
}

//@@ octo-squirrel/src/protocol/socks5/message.rs:38-42  impl Socks5InitialResponse  sha=7a6280ab6a32c0a3
impl Socks5InitialResponse {
    fn new(auth_method: Socks5AuthMethod) -> Self {
        Self { auth_method }
    }
}

//@@ octo-squirrel/src/protocol/socks5/message.rs:44-49  impl Socks5Message for Socks5InitialResponse  sha=8dd6279b740c0a99
impl Socks5InitialResponse {
    fn encode(&mut self, dst: &mut BytesMut) {
        dst.put_u8(VERSION);
        dst.put_u8(self.auth_method as u8);
    }
}

//@@ octo-squirrel/src/protocol/socks5/message.rs:51-55  struct Socks5CommandRequest  sha=130272c42a34f604
#[derive(PartialEq, Clone)]
pub struct Socks5CommandRequest {
    pub command_type: Socks5CommandType,
    pub dst_addr: Address,
}

//@@ octo-squirrel/src/protocol/socks5/message.rs:57-61  impl Socks5CommandRequest  sha=1349fbb1a81b1852
impl Socks5CommandRequest {
    fn new(command_type: Socks5CommandType, dst_addr: Address) -> Self {
        Self { command_type, dst_addr }
    }
}

//@@ octo-squirrel/src/protocol/socks5/message.rs:63-70  impl Socks5Message for Socks5CommandRequest  sha=f6e234156e560fc6
impl Socks5CommandRequest {
    fn encode(&mut self, dst: &mut BytesMut) {
        dst.put_u8(VERSION);
        dst.put_u8(self.command_type as u8);
        dst.put_u8(0);
        address__encode(&self.dst_addr, dst);
    }
}

//@@ octo-squirrel/src/protocol/socks5/message.rs:72-75  struct Socks5CommandResponse  sha=1824c387399e2856
pub struct Socks5CommandResponse {
    pub command_status: Socks5CommandStatus,
    pub bnd_addr: Address,
}

//@@ octo-squirrel/src/protocol/socks5/message.rs:77-84  impl Socks5Message for Socks5CommandResponse  sha=ebab27fe779588e9
impl Socks5CommandResponse {
    fn encode(&mut self, dst: &mut BytesMut) {
        dst.put_u8(VERSION);
        dst.put_u8(self.command_status as u8);
        dst.put_u8(0x00);
        address__encode(&self.bnd_addr, dst);
    }
}

//@@ octo-squirrel/src/protocol/socks5/message.rs:86-90  impl Socks5CommandResponse  sha=27aec98fbb40980e
impl Socks5CommandResponse {
    fn new(command_status: Socks5CommandStatus, bnd_addr: Address) -> Self {
        Self { command_status, bnd_addr }
    }
}

//@@ octo-squirrel/src/protocol/socks5/codec.rs:42-42  struct Socks5InitialRequestDecoder  sha=afb7b11cbafe5eb2
pub struct Socks5InitialRequestDecoder;

//@@ octo-squirrel/src/protocol/socks5/codec.rs:44-64  impl Decoder for Socks5InitialRequestDecoder  sha=728eea90ebc48856
impl Socks5InitialRequestDecoder {

    fn decode(&mut self, src: &mut BytesMut) -> Result<Option<Socks5InitialRequest>> {
        if src.remaining() < 2 || src.remaining() < 2 + src[1] as usize {
            return Ok(None);
        }
        let version = src.get_u8();
        if VERSION != version {
            return Err(verif_err());
        }
        let count = src.get_u8() as usize;
        let mut auth_methods = Vec::with_capacity(count);
        for _ in 0..count {
            auth_methods.push(Socks5AuthMethod::new(src.get_u8())?);
        }
        Ok(Some(Socks5InitialRequest::new(auth_methods)))
    }
}

//@@ octo-squirrel/src/protocol/socks5/codec.rs:66-66  struct Socks5CommandRequestDecoder  sha=d53c7fcfd58b0c29
pub struct Socks5CommandRequestDecoder;

//@@ octo-squirrel/src/protocol/socks5/codec.rs:68-86  impl Decoder for Socks5CommandRequestDecoder  sha=0cf4f3ed562e5442
impl Socks5CommandRequestDecoder {

    fn decode(&mut self, src: &mut BytesMut) -> Result<Option<Socks5CommandRequest>> {
        if src.remaining() < 5 || src.remaining() < 3 + address__try_decode_at(src, 3)? {
            return Ok(None);
        }
        let version = src.get_u8();
        if VERSION != version {
            return Err(verif_err());
        }
        let command_type = Socks5CommandType::new(src.get_u8())?;
        src.advance(1); // Reserved
        let addr = address__decode(src)?;
        Ok(Some(Socks5CommandRequest::new(command_type, addr)))
    }
}

//@@ octo-squirrel/src/protocol/socks5/codec.rs:88-88  struct Socks5InitialResponseDecoder  sha=c052d73bb6a96e4f
pub struct Socks5InitialResponseDecoder;

//@@ octo-squirrel/src/protocol/socks5/codec.rs:90-105  impl Decoder for Socks5InitialResponseDecoder  sha=11560866b116d94f
impl Socks5InitialResponseDecoder {

    fn decode(&mut self, src: &mut BytesMut) -> Result<Option<Socks5InitialResponse>, anyhow::Error> {
        if src.remaining() < 2 {
            return Ok(None);
        }
        let version = src.get_u8();
        if VERSION != version {
            return Err(verif_err());
        }
        Ok(Some(Socks5InitialResponse::new(Socks5AuthMethod::new(src.get_u8())?)))
    }
}

//@@ octo-squirrel/src/protocol/socks5/codec.rs:107-107  struct Socks5CommandResponseDecoder  sha=70bbae6b1f6a9f5e
pub struct Socks5CommandResponseDecoder;

//@@ octo-squirrel/src/protocol/socks5/codec.rs:109-127  impl Decoder for Socks5CommandResponseDecoder  sha=856e5fee1ca728c7
impl Socks5CommandResponseDecoder {

    fn decode(&mut self, src: &mut BytesMut) -> Result<Option<Socks5CommandResponse>> {
        if src.remaining() < 5 || src.remaining() < 3 + address__try_decode_at(src, 3)? {
            return Ok(None);
        }
        let version = src.get_u8();
        if VERSION != version {
            return Err(verif_err());
        }
        let command_status = Socks5CommandStatus::try_from(src.get_u8())?;
        src.advance(1); // Reserved
        let addr = address__decode(src)?;
        Ok(Some(Socks5CommandResponse::new(command_status, addr)))
    }
}

//@@ octo-squirrel/src/protocol/socks5/codec.rs:129-129  struct Socks5UdpCodec  sha=0d7428243bf68631
pub struct Socks5UdpCodec;

//@@ octo-squirrel/src/protocol/socks5/codec.rs:131-150  impl Decoder for Socks5UdpCodec  sha=d32cc3de6bd24cdb
impl Socks5UdpCodec {

    fn decode(&mut self, src: &mut BytesMut) -> Result<Option<DatagramPacket>, anyhow::Error> {
        if src.is_empty() {
            return Ok(None);
        }
        if src.remaining() < 5 {
            return Err(verif_err());
        }
        if src[2] != 0 {
            return Err(verif_err());
        }
        src.advance(3);
        let recipient = address__decode(src)?;
        Ok(Some((src.split_off(0), recipient)))
    }
}

//@@ octo-squirrel/src/protocol/socks5/codec.rs:152-161  impl Encoder for Socks5UdpCodec  sha=cfd7b2faecfc9eac
impl Socks5UdpCodec {

    fn encode(&mut self, item: DatagramPacket, dst: &mut BytesMut) -> Result<(), anyhow::Error> {
        dst.extend_from_slice(&[0, 0, 0]); // Fragment
        address__encode(&item.1, dst);
        dst.extend_from_slice(&item.0);
        Ok(())
    }
}

//@@ octo-squirrel/src/protocol/trojan.rs:1-1  const CR_LF  sha=f2a5803f82cdf8c3
pub const trojan__CR_LF: [u8; 2] = [b'\r', b'\n'];

//@@ octo-squirrel-server/src/server/template.rs:39-43  mod message / enum InboundIn  sha=900b92278fa20e17
pub enum InboundIn {
        ConnectTcp(BytesMut, Address),
        RelayTcp(BytesMut),
        RelayUdp(BytesMut, Address),
    }

//@@ octo-squirrel-server/src/server/template.rs:71-74  mod message / enum OutboundIn  sha=8f4f430e0a7dd220
pub enum OutboundIn {
        Tcp(BytesMut),
        Udp((BytesMut, SocketAddr)),
    }

//@@ octo-squirrel-server/src/server/trojan.rs:21-25  enum CodecState  sha=52f8677631f80f4f
enum tsrv__CodecState {
    Header,
    Tcp,
    Udp,
}

//@@ octo-squirrel-server/src/server/trojan.rs:34-37  struct ServerCodec  sha=61ce21a1ab78a528
pub struct ServerCodec {
    key: [u8; 28],
    state: tsrv__CodecState,
}

//@@ octo-squirrel-server/src/server/trojan.rs:39-58  impl ServerCodec  sha=cfdf21128a6c52d3
impl ServerCodec {
    fn decode_packet(&mut self, src: &mut BytesMut) -> Result<Option<InboundIn>, anyhow::Error> {
        // address | length | CRLF | payload: wait until the whole frame is buffered
        if src.remaining() < 2 {
            return Ok(None);
        }
        let addr_len = address__try_decode_at(src, 0)?;
        if src.remaining() < addr_len + 2 + trojan__CR_LF.len() {
            return Ok(None);
        }
        let len = u16::v_from_be_bytes([src[addr_len], src[addr_len + 1]]) as usize;
        if src.remaining() < addr_len + 2 + trojan__CR_LF.len() + len {
            return Ok(None);
        }
        let peer_addr = address__decode(src)?;
        let len = src.get_u16();
        src.advance(trojan__CR_LF.len());
        Ok(Some(InboundIn::RelayUdp(src.split_to(len as usize), peer_addr)))
    }
}

//@@ octo-squirrel-server/src/server/trojan.rs:60-110  impl Decoder for ServerCodec  sha=e5771ace6120efe9
impl ServerCodec {

    fn decode(&mut self, src: &mut BytesMut) -> Result<Option<InboundIn>, anyhow::Error> {
        if !src.has_remaining() {
            return Ok(None);
        }
        match self.state {
            tsrv__CodecState::Header => {
                if src.remaining() < 61 || src.remaining() < 59 + address__try_decode_at(src, 59)? + trojan__CR_LF.len() {
                    return Ok(None);
                }
                if src[56] != b'\r' || !src[..56].is_ascii() {
                    return Err(verif_err());
                }
                let key = src.split_to(56);
                let key = hex__decode(unsafe { str::from_utf8_unchecked(&key) })?;
                if self.key != key[..self.key.len()] {
                    return Err(verif_err())
                }
                src.advance(trojan__CR_LF.len());
                let command = Socks5CommandType::new(src.get_u8())?;
                let address = address__decode(src)?;
                src.advance(trojan__CR_LF.len());
                match command {
                    Socks5CommandType::Connect => {
                        self.state = tsrv__CodecState::Tcp;
                        let remaining = src.remaining();
                        Ok(Some(InboundIn::ConnectTcp(src.split_to(remaining), address)))
                    }
                    Socks5CommandType::UdpAssociate => {
                        self.state = tsrv__CodecState::Udp;
                        self.decode_packet(src)
                    }
                    _ => return Err(verif_err()),
                }
            }
            tsrv__CodecState::Tcp => {
                if src.is_empty() {
                    Ok(None)
                } else {
                    let len = src.len();
                    Ok(Some(InboundIn::RelayTcp(src.split_to(len))))
                }
            }
            tsrv__CodecState::Udp => self.decode_packet(src),
        }
    }
}

//@@ octo-squirrel-server/src/server/trojan.rs:112-130  impl Encoder for ServerCodec  sha=527bce550b7dfbfa
impl ServerCodec {

    fn encode(&mut self, item: OutboundIn, dst: &mut BytesMut) -> Result<(), anyhow::Error> {
        match item {
            OutboundIn::Tcp(item) => {
                dst.extend_from_slice(&item);
                Ok(())
            }
            OutboundIn::Udp((content, addr)) => {
                address__encode(&addr.into(), dst);
                dst.put_u16(content.len() as u16);
                dst.extend_from_slice(&trojan__CR_LF);
                dst.extend_from_slice(&content);
                Ok(())
            }
        }
    }
}

//@@ octo-squirrel-client/src/client/trojan.rs:1-4  enum CodecState  sha=b38d7a0909ffd338
enum tcli__CodecState {
    Header,
    Body,
}

//@@ octo-squirrel-client/src/client/trojan.rs:25-30  mod tcp / struct ClientCodec  sha=b1cc0c200a7a04e0
pub struct ttcp__ClientCodec {
        key: [u8; 56],
        command: u8,
        address: Address,
        status: tcli__CodecState,
    }

//@@ octo-squirrel-client/src/client/trojan.rs:43-58  mod tcp / impl Encoder for ClientCodec  sha=d9c731f67d8aa081
impl ttcp__ClientCodec {

        fn encode(&mut self, item: BytesMut, dst: &mut BytesMut) -> Result<(), anyhow::Error> {
            if matches!(self.status, tcli__CodecState::Header) {
                dst.extend_from_slice(&self.key);
                dst.extend_from_slice(&trojan__CR_LF);
                dst.put_u8(self.command);
                address__encode(&self.address, dst);
                dst.extend_from_slice(&trojan__CR_LF);
                self.status = tcli__CodecState::Body;
            }
            dst.extend_from_slice(&item);
            Ok(())
        }
    }

//@@ octo-squirrel-client/src/client/trojan.rs:60-73  mod tcp / impl Decoder for ClientCodec  sha=553984c2c188731e
impl ttcp__ClientCodec {

        fn decode(&mut self, src: &mut BytesMut) -> Result<Option<BytesMut>, anyhow::Error> {
            if !src.is_empty() {
                let len = src.len();
                Ok(Some(src.split_to(len)))
            } else {
                Ok(None)
            }
        }
    }

//@@ octo-squirrel-client/src/client/trojan.rs:105-107  mod udp / fn new_key  sha=b4c4ac410dcf9fd1
fn tudp__new_key(sender: SocketAddr, verif_arg2: &Address) -> SocketAddr {
        sender
    }

//@@ octo-squirrel-client/src/client/trojan.rs:131-134  mod udp / fn to_outbound_send  sha=9001b14d01abfe2d
fn tudp__to_outbound_send(item: DatagramPacket, verif_arg2: SocketAddr) -> DatagramPacket {
        let (content, target) = item;
        (content, target)
    }

//@@ octo-squirrel-client/src/client/trojan.rs:136-138  mod udp / fn to_inbound_recv  sha=692379f1eb5303e0
fn tudp__to_inbound_recv(item: DatagramPacket, verif_arg2: &Address, sender: SocketAddr) -> (DatagramPacket, SocketAddr) {
        (item, sender)
    }

//@@ octo-squirrel-client/src/client/trojan.rs:140-145  mod udp / struct ClientCodec  sha=b1cc0c200a7a04e0
pub struct tudp__ClientCodec {
        key: [u8; 56],
        command: u8,
        address: Address,
        status: tcli__CodecState,
    }

//@@ octo-squirrel-client/src/client/trojan.rs:158-178  mod udp / impl Encoder for ClientCodec  sha=36529651bfce168d
impl tudp__ClientCodec {

        fn encode(&mut self, item: DatagramPacket, dst: &mut BytesMut) -> Result<(), anyhow::Error> {
            if matches!(self.status, tcli__CodecState::Header) {
                dst.extend_from_slice(&self.key);
                dst.extend_from_slice(&trojan__CR_LF);
                dst.put_u8(self.command);
                address__encode(&self.address, dst);
                dst.extend_from_slice(&trojan__CR_LF);
                self.status = tcli__CodecState::Body;
            }
            let buffer = &mut BytesMut::new();
            address__encode(&item.1, buffer);
            buffer.put_u16(item.0.len() as u16);
            buffer.extend_from_slice(&trojan__CR_LF);
            buffer.extend_from_slice(&item.0);
            dst.extend_from_slice(buffer);
            Ok(())
        }
    }

//@@ octo-squirrel-client/src/client/trojan.rs:180-208  mod udp / impl Decoder for ClientCodec  sha=7976b3a2cbb88874
impl tudp__ClientCodec {

        fn decode(&mut self, src: &mut BytesMut) -> Result<Option<DatagramPacket>, anyhow::Error> {
            if !src.is_empty() {
                // address | length | CRLF | payload: wait until the whole frame is buffered
                if src.remaining() < 2 {
                    return Ok(None);
                }
                let addr_len = address__try_decode_at(src, 0)?;
                if src.remaining() < addr_len + 2 + trojan__CR_LF.len() {
                    return Ok(None);
                }
                let len = u16::v_from_be_bytes([src[addr_len], src[addr_len + 1]]) as usize;
                if src.remaining() < addr_len + 2 + trojan__CR_LF.len() + len {
                    return Ok(None);
                }
                let addr = address__decode(src)?;
                let len = src.get_u16();
                src.advance(trojan__CR_LF.len());
                let content = src.split_to(len as usize);
                Ok(Some((content, addr)))
            } else {
                Ok(None)
            }
        }
    }

//@@ octo-squirrel/src/config.rs:18-30  enum Mode  sha=957f62c1c01193ba
#[derive(Clone, Copy, PartialEq)]
pub enum cfg__Mode {
    Tcp,
    Udp,
    TcpAndUdp,
    Quic,
    TcpAndQuic,
}
spec fn serde_names__Mode(v: cfg__Mode) -> Seq<Seq<char>> {
    match v {
        cfg__Mode::Tcp => seq!["tcp"@],
        cfg__Mode::Udp => seq!["udp"@],
        cfg__Mode::TcpAndUdp => seq!["tcp_and_udp"@],
        cfg__Mode::Quic => seq!["quic"@],
        cfg__Mode::TcpAndQuic => seq!["tcp_and_quic"@],
    }
}
spec fn serde_other__Mode(v: cfg__Mode) -> bool {
    match v {
        cfg__Mode::Tcp => false,
        cfg__Mode::Udp => false,
        cfg__Mode::TcpAndUdp => false,
        cfg__Mode::Quic => false,
        cfg__Mode::TcpAndQuic => false,
    }
}

//@@ octo-squirrel/src/config.rs:32-44  impl Mode  sha=211fcf0f0c602cbb
impl cfg__Mode {
    fn enable_tcp(&self) -> bool {
        matches!(self, Self::Tcp | Self::TcpAndUdp | Self::TcpAndQuic)
    }

    fn enable_udp(&self) -> bool {
        matches!(self, Self::Udp | Self::TcpAndUdp)
    }

    fn enable_quic(&self) -> bool {
        matches!(self, Self::Quic | Self::TcpAndQuic)
    }
}

//@@ octo-squirrel/src/protocol.rs:14-20  enum Protocol  sha=f4fd8332bf4085d1
#[derive(PartialEq, Clone, Copy)]
pub enum Protocol {
    Shadowsocks,
    VMess,
    Trojan,
}
spec fn serde_names__Protocol(v: Protocol) -> Seq<Seq<char>> {
    match v {
        Protocol::Shadowsocks => seq!["shadowsocks"@],
        Protocol::VMess => seq!["vmess"@],
        Protocol::Trojan => seq!["trojan"@],
    }
}
spec fn serde_other__Protocol(v: Protocol) -> bool {
    match v {
        Protocol::Shadowsocks => false,
        Protocol::VMess => false,
        Protocol::Trojan => false,
    }
}

//@@ octo-squirrel/src/codec/aead.rs:124-142  enum CipherKind  sha=0afd87d0c4335287
#[derive(Default, Clone, Copy, PartialEq, Eq)]
pub enum cfgk__CipherKind {
    Aes128Gcm,
    Aes256Gcm,
    ChaCha20Poly1305,
    Aead2022Blake3Aes128Gcm,
    Aead2022Blake3Aes256Gcm,
    Aead2022Blake3ChaCha8Poly1305,
    Aead2022Blake3ChaCha20Poly1305,
    #[default]
    Unknown,
}
spec fn serde_names__CipherKind(v: cfgk__CipherKind) -> Seq<Seq<char>> {
    match v {
        cfgk__CipherKind::Aes128Gcm => seq!["aes-128-gcm"@],
        cfgk__CipherKind::Aes256Gcm => seq!["aes-256-gcm"@],
        cfgk__CipherKind::ChaCha20Poly1305 => seq!["chacha20-poly1305"@, "chacha20-ietf-poly1305"@],
        cfgk__CipherKind::Aead2022Blake3Aes128Gcm => seq!["2022-blake3-aes-128-gcm"@],
        cfgk__CipherKind::Aead2022Blake3Aes256Gcm => seq!["2022-blake3-aes-256-gcm"@],
        cfgk__CipherKind::Aead2022Blake3ChaCha8Poly1305 => seq!["2022-blake3-chacha8-poly1305"@],
        cfgk__CipherKind::Aead2022Blake3ChaCha20Poly1305 => seq!["2022-blake3-chacha20-poly1305"@],
        cfgk__CipherKind::Unknown => seq!["Unknown"@],
    }
}
spec fn serde_other__CipherKind(v: cfgk__CipherKind) -> bool {
    match v {
        cfgk__CipherKind::Aes128Gcm => false,
        cfgk__CipherKind::Aes256Gcm => false,
        cfgk__CipherKind::ChaCha20Poly1305 => false,
        cfgk__CipherKind::Aead2022Blake3Aes128Gcm => false,
        cfgk__CipherKind::Aead2022Blake3Aes256Gcm => false,
        cfgk__CipherKind::Aead2022Blake3ChaCha8Poly1305 => false,
        cfgk__CipherKind::Aead2022Blake3ChaCha20Poly1305 => false,
        cfgk__CipherKind::Unknown => false,
    }
}

//@@ octo-squirrel/src/config.rs:64-84  struct ServerConfig  sha=4a1981ff06f0d60b
pub struct ServerConfig<S: Clone + Default> {
    pub host: String,
    pub port: u16,
    pub mode: cfg__Mode,
    pub password: String,
    pub protocol: Protocol,
    pub cipher: cfgk__CipherKind,
    pub ssl: Option<S>,
    pub ws: Option<WebSocketConfig>,
    pub quic: Option<S>,
    pub user: Vec<User>,
    marker: PhantomData<S>,
}

//@@ octo-squirrel/src/config.rs:92-98  struct WebSocketConfig  sha=f6c7c5e2c14b9f62
pub struct WebSocketConfig {
    pub header: HashMap<String, String>,
    pub path: String,
}

//@@ octo-squirrel/src/config.rs:100-104  struct User  sha=bb2d5e07d1c8ea18
pub struct User {
    pub name: String,
    pub password: String,
}

//@@ octo-squirrel-server/src/server/config.rs:9-17  struct SslConfig  sha=e1273042d9ebfa96
#[derive(Default, Clone)]
pub struct SslConfig {
    pub certificate_file: String,
    pub key_file: String,
    pub server_name: String,
}

//@@ octo-squirrel-server/src/server/trojan.rs:27-32  fn new_codec  sha=617103c6dd0c7af4
fn new_codec(config: &ServerConfig<SslConfig>) -> anyhow::Result<ServerCodec> {
    let mut hasher = Sha224::new();
    hasher.update(config.password.as_bytes());
    let key = hasher.finalize().into();
    Ok(ServerCodec { key, state: tsrv__CodecState::Header })
}

//@@ octo-squirrel-client/src/client/trojan.rs:21-23  mod tcp / fn new_codec  sha=e3d1947347924cdf
fn ttcp__new_codec(addr: &Address, password: String) -> anyhow::Result<ttcp__ClientCodec> {
        Ok(ttcp__ClientCodec::new(password.as_bytes(), Socks5CommandType::Connect as u8, addr.clone()))
    }

//@@ octo-squirrel-client/src/client/trojan.rs:32-41  mod tcp / impl ClientCodec  sha=17df0e32247b70ad
impl ttcp__ClientCodec {
        fn new(password: &[u8], command: u8, address: Address) -> Self {
            let mut hasher = Sha224::new();
            hasher.update(password);
            let hash: [u8; 28] = hasher.finalize().into();
            let mut key: [u8; 56] = [0; 56];
            key.copy_from_slice(hex__encode(&hash).as_bytes());
            Self { key, command, address, status: tcli__CodecState::Header }
        }
    }

//@@ octo-squirrel-client/src/client/trojan.rs:147-156  mod udp / impl ClientCodec  sha=17df0e32247b70ad
impl tudp__ClientCodec {
        fn new(password: &[u8], command: u8, address: Address) -> Self {
            let mut hasher = Sha224::new();
            hasher.update(password);
            let hash: [u8; 28] = hasher.finalize().into();
            let mut key: [u8; 56] = [0; 56];
            key.copy_from_slice(hex__encode(&hash).as_bytes());
            Self { key, command, address, status: tcli__CodecState::Header }
        }
    }

//@@ octo-squirrel/src/config.rs:86-90  impl AsRef for ServerConfig  sha=753d283322902a38
impl<S: Clone + Default> AsRef<ServerConfig<S>> for ServerConfig<S> {
    fn as_ref(&self) -> &ServerConfig<S> {
        self
    }
}

//@@ octo-squirrel-server/src/server.rs:42-53  fn startup  sha=5b558bb3076fb7ad
fn startup(config: ServerConfig<SslConfig>, Tracked(vlog): Tracked<&mut SrvLog>) {
    match config.protocol {
        Protocol::Shadowsocks => sssrv__startup(&config, Tracked(vlog)),
        Protocol::VMess => {
            merge_result((startup_quic(&config, &config, vmesssrv__new_codec, Tracked(vlog)), startup_tcp(&config, &config, vmesssrv__new_codec, Tracked(vlog))))
        }
        Protocol::Trojan => {
            merge_result((startup_quic(&config, &config, new_codec, Tracked(vlog)), startup_tcp(&config, &config, new_codec, Tracked(vlog))))
        }
    }
    .unwrap_or_else(|e| ());
}

//@@ octo-squirrel-server/src/server.rs:55-62  fn merge_result  sha=a0f375a4cf253389
fn merge_result(res: (anyhow::Result<()>, anyhow::Result<()>)) -> anyhow::Result<()> {
    match res {
        (Ok(_), Ok(_)) => Ok(()),
        (Ok(_), Err(e)) => Err(verif_err()),
        (Err(e), Ok(_)) => Err(verif_err()),
        (Err(e1), Err(e2)) => Err(verif_err()),
    }
}

//@@ octo-squirrel-server/src/server.rs:64-111  fn startup_tcp  sha=0eef38f9525dd39f
fn startup_tcp<RefContext, Context, NewCodec, Codec>(
    context: RefContext,
    config: &ServerConfig<SslConfig>,
    new_codec: NewCodec,Tracked(vlog): Tracked<&mut SrvLog>
) -> anyhow::Result<()>
where
    RefContext: AsRef<Context>,
    NewCodec: FnOnce(&Context) -> anyhow::Result<Codec> + Copy + Send + Sync + 'static,
    Codec: Encoder<OutboundIn, Error = anyhow::Error>
        + Decoder<Item = InboundIn, Error = anyhow::Error>
        + Send
        + 'static,
{
    let listener = TcpListener::bind(verif_host_port(&(config.host), config.port), Tracked(vlog))?;
    /*R2*/
    match (&config.ssl, &config.ws) {
        (None, ws_config) => {
            while let Ok((inbound, _)) = listener.accept(Tracked(vlog)) {
                if ws_config.is_some() {
                    tokio::spawn(tmpltcp__accept_websocket_then_replay(inbound, new_codec(context.as_ref())?, Tracked(vlog)));
                } else {
                    tokio::spawn(tmpltcp__relay(inbound, new_codec(context.as_ref())?, Tracked(vlog)));
                }
            }
        }
        (Some(ssl_config), ws_config) => {
            let cert = CertificateDer::from_pem_file(ssl_config.certificate_file.as_str())?;
            let key = PrivateKeyDer::from_pem_file(ssl_config.key_file.as_str())?;
            let tls_config = rustls__ServerConfig::builder().with_no_client_auth().with_single_cert(vec![cert], key)?;
            let tls_acceptor = TlsAcceptor::from(Arc::new(tls_config));
            while let Ok((inbound, _)) = listener.accept(Tracked(vlog)) {
                let codec = new_codec(context.as_ref())?;
                match tls_acceptor.accept(inbound, Tracked(vlog)) {
                    Ok(inbound) => {
                        if ws_config.is_some() {
                            tokio::spawn(tmpltcp__accept_websocket_then_replay(inbound, new_codec(context.as_ref())?, Tracked(vlog)));
                        } else {
                            tokio::spawn(tmpltcp__relay(inbound, codec, Tracked(vlog)));
                        }
                    }
                    Err(e) => (),
                }
            }
        }
    }
    Ok(())
}
