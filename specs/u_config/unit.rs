// u_config -- configuration names and mode predicates (C16)
use vstd::prelude::*;
verus! {
//@include ../parts/config.rs
} // verus!
fn main() {}
