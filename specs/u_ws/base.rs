

//@@ octo-squirrel/src/codec.rs:67-75  struct WebSocketFramed  sha=5685eaf29b977736
pub struct WebSocketFramed<T, C, E, D> {
    stream: WebSocketStream<T>,
    codec: C,
    encode_item: PhantomData<E>,
    decode_item: PhantomData<D>,
    buffer: Option<BytesMut>,
    readable: bool,
    errored: bool,
}

//@@ octo-squirrel/src/codec.rs:79-87  impl WebSocketFramed  sha=58a3845370192c80
impl<T, C, E, D> WebSocketFramed<T, C, E, D>
where
    T: AsyncRead + AsyncWrite + Unpin,
    C: Encoder<E, Error = anyhow::Error> + Decoder<Item = D, Error = anyhow::Error> + Unpin,
{
    fn new(stream: WebSocketStream<T>, codec: C) -> Self {
        Self { stream, codec, encode_item: PhantomData, decode_item: PhantomData, buffer: None, readable: false, errored: false }
    }
}

//@@ octo-squirrel/src/codec.rs:89-144  impl Stream for WebSocketFramed  sha=21e1d4775fde8752
impl<T, C, E, D> WebSocketFramed<T, C, E, D>
where
    T: AsyncRead + AsyncWrite + Unpin,
    C: Encoder<E, Error = anyhow::Error> + Decoder<Item = D, Error = anyhow::Error> + Unpin,
    D: Debug,
{

    fn poll_next(&mut self, cx: &mut Context<'_>) -> Poll<Option<Result<D>>> {
        // a decode error ends the stream: nothing that follows undecodable bytes is delivered
        if self.errored {
            return Poll::Ready(None);
        }
        loop {
            // deliver every frame that is already buffered before waiting for the next message
            if self.readable {
                if let Some(mut payload) = self.buffer.take() {
                    let decoded = self.codec.decode(&mut payload);
                    if !payload.is_empty() {
                        self.buffer = Some(payload);
                    }
                    match decoded {
                        Ok(Some(item)) => return Poll::Ready(Some(Ok(item))),
                        Ok(None) => {}
                        Err(e) => {
                            self.errored = true;
                            return Poll::Ready(Some(Err(e)));
                        }
                    }
                }
                self.readable = false;
            }
            match (match self.stream.poll_next_unpin(cx) { Poll::Ready(verif_ready) => verif_ready, Poll::Pending => return Poll::Pending }) {
                Some(Ok(msg)) => {
                    if msg.is_binary() || msg.is_text() {
                        let payload = match self.buffer.take() {
                            Some(buffer) => {
                                let msg_payload = msg.as_payload();
                                let mut payload = BytesMut::with_capacity(buffer.len() + msg_payload.len());
                                payload.extend_from_slice(&buffer);
                                payload.extend_from_slice(msg_payload);
                                payload
                            }
                            None => BytesMut::from(msg.into_payload()),
                        };
                        self.buffer = Some(payload);
                        self.readable = true;
                    }
                    continue;
                }
                Some(Err(e)) => return Poll::Ready(Some(Err(verif_err()))),
                None => return Poll::Ready(None),
            }
        }
    }
}

//@@ octo-squirrel/src/codec.rs:146-170  impl Sink for WebSocketFramed {fn start_send}  sha=1c8362eafc18b208
impl<T, C, E, D> WebSocketFramed<T, C, E, D>
where
    T: AsyncRead + AsyncWrite + Unpin,
    C: Encoder<E, Error = anyhow::Error> + Decoder<Item = D, Error = anyhow::Error> + Unpin,
{

    fn start_send(&mut self, item: E) -> Result<(), anyhow::Error> {
        let mut dst = BytesMut::new();
        self.codec.encode(item, &mut dst)?;
        self.stream.start_send_unpin(Message::binary(dst)).map_err(|e| verif_err())
    }
}
