// u_ws -- codec.rs WebSocketFramed (the framing of every ws / wss relay) under contract (C04 C05 C07 C01)
use vstd::prelude::*;
verus! {
global size_of usize == 8;   // ASSUMPTION: 64-bit target
pub mod shim {
use vstd::prelude::*;
//@include ../../shims/prelude.rs
//@include ../../shims/bytes.rs
//@include ../../shims/ws.rs
}
use shim::*;
use anyhow::Result;
use core::marker::PhantomData;

//@include ../parts/wsframed.rs
} // verus!
fn main() {}
