// ---- specs/common_cipher.rs : what codec/aead.rs CipherMethod::new must select per cipher name (README table: algorithm and key size) (shared by the Shadowsocks and VMess units) ----
spec fn alg_of(kind: CipherKind) -> int {
    match kind {
        CipherKind::Aes128Gcm | CipherKind::Aead2022Blake3Aes128Gcm => 0,
        CipherKind::Aes256Gcm | CipherKind::Aead2022Blake3Aes256Gcm => 1,
        CipherKind::Aead2022Blake3ChaCha8Poly1305 => 2,
        CipherKind::ChaCha20Poly1305 | CipherKind::Aead2022Blake3ChaCha20Poly1305 => 3,
        CipherKind::Unknown => -1,
    }
}
spec fn key_len_of(kind: CipherKind) -> nat {
    match kind { CipherKind::Aes128Gcm | CipherKind::Aead2022Blake3Aes128Gcm => 16, _ => 32 }
}
