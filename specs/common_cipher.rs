// ---- specs/common_cipher.rs : assumed contract of codec/aead.rs CipherMethod::new (shared by the Shadowsocks and VMess units) ----
spec fn alg_of(kind: CipherKind) -> int {
    match kind {
        CipherKind::Aes128Gcm | CipherKind::Aead2022Blake3Aes128Gcm => 0,
        CipherKind::Aes256Gcm | CipherKind::Aead2022Blake3Aes256Gcm => 1,
        CipherKind::Aead2022Blake3ChaCha8Poly1305 => 2,
        CipherKind::ChaCha20Poly1305 | CipherKind::Aead2022Blake3ChaCha20Poly1305 => 3,
        CipherKind::Unknown => -1,
    }
}
spec fn key_len_of(kind: CipherKind) -> nat {
    match kind { CipherKind::Aes128Gcm | CipherKind::Aead2022Blake3Aes128Gcm => 16, _ => 32 }
}
/// codec/aead.rs CipherMethod::new (RustCrypto constructors): slices the key to the algorithm's key size (panics if shorter), panics on Unknown
impl CipherMethod {
    #[verifier::external_body]
    fn new(kind: CipherKind, key: &[u8]) -> (r: CipherMethod)
        requires !(kind is Unknown), key@.len() >= key_len_of(kind)
        ensures r.alg() == alg_of(kind), r.key() == key@.take(key_len_of(kind) as int)
    { unimplemented!() }
}
