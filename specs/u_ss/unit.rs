// u_ss — Shadowsocks codec layer under contract: codec/aead.rs (CipherKind predicates, nonce generator),
// codec/shadowsocks.rs (Authenticator, ChunkEncoder, ChunkDecoder).  Real items are spliced from /repo on every run.
use vstd::prelude::*;
verus! {
use core::mem::size_of;
pub mod shim {
use vstd::prelude::*;
//@include ../../shims/prelude.rs
//@include ../../shims/bytes.rs
//@include ../../shims/crypto.rs
//@include ../../shims/net.rs
//@include ../../shims/ss.rs
//@include ../../shims/strs.rs
//@include ../../shims/b64.rs
}
use shim::*;
pub mod specs {
use vstd::prelude::*;
use super::shim::*;
//@include ../common_nonce.rs
//@include ../common_chunk.rs
//@include ../common_addr.rs
//@include ../common_pwin.rs
}
use specs::*;
use specs::bv::*;
use specs::bv2::*;
use anyhow::Result;
use core::marker::PhantomData;
use std::collections::HashMap;
type DatagramPacket = (BytesMut, Address);
global size_of usize == 8;   // ASSUMPTION: 64-bit target

pub assume_specification[ u8::overflowing_add ](a: u8, b: u8) -> (r: (u8, bool))
    ensures r.0 as int == (a + b) % 256, r.1 == (a + b >= 256);
broadcast use axiom_strb_utf8, axiom_sbytes_utf8, axiom_seal_len, axiom_open_unique, lemma_len0_empty, axiom_v4_len, axiom_v6_len, axiom_string_utf8, axiom_blake3_kdf_len, axiom_blake3_hash_len, axiom_hkdf_len, lemma_shr6, lemma_and127, lemma_and63;

//@include ../common_cipher.rs
//@include ../parts/addr.rs
//@include ../parts/cipher.rs
//@include ../parts/sschunk.rs
//@include ../parts/sstcp.rs
//@include ../parts/pwin.rs
//@include ../parts/ssudp.rs
//@include ../parts/sspayload.rs
//@include ../parts/config.rs
//@include ../parts/keys.rs
//@include ../parts/ssassoc.rs
//@include ../parts/clientmain.rs
} // verus!
fn main() {}
