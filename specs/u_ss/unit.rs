// u_ss — Shadowsocks codec layer under contract: codec/aead.rs (CipherKind predicates, nonce generator),
// codec/shadowsocks.rs (Authenticator, ChunkEncoder, ChunkDecoder).  Real items are spliced from /repo on every run.
use vstd::prelude::*;
verus! {
use core::mem::size_of;
pub mod shim {
use vstd::prelude::*;
//@include ../../shims/prelude.rs
//@include ../../shims/bytes.rs
//@include ../../shims/crypto.rs
}
use shim::*;
pub mod specs {
use vstd::prelude::*;
use super::shim::*;
//@include ../common_nonce.rs
//@include ../common_chunk.rs
}
use specs::*;

pub assume_specification[ u8::overflowing_add ](a: u8, b: u8) -> (r: (u8, bool))
    ensures r.0 as int == (a + b) % 256, r.1 == (a + b >= 256);
broadcast use axiom_seal_len, axiom_open_unique, lemma_len0_empty;

//@include ../parts/sschunk.rs
} // verus!
fn main() {}
