

//@@ octo-squirrel/src/codec/aead.rs:124-142  enum CipherKind  sha=0afd87d0c4335287
#[derive(Default, Clone, Copy, PartialEq, Eq)]
enum CipherKind {
    Aes128Gcm,
    Aes256Gcm,
    ChaCha20Poly1305,
    Aead2022Blake3Aes128Gcm,
    Aead2022Blake3Aes256Gcm,
    Aead2022Blake3ChaCha8Poly1305,
    Aead2022Blake3ChaCha20Poly1305,
    #[default]
    Unknown,
}

//@@ octo-squirrel/src/codec/aead.rs:156-178  impl CipherKind {fn is_aead_2022,fn support_eih}  sha=ca14e9f3fecf910c
impl CipherKind {
    const fn is_aead_2022(&self) -> bool {
        matches!(
            self,
            Self::Aead2022Blake3Aes128Gcm
                | Self::Aead2022Blake3Aes256Gcm
                | Self::Aead2022Blake3ChaCha8Poly1305
                | Self::Aead2022Blake3ChaCha20Poly1305
        )
    }

    const fn support_eih(&self) -> bool {
        matches!(self, Self::Aead2022Blake3Aes128Gcm | Self::Aead2022Blake3Aes256Gcm)
    }
}

//@@ octo-squirrel/src/codec/aead.rs:227-229  struct IncreasingNonceGenerator  sha=b1f1450b94bc35d8
struct IncreasingNonceGenerator {
    nonce: [u8; 12],
}

//@@ octo-squirrel/src/codec/aead.rs:231-245  impl IncreasingNonceGenerator  sha=1cc1b22dc12ae696
impl IncreasingNonceGenerator {
    fn init() -> Self {
        Self { nonce: [u8::MAX; 12] }
    }

    fn generate(&mut self) -> &[u8] {
        for i in 0..self.nonce.len() {
            self.nonce[i] = self.nonce[i].overflowing_add(1).0;
            if self.nonce[i] != 0 {
                break;
            }
        }
        &self.nonce
    }
}

//@@ octo-squirrel/src/codec/shadowsocks.rs:19-22  struct Authenticator  sha=018fa4f56150a551
struct Authenticator {
    method: CipherMethod,
    nonce_generator: IncreasingNonceGenerator,
}

//@@ octo-squirrel/src/codec/shadowsocks.rs:24-50  impl Authenticator  sha=2138ceec5520258e
impl Authenticator {
    fn new(method: CipherMethod) -> Self {
        Self { method, nonce_generator: IncreasingNonceGenerator::init() }
    }

    fn size_bytes(&self) -> usize {
        size_of::<u16>() + self.method.tag_size()
    }

    fn encode_size(&mut self, bytes: &mut [u8]) -> Result<(), aes_gcm::aead::Error> {
        self.method.encrypt_in_place_detached(self.nonce_generator.generate(), &[], bytes)
    }

    fn decode_size(&mut self, data: &mut BytesMut) -> Result<usize, aes_gcm::aead::Error> {
        self.open(data)?;
        let size = data.get_u16();
        Ok(size as usize + self.method.tag_size())
    }

    fn seal(&mut self, plaintext: &mut impl Buffer) -> Result<(), aes_gcm::aead::Error> {
        self.method.encrypt_in_place(self.nonce_generator.generate(), &[], plaintext)
    }

    fn open(&mut self, ciphertext: &mut impl Buffer) -> Result<(), aes_gcm::aead::Error> {
        self.method.decrypt_in_place(self.nonce_generator.generate(), &[], ciphertext)
    }
}

//@@ octo-squirrel/src/codec/shadowsocks.rs:52-55  struct ChunkEncoder  sha=2ce2dd80a39b132e
struct ChunkEncoder {
    payload_limit: usize,
    auth: Authenticator,
}

//@@ octo-squirrel/src/codec/shadowsocks.rs:57-99  impl ChunkEncoder {fn new,fn encode_payload,fn encode_packet,fn size_bytes,fn encode_size}  sha=c95a9d30a6a5716d
impl ChunkEncoder {
    fn new(payload_limit: usize, auth: Authenticator) -> Self {
        Self { payload_limit, auth }
    }

    fn encode_payload(&mut self, mut src: BytesMut, dst: &mut BytesMut) -> Result<(), aes_gcm::aead::Error> {
        let limit = self.payload_limit - self.auth.method.tag_size() - self.size_bytes();
        while src.has_remaining() {
            let len = src.remaining().min(limit);
            self.encode_chunk(&mut src, len, dst)?;
        }
        Ok(())
    }

    fn encode_packet(&mut self, mut src: BytesMut, dst: &mut BytesMut) -> Result<(), aes_gcm::aead::Error> {
        self.auth.seal(&mut src)?;
        dst.extend_from_slice(&src);
        Ok(())
    }

    fn size_bytes(&self) -> usize {
        self.auth.size_bytes()
    }

    fn encode_size(&mut self, size_bytes: &mut [u8]) -> Result<(), aes_gcm::aead::Error> {
        self.auth.encode_size(size_bytes)
    }
}

//@@ octo-squirrel/src/codec/shadowsocks.rs:101-104  enum DecodeState  sha=2e47ab54001cc916
enum DecodeState {
    Length,
    Payload(usize),
}

//@@ octo-squirrel/src/codec/shadowsocks.rs:106-109  struct ChunkDecoder  sha=4f49b54d4d0533b2
struct ChunkDecoder {
    auth: Authenticator,
    state: DecodeState,
}

//@@ octo-squirrel/src/codec/shadowsocks.rs:111-155  impl ChunkDecoder  sha=d330521caa0615e6
impl ChunkDecoder {
    fn new(auth: Authenticator) -> Self {
        Self { auth, state: DecodeState::Length }
    }

    fn decode_packet(&mut self, src: &mut BytesMut) -> Result<BytesMut, aes_gcm::aead::Error> {
        let mut opening = src.split_off(0);
        self.auth.open(&mut opening)?;
        Ok(opening)
    }

    fn decode_payload(&mut self, src: &mut BytesMut, dst: &mut BytesMut) -> Result<(), aes_gcm::aead::Error> {
        loop {
            match self.state {
                DecodeState::Length => {
                    let size_bytes = self.size_bytes();
                    if src.remaining() < size_bytes {
                        return Ok(());
                    }
                    let len = self.decode_size(&mut src.split_to(size_bytes))?;
                    /*R2*/
                    self.state = DecodeState::Payload(len);
                }
                DecodeState::Payload(len) => {
                    if src.remaining() < len {
                        return Ok(());
                    }
                    dst.reserve(len);
                    let mut payload_bytes = src.split_to(len);
                    self.auth.open(&mut payload_bytes)?;
                    dst.extend_from_slice(&payload_bytes);
                    self.state = DecodeState::Length;
                }
            }
        }
    }

    fn size_bytes(&self) -> usize {
        self.auth.size_bytes()
    }

    fn decode_size(&mut self, data: &mut BytesMut) -> Result<usize, aes_gcm::aead::Error> {
        self.auth.decode_size(data)
    }
}
