

//@@ octo-squirrel/src/protocol/address.rs:9-13  enum Address  sha=d701f69e752e0952
#[derive(PartialEq, Eq)]
pub enum Address {
    Domain(String, u16),
    Socket(SocketAddr),
}

//@@ octo-squirrel/src/protocol/address.rs:56-60  impl From for Address  sha=3ef1d03c02fbf299
impl From<SocketAddr> for Address {
    fn from(value: SocketAddr) -> Self {
        Address::Socket(value)
    }
}

//@@ octo-squirrel/src/protocol/socks5.rs:9-9  const VERSION  sha=31c82d410f6df766
const VERSION: u8 = 5;

//@@ octo-squirrel/src/protocol/socks5.rs:11-15  enum Socks5CommandStatus  sha=a67902fd29d73d0f
#[derive(PartialEq, Eq, Clone, Copy)]
pub enum Socks5CommandStatus {
    Success,
    Failure,
}

//@@ octo-squirrel/src/protocol/socks5.rs:17-29  impl TryFrom for Socks5CommandStatus  sha=fd0d55fe4da0bd20
impl TryFrom<u8> for Socks5CommandStatus {
    type Error = anyhow::Error;

    fn try_from(value: u8) -> Result<Self, Self::Error> {
        if Self::Success as u8 == value {
            Ok(Self::Success)
        } else if Self::Failure as u8 == value {
            Ok(Self::Failure)
        } else {
            return Err(verif_err());
        }
    }
}

//@@ octo-squirrel/src/protocol/socks5.rs:31-36  enum Socks5AddressType  sha=6571f459743d9f1b
#[derive(PartialEq, Eq, Clone, Copy)]
pub enum Socks5AddressType {
    Ipv4 = 1,
    Domain = 3,
    Ipv6 = 4,
}

//@@ octo-squirrel/src/protocol/socks5.rs:38-52  impl TryFrom for Socks5AddressType  sha=a2da60cfb209176f
impl TryFrom<u8> for Socks5AddressType {
    type Error = anyhow::Error;

    fn try_from(value: u8) -> Result<Self, Self::Error> {
        if Self::Ipv4 as u8 == value {
            Ok(Self::Ipv4)
        } else if Self::Domain as u8 == value {
            Ok(Self::Domain)
        } else if Self::Ipv6 as u8 == value {
            Ok(Self::Ipv6)
        } else {
            return Err(verif_err());
        }
    }
}

//@@ octo-squirrel/src/protocol/socks5.rs:54-59  enum Socks5CommandType  sha=dc476d448b8347ac
#[derive(PartialEq, Copy, Clone)]
pub enum Socks5CommandType {
    Connect = 1,
    Bind = 2,
    UdpAssociate = 3,
}

//@@ octo-squirrel/src/protocol/socks5.rs:61-73  impl Socks5CommandType  sha=c537aa93435591bf
impl Socks5CommandType {
    fn new(byte: u8) -> Result<Self> {
        if Self::Connect as u8 == byte {
            Ok(Self::Connect)
        } else if Self::Bind as u8 == byte {
            Ok(Self::Bind)
        } else if Self::UdpAssociate as u8 == byte {
            Ok(Self::UdpAssociate)
        } else {
            return Err(verif_err());
        }
    }
}

//@@ octo-squirrel/src/protocol/socks5.rs:75-81  enum Socks5AuthMethod  sha=6d6099cb2a681b28
#[derive(PartialEq, Eq, Clone, Copy)]
pub enum Socks5AuthMethod {
    NoAuth,
    Gssapi,
    Password,
    Unaccepted = 255,
}

//@@ octo-squirrel/src/protocol/socks5.rs:83-97  impl Socks5AuthMethod  sha=d8a72e4c7070a4ae
impl Socks5AuthMethod {
    fn new(byte: u8) -> Result<Self> {
        if Self::NoAuth as u8 == byte {
            Ok(Self::NoAuth)
        } else if Self::Gssapi as u8 == byte {
            Ok(Self::Gssapi)
        } else if Self::Password as u8 == byte {
            Ok(Self::Password)
        } else if Self::Unaccepted as u8 == byte {
            Ok(Self::Unaccepted)
        } else {
            return Err(verif_err())
        }
    }
}

//@@ octo-squirrel/src/protocol/socks5/address.rs:16-35  fn encode  sha=2d4531094da3eeb9
fn address__encode(addr: &Address, dst: &mut BytesMut) {
    match addr {
        Address::Domain(host, port) => {
            dst.put_u8(Socks5AddressType::Domain as u8);
            dst.put_u8(host.len() as u8);
            dst.extend_from_slice(host.as_bytes());
            dst.put_u16(*port);
        }
        Address::Socket(SocketAddr::V4(v4)) => {
            dst.put_u8(Socks5AddressType::Ipv4 as u8);
            dst.extend_from_slice(&v4.ip().octets());
            dst.put_u16(v4.port());
        }
        Address::Socket(SocketAddr::V6(v6)) => {
            dst.put_u8(Socks5AddressType::Ipv6 as u8);
            dst.extend_from_slice(&v6.ip().octets());
            dst.put_u16(v6.port())
        }
    }
}

//@@ octo-squirrel/src/protocol/socks5/address.rs:37-71  fn decode  sha=288a7ff43f0bf184
fn address__decode(src: &mut BytesMut) -> Result<Address> {
    if !src.has_remaining() {
        return Err(verif_err());
    }
    let addr_type = Socks5AddressType::try_from(src.get_u8())?;
    match addr_type {
        Socks5AddressType::Ipv4 => {
            if src.remaining() < 4 + 2 {
                return Err(verif_err());
            }
            let ip_v4 = Ipv4Addr::from(src.get_u32());
            Ok(Address::Socket(SocketAddr::V4(SocketAddrV4::new(ip_v4, src.get_u16()))))
        }
        Socks5AddressType::Domain => {
            if !src.has_remaining() {
                return Err(verif_err());
            }
            let len = src.get_u8();
            if src.remaining() < len as usize + 2 {
                return Err(verif_err());
            }
            let host_bytes = src.split_to(len as usize);
            let port = src.get_u16();
            let host = String::from_utf8(host_bytes.to_vec())?;
            Ok(Address::Domain(host, port))
        }
        Socks5AddressType::Ipv6 => {
            if src.remaining() < 16 + 2 {
                return Err(verif_err());
            }
            let ip_v6 = Ipv6Addr::from(src.get_u128());
            Ok(Address::Socket(SocketAddr::V6(SocketAddrV6::new(ip_v6, src.get_u16(), 0, 0))))
        }
    }
}

//@@ octo-squirrel/src/protocol/socks5/address.rs:73-81  fn length  sha=1ce35ec20bf8da66
fn address__length(addr: &Address) -> usize {
    match addr {
        Address::Domain(host, _) => 1 + 1 + host.len() + 2,
        Address::Socket(socket_addr) => match socket_addr {
            SocketAddr::V4(_) => 1 + 4 + 2,
            SocketAddr::V6(_) => 1 + 8 * 2 + 2,
        },
    }
}

//@@ octo-squirrel/src/protocol/socks5/address.rs:83-89  fn try_decode_at  sha=5ccf7be5a6d37f47
fn address__try_decode_at(src: &BytesMut, at: usize) -> Result<usize> {
    match Socks5AddressType::try_from(src[at])? {
        Socks5AddressType::Ipv4 => Ok(1 + 4 + 2),
        Socks5AddressType::Domain => Ok(1 + 1 + src[at + 1] as usize + 2),
        Socks5AddressType::Ipv6 => Ok(1 + 8 * 2 + 2),
    }
}

//@@ octo-squirrel/src/protocol/socks5/message.rs:15-17  struct Socks5InitialRequest  sha=1f38e54f5ce6f2db
pub struct Socks5InitialRequest {
    auth_methods: Vec<Socks5AuthMethod>,
}

//@@ octo-squirrel/src/protocol/socks5/message.rs:19-23  impl Socks5InitialRequest  sha=66b70fecd4f00ef9
impl Socks5InitialRequest {
    fn new(auth_methods: Vec<Socks5AuthMethod>) -> Self {
        Socks5InitialRequest { auth_methods }
    }
}

//@@ octo-squirrel/src/protocol/socks5/message.rs:24-32  impl Socks5Message for Socks5InitialRequest  sha=058dad5f7f457d1d
impl Socks5InitialRequest {
    fn encode(&mut self, dst: &mut BytesMut) {
        dst.put_u8(VERSION);
        dst.put_u8(self.auth_methods.len() as u8);
        for auth_method in self.auth_methods.iter() {
            dst.put_u8(*auth_method as u8);
        }
    }
}

//@@ octo-squirrel/src/protocol/socks5/message.rs:34-36  struct Socks5InitialResponse  sha=a0c0c6134306fe8c
pub struct Socks5InitialResponse {
    pub auth_method: Socks5AuthMethod,
}

//@@ octo-squirrel/src/protocol/socks5/message.rs:38-42  impl Socks5InitialResponse  sha=7a6280ab6a32c0a3
impl Socks5InitialResponse {
    fn new(auth_method: Socks5AuthMethod) -> Self {
        Self { auth_method }
    }
}

//@@ octo-squirrel/src/protocol/socks5/message.rs:44-49  impl Socks5Message for Socks5InitialResponse  sha=8dd6279b740c0a99
impl Socks5InitialResponse {
    fn encode(&mut self, dst: &mut BytesMut) {
        dst.put_u8(VERSION);
        dst.put_u8(self.auth_method as u8);
    }
}

//@@ octo-squirrel/src/protocol/socks5/message.rs:51-55  struct Socks5CommandRequest  sha=130272c42a34f604
#[derive(PartialEq, Clone)]
pub struct Socks5CommandRequest {
    pub command_type: Socks5CommandType,
    pub dst_addr: Address,
}

//@@ octo-squirrel/src/protocol/socks5/message.rs:57-61  impl Socks5CommandRequest  sha=1349fbb1a81b1852
impl Socks5CommandRequest {
    fn new(command_type: Socks5CommandType, dst_addr: Address) -> Self {
        Self { command_type, dst_addr }
    }
}

//@@ octo-squirrel/src/protocol/socks5/message.rs:63-70  impl Socks5Message for Socks5CommandRequest  sha=f6e234156e560fc6
impl Socks5CommandRequest {
    fn encode(&mut self, dst: &mut BytesMut) {
        dst.put_u8(VERSION);
        dst.put_u8(self.command_type as u8);
        dst.put_u8(0);
        address__encode(&self.dst_addr, dst);
    }
}

//@@ octo-squirrel/src/protocol/socks5/message.rs:72-75  struct Socks5CommandResponse  sha=1824c387399e2856
pub struct Socks5CommandResponse {
    pub command_status: Socks5CommandStatus,
    pub bnd_addr: Address,
}

//@@ octo-squirrel/src/protocol/socks5/message.rs:77-84  impl Socks5Message for Socks5CommandResponse  sha=ebab27fe779588e9
impl Socks5CommandResponse {
    fn encode(&mut self, dst: &mut BytesMut) {
        dst.put_u8(VERSION);
        dst.put_u8(self.command_status as u8);
        dst.put_u8(0x00);
        address__encode(&self.bnd_addr, dst);
    }
}

//@@ octo-squirrel/src/protocol/socks5/message.rs:86-90  impl Socks5CommandResponse  sha=27aec98fbb40980e
impl Socks5CommandResponse {
    fn new(command_status: Socks5CommandStatus, bnd_addr: Address) -> Self {
        Self { command_status, bnd_addr }
    }
}

//@@ octo-squirrel/src/protocol/socks5/codec.rs:42-42  struct Socks5InitialRequestDecoder  sha=afb7b11cbafe5eb2
pub struct Socks5InitialRequestDecoder;

//@@ octo-squirrel/src/protocol/socks5/codec.rs:44-64  impl Decoder for Socks5InitialRequestDecoder  sha=728eea90ebc48856
impl Socks5InitialRequestDecoder {

    fn decode(&mut self, src: &mut BytesMut) -> Result<Option<Socks5InitialRequest>> {
        if src.remaining() < 2 || src.remaining() < 2 + src[1] as usize {
            return Ok(None);
        }
        let version = src.get_u8();
        if VERSION != version {
            return Err(verif_err());
        }
        let count = src.get_u8() as usize;
        let mut auth_methods = Vec::with_capacity(count);
        for _ in 0..count {
            auth_methods.push(Socks5AuthMethod::new(src.get_u8())?);
        }
        Ok(Some(Socks5InitialRequest::new(auth_methods)))
    }
}

//@@ octo-squirrel/src/protocol/socks5/codec.rs:66-66  struct Socks5CommandRequestDecoder  sha=d53c7fcfd58b0c29
pub struct Socks5CommandRequestDecoder;

//@@ octo-squirrel/src/protocol/socks5/codec.rs:68-86  impl Decoder for Socks5CommandRequestDecoder  sha=0cf4f3ed562e5442
impl Socks5CommandRequestDecoder {

    fn decode(&mut self, src: &mut BytesMut) -> Result<Option<Socks5CommandRequest>> {
        if src.remaining() < 5 || src.remaining() < 3 + address__try_decode_at(src, 3)? {
            return Ok(None);
        }
        let version = src.get_u8();
        if VERSION != version {
            return Err(verif_err());
        }
        let command_type = Socks5CommandType::new(src.get_u8())?;
        src.advance(1); // Reserved
        let addr = address__decode(src)?;
        Ok(Some(Socks5CommandRequest::new(command_type, addr)))
    }
}

//@@ octo-squirrel/src/protocol/socks5/codec.rs:88-88  struct Socks5InitialResponseDecoder  sha=c052d73bb6a96e4f
pub struct Socks5InitialResponseDecoder;

//@@ octo-squirrel/src/protocol/socks5/codec.rs:90-105  impl Decoder for Socks5InitialResponseDecoder  sha=11560866b116d94f
impl Socks5InitialResponseDecoder {

    fn decode(&mut self, src: &mut BytesMut) -> Result<Option<Socks5InitialResponse>, anyhow::Error> {
        if src.remaining() < 2 {
            return Ok(None);
        }
        let version = src.get_u8();
        if VERSION != version {
            return Err(verif_err());
        }
        Ok(Some(Socks5InitialResponse::new(Socks5AuthMethod::new(src.get_u8())?)))
    }
}

//@@ octo-squirrel/src/protocol/socks5/codec.rs:107-107  struct Socks5CommandResponseDecoder  sha=70bbae6b1f6a9f5e
pub struct Socks5CommandResponseDecoder;

//@@ octo-squirrel/src/protocol/socks5/codec.rs:109-127  impl Decoder for Socks5CommandResponseDecoder  sha=856e5fee1ca728c7
impl Socks5CommandResponseDecoder {

    fn decode(&mut self, src: &mut BytesMut) -> Result<Option<Socks5CommandResponse>> {
        if src.remaining() < 5 || src.remaining() < 3 + address__try_decode_at(src, 3)? {
            return Ok(None);
        }
        let version = src.get_u8();
        if VERSION != version {
            return Err(verif_err());
        }
        let command_status = Socks5CommandStatus::try_from(src.get_u8())?;
        src.advance(1); // Reserved
        let addr = address__decode(src)?;
        Ok(Some(Socks5CommandResponse::new(command_status, addr)))
    }
}

//@@ octo-squirrel/src/protocol/socks5/codec.rs:129-129  struct Socks5UdpCodec  sha=0d7428243bf68631
pub struct Socks5UdpCodec;

//@@ octo-squirrel/src/protocol/socks5/codec.rs:131-150  impl Decoder for Socks5UdpCodec  sha=d32cc3de6bd24cdb
impl Socks5UdpCodec {

    fn decode(&mut self, src: &mut BytesMut) -> Result<Option<DatagramPacket>, anyhow::Error> {
        if src.is_empty() {
            return Ok(None);
        }
        if src.remaining() < 5 {
            return Err(verif_err());
        }
        if src[2] != 0 {
            return Err(verif_err());
        }
        src.advance(3);
        let recipient = address__decode(src)?;
        Ok(Some((src.split_off(0), recipient)))
    }
}

//@@ octo-squirrel/src/protocol/socks5/codec.rs:152-161  impl Encoder for Socks5UdpCodec  sha=cfd7b2faecfc9eac
impl Socks5UdpCodec {

    fn encode(&mut self, item: DatagramPacket, dst: &mut BytesMut) -> Result<(), anyhow::Error> {
        dst.extend_from_slice(&[0, 0, 0]); // Fragment
        address__encode(&item.1, dst);
        dst.extend_from_slice(&item.0);
        Ok(())
    }
}

//@@ octo-squirrel/src/codec/aead.rs:24-32  enum CipherMethod  sha=9a559024666aa37a
pub enum CipherMethod {
    Aes128Gcm(Aes128Gcm),
    Aes256Gcm(Aes256Gcm),
    ChaCha8Poly1305(ChaCha8Poly1305),
    ChaCha20Poly1305(ChaCha20Poly1305),
    XChaCha8Poly1305(XChaCha8Poly1305),
    XChaCha20Poly1305(XChaCha20Poly1305),
}

//@@ octo-squirrel/src/codec/aead.rs:60-122  impl CipherMethod {fn new}  sha=30ff04c67b7ac7c5
impl CipherMethod {
    fn new(kind: CipherKind, key: &[u8]) -> Self {
        match kind {
            CipherKind::Aes128Gcm | CipherKind::Aead2022Blake3Aes128Gcm => {
                let key = &key[..16];
                Self::Aes128Gcm(Aes128Gcm::new(Key::<Aes128Gcm>::from_slice(key)))
            }
            CipherKind::Aes256Gcm | CipherKind::Aead2022Blake3Aes256Gcm => {
                let key = &key[..32];
                Self::Aes256Gcm(Aes256Gcm::new(Key::<Aes256Gcm>::from_slice(key)))
            }
            CipherKind::ChaCha20Poly1305 | CipherKind::Aead2022Blake3ChaCha20Poly1305 => {
                let key = &key[..32];
                Self::ChaCha20Poly1305(ChaCha20Poly1305::new(Key::<ChaCha20Poly1305>::from_slice(key)))
            }
            CipherKind::Aead2022Blake3ChaCha8Poly1305 => {
                let key = &key[..32];
                Self::ChaCha8Poly1305(ChaCha8Poly1305::new(Key::<ChaCha8Poly1305>::from_slice(key)))
            }
            CipherKind::Unknown => verif_panic(),
        }
    }
}

//@@ octo-squirrel/src/codec/aead.rs:124-142  enum CipherKind  sha=0afd87d0c4335287
#[derive(Default, Clone, Copy, PartialEq, Eq)]
pub enum CipherKind {
    Aes128Gcm,
    Aes256Gcm,
    ChaCha20Poly1305,
    Aead2022Blake3Aes128Gcm,
    Aead2022Blake3Aes256Gcm,
    Aead2022Blake3ChaCha8Poly1305,
    Aead2022Blake3ChaCha20Poly1305,
    #[default]
    Unknown,
}

//@@ octo-squirrel/src/codec/aead.rs:156-178  impl CipherKind {fn is_aead_2022,fn support_eih}  sha=ca14e9f3fecf910c
impl CipherKind {
    const fn is_aead_2022(&self) -> bool {
        matches!(
            self,
            Self::Aead2022Blake3Aes128Gcm
                | Self::Aead2022Blake3Aes256Gcm
                | Self::Aead2022Blake3ChaCha8Poly1305
                | Self::Aead2022Blake3ChaCha20Poly1305
        )
    }

    const fn support_eih(&self) -> bool {
        matches!(self, Self::Aead2022Blake3Aes128Gcm | Self::Aead2022Blake3Aes256Gcm)
    }
}

//@@ octo-squirrel/src/codec/aead.rs:227-229  struct IncreasingNonceGenerator  sha=b1f1450b94bc35d8
pub struct IncreasingNonceGenerator {
    nonce: [u8; 12],
}

//@@ octo-squirrel/src/codec/aead.rs:231-245  impl IncreasingNonceGenerator  sha=1cc1b22dc12ae696
impl IncreasingNonceGenerator {
    fn init() -> Self {
        Self { nonce: [u8::MAX; 12] }
    }

    fn generate(&mut self) -> &[u8] {
        for i in 0..self.nonce.len() {
            self.nonce[i] = self.nonce[i].overflowing_add(1).0;
            if self.nonce[i] != 0 {
                break;
            }
        }
        &self.nonce
    }
}

//@@ octo-squirrel/src/codec/shadowsocks.rs:19-22  struct Authenticator  sha=018fa4f56150a551
pub struct Authenticator {
    method: CipherMethod,
    nonce_generator: IncreasingNonceGenerator,
}

//@@ octo-squirrel/src/codec/shadowsocks.rs:24-50  impl Authenticator  sha=2138ceec5520258e
impl Authenticator {
    fn new(method: CipherMethod) -> Self {
        Self { method, nonce_generator: IncreasingNonceGenerator::init() }
    }

    fn size_bytes(&self) -> usize {
        size_of::<u16>() + self.method.tag_size()
    }

    fn encode_size(&mut self, bytes: &mut [u8]) -> Result<(), aes_gcm::aead::Error> {
        self.method.encrypt_in_place_detached(self.nonce_generator.generate(), &[], bytes)
    }

    fn decode_size(&mut self, data: &mut BytesMut) -> Result<usize, aes_gcm::aead::Error> {
        self.open(data)?;
        let size = data.get_u16();
        Ok(size as usize + self.method.tag_size())
    }

    fn seal(&mut self, plaintext: &mut impl Buffer) -> Result<(), aes_gcm::aead::Error> {
        self.method.encrypt_in_place(self.nonce_generator.generate(), &[], plaintext)
    }

    fn open(&mut self, ciphertext: &mut impl Buffer) -> Result<(), aes_gcm::aead::Error> {
        self.method.decrypt_in_place(self.nonce_generator.generate(), &[], ciphertext)
    }
}

//@@ octo-squirrel/src/codec/shadowsocks.rs:52-55  struct ChunkEncoder  sha=2ce2dd80a39b132e
pub struct ChunkEncoder {
    payload_limit: usize,
    auth: Authenticator,
}

//@@ octo-squirrel/src/codec/shadowsocks.rs:57-99  impl ChunkEncoder {fn new,fn encode_payload,fn encode_packet,fn size_bytes,fn encode_size}  sha=c95a9d30a6a5716d
impl ChunkEncoder {
    fn new(payload_limit: usize, auth: Authenticator) -> Self {
        Self { payload_limit, auth }
    }

    fn encode_payload(&mut self, mut src: BytesMut, dst: &mut BytesMut) -> Result<(), aes_gcm::aead::Error> {
        let limit = self.payload_limit - self.auth.method.tag_size() - self.size_bytes();
        while src.has_remaining() {
            let len = src.remaining().min(limit);
            self.encode_chunk(&mut src, len, dst)?;
        }
        Ok(())
    }

    fn encode_packet(&mut self, mut src: BytesMut, dst: &mut BytesMut) -> Result<(), aes_gcm::aead::Error> {
        self.auth.seal(&mut src)?;
        dst.extend_from_slice(&src);
        Ok(())
    }

    fn size_bytes(&self) -> usize {
        self.auth.size_bytes()
    }

    fn encode_size(&mut self, size_bytes: &mut [u8]) -> Result<(), aes_gcm::aead::Error> {
        self.auth.encode_size(size_bytes)
    }
}

//@@ octo-squirrel/src/codec/shadowsocks.rs:101-104  enum DecodeState  sha=2e47ab54001cc916
enum DecodeState {
    Length,
    Payload(usize),
}

//@@ octo-squirrel/src/codec/shadowsocks.rs:106-109  struct ChunkDecoder  sha=4f49b54d4d0533b2
pub struct ChunkDecoder {
    auth: Authenticator,
    state: DecodeState,
}

//@@ octo-squirrel/src/codec/shadowsocks.rs:111-155  impl ChunkDecoder  sha=d330521caa0615e6
impl ChunkDecoder {
    fn new(auth: Authenticator) -> Self {
        Self { auth, state: DecodeState::Length }
    }

    fn decode_packet(&mut self, src: &mut BytesMut) -> Result<BytesMut, aes_gcm::aead::Error> {
        let mut opening = src.split_off(0);
        self.auth.open(&mut opening)?;
        Ok(opening)
    }

    fn decode_payload(&mut self, src: &mut BytesMut, dst: &mut BytesMut) -> Result<(), aes_gcm::aead::Error> {
        loop {
            match self.state {
                DecodeState::Length => {
                    let size_bytes = self.size_bytes();
                    if src.remaining() < size_bytes {
                        return Ok(());
                    }
                    let len = self.decode_size(&mut src.split_to(size_bytes))?;
                    /*R2*/
                    self.state = DecodeState::Payload(len);
                }
                DecodeState::Payload(len) => {
                    if src.remaining() < len {
                        return Ok(());
                    }
                    dst.reserve(len);
                    let mut payload_bytes = src.split_to(len);
                    self.auth.open(&mut payload_bytes)?;
                    dst.extend_from_slice(&payload_bytes);
                    self.state = DecodeState::Length;
                }
            }
        }
    }

    fn size_bytes(&self) -> usize {
        self.auth.size_bytes()
    }

    fn decode_size(&mut self, data: &mut BytesMut) -> Result<usize, aes_gcm::aead::Error> {
        self.auth.decode_size(data)
    }
}

//@@ octo-squirrel/src/protocol/shadowsocks.rs:1-5  enum Mode  sha=157d6a8583fec583
#[derive(Copy, Clone)]
pub enum Mode {
    Client,
    Server,
}

//@@ octo-squirrel/src/protocol/shadowsocks.rs:7-21  impl Mode  sha=9b882a919133191f
impl Mode {
    fn to_u8(&self) -> u8 {
        match self {
            Self::Client => 0,
            Self::Server => 1,
        }
    }

    fn expect_u8(&self) -> u8 {
        match self {
            Self::Client => 1,
            Self::Server => 0,
        }
    }
}

//@@ octo-squirrel/src/manager/shadowsocks.rs:57-62  struct ServerUser  sha=2aac52e3ac4f8a54
pub struct ServerUser<const N: usize> {
    pub name: String,
    pub key: [u8; N],
    pub identity_hash: [u8; 16],
}

//@@ octo-squirrel/src/manager/shadowsocks.rs:64-68  impl ServerUser  sha=c287001fd705f8df
impl<const N: usize> ServerUser<N> {
    fn identity_hash(&self) -> [u8; 16] {
        self.identity_hash
    }
}

//@@ octo-squirrel/src/codec/shadowsocks/aead.rs:11-16  fn new_encoder  sha=df55c574a66c5fe4
fn ssaead__new_encoder(kind: CipherKind, key: &[u8], salt: &[u8]) -> Result<ChunkEncoder, InvalidLength> {
    let key = ssaead__hkdfsha1(key, salt)?;
    let auth = ssaead__new_auth(kind, &key);
    // payload length is capped at 0x3FFF: [2 + tag][0x3fff + tag]
    Ok(ChunkEncoder::new(0x3fff + 2 + 16 + 16, auth))
}

//@@ octo-squirrel/src/codec/shadowsocks/aead.rs:18-22  fn new_decoder  sha=65f571aeb68d3b81
fn ssaead__new_decoder(kind: CipherKind, key: &[u8], salt: &[u8]) -> Result<ChunkDecoder, InvalidLength> {
    let key = ssaead__hkdfsha1(key, salt)?;
    let auth = ssaead__new_auth(kind, &key);
    Ok(ChunkDecoder::new(auth))
}

//@@ octo-squirrel/src/codec/shadowsocks/aead.rs:24-29  fn hkdfsha1  sha=d2a19fc8c51673ee
#[verifier::external_body] fn verif_lit_8366e3dbc5() -> (r: &'static [u8]) ensures r@ =~= seq![115u8, 115u8, 45u8, 115u8, 117u8, 98u8, 107u8, 101u8, 121u8] { b"ss-subkey" }
fn ssaead__hkdfsha1(ikm: &[u8], salt: &[u8]) -> Result<Vec<u8>, InvalidLength> {
    let hk = Hkdf::<Sha1>::new(Some(salt), ikm);
    let mut okm = vec![0; salt.len()];
    hk.expand(verif_lit_8366e3dbc5(), &mut okm)?;
    Ok(okm)
}

//@@ octo-squirrel/src/codec/shadowsocks/aead.rs:31-34  fn new_auth  sha=8e34244a55e2383f
fn ssaead__new_auth(kind: CipherKind, key: &[u8]) -> Authenticator {
    let method = CipherMethod::new(kind, key);
    Authenticator::new(method)
}

//@@ octo-squirrel/src/codec/shadowsocks/aead_2022.rs:18-18  const SERVER_STREAM_TIMESTAMP_MAX_DIFF  sha=7d2f18feb030e438
const a22__SERVER_STREAM_TIMESTAMP_MAX_DIFF: u64 = 30;

//@@ octo-squirrel/src/codec/shadowsocks/aead_2022.rs:19-19  const MIN_PADDING_LENGTH  sha=8368a47f3c652dc6
const a22__MIN_PADDING_LENGTH: u16 = 0;

//@@ octo-squirrel/src/codec/shadowsocks/aead_2022.rs:20-20  const MAX_PADDING_LENGTH  sha=0b7274712965a8d4
const a22__MAX_PADDING_LENGTH: u16 = 900;

//@@ octo-squirrel/src/codec/shadowsocks/aead_2022.rs:22-25  fn session_sub_key  sha=a547121b41890e9d
fn a22__session_sub_key(key: &[u8], salt: &[u8]) -> [u8; blake3::OUT_LEN] {
    let key_material = verif_concat2(key, salt);
    blake3::derive_key("shadowsocks 2022 session subkey", &key_material)
}

//@@ octo-squirrel/src/codec/shadowsocks/aead_2022.rs:31-35  fn validate_timestamp  sha=786f62d2f7986d44
fn a22__validate_timestamp(timestamp: u64) -> Result<(), String> {
    let now = a22__now().map_err(|e| verif_string())?;
    let diff = now.abs_diff(timestamp);
    if diff > a22__SERVER_STREAM_TIMESTAMP_MAX_DIFF { Err(verif_string()) } else { Ok(()) }
}

//@@ octo-squirrel/src/codec/shadowsocks/aead_2022.rs:41-45  fn new_encoder  sha=5d72a3f8c44bde35
fn a22__new_encoder(kind: CipherKind, key: &[u8], salt: &[u8]) -> ChunkEncoder {
    let key = a22__session_sub_key(key, salt);
    let auth = Authenticator::new(CipherMethod::new(kind, &key));
    ChunkEncoder::new(0xffff, auth)
}

//@@ octo-squirrel/src/codec/shadowsocks/aead_2022.rs:47-51  fn new_decoder  sha=ef455ce7fbaf1d29
fn a22__new_decoder(kind: CipherKind, key: &[u8], salt: &[u8]) -> ChunkDecoder {
    let key = a22__session_sub_key(key, salt);
    let auth = Authenticator::new(CipherMethod::new(kind, &key));
    ChunkDecoder::new(auth)
}

//@@ octo-squirrel/src/codec/shadowsocks/aead_2022/tcp.rs:20-37  fn new_header  sha=ae92849cbb23ba31
fn a22tcp__new_header(auth: &mut Authenticator, msg: &mut BytesMut, stream_type: &Mode, request_salt: Option<&[u8]>) -> anyhow::Result<(Bytes, Bytes)> {
    let mut salt_len = 0;
    if let Some(request_salt) = request_salt {
        salt_len = request_salt.len();
    }
    let mut fixed = BytesMut::with_capacity(1 + 8 + salt_len + 2);
    fixed.put_u8(stream_type.to_u8());
    fixed.put_u64(a22__now()?);
    if let Some(request_salt) = request_salt {
        fixed.extend_from_slice(request_salt);
    }
    let len = msg.remaining().min(0xffff);
    let mut via = msg.split_to(len);
    fixed.put_u16(len as u16);
    auth.seal(&mut fixed).map_err(|e| verif_err())?;
    auth.seal(&mut via).map_err(|e| verif_err())?;
    Ok((fixed.freeze(), via.freeze()))
}

//@@ octo-squirrel/src/codec/shadowsocks/aead_2022/tcp.rs:39-63  fn new_decoder_with_eih  sha=58579b873adcd714
fn a22tcp__new_decoder_with_eih<const N: usize>(
    kind: CipherKind,
    key: &[u8],
    salt: &[u8],
    eih: &[u8],
    identity: &mut Identity<N>,
    user_manager: &ServerUserManager<N>,
) -> Result<ChunkDecoder, anyhow::Error> {
    let identity_sub_key = blake3::derive_key("shadowsocks 2022 identity subkey", &verif_concat2(key, salt));
    let user_hash = &mut [0; 16];
    user_hash.copy_from_slice(&eih[..16]);
    match kind {
        CipherKind::Aead2022Blake3Aes128Gcm => Aes128EcbNoPadding::decrypt(&identity_sub_key, user_hash),
        CipherKind::Aead2022Blake3Aes256Gcm => Aes256EcbNoPadding::decrypt(&identity_sub_key, user_hash),
        _ => return Err(verif_err()),
    }
    /*R2*/
    if let Some(user) = user_manager.get_user_by_hash(user_hash) {
        /*R2*/
        identity.user = Some(user.clone());
        Ok(a22__new_decoder(kind, &user.key, salt))
    } else {
        return Err(verif_err())
    }
}

//@@ octo-squirrel/src/codec/shadowsocks/aead_2022/tcp.rs:65-77  fn with_eih  sha=46b0d27b4b9dc461
fn a22tcp__with_eih<const N: usize>(kind: &CipherKind, key: &[u8], identity_keys: &[[u8; N]], salt: &[u8], dst: &mut BytesMut) {
    let mut sub_key: Option<[u8; blake3::OUT_LEN]> = None;
    for ipsk in identity_keys.iter() {
        if let Some(sub_key) = sub_key {
            a22tcp__make_eih(kind, &sub_key, ipsk, dst)
        }
        let key_material = verif_concat2(ipsk, salt);
        sub_key = Some(blake3::derive_key("shadowsocks 2022 identity subkey", &key_material))
    }
    if let Some(sub_key) = sub_key {
        a22tcp__make_eih(kind, &sub_key, key, dst)
    }
}

//@@ octo-squirrel/src/codec/shadowsocks/aead_2022/tcp.rs:79-91  fn make_eih  sha=ecd643937aab1dec
fn a22tcp__make_eih(kind: &CipherKind, sub_key: &[u8], ipsk: &[u8], out: &mut BytesMut) {
    let ipsk_hash = blake3::hash(ipsk);
    let ipsk_plain_text = &ipsk_hash.as_bytes()[..16];
    let mut ipsk_encrypt_text = [0; 16];
    ipsk_encrypt_text.copy_from_slice(ipsk_plain_text);
    match kind {
        CipherKind::Aead2022Blake3Aes128Gcm => Aes128EcbNoPadding::encrypt(sub_key, &mut ipsk_encrypt_text, 16),
        CipherKind::Aead2022Blake3Aes256Gcm => Aes256EcbNoPadding::encrypt(sub_key, &mut ipsk_encrypt_text, 16),
        _ => verif_panic(),
    }
    /*R2*/
    out.extend_from_slice(&ipsk_encrypt_text);
}

//@@ octo-squirrel/src/codec/shadowsocks/tcp.rs:30-36  struct Context  sha=f38c8bead60f1e38
pub struct Context<const N: usize> {
    key: [u8; N],
    identity_keys: Vec<[u8; N]>,
    kind: CipherKind,
    user_manager: Option<Arc<ServerUserManager<N>>>,
    nonce_cache: Mutex<LruCache<[u8; N], ()>>,
}

//@@ octo-squirrel/src/codec/shadowsocks/tcp.rs:38-59  impl Context {fn new}  sha=38c9b6319228a648
impl<const N: usize> Context<N> {
    fn new(key: [u8; N], identity_keys: Vec<[u8; N]>, kind: CipherKind, user_manager: Option<Arc<ServerUserManager<N>>>) -> Self {
        // a salt has to be remembered for as long as its timestamp can still be accepted (2 x 30s window, rounded up)
        let nonce_cache = Mutex::new(LruCache::with_expiry_duration_and_capacity(Duration::from_secs(61), 102400));
        Self { key, identity_keys, kind, user_manager, nonce_cache }
    }
}

//@@ octo-squirrel/src/codec/shadowsocks/tcp.rs:61-65  struct AEADCipherCodec  sha=b91e742ceaa32d23
pub struct AEADCipherCodec<const N: usize> {
    encoder: Option<ChunkEncoder>,
    decoder: Option<ChunkDecoder>,
}

//@@ octo-squirrel/src/codec/shadowsocks/tcp.rs:67-255  impl AEADCipherCodec  sha=9a2d461b15ffaabd
impl<const N: usize> AEADCipherCodec<N> {
    fn encode(&mut self, context: &Context<N>, session: &Session<N>, mut item: BytesMut, dst: &mut BytesMut) -> anyhow::Result<()> {
        match self.encoder {
            Some(ref mut encoder) => encoder.encode_payload(item, dst).map_err(|e| verif_err()),
            None => {
                let mut encoder = Self::init_payload_encoder(context, session, dst)?;
                Self::handle_payload_header(&mut encoder, context, session, &mut item, dst)?;
                self.encoder = Some(encoder);
                self.encode(context, session, item, dst)
            }
        }
    }

    fn init_payload_encoder(context: &Context<N>, session: &Session<N>, dst: &mut BytesMut) -> anyhow::Result<ChunkEncoder> {
        Self::with_identity(context, session, &context.key, &context.identity_keys, dst);
        let salt = session.identity.salt;
        /*R2*/
        Ok(match (context.kind.is_aead_2022(), session.identity.user.as_ref()) {
            (true, Some(user)) => a22__new_encoder(context.kind, &user.key, &salt),
            (true, None) => a22__new_encoder(context.kind, &context.key, &salt),
            (false, _) => ssaead__new_encoder(context.kind, &context.key, &salt).map_err(verif_err_from)?,
        })
    }

    fn handle_payload_header(
        encoder: &mut ChunkEncoder,
        context: &Context<N>,
        session: &Session<N>,
        msg: &mut BytesMut,
        dst: &mut BytesMut,
    ) -> anyhow::Result<()> {
        match session.mode {
            Mode::Client => {
                let temp = msg.split_to(msg.len());
                address__encode(session.address.as_ref().unwrap(), msg);
                let is_aead_2022 = context.kind.is_aead_2022();
                if is_aead_2022 {
                    let padding = a22__next_padding_length(&temp);
                    msg.put_u16(padding);
                    msg.extend_from_slice(&dice::roll_bytes(padding as usize))
                }
                msg.extend_from_slice(&temp);
                if is_aead_2022 {
                    let (fix, via) =
                        a22tcp__new_header(&mut encoder.auth, msg, &session.mode, session.identity.request_salt.as_ref().map(|arr| &arr[..]))
                            .map_err(|e| verif_err())?;
                    dst.extend_from_slice(&fix);
                    dst.extend_from_slice(&via);
                }
                Ok(())
            }
            Mode::Server => {
                if context.kind.is_aead_2022() {
                    let (fix, via) =
                        a22tcp__new_header(&mut encoder.auth, msg, &session.mode, session.identity.request_salt.as_ref().map(|arr| &arr[..]))
                            .map_err(|e| verif_err())?;
                    dst.extend_from_slice(&fix);
                    dst.extend_from_slice(&via);
                }
                Ok(())
            }
        }
    }

    fn decode(&mut self, context: &Context<N>, session: &mut Session<N>, src: &mut BytesMut, Tracked(vcache): Tracked<&mut SaltCache>) -> anyhow::Result<Option<BytesMut>> {
        if src.is_empty() {
            return Ok(None);
        }
        match self.decoder {
            Some(ref mut decoder) => {
                let mut dst = BytesMut::new();
                decoder.decode_payload(src, &mut dst).map_err(|e| verif_err())?;
                if dst.is_empty() {
                    return Ok(None);
                }
                if matches!(session.mode, Mode::Server) && session.address.is_none() {
                    // a request sealed with one of the original AEAD ciphers starts with the target address
                    session.address = Some(address__decode(&mut dst)?);
                }
                Ok(Some(dst))
            }
            None => self.init_payload_decoder(context, session, src, Tracked(vcache)),
        }
    }

    fn init_payload_decoder(&mut self, context: &Context<N>, session: &mut Session<N>, src: &mut BytesMut, Tracked(vcache): Tracked<&mut SaltCache>) -> anyhow::Result<Option<BytesMut>> {
        if src.remaining() < session.identity.salt.len() {
            return Ok(None);
        }
        if context.kind.is_aead_2022() {
            self.init_aead_2022_payload_decoder(context, session, src, Tracked(vcache))
        } else {
            let salt = src.split_to(session.identity.salt.len());
            /*R2*/
            self.decoder = Some(ssaead__new_decoder(context.kind, &context.key, &salt).map_err(verif_err_from)?);
            self.decode(context, session, src, Tracked(vcache))
        }
    }

    fn init_aead_2022_payload_decoder(
        &mut self,
        context: &Context<N>,
        session: &mut Session<N>,
        src: &mut BytesMut,Tracked(vcache): Tracked<&mut SaltCache>
    ) -> anyhow::Result<Option<BytesMut>> {
        let tag_size = context.kind.tag_size();
        let request_salt_len = if let Mode::Server = session.mode { 0 } else { N };
        let mut require_eih = false;
        if matches!(session.mode, Mode::Server) {
            require_eih = context.kind.support_eih() && context.user_manager.as_ref().is_some_and(|m| m.user_count() > 0);
        }
        let eih_len = if require_eih { 16 } else { 0 };
        let header_len = eih_len + 1 + 8 + request_salt_len + 2 + tag_size;
        if src.remaining() < header_len + N {
            return Err(verif_err());
        }
        let mut salt = [0; N];
        let mut _src = Cursor::new(src);
        _src.copy_to_slice(&mut salt);
        if context.check_nonce(&salt, Tracked(vcache)) {
            return Err(verif_err());
        }
        /*R2*/
        session.identity.request_salt = Some(salt);
        let mut header = BytesMut::from(_src.copy_to_bytes(header_len));
        let mut decoder = if require_eih {
            let eih = header.split_to(16);
            a22tcp__new_decoder_with_eih(
                context.kind,
                &context.key,
                &salt,
                &eih,
                &mut session.identity,
                context.user_manager.as_ref().unwrap(),
            )?
        } else {
            a22__new_decoder(context.kind, &context.key, &salt)
        };
        decoder.auth.open(&mut header).map_err(|e| verif_err())?;
        let stream_type = header.get_u8();
        let expect_stream_type = session.mode.expect_u8();
        if stream_type != expect_stream_type {
            return Err(verif_err())
        }
        a22__validate_timestamp(header.get_u64()).map_err(verif_err_from)?;
        if matches!(session.mode, Mode::Client) {
            let mut request_salt = [0; N];
            header.copy_to_slice(&mut request_salt);
            /*R2*/
            if request_salt != session.identity.salt {
                return Err(verif_err())
            }
            session.identity.request_salt = Some(request_salt);
        };
        let length = header.get_u16() as usize;
        if _src.remaining() >= length + tag_size {
            if !context.set_nonce(salt, Tracked(vcache)) {
                return Err(verif_err());
            }
            let position = _src.position();
            let src = _src.into_inner();
            src.advance(position as usize);
            let mut via = src.split_to(length + tag_size);
            decoder.auth.open(&mut via).map_err(|e| verif_err())?;
            self.decoder = Some(decoder);
            if matches!(session.mode, Mode::Server) && session.address.is_none() {
                session.address = Some(address__decode(&mut via)?);
                if via.remaining() < 2 {
                    return Err(verif_err());
                }
                let padding_len = via.get_u16();
                if via.remaining() < padding_len as usize {
                    return Err(verif_err());
                }
                via.advance(padding_len as usize);
            }
            return Ok(Some(via));
        }
        Ok(None)
    }

    fn with_identity(context: &Context<N>, session: &Session<N>, key: &[u8], identity_keys: &[[u8; N]], dst: &mut BytesMut) {
        let salt = &session.identity.salt;
        dst.extend_from_slice(salt);
        if matches!(session.mode, Mode::Client) && context.kind.support_eih() {
            a22tcp__with_eih(&context.kind, key, identity_keys, salt, dst);
        }
    }
}

//@@ octo-squirrel/src/codec/shadowsocks/tcp.rs:257-264  struct Session  sha=1392850d69a201bf
pub struct Session<const N: usize> {
    mode: Mode,
    identity: Identity<N>,
    pub address: Option<Address>,
    }

//@@ octo-squirrel/src/codec/shadowsocks/tcp.rs:266-270  impl Session  sha=21df35fa41e24243
impl<const N: usize> Session<N> {
    fn new(mode: Mode, identity: Identity<N>, address: Option<Address>) -> Self {
        Self { mode, identity, address }
    }
}

//@@ octo-squirrel/src/codec/shadowsocks/tcp.rs:272-276  struct Identity  sha=1d0a7a0e004ea6f4
pub struct Identity<const N: usize> {
    pub salt: [u8; N],
    pub request_salt: Option<[u8; N]>,
    pub user: Option<ServerUser<N>>,
}

//@@ octo-squirrel/src/manager/packet_window.rs:9-9  const BLOCK_BIT_LOG  sha=81c72e81da244832
// SPDX-License-Identifier: MIT
//
// Copyright (C) 2017-2023 WireGuard LLC. All Rights Reserved.

// ! Packet window
// !
// ! https://github.com/WireGuard/wireguard-go/blob/master/replay/replay.go

const BLOCK_BIT_LOG: u64 = 6;

//@@ octo-squirrel/src/manager/packet_window.rs:10-10  const BLOCK_BITS  sha=359051a76c40451f
// 1<<6 == 64 bits
const BLOCK_BITS: u64 = 64;

//@@ octo-squirrel/src/manager/packet_window.rs:11-11  const RING_BLOCKS  sha=30a9262fbdbce066
// must be power of 2
const RING_BLOCKS: u64 = 128;

//@@ octo-squirrel/src/manager/packet_window.rs:12-12  const WINDOW_SIZE  sha=ccd1a7228950fb97
// must be power of 2
const WINDOW_SIZE: u64 = 8128;

//@@ octo-squirrel/src/manager/packet_window.rs:13-13  const BLOCK_MASK  sha=13ea65d8ac83f1c0
const BLOCK_MASK: u64 = 127;

//@@ octo-squirrel/src/manager/packet_window.rs:14-14  const BIT_MASK  sha=de77e44d4c0469fe
const BIT_MASK: u64 = 63;

//@@ octo-squirrel/src/manager/packet_window.rs:17-21  struct PacketWindowFilter  sha=14e3705de7718919
/// Packet window for checking `packet_id` is in the sliding window
#[derive(Clone)]
pub struct PacketWindowFilter {
    last_packet_id: u64,
    packet_ring: [u64; RING_BLOCKS as usize],
}

//@@ octo-squirrel/src/manager/packet_window.rs:23-27  impl Default for PacketWindowFilter  sha=6656fdac9d11bd5a
impl PacketWindowFilter {
    fn default() -> PacketWindowFilter {
        PacketWindowFilter::new()
    }
}

//@@ octo-squirrel/src/manager/packet_window.rs:29-77  impl PacketWindowFilter  sha=53b4fa63fa650a76
impl PacketWindowFilter {
    /// Create an empty filter
    fn new() -> PacketWindowFilter {
        PacketWindowFilter { last_packet_id: 0, packet_ring: [0u64; RING_BLOCKS as usize] }
    }

    /// Reset filter to the initial state
    fn reset(&mut self) {
        self.last_packet_id = 0;
        self.packet_ring[0] = 0;
    }

    /// Check and remember the `packet_id`
    ///
    /// Overlimit `packet_id >= limit` are always rejected
    fn validate_packet_id(&mut self, packet_id: u64, limit: u64) -> bool {
        if packet_id >= limit {
            return false;
        }

        let mut index_block = packet_id >> BLOCK_BIT_LOG;
        if packet_id > self.last_packet_id {
            // Move the window forward

            let current = self.last_packet_id >> BLOCK_BIT_LOG;
            let mut diff = index_block - current;
            if diff > RING_BLOCKS {
                // Clear the whole filter
                diff = RING_BLOCKS;
            }
            for d in 1..=diff {
                let i = current + d;
                self.packet_ring[(i & BLOCK_MASK) as usize] = 0;
            }
            self.last_packet_id = packet_id;
        } else if self.last_packet_id - packet_id > WINDOW_SIZE {
            // Behind the current window
            return false;
        }

        // Check and set bit
        index_block &= BLOCK_MASK;
        let index_bit = packet_id & BIT_MASK;
        let old = self.packet_ring[index_block as usize];
        let new = old | (1 << index_bit);
        self.packet_ring[index_block as usize] = new;
        old != new
    }
}

//@@ octo-squirrel/src/codec/shadowsocks/udp.rs:34-36  struct AEADCipherCodec  sha=f8e930065e2a4dbb
pub struct udp__AEADCipherCodec<const N: usize> {
    kind: CipherKind,
}

//@@ octo-squirrel/src/codec/shadowsocks/udp.rs:38-347  impl AEADCipherCodec {fn new,fn encode,fn encode_client_packet_aead_2022,fn encode_server_packet_aead_2022,fn new_encoder,fn decode,fn decode_server_packet_aead_2022,fn decode_client_packet_aead_2022,fn new_decoder}  sha=b25ce0031ba252b6
impl<const N: usize> udp__AEADCipherCodec<N> {
    fn new(kind: CipherKind) -> Self {
        Self { kind }
    }

    fn encode(&self, context: &udp__Context<N>, session: &udp__Session<N>, address: &Address, item: BytesMut, dst: &mut BytesMut) -> anyhow::Result<()> {
        match (self.kind.is_aead_2022(), context.stream_type) {
            (true, Mode::Client) => self.encode_client_packet_aead_2022(context, session, address, item, dst),
            (true, Mode::Server) => self.encode_server_packet_aead_2022(context, session, address, item, dst),
            (false, _) => {
                let salt = &mut [0; N];
                dice::fill_bytes(salt);
                dst.extend_from_slice(&salt[..]);
                let mut temp = BytesMut::with_capacity(address__length(address) + item.remaining());
                address__encode(address, &mut temp);
                temp.extend_from_slice(&item);
                let mut encoder = self.new_encoder(context.key, salt)?;
                encoder.encode_packet(temp, dst).map_err(|e| verif_err())
            }
        }
    }

    fn encode_client_packet_aead_2022(
        &self,
        context: &udp__Context<N>,
        session: &udp__Session<N>,
        address: &Address,
        item: BytesMut,
        dst: &mut BytesMut,
    ) -> anyhow::Result<()> {
        let padding_length = a22__next_padding_length(&item);
        let nonce_size = a22udp__nonce_length(self.kind);
        let tag_size = self.kind.tag_size();
        let require_eih = self.kind.support_eih() && !context.identity_keys.is_empty();
        let eih_len = if require_eih { 16 * context.identity_keys.len() } else { 0 };
        dst.reserve(nonce_size + 8 + 8 + eih_len + 1 + 8 + 2 + padding_length as usize + address__length(address) + item.remaining() + tag_size);
        if nonce_size > 0 {
            unsafe { dst.advance_mut(nonce_size) };
            let nonce = dst.v_range_mut(0,nonce_size);
            dice::fill_bytes(nonce);
        }
        dst.put_u64(session.client_session_id);
        dst.put_u64(session.packet_id);
        if require_eih {
            let mut session_id_packet_id = [0; 16];
            session_id_packet_id.copy_from_slice(&dst[nonce_size..]);
            a22udp__with_eih(self.kind, context.key, context.identity_keys, &session_id_packet_id, dst)?
        }
        dst.put_u8(Mode::Client.to_u8());
        dst.put_u64(a22__now()?);
        dst.put_u16(padding_length);
        dst.extend_from_slice(&dice::roll_bytes(padding_length as usize));
        address__encode(address, dst);
        dst.extend_from_slice(&item);
        unsafe {
            dst.advance_mut(tag_size);
        }
        match self.kind {
            CipherKind::Aead2022Blake3Aes128Gcm | CipherKind::Aead2022Blake3Aes256Gcm => {
                let (header, mut text) = dst.split_at_mut(16);
                let mut nonce = [0; 12];
                nonce.copy_from_slice(&header[4..16]);
                let key = if context.identity_keys.is_empty() { context.key } else { &context.identity_keys[0] };
                a22udp__aes_encrypt_in_place(self.kind, key, header)?;
                if eih_len > 0 {
                    text = verif_reslice_mut(text,eih_len);
                }
                let cipher = unsafe { udp__get_cipher(self.kind, context.key, session.client_session_id) };
                cipher.encrypt_in_place_detached(&nonce, &[], text).map_err(|e| verif_err())?;
                Ok(())
            }
            CipherKind::Aead2022Blake3ChaCha8Poly1305 | CipherKind::Aead2022Blake3ChaCha20Poly1305 => {
                let (nonce, plaintext) = dst.split_at_mut(nonce_size);
                let cipher = unsafe { udp__get_cipher(self.kind, context.key, session.client_session_id) };
                cipher.encrypt_in_place_detached(nonce, &[], plaintext).map_err(|e| verif_err())?;
                Ok(())
            }
            _ => return Err(verif_err()),
        }
    }

    fn encode_server_packet_aead_2022(
        &self,
        context: &udp__Context<N>,
        session: &udp__Session<N>,
        address: &Address,
        item: BytesMut,
        dst: &mut BytesMut,
    ) -> anyhow::Result<()> {
        let padding_length = a22__next_padding_length(&item);
        let nonce_length = a22udp__nonce_length(self.kind);
        let tag_size = self.kind.tag_size();
        dst.reserve(nonce_length + 8 + 8 + 1 + 8 + 8 + 2 + padding_length as usize + address__length(address) + item.remaining() + tag_size);
        if nonce_length > 0 {
            unsafe {
                dst.advance_mut(nonce_length);
            }
            let nonce = dst.v_range_mut(0,nonce_length);
            dice::fill_bytes(nonce);
        }
        dst.put_u64(session.server_session_id);
        dst.put_u64(session.packet_id);
        dst.put_u8(Mode::Server.to_u8());
        dst.put_u64(a22__now()?);
        dst.put_u64(session.client_session_id);
        dst.put_u16(padding_length);
        if padding_length > 0 {
            unsafe {
                dst.advance_mut(padding_length as usize);
            }
        }
        address__encode(address, dst);
        dst.extend_from_slice(&item);
        unsafe { dst.advance_mut(tag_size) };
        match self.kind {
            CipherKind::Aead2022Blake3Aes128Gcm | CipherKind::Aead2022Blake3Aes256Gcm => {
                let (header, text) = dst.split_at_mut(16);
                let mut nonce = [0; 12];
                nonce.copy_from_slice(&header[4..16]);
                let key = if let Some(user) = &session.user {
                    /*R2*/
                    &user.key
                } else {
                    context.key
                };
                a22udp__aes_encrypt_in_place(self.kind, key, header)?;
                let cipher = unsafe { udp__get_cipher(self.kind, key, session.server_session_id) };
                cipher.encrypt_in_place_detached(&nonce, &[], text).map_err(|e| verif_err())?;
                Ok(())
            }
            CipherKind::Aead2022Blake3ChaCha8Poly1305 | CipherKind::Aead2022Blake3ChaCha20Poly1305 => {
                let (nonce, plaintext) = dst.split_at_mut(nonce_length);
                let cipher = unsafe { udp__get_cipher(self.kind, context.key, session.server_session_id) };
                cipher.encrypt_in_place_detached(nonce, &[], plaintext).map_err(|e| verif_err())?;
                Ok(())
            }
            _ => return Err(verif_err()),
        }
    }

    fn new_encoder(&self, key: &[u8], salt: &[u8]) -> anyhow::Result<ChunkEncoder> {
        ssaead__new_encoder(self.kind, key, salt).map_err(|e| verif_err())
    }

    fn decode(&self, context: &udp__Context<N>, src: &mut BytesMut) -> anyhow::Result<udp__SessionPacket<N>> {
        match (self.kind.is_aead_2022(), context.stream_type) {
            (true, Mode::Client) => self.decode_server_packet_aead_2022(context, src),
            (true, Mode::Server) => self.decode_client_packet_aead_2022(context, src),
            (false, _) => {
                if src.remaining() < context.key.len() {
                    return Err(verif_err());
                }
                let salt = src.split_to(context.key.len());
                let mut decoder = self.new_decoder(context.key, &salt).map_err(verif_err_from)?;
                let mut packet = decoder.decode_packet(src).map_err(|e| verif_err())?;
                let address = address__decode(&mut packet)?;
                Ok((packet, address, udp__Session::default()))
            }
        }
    }

    // for client mode
    fn decode_server_packet_aead_2022(&self, context: &udp__Context<N>, src: &mut BytesMut) -> Result<udp__SessionPacket<N>, anyhow::Error> {
        fn decrypt_message<'a, const N: usize>(
            kind: CipherKind,
            src: &'a mut BytesMut,
            context: &udp__Context<'_, N>,
        ) -> Result<(u64, u64, &'a [u8]), anyhow::Error> {
            let tag_size = kind.tag_size();
            match kind {
                CipherKind::Aead2022Blake3Aes128Gcm | CipherKind::Aead2022Blake3Aes256Gcm => {
                    let (session_id_packet_id, text) = src.split_at_mut(16);
                    a22udp__aes_decrypt_in_place(kind, context.key, session_id_packet_id)?;
                    let mut cursor = Cursor::new(session_id_packet_id);
                    let server_session_id = cursor.get_u64();
                    let packet_id = cursor.get_u64();
                    let session_id_packet_id = cursor.into_inner();
                    let nonce = &session_id_packet_id[4..16];
                    let cipher = unsafe { udp__get_cipher(kind, context.key, server_session_id) };
                    cipher.decrypt_in_place_detached(nonce, &[], text).map_err(|e| verif_err())?;
                    let text = &text[..text.len() - tag_size];
                    Ok((server_session_id, packet_id, text))
                }
                CipherKind::Aead2022Blake3ChaCha8Poly1305 | CipherKind::Aead2022Blake3ChaCha20Poly1305 => {
                    let (nonce, text) = src.split_at_mut(a22udp__nonce_length(kind));
                    let session_id = {
                        let slice = &text[..8];
                        let slice: &[u64] = verif_from_raw_parts(slice, 1);
                        u64::from_be(slice[0])
                    };
                    let cipher = unsafe { udp__get_cipher(kind, context.key, session_id) };
                    cipher.decrypt_in_place_detached(nonce, &[], text).map_err(|e| verif_err())?;
                    let mut cursor = Cursor::new(text);
                    let server_session_id = cursor.get_u64();
                    let packet_id = cursor.get_u64();
                    let text = cursor.into_inner();
                    let text = &text[16..text.len() - tag_size];
                    Ok((server_session_id, packet_id, text))
                }
                _ => return Err(verif_err()),
            }
        }

        let nonce_length = a22udp__nonce_length(self.kind);
        let tag_size = self.kind.tag_size();
        let header_length = nonce_length + tag_size + 8 + 8 + 1 + 8 + 8 + 2;
        if src.remaining() < header_length {
            return Err(verif_err());
        }
        let (server_session_id, packet_id, text) = decrypt_message(self.kind, src, context)?;
        let mut packet = BytesMut::with_capacity(text.len());
        packet.extend_from_slice(text);
        let stream_type = packet.get_u8();
        let expect_stream_type = context.stream_type.expect_u8();
        if stream_type != expect_stream_type {
            return Err(verif_err());
        }
        a22__validate_timestamp(packet.get_u64()).map_err(verif_err_from)?;
        let client_session_id = packet.get_u64();
        let padding_length = packet.get_u16();
        if packet.remaining() < padding_length as usize {
            return Err(verif_err());
        }
        if padding_length > 0 {
            packet.advance(padding_length as usize);
        }
        let session = udp__Session::new(client_session_id, server_session_id, packet_id, None);
        let address = address__decode(&mut packet)?;
        Ok((packet, address, session))
    }

    // for server mode
    fn decode_client_packet_aead_2022(&self, context: &udp__Context<N>, src: &mut BytesMut) -> Result<udp__SessionPacket<N>, anyhow::Error> {
        let nonce_length = a22udp__nonce_length(self.kind);
        let tag_size = self.kind.tag_size();
        let user_manager = context.user_manager.as_ref();
        let require_eih = self.kind.support_eih() && user_manager.is_some_and(|u| u.user_count() > 0);
        let eih_size = if require_eih { 16 } else { 0 };
        let header_length = nonce_length + tag_size + 8 + 8 + eih_size + 1 + 8 + 2;
        if src.remaining() < header_length {
            return Err(verif_err());
        }
        let mut user = None;
        let (session_id, packet_id, mut packet) = match self.kind {
            CipherKind::Aead2022Blake3Aes128Gcm | CipherKind::Aead2022Blake3Aes256Gcm => {
                let mut session_id_packet_id = src.split_to(16);
                a22udp__aes_decrypt_in_place(self.kind, context.key, &mut session_id_packet_id)?;
                let mut nonce: [u8; 12] = [0; 12];
                nonce.copy_from_slice(&session_id_packet_id[4..16]);
                let mut cursor = Cursor::new(session_id_packet_id);
                let session_id = cursor.get_u64();
                let packet_id = cursor.get_u64();
                let session_id_packet_id = cursor.into_inner();
                if require_eih {
                    let mut eih = src.split_to(16);
                    /*R2*/
                    a22udp__aes_decrypt_in_place(self.kind, context.key, &mut eih)?;
                    eih.v_xor_with(session_id_packet_id);
                    if let Some(_user) = user_manager.unwrap().clone_user_by_hash(&eih) {
                        /*R2*/
                        user = Some(_user);
                    } else {
                        return Err(verif_err());
                    }
                }
                let key = if let Some(ref user) = user { &user.key } else { context.key };
                let cipher = unsafe { udp__get_cipher(self.kind, key, session_id) };
                let mut packet = src.split_off(0);
                cipher.decrypt_in_place(&nonce, &[], &mut packet).map_err(|e| verif_err())?;
                (session_id, packet_id, packet)
            }
            CipherKind::Aead2022Blake3ChaCha8Poly1305 | CipherKind::Aead2022Blake3ChaCha20Poly1305 => {
                let (nonce, text) = src.split_at_mut(nonce_length);
                let session_id = {
                    let slice = &text[..8];
                    let slice: &[u64] = verif_from_raw_parts(slice, 1);
                    u64::from_be(slice[0])
                };
                let cipher = unsafe { udp__get_cipher(self.kind, context.key, session_id) };
                cipher.decrypt_in_place_detached(nonce, &[], text).map_err(|e| verif_err())?;
                let mut cursor = Cursor::new(text);
                let server_session_id = cursor.get_u64();
                let packet_id = cursor.get_u64();
                let text = cursor.into_inner();
                let text = &text[16..text.len() - tag_size];
                (server_session_id, packet_id, BytesMut::from(text))
            }
            _ => return Err(verif_err()),
        };
        let stream_type = packet.get_u8();
        if stream_type != Mode::Client.to_u8() {
            return Err(verif_err());
        }
        a22__validate_timestamp(packet.get_u64()).map_err(verif_err_from)?;
        let padding_length = packet.get_u16();
        if packet.remaining() < padding_length as usize {
            return Err(verif_err());
        }
        if padding_length > 0 {
            packet.advance(padding_length as usize);
        }
        let session = udp__Session::new(session_id, 0, packet_id, user);
        let address = address__decode(&mut packet)?;
        Ok((packet, address, session))
    }

    fn new_decoder(&self, key: &[u8], salt: &BytesMut) -> anyhow::Result<ChunkDecoder> {
        ssaead__new_decoder(self.kind, key, salt).map_err(|e| verif_err())
    }
}

//@@ octo-squirrel/src/codec/shadowsocks/udp.rs:349-349  type SessionPacket  sha=2a9212c2fdd9b1f5
pub type udp__SessionPacket<const N: usize> = (BytesMut, Address, udp__Session<N>);

//@@ octo-squirrel/src/codec/shadowsocks/udp.rs:351-354  struct SessionCodec  sha=3689553d9c2c80f8
pub struct udp__SessionCodec<'a, const N: usize> {
    context: udp__Context<'a, N>,
    cipher: udp__AEADCipherCodec<N>,
}

//@@ octo-squirrel/src/codec/shadowsocks/udp.rs:356-375  impl SessionCodec  sha=dfceca2ce4f76fd4
impl<'a, const N: usize> udp__SessionCodec<'a, N> {
    fn new(context: udp__Context<'a, N>, cipher: udp__AEADCipherCodec<N>) -> udp__SessionCodec<'a, N> {
        udp__SessionCodec { context, cipher }
    }

    fn encode(&self, verif_arg2: udp__SessionPacket<N>, dst: &mut BytesMut) -> anyhow::Result<()> { let (content, address, session) = verif_arg2;
        self.cipher.encode(&self.context, &session, &address, content, dst)
    }

    fn decode(&self, src: &mut BytesMut) -> anyhow::Result<Option<udp__SessionPacket<N>>> {
        if src.is_empty() {
            Ok(None)
        } else {
            let len = src.len();
            let mut src = src.split_to(len);
            let (content, address, session) = self.cipher.decode(&self.context, &mut src)?;
            Ok(Some((content, address, session)))
        }
    }
}

//@@ octo-squirrel/src/codec/shadowsocks/udp.rs:377-383  struct Context  sha=1530ebc6b918883e
pub struct udp__Context<'a, const N: usize> {
    stream_type: Mode,
    user_manager: Option<Arc<ServerUserManager<N>>>,
    key: &'a [u8],
    identity_keys: &'a [[u8; N]],
}

//@@ octo-squirrel/src/codec/shadowsocks/udp.rs:385-394  impl Context  sha=8c24f917f48b55c1
impl<const N: usize> udp__Context<'_, N> {
    fn new<'a>(
        stream_type: Mode,
        user_manager: Option<Arc<ServerUserManager<N>>>,
        key: &'a [u8],
        identity_keys: &'a [[u8; N]],
    ) -> udp__Context<'a, N> {
        udp__Context { stream_type, user_manager, key, identity_keys }
    }
}

//@@ octo-squirrel/src/codec/shadowsocks/udp.rs:396-402  struct Session  sha=f14d3bc94bb4d5cf
pub struct udp__Session<const N: usize> {
    pub client_session_id: u64,
    pub server_session_id: u64,
    pub packet_id: u64,
    pub user: Option<Arc<ServerUser<N>>>,
}

//@@ octo-squirrel/src/codec/shadowsocks/udp.rs:404-412  impl Session  sha=79c481f875a751f4
impl<const N: usize> udp__Session<N> {
    fn new(client_session_id: u64, server_session_id: u64, packet_id: u64, user: Option<Arc<ServerUser<N>>>) -> Self {
        Self { client_session_id, server_session_id, packet_id, user }
    }

    fn increase_packet_id(&mut self) {
        self.packet_id = self.packet_id.wrapping_add(1);
    }
}

//@@ octo-squirrel-client/src/client/shadowsocks.rs:138-140  mod udp / fn new_key  sha=bd601572270d91f5
fn new_key(from: SocketAddr, verif_arg2: &Address) -> SocketAddr {
        from
    }

//@@ octo-squirrel-client/src/client/shadowsocks.rs:142-145  mod udp / fn to_outbound_send  sha=31db5f18cb2ff9f4
fn to_outbound_send(item: DatagramPacket, proxy: SocketAddr) -> (DatagramPacket, SocketAddr) {
        let (content, target) = item;
        ((content, target), proxy)
    }

//@@ octo-squirrel-client/src/client/shadowsocks.rs:147-150  mod udp / fn to_inbound_recv  sha=fc7358620b7919dc
fn to_inbound_recv(item: (DatagramPacket, SocketAddr), verif_arg2: &Address, sender: SocketAddr) -> (DatagramPacket, SocketAddr) {
        let (item, _) = item;
        (item, sender)
    }

//@@ octo-squirrel-client/src/client/shadowsocks.rs:152-156  mod udp / struct DatagramPacketCodec  sha=a064ded263e50c89
pub struct DatagramPacketCodec<'a, const N: usize> {
        codec: udp__SessionCodec<'a, N>,
        session: udp__Session<N>,
        filter: PacketWindowFilter,
    }

//@@ octo-squirrel-client/src/client/shadowsocks.rs:158-162  mod udp / impl DatagramPacketCodec  sha=7d7a12f7c1d658b1
impl<const N: usize> DatagramPacketCodec<'_, N> {
        fn new(codec: udp__SessionCodec<N>) -> DatagramPacketCodec<'_, N> {
            DatagramPacketCodec { codec, session: udp__Session::from(Mode::Client), filter: PacketWindowFilter::default() }
        }
    }

//@@ octo-squirrel-client/src/client/shadowsocks.rs:164-171  mod udp / impl Encoder for DatagramPacketCodec  sha=d3cec9aeed301659
impl<const N: usize> DatagramPacketCodec<'_, N> {

        fn encode(&mut self, verif_arg2: DatagramPacket, dst: &mut BytesMut) -> anyhow::Result<()> { let (content, addr) = verif_arg2;
            self.session.increase_packet_id();
            self.codec.encode((content, addr, self.session.clone()), dst)
        }
    }

//@@ octo-squirrel-client/src/client/shadowsocks.rs:173-195  mod udp / impl Decoder for DatagramPacketCodec  sha=b2d6ea905290fb89
impl<const N: usize> DatagramPacketCodec<'_, N> {

        fn decode(&mut self, src: &mut BytesMut) -> anyhow::Result<Option<DatagramPacket>> {
            if src.is_empty() {
                Ok(None)
            } else {
                match self.codec.decode(src)? {
                    Some((content, addr, session)) => {
                        if !self.filter.validate_packet_id(session.packet_id, u64::MAX) {
                            /*R2*/
                            return Ok(None);
                        }
                        self.session.server_session_id = session.server_session_id;
                        Ok(Some((content, addr)))
                    }
                    None => Ok(None),
                }
            }
        }
    }

//@@ octo-squirrel/src/codec/shadowsocks/aead_2022/udp.rs:21-28  fn nonce_length  sha=dfb9590ac15c2102
fn a22udp__nonce_length(kind: CipherKind) -> usize {
    match kind {
        CipherKind::Aead2022Blake3Aes128Gcm | CipherKind::Aead2022Blake3Aes256Gcm => 0,
        CipherKind::Aead2022Blake3ChaCha8Poly1305 => 24,
        CipherKind::Aead2022Blake3ChaCha20Poly1305 => 24,
        _ => verif_panic(),
    }
}

//@@ octo-squirrel/src/codec/shadowsocks/aead_2022/udp.rs:30-46  fn new_cipher  sha=024f06d68781379f
fn a22udp__new_cipher(kind: CipherKind, key: &[u8], session_id: u64) -> CipherMethod {
    match kind {
        CipherKind::Aead2022Blake3Aes128Gcm | CipherKind::Aead2022Blake3Aes256Gcm => {
            let key = a22__session_sub_key(key, &session_id.v_to_be_bytes());
            CipherMethod::new(kind, &key)
        }
        CipherKind::Aead2022Blake3ChaCha8Poly1305 => {
            let key = &key[..32];
            CipherMethod::XChaCha8Poly1305(XChaCha8Poly1305::new(Key::<XChaCha8Poly1305>::from_slice(key)))
        }
        CipherKind::Aead2022Blake3ChaCha20Poly1305 => {
            let key = &key[..32];
            CipherMethod::XChaCha20Poly1305(XChaCha20Poly1305::new(Key::<XChaCha20Poly1305>::from_slice(key)))
        }
        _ => verif_panic(),
    }
}

//@@ octo-squirrel/src/codec/shadowsocks/aead_2022/udp.rs:86-104  fn with_eih  sha=580035083c27ddcf
fn a22udp__with_eih<const N: usize>(
    kind: CipherKind,
    key: &[u8],
    identity_keys: &[[u8; N]],
    session_id_packet_id: &[u8],
    dst: &mut BytesMut,
) -> anyhow::Result<()> {
    let len = identity_keys.len();
    for i in 0..len {
        let mut identity_header = [0; 16];
        if i != len - 1 {
            a22udp__make_eih(kind, &identity_keys[i], &identity_keys[i + 1], session_id_packet_id, &mut identity_header)?;
        } else {
            a22udp__make_eih(kind, &identity_keys[i], key, session_id_packet_id, &mut identity_header)?;
        }
        dst.extend_from_slice(&identity_header);
    }
    Ok(())
}

//@@ octo-squirrel/src/codec/shadowsocks/aead_2022/udp.rs:106-114  fn make_eih  sha=66392f5da1017ba6
fn a22udp__make_eih(kind: CipherKind, ipsk: &[u8], ipskn: &[u8], session_id_packet_id: &[u8], identity_header: &mut [u8; 16]) -> anyhow::Result<()> {
    let hash = blake3::hash(ipskn);
    let plain_text = &hash.as_bytes()[..16];
    identity_header.copy_from_slice(plain_text);
    identity_header.v_xor_with(session_id_packet_id);
    let res = a22udp__aes_encrypt_in_place(kind, ipsk, identity_header);
    /*R2*/
    res
}

//@@ octo-squirrel-server/src/server/template.rs:39-43  mod message / enum InboundIn  sha=900b92278fa20e17
pub enum InboundIn {
        ConnectTcp(BytesMut, Address),
        RelayTcp(BytesMut),
        RelayUdp(BytesMut, Address),
    }

//@@ octo-squirrel-server/src/server/template.rs:71-74  mod message / enum OutboundIn  sha=8f4f430e0a7dd220
pub enum OutboundIn {
        Tcp(BytesMut),
        Udp((BytesMut, SocketAddr)),
    }

//@@ octo-squirrel-server/src/server/template.rs:76-83  mod message / impl From for BytesMut  sha=836a0617d15043fc
impl From<OutboundIn> for BytesMut {
        fn from(value: OutboundIn) -> Self {
            match value {
                OutboundIn::Tcp(bytes) => bytes,
                OutboundIn::Udp((bytes, _)) => bytes,
            }
        }
    }

//@@ octo-squirrel-server/src/server/shadowsocks.rs:345-350  mod tcp / struct PayloadCodec  sha=0a0deb8ebe3d5147
pub struct sssrv__PayloadCodec<const N: usize> {
        context: Arc<Context<N>>,
        session: Session<N>,
        cipher: AEADCipherCodec<N>,
        state: sssrv__State,
    }

//@@ octo-squirrel-server/src/server/shadowsocks.rs:352-355  mod tcp / enum State  sha=d8ea95c44e9c2239
enum sssrv__State {
        Header,
        Body,
    }

//@@ octo-squirrel-server/src/server/shadowsocks.rs:357-362  mod tcp / impl PayloadCodec  sha=f3c70b3003054fc0
impl<const N: usize> sssrv__PayloadCodec<N> {
        fn new(context: Arc<Context<N>>, mode: Mode, address: Option<Address>) -> Self {
            let session = Session::new(mode, Identity::default(), address);
            Self { context, session, cipher: AEADCipherCodec::default(), state: sssrv__State::Header }
        }
    }

//@@ octo-squirrel-server/src/server/shadowsocks.rs:364-370  mod tcp / impl Encoder for PayloadCodec  sha=b2d35db0ddf93f3b
impl<const N: usize> sssrv__PayloadCodec<N> {

        fn encode(&mut self, item: OutboundIn, dst: &mut BytesMut) -> Result<()> {
            self.cipher.encode(&self.context, &self.session, item.into(), dst)
        }
    }

//@@ octo-squirrel-server/src/server/shadowsocks.rs:372-396  mod tcp / impl Decoder for PayloadCodec  sha=55359f5fea8781a0
impl<const N: usize> sssrv__PayloadCodec<N> {

        fn decode(&mut self, src: &mut BytesMut, Tracked(vcache): Tracked<&mut SaltCache>) -> Result<Option<InboundIn>> {
            match self.state {
                sssrv__State::Header => {
                    if let (Some(dst), Some(addr)) = (self.cipher.decode(&self.context, &mut self.session, src, Tracked(vcache))?, self.session.address.as_ref()) {
                        self.state = sssrv__State::Body;
                        Ok(Some(InboundIn::ConnectTcp(dst, addr.clone())))
                    } else {
                        Ok(None)
                    }
                }
                sssrv__State::Body => {
                    if let Some(dst) = self.cipher.decode(&self.context, &mut self.session, src, Tracked(vcache))? {
                        Ok(Some(InboundIn::RelayTcp(dst)))
                    } else {
                        Ok(None)
                    }
                }
            }
        }
    }

//@@ octo-squirrel-client/src/client/shadowsocks.rs:44-48  mod tcp / struct PayloadCodec  sha=be10452486820427
pub struct sscli__PayloadCodec<const N: usize> {
        context: Arc<Context<N>>,
        session: Session<N>,
        cipher: AEADCipherCodec<N>,
    }

//@@ octo-squirrel-client/src/client/shadowsocks.rs:50-55  mod tcp / impl PayloadCodec  sha=1a5bada84bd768b5
impl<const N: usize> sscli__PayloadCodec<N> {
        fn new(context: Arc<Context<N>>, mode: Mode, address: Option<Address>) -> Self {
            let session = Session::new(mode, Identity::default(), address);
            Self { context, session, cipher: AEADCipherCodec::default() }
        }
    }

//@@ octo-squirrel-client/src/client/shadowsocks.rs:57-63  mod tcp / impl Encoder for PayloadCodec  sha=084270b11ca15a42
impl<const N: usize> sscli__PayloadCodec<N> {

        fn encode(&mut self, item: BytesMut, dst: &mut BytesMut) -> Result<()> {
            self.cipher.encode(&self.context, &self.session, item, dst)
        }
    }

//@@ octo-squirrel-client/src/client/shadowsocks.rs:65-73  mod tcp / impl Decoder for PayloadCodec  sha=6a2d8f9dab0196ba
impl<const N: usize> sscli__PayloadCodec<N> {

        fn decode(&mut self, src: &mut BytesMut, Tracked(vcache): Tracked<&mut SaltCache>) -> Result<Option<BytesMut>> {
            self.cipher.decode(&self.context, &mut self.session, src, Tracked(vcache))
        }
    }

//@@ octo-squirrel/src/config.rs:18-30  enum Mode  sha=957f62c1c01193ba
#[derive(Clone, Copy, PartialEq)]
pub enum cfg__Mode {
    Tcp,
    Udp,
    TcpAndUdp,
    Quic,
    TcpAndQuic,
}
spec fn serde_names__Mode(v: cfg__Mode) -> Seq<Seq<char>> {
    match v {
        cfg__Mode::Tcp => seq!["tcp"@],
        cfg__Mode::Udp => seq!["udp"@],
        cfg__Mode::TcpAndUdp => seq!["tcp_and_udp"@],
        cfg__Mode::Quic => seq!["quic"@],
        cfg__Mode::TcpAndQuic => seq!["tcp_and_quic"@],
    }
}
spec fn serde_other__Mode(v: cfg__Mode) -> bool {
    match v {
        cfg__Mode::Tcp => false,
        cfg__Mode::Udp => false,
        cfg__Mode::TcpAndUdp => false,
        cfg__Mode::Quic => false,
        cfg__Mode::TcpAndQuic => false,
    }
}

//@@ octo-squirrel/src/config.rs:32-44  impl Mode  sha=211fcf0f0c602cbb
impl cfg__Mode {
    fn enable_tcp(&self) -> bool {
        matches!(self, Self::Tcp | Self::TcpAndUdp | Self::TcpAndQuic)
    }

    fn enable_udp(&self) -> bool {
        matches!(self, Self::Udp | Self::TcpAndUdp)
    }

    fn enable_quic(&self) -> bool {
        matches!(self, Self::Quic | Self::TcpAndQuic)
    }
}

//@@ octo-squirrel/src/protocol.rs:14-20  enum Protocol  sha=f4fd8332bf4085d1
#[derive(PartialEq, Clone, Copy)]
pub enum Protocol {
    Shadowsocks,
    VMess,
    Trojan,
}
spec fn serde_names__Protocol(v: Protocol) -> Seq<Seq<char>> {
    match v {
        Protocol::Shadowsocks => seq!["shadowsocks"@],
        Protocol::VMess => seq!["vmess"@],
        Protocol::Trojan => seq!["trojan"@],
    }
}
spec fn serde_other__Protocol(v: Protocol) -> bool {
    match v {
        Protocol::Shadowsocks => false,
        Protocol::VMess => false,
        Protocol::Trojan => false,
    }
}

//@@ octo-squirrel/src/codec/aead.rs:124-142  enum CipherKind  sha=0afd87d0c4335287
#[derive(Default, Clone, Copy, PartialEq, Eq)]
pub enum cfgk__CipherKind {
    Aes128Gcm,
    Aes256Gcm,
    ChaCha20Poly1305,
    Aead2022Blake3Aes128Gcm,
    Aead2022Blake3Aes256Gcm,
    Aead2022Blake3ChaCha8Poly1305,
    Aead2022Blake3ChaCha20Poly1305,
    #[default]
    Unknown,
}
spec fn serde_names__CipherKind(v: cfgk__CipherKind) -> Seq<Seq<char>> {
    match v {
        cfgk__CipherKind::Aes128Gcm => seq!["aes-128-gcm"@],
        cfgk__CipherKind::Aes256Gcm => seq!["aes-256-gcm"@],
        cfgk__CipherKind::ChaCha20Poly1305 => seq!["chacha20-poly1305"@, "chacha20-ietf-poly1305"@],
        cfgk__CipherKind::Aead2022Blake3Aes128Gcm => seq!["2022-blake3-aes-128-gcm"@],
        cfgk__CipherKind::Aead2022Blake3Aes256Gcm => seq!["2022-blake3-aes-256-gcm"@],
        cfgk__CipherKind::Aead2022Blake3ChaCha8Poly1305 => seq!["2022-blake3-chacha8-poly1305"@],
        cfgk__CipherKind::Aead2022Blake3ChaCha20Poly1305 => seq!["2022-blake3-chacha20-poly1305"@],
        cfgk__CipherKind::Unknown => seq!["Unknown"@],
    }
}
spec fn serde_other__CipherKind(v: cfgk__CipherKind) -> bool {
    match v {
        cfgk__CipherKind::Aes128Gcm => false,
        cfgk__CipherKind::Aes256Gcm => false,
        cfgk__CipherKind::ChaCha20Poly1305 => false,
        cfgk__CipherKind::Aead2022Blake3Aes128Gcm => false,
        cfgk__CipherKind::Aead2022Blake3Aes256Gcm => false,
        cfgk__CipherKind::Aead2022Blake3ChaCha8Poly1305 => false,
        cfgk__CipherKind::Aead2022Blake3ChaCha20Poly1305 => false,
        cfgk__CipherKind::Unknown => false,
    }
}

//@@ octo-squirrel/src/protocol/shadowsocks.rs:27-47  mod aead / fn openssl_bytes_to_key  sha=7641dae4dfdc4611
fn ssaeadk__openssl_bytes_to_key<const N: usize>(password: &[u8]) -> [u8; N] {
        let mut encoded: [u8; N] = [0; N];
        let size = encoded.len();
        let mut hasher = Md5::new();
        hasher.update(password);
        let mut password_digest = hasher.finalize_reset();
        let mut container: Vec<u8> = vec![0; password.len() + password_digest.len()];
        let len = size.min(password_digest.len());
        encoded[..len].copy_from_slice(&password_digest);
        let mut index = password_digest.len();
        while index < size {
            let len = password_digest.len();
            container.v_range_mut(0,len).copy_from_slice(&password_digest);
            container.v_range_mut(len,container.len()).copy_from_slice(password);
            hasher.update(&container);
            password_digest = hasher.finalize_reset();
            encoded[index..].copy_from_slice(&password_digest[..password_digest.len().min(size - index)]);
            index += password_digest.len();
        }
        encoded
    }

//@@ octo-squirrel/src/protocol/shadowsocks.rs:70-80  mod aead_2022 / fn password_to_keys  sha=1241d19edc88b140
fn ss22k__password_to_keys<const N: usize>(password: &str) -> Result<([u8; N], Vec<[u8; N]>), base64ct::Error> {
        let split = password.v_split_c(':');
        let mut identity_keys = Vec::new();
        for s in split {
            let mut bytes = [0; N];
            Base64::decode(s, &mut bytes)?;
            identity_keys.push(bytes);
        }
        let enc_key = identity_keys.remove(identity_keys.len() - 1);
        Ok((enc_key, identity_keys))
    }

//@@ octo-squirrel/src/config.rs:64-84  struct ServerConfig  sha=4a1981ff06f0d60b
pub struct ServerConfig<S: Clone + Default> {
    pub host: String,
    pub port: u16,
    pub mode: cfg__Mode,
    pub password: String,
    pub protocol: Protocol,
    pub cipher: CipherKind,
    pub ssl: Option<S>,
    pub ws: Option<WebSocketConfig>,
    pub quic: Option<S>,
    pub user: Vec<User>,
    marker: PhantomData<S>,
}

//@@ octo-squirrel/src/config.rs:92-98  struct WebSocketConfig  sha=f6c7c5e2c14b9f62
pub struct WebSocketConfig {
    pub header: HashMap<String, String>,
    pub path: String,
}

//@@ octo-squirrel/src/config.rs:100-104  struct User  sha=bb2d5e07d1c8ea18
pub struct User {
    pub name: String,
    pub password: String,
}

//@@ octo-squirrel/src/manager/shadowsocks.rs:70-81  impl TryFrom for ServerUser  sha=147844897c3f48a7
impl<const N: usize> ServerUser<N> {

    fn try_from(value: &User) -> Result<Self, base64ct::Error> {
        let mut key = [0; N];
        let mut identity_hash = [0; 16];
        Base64::decode(&value.password, &mut key)?;
        let hash = blake3::hash(&key);
        identity_hash.copy_from_slice(&hash.as_bytes()[..16]);
        Ok(Self { name: value.name.clone(), key, identity_hash })
    }
}

//@@ octo-squirrel-client/src/client/config.rs:30-38  struct SslConfig  sha=335b473079324dbf
#[derive(Default, Clone)]
pub struct SslConfig {
    pub certificate_file: Option<String>,
    pub key_file: Option<String>,
    pub server_name: Option<String>,
}

//@@ octo-squirrel-client/src/client/shadowsocks.rs:21-22  mod tcp / struct ClientContext  sha=2382d56aa048fd90
#[derive(Clone)]
    pub struct ClientContext<const N: usize>(Arc<Context<N>>);

//@@ octo-squirrel-client/src/client/shadowsocks.rs:24-38  mod tcp / impl TryFrom for ClientContext  sha=39de7352398736c5
impl<const N: usize> ClientContext<N> {

        fn try_from(value: &ServerConfig<SslConfig>) -> Result<Self, anyhow::Error> {
            let kind = value.cipher;
            let (key, identity_keys) = if kind.is_aead_2022() {
                ss22k__password_to_keys(&value.password).map_err(|e| verif_err())?
            } else {
                let key = ssaeadk__openssl_bytes_to_key(value.password.as_bytes());
                (key, Vec::with_capacity(0))
            };
            let context = Arc::new(Context::new(key, identity_keys, value.cipher, None));
            Ok(Self(context))
        }
    }

//@@ octo-squirrel-client/src/client/shadowsocks.rs:103-108  mod udp / struct Client  sha=d93cebf4aeaa000b
#[derive(Clone, Copy)]
    pub struct Client<'a, const N: usize> {
        kind: CipherKind,
        key: &'a [u8],
        identity_keys: &'a [[u8; N]],
    }

//@@ octo-squirrel-client/src/client/shadowsocks.rs:110-121  mod udp / impl Client  sha=8c422fdb4dd96303
impl<const N: usize> Client<'_, N> {
        fn new_static(config: ServerConfig<SslConfig>) -> anyhow::Result<Client<'static, N>> {
            let (key, identity_keys) = if config.cipher.is_aead_2022() {
                ss22k__password_to_keys(&config.password).map_err(|e| verif_err())?
            } else {
                (ssaeadk__openssl_bytes_to_key(config.password.as_bytes()), Vec::with_capacity(0))
            };
            let key: &'static [u8; N] = verif_leak(key);
            let identity_keys: &'static Vec<[u8; N]> = verif_leak(identity_keys);
            Ok(Client::<'static> { kind: config.cipher, key, identity_keys })
        }
    }

//@@ octo-squirrel-server/src/server/shadowsocks.rs:322-323  mod tcp / struct ServerContext  sha=e2f8b9f4fe8a2fbd
#[derive(Clone)]
    pub struct ServerContext<const N: usize>(Arc<Context<N>>);

//@@ octo-squirrel-server/src/server/shadowsocks.rs:325-337  mod tcp / impl ServerContext  sha=8a129de5264a3aff
impl<const N: usize> ServerContext<N> {
        fn init(config: &ServerConfig<SslConfig>, user_manager: Arc<ServerUserManager<N>>) -> Result<Self> {
            let kind = config.cipher;
            let (key, identity_keys) = if kind.is_aead_2022() {
                ss22k__password_to_keys(&config.password).map_err(|e| verif_err())?
            } else {
                let key = ssaeadk__openssl_bytes_to_key(config.password.as_bytes());
                (key, Vec::with_capacity(0))
            };
            let context = Arc::new(Context::new(key, identity_keys, config.cipher, Some(user_manager)));
            Ok(Self(context))
        }
    }

//@@ octo-squirrel-server/src/server/shadowsocks.rs:174-177  struct UdpAssociate  sha=9a4a81ec24ed2a1c
struct UdpAssociate<const N: usize> {
    task: JoinHandle<()>,
    sender: Sender<(BytesMut, Address, udp__Session<N>)>,
}

//@@ octo-squirrel-server/src/server/shadowsocks.rs:179-183  impl UdpAssociate {fn try_send}  sha=c27fafa573386ec8
impl<const N: usize> UdpAssociate<N> {
    fn try_send(&self, msg: (BytesMut, Address, udp__Session<N>), Tracked(vlog): Tracked<&mut AssocLog>) -> Result<(), mpsc::error::SendError<(BytesMut, Address, udp__Session<N>)>> {
        self.sender.send(msg, Tracked(vlog))
    }
}

//@@ octo-squirrel-server/src/server/shadowsocks.rs:192-201  struct UdpAssociateContext  sha=78838acd7ad7e4db
struct UdpAssociateContext<const N: usize> {
    client_session_id: u64,
    client_session_filter: PacketWindowFilter,
    client_addr: SocketAddr,
    inbound: Sender<(BytesMut, Address, SocketAddr, udp__Session<N>)>,
    outbound: UdpSocket,
    server_session_id: u64,
    server_packet_id: u64,
    user: Option<Arc<ServerUser<N>>>,
}

//@@ octo-squirrel-server/src/server/shadowsocks.rs:306-308  mod udp / fn new_codec  sha=310cf0e86d70ac1a
fn new_codec<'a, const N: usize>(config: &ServerConfig<SslConfig>, context: udp__Context<'a, N>) -> anyhow::Result<udp__SessionCodec<'a, N>> {
        Ok(udp__SessionCodec::<'a, N>::new(context, udp__AEADCipherCodec::new(config.cipher)))
    }

//@@ octo-squirrel-server/src/server/shadowsocks.rs:84-172  fn startup_udp  sha=9d89544655b737b4
fn startup_udp<const N: usize>(config: &ServerConfig<SslConfig>, user_manager: &Arc<ServerUserManager<N>>, Tracked(vlog): Tracked<&mut AssocLog>) -> anyhow::Result<()> {
    if !config.mode.enable_udp() && !config.mode.enable_quic() {
        return Ok(());
    }
    if config.mode.enable_udp() {
        let (key, identity_keys) = if config.cipher.is_aead_2022() {
            ss22k__password_to_keys(&config.password).map_err(|e| verif_err())?
        } else {
            (ssaeadk__openssl_bytes_to_key(config.password.as_bytes()), Vec::with_capacity(0))
        };
        let context = udp__Context::new(Mode::Server, Some(user_manager.clone()), &key, &identity_keys);
        let codec = new_codec::<N>(config, context)?;
        let inbound = UdpSocket::bind(verif_host_port(&(config.host), config.port))?;
        let (tx, mut rx) = mpsc::channel::<(BytesMut, Address, SocketAddr, udp__Session<N>)>(1024);
        let ttl = Duration::from_secs(300);
        // a 2022 session is named by its client session id; the original AEAD ciphers carry no session id on the wire: there a client is its address
        let by_address = !config.cipher.is_aead_2022();
        let mut net_map: LruCache<(u64, Option<SocketAddr>), UdpAssociate<N>> = LruCache::with_expiry_duration_and_capacity(ttl, 10240);
        let mut cleanup_timer = time::interval(ttl);
        /*R2*/
        let mut buf = [0; 0x10000];
        loop {
            match verif_select(3) {
                0 => { let _ = cleanup_timer.tick(); {
                    net_map.iter();
                } }
                // p_s_c
                1 => { let peer_msg = rx.recv(Tracked(vlog)); {
                    if let Some((content, peer_addr, client_addr, session)) = peer_msg {
                        net_map.get(&(session.client_session_id, by_address.then_some(client_addr))); // keep alive
                        let mut dst = BytesMut::new();
                        if let Err(e) = udp__SessionCodec::encode(&codec, (content, peer_addr, session), &mut dst) {
                            ()
                        } else {
                            inbound.send_to(&dst, client_addr, Tracked(vlog))?;
                        }
                    } else {
                        /*R2*/
                        break;
                    }
                } }
                // c_s_p
                _ => { let client_msg = inbound.recv_from(&mut buf, Tracked(vlog)); {
                    match client_msg {
                        Ok((len, client_addr)) => {
                            let mut src = BytesMut::from(&buf[..len]);
                            match udp__SessionCodec::<N>::decode(&codec, &mut src) {
                                Ok(Some((content, peer_addr, session))) => {
                                    let key = (session.client_session_id, by_address.then_some(client_addr));
                                    // an association whose task has ended (unresolvable or unreachable target) is replaced, never fatal for the service
                                    if net_map.get(&key).is_some_and(|assoc| assoc.task.is_finished()) {
                                        net_map.remove(&key);
                                    }
                                    if let Some(assoc) = net_map.get_mut(&key) {
                                        if let Err(e) = assoc.try_send((content, peer_addr, session), Tracked(vlog)) {
                                            /*R2*/
                                            net_map.remove(&key);
                                        }
                                    } else {
                                        match UdpAssociateContext::create(&session, client_addr, tx.clone()) {
                                            Ok(assoc) => {
                                                if let Err(e) = assoc.try_send((content, peer_addr, session), Tracked(vlog)) {
                                                    /*R2*/
                                                } else {
                                                    net_map.insert(key, assoc);
                                                }
                                            }
                                            Err(e) => (),
                                        }
                                    }
                                }
                                Ok(None) => {}
                                Err(e) => (),
                            }
                        }
                        Err(e) => {
                            /*R2*/
                        }
                    }
                } }
            }
        }
        /*R2*/
        Ok(())
    } else {
        let context: ServerContext<N> = ServerContext::init(config, user_manager.clone())?;
        srv__startup_quic(context, config, |c| Ok(sssrv__PayloadCodec::from(c)))
    }
}

//@@ octo-squirrel-server/src/server/shadowsocks.rs:44-74  fn startup  sha=f9e9296b8572f902
fn startup(config: &ServerConfig<SslConfig>, Tracked(vlog): Tracked<&mut AssocLog>) -> anyhow::Result<()> {
    let res = match config.cipher {
        CipherKind::Aes128Gcm | CipherKind::Aead2022Blake3Aes128Gcm => {
            let mut user_manager: ServerUserManager<16> = ServerUserManager::new();
            for user in config.user.iter() {
                user_manager.add_user(ServerUser::try_from(user).map_err(|e| verif_err())?);
            }
            let user_manager = Arc::new(user_manager);
            (startup_udp::<16>(config, &user_manager, Tracked(vlog)), startup_tcp::<16>(config, &user_manager))
        }
        CipherKind::Aes256Gcm
        | CipherKind::Aead2022Blake3Aes256Gcm
        | CipherKind::ChaCha20Poly1305
        | CipherKind::Aead2022Blake3ChaCha8Poly1305
        | CipherKind::Aead2022Blake3ChaCha20Poly1305 => {
            let mut user_manager: ServerUserManager<32> = ServerUserManager::new();
            for user in config.user.iter() {
                user_manager.add_user(ServerUser::try_from(user).map_err(|e| verif_err())?);
            }
            let user_manager = Arc::new(user_manager);
            (startup_udp::<32>(config, &user_manager, Tracked(vlog)), startup_tcp::<32>(config, &user_manager))
        }
        CipherKind::Unknown => return Err(verif_err()),
    };
    match res {
        (Ok(_), Ok(_)) => Ok(()),
        (Ok(_), Err(e)) => return Err(verif_err()),
        (Err(e), Ok(_)) => return Err(verif_err()),
        (Err(e1), Err(e2)) => return Err(verif_err()),
    }
}

//@@ octo-squirrel-server/src/server/shadowsocks.rs:76-82  fn startup_tcp  sha=b6e808d99b150591
fn startup_tcp<const N: usize>(config: &ServerConfig<SslConfig>, user_manager: &Arc<ServerUserManager<N>>) -> anyhow::Result<()> {
    if !config.mode.enable_tcp() {
        return Ok(());
    }
    let context: ServerContext<N> = ServerContext::init(config, user_manager.clone())?;
    srv__startup_tcp(context, config, |c| Ok(sssrv__PayloadCodec::from(c)))
}

//@@ octo-squirrel-server/src/server/shadowsocks.rs:203-298  impl UdpAssociateContext {fn relay,fn validate_packet_id}  sha=83f5dd0af9b9d8fe
impl<const N: usize> UdpAssociateContext<N> {

    fn relay(&mut self, mut receiver: Receiver<(BytesMut, Address, udp__Session<N>)>, Tracked(vlog): Tracked<&mut AssocLog>) {
        let mut buf = [0; 0x10000];
        loop {
            match verif_select(2) {
                0 => { let peer_msg = self.outbound.recv_from(&mut buf, Tracked(vlog)); {
                    match peer_msg {
                        Ok((len, peer_addr)) => {
                            let content = BytesMut::from(&buf[..len]);
                            self.server_packet_id = match self.server_packet_id.checked_add(1) {
                                Some(id) => id,
                                None => {
                                    /*R2*/
                                    break;
                                }
                            };
                            let session = udp__Session::new(
                                self.client_session_id,
                                self.server_session_id,
                                self.server_packet_id,
                                self.user.clone(),
                            );
                            /*R2*/
                            if let Err(e) = self.inbound.send((content, peer_addr.into(), self.client_addr, session), Tracked(vlog)) {
                                /*R2*/
                            }
                        },
                        Err(e) => {
                            /*R2*/
                            break;
                        }
                    }
                } }
                _ => { let client_msg = receiver.recv(Tracked(vlog)); {
                    match client_msg {
                        Some((content, peer_addr, session)) => {
                            /*R2*/
                            let resolved_addr = match peer_addr.to_socket_addr() {
                                Ok(addr) => addr,
                                Err(e) => {
                                    /*R2*/
                                    break;
                                },
                            };
                            // a session belongs to the user who opened it: a datagram of another user that carries its session id is not served here
                            if self.user.is_some() && self.user != session.user {
                                /*R2*/
                                continue;
                            }
                            if !self.validate_packet_id(session.packet_id) {
                                // a duplicate or stale packet is dropped; the session goes on
                                /*R2*/
                                continue;
                            }
                            self.user = session.user.clone();
                            if let Err(e) = self.outbound.send_to(&content, resolved_addr, Tracked(vlog)) {
                                /*R2*/
                                break;
                            }
                        }
                        None => {
                            /*R2*/
                            break;
                        }
                    }
                } }
            }
        }
    }

    fn validate_packet_id(&mut self, packet_id: u64) -> bool {
        self.client_session_filter.validate_packet_id(packet_id, u64::MAX)
    }
}

//@@ octo-squirrel-client/src/client/shadowsocks.rs:40-42  mod tcp / fn new_payload_codec  sha=1f38991046ebd3b8
fn sscli__new_payload_codec<const N: usize>(addr: &Address, config: ClientContext<N>) -> Result<sscli__PayloadCodec<N>> {
        Ok(sscli__PayloadCodec::new(config.0, Mode::Client, Some(addr.clone())))
    }

//@@ octo-squirrel-client/src/client/shadowsocks.rs:123-136  mod udp / fn new_plain_outbound  sha=ab722790d4dfa290
fn ssucli__new_plain_outbound<'a, const N: usize>(
        verif_arg1: &Address,
        client: &Client<'a, N>,
    ) -> anyhow::Result<UdpFramed<DatagramPacketCodec<'a, N>>> {
        let outbound = UdpSocket::bind(SocketAddrV4::new(verif_ipv4_unspecified(), 0))?;
        let outbound_framed = UdpFramed::new(
            outbound,
            DatagramPacketCodec::new(udp__SessionCodec::new(
                udp__Context::new(Mode::Client, None, client.key, client.identity_keys),
                udp__AEADCipherCodec::new(client.kind),
            )),
        );
        Ok(outbound_framed)
    }

//@@ octo-squirrel-client/src/client.rs:42-72  fn transfer_tcp  sha=053e21b3dd8afc4c
fn transfer_tcp(listener: TcpListener, current: ServerConfig<SslConfig>) {
    match current.protocol {
        Shadowsocks => match current.cipher {
            CipherKind::Aes128Gcm | CipherKind::Aead2022Blake3Aes128Gcm => {
                tmpl__transfer_tcp(
                    listener,
                    current,
                    |c| ClientContext::<16>::try_from(c),
                    sscli__new_payload_codec::<16>,
                )
            }
            CipherKind::Aes256Gcm
            | CipherKind::Aead2022Blake3Aes256Gcm
            | CipherKind::ChaCha20Poly1305
            | CipherKind::Aead2022Blake3ChaCha8Poly1305
            | CipherKind::Aead2022Blake3ChaCha20Poly1305 => {
                tmpl__transfer_tcp(
                    listener,
                    current,
                    |c| ClientContext::<32>::try_from(c),
                    sscli__new_payload_codec::<32>,
                )
            }
            CipherKind::Unknown => (),
        },
        VMess => tmpl__transfer_tcp(listener, current, |c| Ok((c.cipher, c.password.clone())), vmesstcp__new_codec),
        Trojan => tmpl__transfer_tcp(listener, current, |c| Ok(c.password.clone()), trojantcp__new_codec),
    }
}

//@@ octo-squirrel-client/src/client/template.rs:99-134  fn try_transfer_tcp  sha=b59c4e834d63662b
fn try_transfer_tcp<Context, NewCodec, Codec>(
    inbound: TcpStream,
    peer_addr: &Address,
    config: &ServerConfig<SslConfig>,
    context: Context,
    new_codec: NewCodec,Tracked(vlog): Tracked<&mut TransportLog>
) -> Result<relay__Result>
where
    NewCodec: FnOnce(&Address, Context) -> Result<Codec>,
    Codec: Encoder<BytesMut, Error = anyhow::Error> + Decoder<Item = BytesMut, Error = anyhow::Error> + Send + 'static + Unpin,
{
    let local_client = Framed::new(inbound, BytesCodec);
    let codec = new_codec(peer_addr, context)?;
    Ok(match (&config.ssl, &config.ws, &config.quic) {
        (None, None, None) => {
            let client_server = new_plain_outbound(&config.host, config.port, codec, Tracked(vlog))?;
            relay_tcp(local_client, client_server, Tracked(vlog))
        }
        (_, _, Some(quic_config)) => {
            let client_server = new_quic_outbound(&config.host, config.port, codec, quic_config, Tracked(vlog))?;
            relay_tcp(local_client, client_server, Tracked(vlog))
        }
        (None, Some(ws_config), None) => {
            let client_server = new_ws_outbound(&config.host, config.port, codec, ws_config, Tracked(vlog))?;
            relay_tcp(local_client, client_server, Tracked(vlog))
        }
        (Some(ssl_config), None, None) => {
            let client_server = new_tls_outbound(&config.host, config.port, codec, ssl_config, Tracked(vlog))?;
            relay_tcp(local_client, client_server, Tracked(vlog))
        }
        (Some(ssl_config), Some(ws_config), None) => {
            let client_server = new_wss_outbound(&config.host, config.port, codec, ssl_config, ws_config, Tracked(vlog))?;
            relay_tcp(local_client, client_server, Tracked(vlog))
        }
    })
}

//@@ octo-squirrel-client/src/client/template.rs:294-301  fn new_plain_outbound  sha=09673406cd095822
fn new_plain_outbound<C, E, D>(host: &str, port: u16, codec: C, Tracked(vlog): Tracked<&mut TransportLog>) -> Result<Framed<TcpStream, C>, anyhow::Error>
where
    C: Encoder<E, Error = anyhow::Error> + Decoder<Item = D, Error = anyhow::Error>,
{
    let outbound = TcpStream::connect((host, port), Tracked(vlog))?;
    let client_server = codec.framed(outbound);
    Ok(client_server)
}

//@@ octo-squirrel-client/src/client/template.rs:318-324  fn new_tls_outbound  sha=70960c9746a9bdb7
fn new_tls_outbound<C, E, D>(host: &str, port: u16, codec: C, ssl_config: &SslConfig, Tracked(vlog): Tracked<&mut TransportLog>) -> Result<Framed<TlsStream<TcpStream>, C>>
where
    C: Encoder<E, Error = anyhow::Error> + Decoder<Item = D, Error = anyhow::Error>,
{
    let outbound = rustls_stream(host, port, ssl_config, Tracked(vlog))?;
    Ok(codec.framed(outbound))
}

//@@ octo-squirrel-client/src/client/template.rs:326-333  fn new_ws_outbound  sha=82dae80f08bff00b
fn new_ws_outbound<C, E, D>(host: &str, port: u16, codec: C, ws_config: &WebSocketConfig, Tracked(vlog): Tracked<&mut TransportLog>) -> Result<WebSocketFramed<TcpStream, C, E, D>>
where
    C: Encoder<E, Error = anyhow::Error> + Decoder<Item = D, Error = anyhow::Error>,
{
    let outbound = TcpStream::connect((host, port), Tracked(vlog))?;
    let (outbound, _) = new_ws_builder(host, port, ws_config)?.connect_on(outbound, Tracked(vlog)).map_err(|e| verif_err())?;
    Ok(WebSocketFramed::new(outbound, codec))
}

//@@ octo-squirrel-client/src/client/template.rs:335-348  fn new_wss_outbound  sha=1e8658c59e113840
fn new_wss_outbound<C, E, D>(
    host: &str,
    port: u16,
    codec: C,
    ssl_config: &SslConfig,
    ws_config: &WebSocketConfig,Tracked(vlog): Tracked<&mut TransportLog>
) -> Result<WebSocketFramed<TlsStream<TcpStream>, C, E, D>>
where
    C: Encoder<E, Error = anyhow::Error> + Decoder<Item = D, Error = anyhow::Error>,
{
    let outbound = rustls_stream(host, port, ssl_config, Tracked(vlog))?;
    let (outbound, _) = new_ws_builder(host, port, ws_config)?.connect_on(outbound, Tracked(vlog)).map_err(|e| verif_err())?;
    Ok(WebSocketFramed::new(outbound, codec))
}

//@@ octo-squirrel-client/src/client/template.rs:368-378  fn rustls_stream  sha=916d255d3a37d89f
fn rustls_stream(host: &str, port: u16, ssl_config: &SslConfig, Tracked(vlog): Tracked<&mut TransportLog>) -> Result<TlsStream<TcpStream>> {
    let stream = TcpStream::connect((host, port), Tracked(vlog))?;
    let config = rustls_client_config(ssl_config)?;
    let connector = TlsConnector::from(Arc::new(config));
    let server_name = if let Some(server_name) = &ssl_config.server_name {
        ServerName::try_from(server_name.to_owned())?
    } else {
        ServerName::try_from(host.to_owned())?
    };
    connector.connect(server_name, stream, Tracked(vlog)).map_err(|e| verif_err())
}
