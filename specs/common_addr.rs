// ---- specs/common_addr.rs : RFC 1928 section 5 address layout (ATYP, ADDR, PORT) as spec functions ----
pub enum AddrV { Dom(Seq<u8>, u16), V4(Seq<u8>, u16), V6(Seq<u8>, u16) }
pub open spec fn addr_valid(v: AddrV) -> bool {
    match v {
        AddrV::Dom(n, _) => n.len() <= 255 && is_utf8(n),
        AddrV::V4(o, _) => o.len() == 4,
        AddrV::V6(o, _) => o.len() == 16,
    }
}
pub open spec fn enc5(v: AddrV) -> Seq<u8> {
    match v {
        AddrV::Dom(n, p) => seq![3u8, n.len() as u8] + n + be_bytes(p as nat, 2),
        AddrV::V4(o, p) => seq![1u8] + o + be_bytes(p as nat, 2),
        AddrV::V6(o, p) => seq![4u8] + o + be_bytes(p as nat, 2),
    }
}
/// the address at the head of `s` and the number of bytes it occupies; None = malformed or incomplete
pub open spec fn parse5(s: Seq<u8>) -> Option<(AddrV, nat)> {
    if s.len() < 1 { None }
    else if s[0] == 1 { if s.len() < 7 { None } else { Some((AddrV::V4(s.subrange(1, 5), be_val(s.subrange(5, 7)) as u16), 7nat)) } }
    else if s[0] == 4 { if s.len() < 19 { None } else { Some((AddrV::V6(s.subrange(1, 17), be_val(s.subrange(17, 19)) as u16), 19nat)) } }
    else if s[0] == 3 {
        if s.len() < 2 || s.len() < 4 + s[1] { None } else {
            let l = s[1] as int;
            if is_utf8(s.subrange(2, 2 + l)) { Some((AddrV::Dom(s.subrange(2, 2 + l), be_val(s.subrange(2 + l, 4 + l)) as u16), (4 + l) as nat)) } else { None }
        }
    } else { None }
}
/// length announced by the two bytes at `at` (what try_decode_at computes)
pub open spec fn need5(s: Seq<u8>, at: int) -> Option<nat> {
    if at + 1 >= s.len() { None }
    else if s[at] == 1 { Some(7nat) } else if s[at] == 4 { Some(19nat) } else if s[at] == 3 { Some((4 + s[at + 1]) as nat) } else { None }
}
//#C14
/// C14: every representable address survives encoding exactly and occupies exactly its own bytes, whatever follows
pub proof fn lemma_addr5_roundtrip(v: AddrV, tail: Seq<u8>)
    requires addr_valid(v)
    ensures parse5(enc5(v) + tail) == Some((v, enc5(v).len())),
{
    let s = enc5(v) + tail;
    match v {
        AddrV::Dom(n, p) => {
            let l = n.len() as int;
            lemma_be_bytes_len(p as nat, 2);
            lemma_pow256_vals();
            lemma_be_roundtrip(p as nat, 2);
            assert(s[0] == 3 && s[1] == l);
            assert(s.subrange(2, 2 + l) =~= n);
            assert(s.subrange(2 + l, 4 + l) =~= be_bytes(p as nat, 2));
        }
        AddrV::V4(o, p) => {
            lemma_be_bytes_len(p as nat, 2);
            lemma_pow256_vals();
            lemma_be_roundtrip(p as nat, 2);
            assert(s[0] == 1);
            assert(s.subrange(1, 5) =~= o);
            assert(s.subrange(5, 7) =~= be_bytes(p as nat, 2));
        }
        AddrV::V6(o, p) => {
            lemma_be_bytes_len(p as nat, 2);
            lemma_pow256_vals();
            lemma_be_roundtrip(p as nat, 2);
            assert(s[0] == 4);
            assert(s.subrange(1, 17) =~= o);
            assert(s.subrange(17, 19) =~= be_bytes(p as nat, 2));
        }
    }
}
//#C14 C04
/// what parse5 accepts occupies exactly need5 bytes, and is the encoding of the address it returns
pub proof fn lemma_parse5_exact(s: Seq<u8>)
    requires parse5(s) is Some
    ensures need5(s, 0) == Some(parse5(s).unwrap().1), addr_valid(parse5(s).unwrap().0), s.take(parse5(s).unwrap().1 as int) == enc5(parse5(s).unwrap().0),
{
    let (v, n) = parse5(s).unwrap();
    lemma_pow256_vals();
    match v {
        AddrV::Dom(nm, p) => {
            let l = s[1] as int;
            lemma_be_val_bound(s.subrange(2 + l, 4 + l));
            lemma_be_roundtrip2(s.subrange(2 + l, 4 + l));
            assert(s.take(n as int) =~= enc5(v));
        }
        AddrV::V4(o, p) => {
            lemma_be_val_bound(s.subrange(5, 7));
            lemma_be_roundtrip2(s.subrange(5, 7));
            assert(s.take(n as int) =~= enc5(v));
        }
        AddrV::V6(o, p) => {
            lemma_be_val_bound(s.subrange(17, 19));
            lemma_be_roundtrip2(s.subrange(17, 19));
            assert(s.take(n as int) =~= enc5(v));
        }
    }
}
