// u_addr -- protocol/address.rs, protocol/socks5*.rs under contract (C14, C13, C07, C02, C04)
use vstd::prelude::*;
verus! {
global size_of usize == 8;   // ASSUMPTION: 64-bit target
pub mod shim {
use vstd::prelude::*;
//@include ../../shims/prelude.rs
//@include ../../shims/bytes.rs
//@include ../../shims/net.rs
//@include ../../shims/ord.rs
}
use shim::*;
pub mod specs {
use vstd::prelude::*;
use super::shim::*;
//@include ../common_addr.rs
}
use specs::*;
use anyhow::Result;
type DatagramPacket = (BytesMut, Address);
broadcast use axiom_v4_len, axiom_v6_len, axiom_string_utf8, axiom_slice_cmp_u8;

//@include ../parts/addr.rs
//@include ../parts/ord.rs
//@include ../parts/plain.rs
//@include ../parts/s5hs.rs
} // verus!
fn main() {}
