

//@@ octo-squirrel/src/protocol/address.rs:9-13  enum Address  sha=d701f69e752e0952
#[derive(PartialEq, Eq)]
pub enum Address {
    Domain(String, u16),
    Socket(SocketAddr),
}

//@@ octo-squirrel/src/protocol/address.rs:56-60  impl From for Address  sha=3ef1d03c02fbf299
impl From<SocketAddr> for Address {
    fn from(value: SocketAddr) -> Self {
        Address::Socket(value)
    }
}

//@@ octo-squirrel/src/protocol/socks5.rs:9-9  const VERSION  sha=31c82d410f6df766
const VERSION: u8 = 5;

//@@ octo-squirrel/src/protocol/socks5.rs:11-15  enum Socks5CommandStatus  sha=a67902fd29d73d0f
#[derive(PartialEq, Eq, Clone, Copy)]
pub enum Socks5CommandStatus {
    Success,
    Failure,
}

//@@ octo-squirrel/src/protocol/socks5.rs:17-29  impl TryFrom for Socks5CommandStatus  sha=fd0d55fe4da0bd20
impl TryFrom<u8> for Socks5CommandStatus {
    type Error = anyhow::Error;

    fn try_from(value: u8) -> Result<Self, Self::Error> {
        if Self::Success as u8 == value {
            Ok(Self::Success)
        } else if Self::Failure as u8 == value {
            Ok(Self::Failure)
        } else {
            return Err(verif_err());
        }
    }
}

//@@ octo-squirrel/src/protocol/socks5.rs:31-36  enum Socks5AddressType  sha=6571f459743d9f1b
#[derive(PartialEq, Eq, Clone, Copy)]
pub enum Socks5AddressType {
    Ipv4 = 1,
    Domain = 3,
    Ipv6 = 4,
}

//@@ octo-squirrel/src/protocol/socks5.rs:38-52  impl TryFrom for Socks5AddressType  sha=a2da60cfb209176f
impl TryFrom<u8> for Socks5AddressType {
    type Error = anyhow::Error;

    fn try_from(value: u8) -> Result<Self, Self::Error> {
        if Self::Ipv4 as u8 == value {
            Ok(Self::Ipv4)
        } else if Self::Domain as u8 == value {
            Ok(Self::Domain)
        } else if Self::Ipv6 as u8 == value {
            Ok(Self::Ipv6)
        } else {
            return Err(verif_err());
        }
    }
}

//@@ octo-squirrel/src/protocol/socks5.rs:54-59  enum Socks5CommandType  sha=dc476d448b8347ac
#[derive(PartialEq, Copy, Clone)]
pub enum Socks5CommandType {
    Connect = 1,
    Bind = 2,
    UdpAssociate = 3,
}

//@@ octo-squirrel/src/protocol/socks5.rs:61-73  impl Socks5CommandType  sha=c537aa93435591bf
impl Socks5CommandType {
    fn new(byte: u8) -> Result<Self> {
        if Self::Connect as u8 == byte {
            Ok(Self::Connect)
        } else if Self::Bind as u8 == byte {
            Ok(Self::Bind)
        } else if Self::UdpAssociate as u8 == byte {
            Ok(Self::UdpAssociate)
        } else {
            return Err(verif_err());
        }
    }
}

//@@ octo-squirrel/src/protocol/socks5.rs:75-81  enum Socks5AuthMethod  sha=6d6099cb2a681b28
#[derive(PartialEq, Eq, Clone, Copy)]
pub enum Socks5AuthMethod {
    NoAuth,
    Gssapi,
    Password,
    Unaccepted = 255,
}

//@@ octo-squirrel/src/protocol/socks5.rs:83-97  impl Socks5AuthMethod  sha=d8a72e4c7070a4ae
impl Socks5AuthMethod {
    fn new(byte: u8) -> Result<Self> {
        if Self::NoAuth as u8 == byte {
            Ok(Self::NoAuth)
        } else if Self::Gssapi as u8 == byte {
            Ok(Self::Gssapi)
        } else if Self::Password as u8 == byte {
            Ok(Self::Password)
        } else if Self::Unaccepted as u8 == byte {
            Ok(Self::Unaccepted)
        } else {
            return Err(verif_err())
        }
    }
}

//@@ octo-squirrel/src/protocol/socks5/address.rs:16-35  fn encode  sha=2d4531094da3eeb9
fn address__encode(addr: &Address, dst: &mut BytesMut) {
    match addr {
        Address::Domain(host, port) => {
            dst.put_u8(Socks5AddressType::Domain as u8);
            dst.put_u8(host.len() as u8);
            dst.extend_from_slice(host.as_bytes());
            dst.put_u16(*port);
        }
        Address::Socket(SocketAddr::V4(v4)) => {
            dst.put_u8(Socks5AddressType::Ipv4 as u8);
            dst.extend_from_slice(&v4.ip().octets());
            dst.put_u16(v4.port());
        }
        Address::Socket(SocketAddr::V6(v6)) => {
            dst.put_u8(Socks5AddressType::Ipv6 as u8);
            dst.extend_from_slice(&v6.ip().octets());
            dst.put_u16(v6.port())
        }
    }
}

//@@ octo-squirrel/src/protocol/socks5/address.rs:37-71  fn decode  sha=288a7ff43f0bf184
fn address__decode(src: &mut BytesMut) -> Result<Address> {
    if !src.has_remaining() {
        return Err(verif_err());
    }
    let addr_type = Socks5AddressType::try_from(src.get_u8())?;
    match addr_type {
        Socks5AddressType::Ipv4 => {
            if src.remaining() < 4 + 2 {
                return Err(verif_err());
            }
            let ip_v4 = Ipv4Addr::from(src.get_u32());
            Ok(Address::Socket(SocketAddr::V4(SocketAddrV4::new(ip_v4, src.get_u16()))))
        }
        Socks5AddressType::Domain => {
            if !src.has_remaining() {
                return Err(verif_err());
            }
            let len = src.get_u8();
            if src.remaining() < len as usize + 2 {
                return Err(verif_err());
            }
            let host_bytes = src.split_to(len as usize);
            let port = src.get_u16();
            let host = String::from_utf8(host_bytes.to_vec())?;
            Ok(Address::Domain(host, port))
        }
        Socks5AddressType::Ipv6 => {
            if src.remaining() < 16 + 2 {
                return Err(verif_err());
            }
            let ip_v6 = Ipv6Addr::from(src.get_u128());
            Ok(Address::Socket(SocketAddr::V6(SocketAddrV6::new(ip_v6, src.get_u16(), 0, 0))))
        }
    }
}

//@@ octo-squirrel/src/protocol/socks5/address.rs:73-81  fn length  sha=1ce35ec20bf8da66
fn address__length(addr: &Address) -> usize {
    match addr {
        Address::Domain(host, _) => 1 + 1 + host.len() + 2,
        Address::Socket(socket_addr) => match socket_addr {
            SocketAddr::V4(_) => 1 + 4 + 2,
            SocketAddr::V6(_) => 1 + 8 * 2 + 2,
        },
    }
}

//@@ octo-squirrel/src/protocol/socks5/address.rs:83-89  fn try_decode_at  sha=5ccf7be5a6d37f47
fn address__try_decode_at(src: &BytesMut, at: usize) -> Result<usize> {
    match Socks5AddressType::try_from(src[at])? {
        Socks5AddressType::Ipv4 => Ok(1 + 4 + 2),
        Socks5AddressType::Domain => Ok(1 + 1 + src[at + 1] as usize + 2),
        Socks5AddressType::Ipv6 => Ok(1 + 8 * 2 + 2),
    }
}

//@@ octo-squirrel/src/protocol/socks5/message.rs:15-17  struct Socks5InitialRequest  sha=1f38e54f5ce6f2db
pub struct Socks5InitialRequest {
    auth_methods: Vec<Socks5AuthMethod>,
}

//@@ octo-squirrel/src/protocol/socks5/message.rs:19-23  impl Socks5InitialRequest  sha=66b70fecd4f00ef9
impl Socks5InitialRequest {
    fn new(auth_methods: Vec<Socks5AuthMethod>) -> Self {
        Socks5InitialRequest { auth_methods }
    }
}

//@@ octo-squirrel/src/protocol/socks5/message.rs:24-32  impl Socks5Message for Socks5InitialRequest  sha=058dad5f7f457d1d
impl Socks5InitialRequest {
    fn encode(&mut self, dst: &mut BytesMut) {
        dst.put_u8(VERSION);
        dst.put_u8(self.auth_methods.len() as u8);
        for auth_method in self.auth_methods.iter() {
            dst.put_u8(*auth_method as u8);
        }
    }
}

//@@ octo-squirrel/src/protocol/socks5/message.rs:34-36  struct Socks5InitialResponse  sha=a0c0c6134306fe8c
pub struct Socks5InitialResponse {
    pub auth_method: Socks5AuthMethod,
}

//@@ octo-squirrel/src/protocol/socks5/message.rs:38-42  impl Socks5InitialResponse  sha=7a6280ab6a32c0a3
impl Socks5InitialResponse {
    fn new(auth_method: Socks5AuthMethod) -> Self {
        Self { auth_method }
    }
}

//@@ octo-squirrel/src/protocol/socks5/message.rs:44-49  impl Socks5Message for Socks5InitialResponse  sha=8dd6279b740c0a99
impl Socks5InitialResponse {
    fn encode(&mut self, dst: &mut BytesMut) {
        dst.put_u8(VERSION);
        dst.put_u8(self.auth_method as u8);
    }
}

//@@ octo-squirrel/src/protocol/socks5/message.rs:51-55  struct Socks5CommandRequest  sha=130272c42a34f604
#[derive(PartialEq, Clone)]
pub struct Socks5CommandRequest {
    pub command_type: Socks5CommandType,
    pub dst_addr: Address,
}

//@@ octo-squirrel/src/protocol/socks5/message.rs:57-61  impl Socks5CommandRequest  sha=1349fbb1a81b1852
impl Socks5CommandRequest {
    fn new(command_type: Socks5CommandType, dst_addr: Address) -> Self {
        Self { command_type, dst_addr }
    }
}

//@@ octo-squirrel/src/protocol/socks5/message.rs:63-70  impl Socks5Message for Socks5CommandRequest  sha=f6e234156e560fc6
impl Socks5CommandRequest {
    fn encode(&mut self, dst: &mut BytesMut) {
        dst.put_u8(VERSION);
        dst.put_u8(self.command_type as u8);
        dst.put_u8(0);
        address__encode(&self.dst_addr, dst);
    }
}

//@@ octo-squirrel/src/protocol/socks5/message.rs:72-75  struct Socks5CommandResponse  sha=1824c387399e2856
pub struct Socks5CommandResponse {
    pub command_status: Socks5CommandStatus,
    pub bnd_addr: Address,
}

//@@ octo-squirrel/src/protocol/socks5/message.rs:77-84  impl Socks5Message for Socks5CommandResponse  sha=ebab27fe779588e9
impl Socks5CommandResponse {
    fn encode(&mut self, dst: &mut BytesMut) {
        dst.put_u8(VERSION);
        dst.put_u8(self.command_status as u8);
        dst.put_u8(0x00);
        address__encode(&self.bnd_addr, dst);
    }
}

//@@ octo-squirrel/src/protocol/socks5/message.rs:86-90  impl Socks5CommandResponse  sha=27aec98fbb40980e
impl Socks5CommandResponse {
    fn new(command_status: Socks5CommandStatus, bnd_addr: Address) -> Self {
        Self { command_status, bnd_addr }
    }
}

//@@ octo-squirrel/src/protocol/socks5/codec.rs:42-42  struct Socks5InitialRequestDecoder  sha=afb7b11cbafe5eb2
pub struct Socks5InitialRequestDecoder;

//@@ octo-squirrel/src/protocol/socks5/codec.rs:44-64  impl Decoder for Socks5InitialRequestDecoder  sha=728eea90ebc48856
impl Socks5InitialRequestDecoder {

    fn decode(&mut self, src: &mut BytesMut) -> Result<Option<Socks5InitialRequest>> {
        if src.remaining() < 2 || src.remaining() < 2 + src[1] as usize {
            return Ok(None);
        }
        let version = src.get_u8();
        if VERSION != version {
            return Err(verif_err());
        }
        let count = src.get_u8() as usize;
        let mut auth_methods = Vec::with_capacity(count);
        for _ in 0..count {
            auth_methods.push(Socks5AuthMethod::new(src.get_u8())?);
        }
        Ok(Some(Socks5InitialRequest::new(auth_methods)))
    }
}

//@@ octo-squirrel/src/protocol/socks5/codec.rs:66-66  struct Socks5CommandRequestDecoder  sha=d53c7fcfd58b0c29
pub struct Socks5CommandRequestDecoder;

//@@ octo-squirrel/src/protocol/socks5/codec.rs:68-86  impl Decoder for Socks5CommandRequestDecoder  sha=0cf4f3ed562e5442
impl Socks5CommandRequestDecoder {

    fn decode(&mut self, src: &mut BytesMut) -> Result<Option<Socks5CommandRequest>> {
        if src.remaining() < 5 || src.remaining() < 3 + address__try_decode_at(src, 3)? {
            return Ok(None);
        }
        let version = src.get_u8();
        if VERSION != version {
            return Err(verif_err());
        }
        let command_type = Socks5CommandType::new(src.get_u8())?;
        src.advance(1); // Reserved
        let addr = address__decode(src)?;
        Ok(Some(Socks5CommandRequest::new(command_type, addr)))
    }
}

//@@ octo-squirrel/src/protocol/socks5/codec.rs:88-88  struct Socks5InitialResponseDecoder  sha=c052d73bb6a96e4f
pub struct Socks5InitialResponseDecoder;

//@@ octo-squirrel/src/protocol/socks5/codec.rs:90-105  impl Decoder for Socks5InitialResponseDecoder  sha=11560866b116d94f
impl Socks5InitialResponseDecoder {

    fn decode(&mut self, src: &mut BytesMut) -> Result<Option<Socks5InitialResponse>, anyhow::Error> {
        if src.remaining() < 2 {
            return Ok(None);
        }
        let version = src.get_u8();
        if VERSION != version {
            return Err(verif_err());
        }
        Ok(Some(Socks5InitialResponse::new(Socks5AuthMethod::new(src.get_u8())?)))
    }
}

//@@ octo-squirrel/src/protocol/socks5/codec.rs:107-107  struct Socks5CommandResponseDecoder  sha=70bbae6b1f6a9f5e
pub struct Socks5CommandResponseDecoder;

//@@ octo-squirrel/src/protocol/socks5/codec.rs:109-127  impl Decoder for Socks5CommandResponseDecoder  sha=856e5fee1ca728c7
impl Socks5CommandResponseDecoder {

    fn decode(&mut self, src: &mut BytesMut) -> Result<Option<Socks5CommandResponse>> {
        if src.remaining() < 5 || src.remaining() < 3 + address__try_decode_at(src, 3)? {
            return Ok(None);
        }
        let version = src.get_u8();
        if VERSION != version {
            return Err(verif_err());
        }
        let command_status = Socks5CommandStatus::try_from(src.get_u8())?;
        src.advance(1); // Reserved
        let addr = address__decode(src)?;
        Ok(Some(Socks5CommandResponse::new(command_status, addr)))
    }
}

//@@ octo-squirrel/src/protocol/socks5/codec.rs:129-129  struct Socks5UdpCodec  sha=0d7428243bf68631
pub struct Socks5UdpCodec;

//@@ octo-squirrel/src/protocol/socks5/codec.rs:131-150  impl Decoder for Socks5UdpCodec  sha=d32cc3de6bd24cdb
impl Socks5UdpCodec {

    fn decode(&mut self, src: &mut BytesMut) -> Result<Option<DatagramPacket>, anyhow::Error> {
        if src.is_empty() {
            return Ok(None);
        }
        if src.remaining() < 5 {
            return Err(verif_err());
        }
        if src[2] != 0 {
            return Err(verif_err());
        }
        src.advance(3);
        let recipient = address__decode(src)?;
        Ok(Some((src.split_off(0), recipient)))
    }
}

//@@ octo-squirrel/src/protocol/socks5/codec.rs:152-161  impl Encoder for Socks5UdpCodec  sha=cfd7b2faecfc9eac
impl Socks5UdpCodec {

    fn encode(&mut self, item: DatagramPacket, dst: &mut BytesMut) -> Result<(), anyhow::Error> {
        dst.extend_from_slice(&[0, 0, 0]); // Fragment
        address__encode(&item.1, dst);
        dst.extend_from_slice(&item.0);
        Ok(())
    }
}

//@@ octo-squirrel/src/protocol/address.rs:32-54  impl Ord for Address  sha=80080f606b927b85
impl Address {
    fn cmp(&self, other: &Self) -> std::cmp::Ordering {
        fn cmp_ip_addr(this: &[u8], other: IpAddr) -> std::cmp::Ordering {
            match other {
                IpAddr::V4(ref ipv4_addr) => this.cmp(&ipv4_addr.octets()),
                IpAddr::V6(ref ipv6_addr) => this.cmp(&ipv6_addr.octets()),
            }
        }

        match (self, other) {
            (Address::Domain(this_host, this_port), Address::Domain(other_host, other_port)) => {
                this_port.cmp(other_port).then_with(|| this_host.cmp(other_host))
            }
            (Address::Domain(this_host, this_port), Address::Socket(other_addr)) => {
                this_port.cmp(&other_addr.port()).then_with(|| cmp_ip_addr(this_host.as_bytes(), other_addr.ip())).then(std::cmp::Ordering::Less)
            }
            (Address::Socket(this_addr), Address::Domain(other_host, other_port)) => {
                this_addr.port().cmp(other_port).then_with(|| cmp_ip_addr(other_host.as_bytes(), this_addr.ip()).reverse()).then(std::cmp::Ordering::Greater)
            }
            (Address::Socket(this), Address::Socket(other)) => this.cmp(other),
        }
    }
}

//@@ octo-squirrel/src/codec.rs:31-31  struct BytesCodec  sha=e370c0c9b665f23f
pub struct BytesCodec;

//@@ octo-squirrel/src/codec.rs:33-45  impl Decoder for BytesCodec  sha=36c4625538f0f0a6
impl BytesCodec {

    fn decode(&mut self, buf: &mut BytesMut) -> Result<Option<BytesMut>> {
        if !buf.is_empty() {
            let len = buf.len();
            Ok(Some(buf.split_to(len)))
        } else {
            Ok(None)
        }
    }
}

//@@ octo-squirrel/src/codec.rs:47-54  impl Encoder for BytesCodec#0  sha=1bf9008e5cc78f08
impl BytesCodec {

    fn encode_bytes(&mut self, data: Bytes, buf: &mut BytesMut) -> Result<()> {
        buf.extend_from_slice(&data);
        Ok(())
    }
}

//@@ octo-squirrel/src/codec.rs:56-63  impl Encoder for BytesCodec#1  sha=60cbf13fa2a0a293
impl BytesCodec {

    fn encode(&mut self, data: BytesMut, buf: &mut BytesMut) -> Result<()> {
        buf.extend_from_slice(&data);
        Ok(())
    }
}

//@@ octo-squirrel/src/protocol/socks.rs:1-5  enum SocksVersion  sha=a233577e63cf4e43
pub enum SocksVersion {
    Socks4a = 4,
    Socks5 = 5,
    Unknown = 0xff,
}

//@@ octo-squirrel/src/protocol/socks.rs:7-17  impl From for SocksVersion  sha=f19247d01cc8c311
impl From<u8> for SocksVersion {
    fn from(value: u8) -> Self {
        if value == Self::Socks4a as u8 {
            return Self::Socks4a;
        }
        if value == Self::Socks5 as u8 {
            return Self::Socks5;
        }
        Self::Unknown
    }
}

//@@ octo-squirrel/src/protocol/socks5/codec.rs:20-20  struct Socks5ClientEncoder  sha=c335d30ec0286755
pub struct Socks5ClientEncoder;

//@@ octo-squirrel/src/protocol/socks5/codec.rs:31-31  struct Socks5ServerEncoder  sha=5e76f44477ba09ba
pub struct Socks5ServerEncoder;

//@@ octo-squirrel/src/protocol/socks5/handshake.rs:56-66  mod server / fn no_auth  sha=4fe980a4e475e985
fn s5srv__no_auth(stream: &mut TcpStream, response: Socks5CommandResponse, Tracked(vlog): Tracked<&mut S5Log>) -> Result<Socks5CommandRequest> {
        let (rh, wh) = stream.split();
        let mut reader = FramedRead::new(rh, Socks5InitialRequestDecoder);
        reader.next(Tracked(vlog)).ok_or_else(|| verif_err())??;
        let mut reader = FramedRead::new(reader.into_inner(), Socks5CommandRequestDecoder);
        let mut writer = FramedWrite::new(wh, Socks5ServerEncoder);
        writer.send(Box::new(Socks5InitialResponse::new(Socks5AuthMethod::NoAuth)), Tracked(vlog))?;
        let command_request = reader.next(Tracked(vlog)).ok_or_else(|| verif_err())??;
        writer.send(Box::new(response), Tracked(vlog))?;
        Ok(command_request)
    }

//@@ octo-squirrel/src/protocol/socks5/handshake.rs:22-36  mod client / fn no_auth  sha=b4a5e80395cc2c5f
fn s5cli__no_auth(command_type: Socks5CommandType, proxy_addr: SocketAddr, dst_addr: SocketAddr, Tracked(vlog): Tracked<&mut S5Log>) -> Result<Socks5CommandResponse> {
        let mut stream = TcpStream::connect(proxy_addr)?;
        let (rh, wh) = stream.split();
        let mut writer = FramedWrite::new(wh, Socks5ClientEncoder);
        writer.send(Box::new(Socks5InitialRequest::new(vec![Socks5AuthMethod::NoAuth])), Tracked(vlog))?;
        let mut reader = FramedRead::new(rh, Socks5InitialResponseDecoder);
        let initial_response = reader.next(Tracked(vlog)).ok_or_else(|| verif_err())??;
        if initial_response.auth_method != Socks5AuthMethod::NoAuth {
            return Err(verif_err());
        }
        writer.send(Box::new(Socks5CommandRequest::new(command_type, dst_addr.into())), Tracked(vlog))?;
        let mut reader = FramedRead::new(reader.into_inner(), Socks5CommandResponseDecoder);
        let command_response = reader.next(Tracked(vlog)).ok_or_else(|| verif_err())??;
        Ok(command_response)
    }
