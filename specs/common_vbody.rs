// ---- specs/common_vbody.rs : VMess AEAD body framing (V2Fly "VMess AEAD" body format) as specification functions ----
// A body stream is a sequence of chunks  [ size field | AEAD(payload) | padding ]:
//   size field : 2 bytes big-endian L (plain), L xor next SHAKE word (ChunkMasking), or AEAD(be16(L - 16)) = 18 bytes (AuthenticatedLength)
//   L          : |payload| + 16 + P, P = next SHAKE word mod 64 with GlobalPadding, else 0; the padding word is drawn before the mask word
//   AEAD nonce : be16(count) ++ iv[2..12], count = 0,1,2,.. per cipher (body cipher and length cipher count separately)
pub enum VSt { Padding, Length(nat), Body(nat, nat) }
/// static parameters of one direction of one connection
pub struct VCfg {
    pub alg: int, pub key: Seq<u8>,        // body cipher
    pub mode: int,                          // size field: 0 plain, 1 Shake-masked, 2 authenticated
    pub lalg: int, pub lkey: Seq<u8>,      // length cipher (mode 2)
    pub pad: bool, pub seed: Seq<u8>,      // GlobalPadding; seed of the SHAKE128 stream
    pub biv: Seq<u8>, pub liv: Seq<u8>,    // bytes 2..12 of the body / length nonce buffers
}
/// counters that advance along the stream
pub struct VDyn { pub sp: nat, pub bc: u16, pub lc: u16 }
pub struct VP { pub out: Seq<u8>, pub st: VSt, pub d: VDyn, pub rest: Seq<u8> }
pub struct VPk { pub pkt: Option<Seq<u8>>, pub st: VSt, pub d: VDyn, pub rest: Seq<u8> }

pub open spec fn add1(c: u16) -> u16 { if c == 0xffff { 0u16 } else { (c + 1) as u16 } }
pub open spec fn vnonce(c: u16, ivtail: Seq<u8>) -> Seq<u8> { be_bytes(c as nat, 2) + ivtail }
pub open spec fn iv_tail(iv: Seq<u8>) -> Seq<u8> { iv.subrange(2, 12) }
pub open spec fn vsize_bytes(c: VCfg) -> nat { if c.mode == 2 { 18 } else { 2 } }
pub open spec fn vcfg_wf(c: VCfg) -> bool { 0 <= c.mode <= 2 && c.biv.len() == 10 && c.liv.len() == 10 }
pub open spec fn vst_rank(st: VSt) -> int { match st { VSt::Padding => 2, VSt::Length(_) => 1, VSt::Body(_, _) => 0 } }
pub open spec fn vst_wf(st: VSt) -> bool { match st { VSt::Padding => true, VSt::Length(p) => p < 64, VSt::Body(p, l) => p < 64 && l <= 0xffff + 16 } }

/// the padding length of the next chunk and the counters after drawing it
pub open spec fn vpad(c: VCfg, d: VDyn) -> (nat, VDyn) {
    if c.pad { ((shake_u16(c.seed, d.sp) % 64) as nat, VDyn { sp: d.sp + 1, ..d }) } else { (0, d) }
}
/// reading a size field
pub open spec fn vdecode_len(c: VCfg, d: VDyn, b: Seq<u8>) -> Option<(nat, VDyn)> {
    if c.mode == 0 { Some((be_val(b), d)) }
    else if c.mode == 1 { Some(((shake_u16(c.seed, d.sp) ^ (be_val(b) as u16)) as nat, VDyn { sp: d.sp + 1, ..d })) }
    else { match aead_open(c.lalg, c.lkey, vnonce(d.lc, c.liv), Seq::empty(), b) {
        None => None,
        Some(p) => Some((be_val(p.take(2)) + 16, VDyn { lc: add1(d.lc), ..d })),
    } }
}
/// writing a size field for total length `size` (= payload + tag + padding)
pub open spec fn vencode_len(c: VCfg, d: VDyn, size: nat) -> (Seq<u8>, VDyn) {
    if c.mode == 0 { (be_bytes((size as u16) as nat, 2), d) }
    else if c.mode == 1 { (be_bytes((shake_u16(c.seed, d.sp) ^ (size as u16)) as nat, 2), VDyn { sp: d.sp + 1, ..d }) }
    else { (aead_seal(c.lalg, c.lkey, vnonce(d.lc, c.liv), Seq::empty(), be_bytes(((size - 16) as u16) as nat, 2)), VDyn { lc: add1(d.lc), ..d }) }
}

pub open spec fn vprepend(a: Seq<u8>, p: Option<VP>) -> Option<VP> {
    match p { None => None, Some(q) => Some(VP { out: a + q.out, ..q }) }
}
/// maximal-munch parse of a body stream: every complete chunk is opened and delivered; an incomplete one is left in `rest`
pub open spec fn vparse(c: VCfg, st: VSt, d: VDyn, s: Seq<u8>) -> Option<VP>
    decreases s.len(), vst_rank(st)
{
    match st {
        VSt::Padding => { let (p, d1) = vpad(c, d); vparse(c, VSt::Length(p), d1, s) }
        VSt::Length(p) => {
            let sb = vsize_bytes(c) as int;
            if s.len() < sb { Some(VP { out: Seq::empty(), st, d, rest: s }) }
            else { match vdecode_len(c, d, s.take(sb)) {
                None => None,
                Some((len, d1)) => vparse(c, VSt::Body(p, len), d1, s.skip(sb)),
            } }
        }
        VSt::Body(p, len) => {
            if len < p + 16 { None }
            else if s.len() < len { Some(VP { out: Seq::empty(), st, d, rest: s }) }
            else { match aead_open(c.alg, c.key, vnonce(d.bc, c.biv), Seq::empty(), s.take(len - p)) {
                None => None,
                Some(pt) => vprepend(pt, vparse(c, VSt::Padding, VDyn { bc: add1(d.bc), ..d }, s.skip(len as int))),
            } }
        }
    }
}
/// the same for datagram mode: stop after one chunk
pub open spec fn vparse_pkt(c: VCfg, st: VSt, d: VDyn, s: Seq<u8>) -> Option<VPk>
    decreases vst_rank(st)
{
    match st {
        VSt::Padding => { let (p, d1) = vpad(c, d); vparse_pkt(c, VSt::Length(p), d1, s) }
        VSt::Length(p) => {
            let sb = vsize_bytes(c) as int;
            if s.len() < sb { Some(VPk { pkt: None, st, d, rest: s }) }
            else { match vdecode_len(c, d, s.take(sb)) {
                None => None,
                Some((len, d1)) => vparse_pkt(c, VSt::Body(p, len), d1, s.skip(sb)),
            } }
        }
        VSt::Body(p, len) => {
            if len < p + 16 { None }
            else if s.len() < len { Some(VPk { pkt: None, st, d, rest: s }) }
            else { match aead_open(c.alg, c.key, vnonce(d.bc, c.biv), Seq::empty(), s.take(len - p)) {
                None => None,
                Some(pt) => Some(VPk { pkt: Some(pt), st: VSt::Padding, d: VDyn { bc: add1(d.bc), ..d }, rest: s.skip(len as int) }),
            } }
        }
    }
}

/// one chunk on the wire carrying `payload` (sender side); `w` is what was appended
pub open spec fn vchunk_rel(c: VCfg, d: VDyn, payload: Seq<u8>, w: Seq<u8>) -> bool {
    let (p, d1) = vpad(c, d);
    let (szb, d2) = vencode_len(c, d1, payload.len() + p + 16);
    let sb = vsize_bytes(c) as int;
    &&& w.len() == sb + payload.len() + 16 + p
    &&& w.take(sb) == szb
    &&& w.subrange(sb, sb + payload.len() + 16) == aead_seal(c.alg, c.key, vnonce(d2.bc, c.biv), Seq::empty(), payload)
}
pub open spec fn vchunk_dyn(c: VCfg, d: VDyn, paylen: nat) -> VDyn {
    let (p, d1) = vpad(c, d);
    let (szb, d2) = vencode_len(c, d1, paylen + p + 16);
    VDyn { bc: add1(d2.bc), ..d2 }
}
/// how many payload bytes the next chunk of a stream takes (limit 2048 for size field + ciphertext + padding)
pub open spec fn vchunk_take(c: VCfg, d: VDyn, avail: nat) -> nat {
    let cap = (2048 - 16 - vsize_bytes(c) - vpad(c, d).0) as nat;
    if avail < cap { avail } else { cap }
}
/// `w` is a valid encoding of the stream payload `src` starting from counters `d`
pub open spec fn vwire_rel(c: VCfg, d: VDyn, src: Seq<u8>, w: Seq<u8>) -> bool
    decreases src.len()
{
    if src.len() == 0 { w.len() == 0 } else {
        let n = vchunk_take(c, d, src.len());
        let cl = (vsize_bytes(c) + n + 16 + vpad(c, d).0) as int;
        &&& n > 0
        &&& w.len() >= cl
        &&& vchunk_rel(c, d, src.take(n as int), w.take(cl))
        &&& vwire_rel(c, vchunk_dyn(c, d, n), src.skip(n as int), w.skip(cl))
    }
}
pub open spec fn vdyn_after(c: VCfg, d: VDyn, src: Seq<u8>) -> VDyn
    decreases src.len()
{
    if src.len() == 0 { d } else {
        let n = vchunk_take(c, d, src.len());
        if n == 0 { d } else { vdyn_after(c, vchunk_dyn(c, d, n), src.skip(n as int)) }
    }
}

pub mod vbv {
use vstd::prelude::*;
pub proof fn lemma_xor_cancel(m: u16, x: u16) by (bit_vector)
    ensures m ^ (m ^ x) == x {}
pub proof fn lemma_mod64(x: u16) by (bit_vector)
    ensures x % 64 < 64 {}
}
pub proof fn lemma_vprepend_empty(p: Option<VP>)
    ensures vprepend(Seq::empty(), p) == p
{ if p is Some { assert(Seq::<u8>::empty() + p->0.out =~= p->0.out); } }
pub proof fn lemma_vchunk_take_pos(c: VCfg, d: VDyn, avail: nat)
    requires avail > 0
    ensures vchunk_take(c, d, avail) > 0
{ }
pub proof fn lemma_vchunk_take_all(c: VCfg, d: VDyn, n: nat)
    requires n <= 2048 - 16 - vsize_bytes(c) - 63
    ensures vchunk_take(c, d, n) == n
{ }
pub proof fn lemma_vchunk_len(c: VCfg, d: VDyn, payload: Seq<u8>, w: Seq<u8>)
    requires vchunk_rel(c, d, payload, w)
    ensures w.len() == vsize_bytes(c) + payload.len() + 16 + vpad(c, d).0
{ }
/// V2Fly VMess AEAD: the length cipher's key is KDF16(request body key, "auth_len")
pub open spec fn lbl_auth_len() -> Seq<u8> { seq![0x61u8, 0x75u8, 0x74u8, 0x68u8, 0x5fu8, 0x6cu8, 0x65u8, 0x6eu8] }
