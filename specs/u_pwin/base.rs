

//@@ octo-squirrel/src/manager/packet_window.rs:9-9  const BLOCK_BIT_LOG  sha=81c72e81da244832
// SPDX-License-Identifier: MIT
//
// Copyright (C) 2017-2023 WireGuard LLC. All Rights Reserved.

// ! Packet window
// !
// ! https://github.com/WireGuard/wireguard-go/blob/master/replay/replay.go

const BLOCK_BIT_LOG: u64 = 6;

//@@ octo-squirrel/src/manager/packet_window.rs:10-10  const BLOCK_BITS  sha=359051a76c40451f
// 1<<6 == 64 bits
const BLOCK_BITS: u64 = 64;

//@@ octo-squirrel/src/manager/packet_window.rs:11-11  const RING_BLOCKS  sha=30a9262fbdbce066
// must be power of 2
const RING_BLOCKS: u64 = 128;

//@@ octo-squirrel/src/manager/packet_window.rs:12-12  const WINDOW_SIZE  sha=ccd1a7228950fb97
// must be power of 2
const WINDOW_SIZE: u64 = 8128;

//@@ octo-squirrel/src/manager/packet_window.rs:13-13  const BLOCK_MASK  sha=13ea65d8ac83f1c0
const BLOCK_MASK: u64 = 127;

//@@ octo-squirrel/src/manager/packet_window.rs:14-14  const BIT_MASK  sha=de77e44d4c0469fe
const BIT_MASK: u64 = 63;

//@@ octo-squirrel/src/manager/packet_window.rs:17-21  struct PacketWindowFilter  sha=14e3705de7718919
/// Packet window for checking `packet_id` is in the sliding window
#[derive(Clone)]
struct PacketWindowFilter {
    last_packet_id: u64,
    packet_ring: [u64; RING_BLOCKS as usize],
}

//@@ octo-squirrel/src/manager/packet_window.rs:23-27  impl Default for PacketWindowFilter  sha=6656fdac9d11bd5a
impl PacketWindowFilter {
    fn default() -> PacketWindowFilter {
        PacketWindowFilter::new()
    }
}

//@@ octo-squirrel/src/manager/packet_window.rs:29-77  impl PacketWindowFilter  sha=53b4fa63fa650a76
impl PacketWindowFilter {
    /// Create an empty filter
    fn new() -> PacketWindowFilter {
        PacketWindowFilter { last_packet_id: 0, packet_ring: [0u64; RING_BLOCKS as usize] }
    }

    /// Reset filter to the initial state
    fn reset(&mut self) {
        self.last_packet_id = 0;
        self.packet_ring[0] = 0;
    }

    /// Check and remember the `packet_id`
    ///
    /// Overlimit `packet_id >= limit` are always rejected
    fn validate_packet_id(&mut self, packet_id: u64, limit: u64) -> bool {
        if packet_id >= limit {
            return false;
        }

        let mut index_block = packet_id >> BLOCK_BIT_LOG;
        if packet_id > self.last_packet_id {
            // Move the window forward

            let current = self.last_packet_id >> BLOCK_BIT_LOG;
            let mut diff = index_block - current;
            if diff > RING_BLOCKS {
                // Clear the whole filter
                diff = RING_BLOCKS;
            }
            for d in 1..=diff {
                let i = current + d;
                self.packet_ring[(i & BLOCK_MASK) as usize] = 0;
            }
            self.last_packet_id = packet_id;
        } else if self.last_packet_id - packet_id > WINDOW_SIZE {
            // Behind the current window
            return false;
        }

        // Check and set bit
        index_block &= BLOCK_MASK;
        let index_bit = packet_id & BIT_MASK;
        let old = self.packet_ring[index_block as usize];
        let new = old | (1 << index_bit);
        self.packet_ring[index_block as usize] = new;
        old != new
    }
}
