// ---- specs/common_pwin.rs : bit-vector facts used by the packet window proof ----
pub mod bv {
use vstd::prelude::*;
pub broadcast proof fn lemma_shr6(x: u64) by (bit_vector)
    ensures #[trigger] (x >> 6) == x / 64 {}
pub broadcast proof fn lemma_and127(x: u64) by (bit_vector)
    ensures #[trigger] (x & 127) == x % 128 {}
pub broadcast proof fn lemma_and63(x: u64) by (bit_vector)
    ensures #[trigger] (x & 63) == x % 64 {}
}
pub mod bv2 {
use vstd::prelude::*;
pub open spec fn setbit(w: u64, b: u64) -> u64 { w | (1u64 << b) }
pub open spec fn bit(w: u64, c: u64) -> bool { (w >> c) & 1 == 1 }
pub proof fn lemma_bit_zero(c: u64) by (bit_vector)
    requires c < 64
    ensures !bit(0u64, c) {}
pub proof fn lemma_bit_or(w: u64, b: u64, c: u64) by (bit_vector)
    requires b < 64, c < 64
    ensures bit(setbit(w, b), c) == (bit(w, c) || c == b) {}
pub proof fn lemma_or_changed(w: u64, b: u64) by (bit_vector)
    requires b < 64
    ensures (w != setbit(w, b)) == !bit(w, b) {}
}
